package main

// C09 — tokens partition the input with exact positions and longest-match operators.
// Correspondence: lexer.NewLexer(ops).Lex(src) against the Coq lexer model (kind, lexeme, idx, end, line, col of every
// token, or "syntax error").  Direct predicates, in the property's own words: source order / no overlap / gaps are
// white space / index range, line and column reproduce the lexeme / longest registered symbolic operator /
// identifier-like operators and true/false only as whole words / '.' and '?' never split out of a longer operator /
// each literal form is one token.

import (
	"fmt"
	"strings"
	"unicode"

	"github.com/goghcrow/yae/parser/lexer"
	"github.com/goghcrow/yae/parser/oper"
	"github.com/goghcrow/yae/parser/token"
)

func init() { props["C09"] = runC09 }

type opSet struct {
	name     string
	ops      []oper.Operator
	sx       Sx
	lx       interface{ Lex(string) []*token.Token }
	symbolic map[string]bool
	identOps map[string]bool
}

func newOpSet(name string, extra []oper.Operator, builtin bool) *opSet {
	var ops []oper.Operator
	if builtin {
		ops = append(ops, oper.BuiltIn()...)
	}
	ops = append(ops, extra...)
	s := &opSet{name: name, ops: ops, symbolic: map[string]bool{}, identOps: map[string]bool{}}
	xs := make([]Sx, len(ops))
	for i, o := range ops {
		xs[i] = Runes(string(o.Kind))
		if oper.IsIdentOp(string(o.Kind)) {
			s.identOps[string(o.Kind)] = true
		} else {
			s.symbolic[string(o.Kind)] = true
		}
	}
	s.sx = LS(xs)
	// NewLexer sorts its argument in place: hand it a copy so that the registration order on the wire stays as given
	s.lx = lexer.NewLexer(append([]oper.Operator{}, ops...))
	return s
}

// withFront: the same set with further operators registered BEFORE everything else (the facade puts user operators first)
func (s *opSet) withFront(front []oper.Operator) *opSet {
	ops := append(append([]oper.Operator{}, front...), s.ops...)
	return newOpSet(s.name, ops, false)
}

func (s *opSet) lex(src string) (toks []*token.Token, ok bool) {
	defer func() {
		if r := recover(); r != nil {
			toks, ok = nil, false
		}
	}()
	return s.lx.Lex(src), true
}

func tokSx(t *token.Token) Sx {
	return L(Runes(string(t.Kind)), Runes(t.Lexeme), Int(t.Idx), Int(t.IdxEnd), Int(t.Line), Int(t.Col))
}

func isIdentRune(r rune) bool { return r == '_' || unicode.IsLetter(r) || unicode.IsDigit(r) }

// literal grammars of the property ("each numeric, string and time literal form is read as a single token"):
// written independently of the implementation's regular expressions.
func wholeLiteralKind(s string) string {
	isDigits := func(x string) bool {
		if x == "" {
			return false
		}
		for _, c := range x {
			if c < '0' || c > '9' {
				return false
			}
		}
		return true
	}
	intPart := func(x string) bool { return x == "0" || (isDigits(x) && x[0] != '0') }
	// decimal with optional single fraction and optional single exponent
	num := func(x string) bool {
		mant, exp := x, ""
		if i := strings.IndexAny(x, "eE"); i >= 0 {
			mant, exp = x[:i], x[i+1:]
			if strings.HasPrefix(exp, "+") || strings.HasPrefix(exp, "-") {
				exp = exp[1:]
			}
			if !isDigits(exp) {
				return false
			}
		}
		if i := strings.Index(mant, "."); i >= 0 {
			return intPart(mant[:i]) && isDigits(mant[i+1:])
		}
		return intPart(mant)
	}
	radix := func(x, pre, digits string) bool {
		if !strings.HasPrefix(x, pre) || len(x) == len(pre) {
			return false
		}
		d := x[len(pre):]
		if d == "0" {
			return true
		}
		if d[0] == '0' {
			return false
		}
		for _, c := range d {
			if !strings.ContainsRune(digits, c) {
				return false
			}
		}
		return true
	}
	switch {
	case num(s), radix(s, "0x", "0123456789abcdefABCDEF"), radix(s, "0b", "01"), radix(s, "0o", "01234567"):
		return token.NUM
	case len(s) >= 2 && s[0] == '`' && s[len(s)-1] == '`' && !strings.Contains(s[1:len(s)-1], "`"):
		return token.STR
	case len(s) >= 2 && s[0] == '\'' && s[len(s)-1] == '\'' && !strings.ContainsAny(s[1:len(s)-1], "`\"'"):
		return token.TIME
	}
	return ""
}

func c09One(r *Run, s *opSet, src string) {
	toks, ok := s.lex(src)
	req := L(A("lex"), s.sx, Runes(src))
	if !ok {
		r.Case(req, A("err"))
		r.Count("lex:err")
		// a string that is one whole literal must lex
		if k := wholeLiteralKind(src); k != "" {
			r.Violate("literal-rejected", fmt.Sprintf("%q ops=%s", src, s.name), "a "+k+" literal is a syntax error")
		}
		return
	}
	xs := make([]Sx, len(toks))
	for i, t := range toks {
		xs[i] = tokSx(t)
	}
	r.Case(req, L(A("ok"), LS(xs)))
	r.Count("lex:ok")
	if len(toks) > 1 {
		r.Nontrivial(src + "|" + s.name)
	}
	in := fmt.Sprintf("%q ops=%s", src, s.name)
	rs := []rune(src)
	p, line, col := 0, 0, 0
	adv := func(to int) {
		for p < to {
			if rs[p] == '\n' {
				line++
				col = 0
			} else {
				col++
			}
			p++
		}
	}
	for _, t := range toks {
		r.Count("tok:" + kindClass(s, string(t.Kind)))
		if t.Idx < p {
			r.Violate("overlap", in, fmt.Sprintf("token %q starts at %d before %d", t.Lexeme, t.Idx, p))
			return
		}
		for j := p; j < t.Idx && j < len(rs); j++ {
			if !unicode.IsSpace(rs[j]) {
				r.Violate("gap-not-space", in, fmt.Sprintf("rune %d outside every token", j))
			}
		}
		if t.Idx > len(rs) {
			r.Violate("span", in, "token beyond input")
			return
		}
		adv(t.Idx)
		if t.Line != line || t.Col != col {
			r.Violate("line-col", in, fmt.Sprintf("token %q at idx %d has line %d col %d, expected %d %d", t.Lexeme, t.Idx, t.Line, t.Col, line, col))
		}
		if t.IdxEnd <= t.Idx || t.IdxEnd > len(rs) || string(rs[t.Idx:t.IdxEnd]) != t.Lexeme {
			r.Violate("span", in, fmt.Sprintf("range %d-%d does not reproduce lexeme %q", t.Idx, t.IdxEnd, t.Lexeme))
			return
		}
		adv(t.IdxEnd)
		k := string(t.Kind)
		if s.symbolic[k] || k == "." || k == "?" || k == ":" {
			for o := range s.symbolic {
				n := len([]rune(o))
				if len([]rune(o)) > len([]rune(k)) && len(rs)-t.Idx >= n && string(rs[t.Idx:t.Idx+n]) == o {
					kind := "not-longest"
					if strings.HasPrefix(o, ":") || strings.HasPrefix(o, ",") {
						kind = "not-longest-punct-prefix" // an operator starting with fixed punctuation
					}
					r.Violate(kind, in, fmt.Sprintf("token %q although the longer registered operator %q matches here", k, o))
				}
			}
		}
		if (k == "." || k == "?") && t.IdxEnd < len(rs) && strings.ContainsRune(":!#$%^&*+./<=>?@\\ˆ|~-", rs[t.IdxEnd]) {
			r.Violate("prim-split", in, fmt.Sprintf("%q split out of a longer operator run", k))
		}
		if s.identOps[k] || k == "true" || k == "false" {
			kw := "ident-op"
			if k == "true" || k == "false" {
				kw = "bool-literal"
			}
			if t.IdxEnd < len(rs) && isIdentRune(rs[t.IdxEnd]) {
				r.Violate("not-whole-word:"+kw, in, fmt.Sprintf("%q immediately followed by %q", k, string(rs[t.IdxEnd])))
			}
		}
	}
	for j := p; j < len(rs); j++ {
		if !unicode.IsSpace(rs[j]) {
			r.Violate("gap-not-space", in, "trailing rune outside every token")
		}
	}
	// a whole literal is exactly one token of its kind
	if k := wholeLiteralKind(src); k != "" {
		if len(toks) != 1 || string(toks[0].Kind) != k {
			r.Violate("literal-split", in, fmt.Sprintf("one %s literal read as %d tokens", k, len(toks)))
		}
	}
	// inside an identifier token no keyword may start: guaranteed by construction (one token), nothing to check
}

func kindClass(s *opSet, k string) string {
	switch {
	case s.symbolic[k]:
		return "symop"
	case s.identOps[k]:
		return "identop"
	case strings.HasPrefix(k, "<"):
		return k
	default:
		return "punct/bool"
	}
}

func runC09(r *Run) {
	sets := []*opSet{
		newOpSet("builtin", nil, true),
		newOpSet("builtin+<=>,.+,=>>,is,isnt,né", []oper.Operator{
			{Kind: "<=>", BP: 6, Fixity: oper.INFIX_N}, {Kind: ".+", BP: 7, Fixity: oper.INFIX_L},
			{Kind: "=>>", BP: 3, Fixity: oper.INFIX_R}, {Kind: "is", BP: 5, Fixity: oper.INFIX_N},
			{Kind: "isnt", BP: 5, Fixity: oper.INFIX_N}, {Kind: "né", BP: 5, Fixity: oper.INFIX_N}}, true),
		newOpSet("only:+,++,+++,!,~>,in,ˆ", []oper.Operator{
			{Kind: "+", BP: 7, Fixity: oper.INFIX_L}, {Kind: "+++", BP: 7, Fixity: oper.INFIX_L},
			{Kind: "++", BP: 7, Fixity: oper.POSTFIX}, {Kind: "!", BP: 10, Fixity: oper.PREFIX},
			{Kind: "~>", BP: 2, Fixity: oper.INFIX_R}, {Kind: "in", BP: 5, Fixity: oper.INFIX_N},
			{Kind: "ˆ", BP: 9, Fixity: oper.INFIX_R}}, false),
		newOpSet("builtin+::,:=", []oper.Operator{
			{Kind: "::", BP: 6, Fixity: oper.INFIX_R}, {Kind: ":=", BP: 1, Fixity: oper.INFIX_R}}, true),
		// registration orders that the sort has to repair: shorter symbolic, identifier-like, longer symbolic with the
		// shorter one as prefix; three- and four-character operators extending two-character ones registered earlier
		newOpSet("only:<,and,<=,=,*,not,**,<=>,xor,<==>,&,&&,&&&", []oper.Operator{
			{Kind: "<", BP: 6, Fixity: oper.INFIX_N}, {Kind: "and", BP: 3, Fixity: oper.INFIX_L}, {Kind: "<=", BP: 6, Fixity: oper.INFIX_N},
			{Kind: "=", BP: 2, Fixity: oper.INFIX_R}, {Kind: "*", BP: 8, Fixity: oper.INFIX_L}, {Kind: "not", BP: 10, Fixity: oper.PREFIX},
			{Kind: "**", BP: 9, Fixity: oper.INFIX_R}, {Kind: "<=>", BP: 6, Fixity: oper.INFIX_N}, {Kind: "xor", BP: 3, Fixity: oper.INFIX_L},
			{Kind: "<==>", BP: 2, Fixity: oper.INFIX_N}, {Kind: "&", BP: 5, Fixity: oper.INFIX_L}, {Kind: "&&", BP: 4, Fixity: oper.INFIX_L},
			{Kind: "&&&", BP: 4, Fixity: oper.INFIX_L}}, false),
		newOpSet("&,|,xor+builtin+!==,===,||>", []oper.Operator{
			{Kind: "!==", BP: 6, Fixity: oper.INFIX_N}, {Kind: "===", BP: 6, Fixity: oper.INFIX_N}, {Kind: "||>", BP: 2, Fixity: oper.INFIX_L}}, true).withFront(
			[]oper.Operator{{Kind: "&", BP: 5, Fixity: oper.INFIX_L}, {Kind: "|", BP: 5, Fixity: oper.INFIX_L}, {Kind: "xor", BP: 3, Fixity: oper.INFIX_L}}),
	}
	// corpus first
	corpus := []string{"truex", "trueand false", "1or 2", "a.b", "a .+ b", "a.+b", "x?.y", "1.2.3", "0x0F", "0123", "1e5e6", "1.e3", "\"a\\u00e9\\n\"", "\"bad\\q\"",
		"`raw\nline`", "'2020-01-01 00:00:00'", "a\n  b\r\n\tc", "né x", "x y", "　a", "a<=>b", "a<==b", "a=>>b", "x+++y", "x++++y", "isnt_", "is nt", "a::b", "[1:2]", "x := 1",
		"0b102", "0o78", "0xg", "1.5e+", "1.5e+3.2", "1e05", "1.5e-03", "6.02E+023", "1e00", "1e007", "2e-0", "1e+00x", "1.0e010 + 1", "1e0", "1e10", "0e0", "1e01e02", "''", "``", "\"\"", "_", "é1", "١", "a?b:c", "a ? b : c", "c?-1:2", "[1,2][0]", "{a:1}.a", "f(x,y)", "ˆ", "aˆb",
		"'a\nb' x", "'\n\n' + y\nz", "x '2020\n01' y", "'é\n' é 1", "`r\n`'t\n'\"s\n\" q", "'\r\n' a\n b"}
	for _, c := range corpus {
		for _, s := range sets {
			c09One(r, s, c)
		}
		r.Sample(fmt.Sprintf("%q", c))
	}
	// exhaustive over a mixed alphabet per operator set
	for _, c := range []string{"a<=b", "a<=>b", "a<==>b", "a<b", "a**b", "a*b", "a&&b", "a&&&b", "a&b", "a!==b", "a===b", "a||>b", "a||b", "a|b", "a!=b", "a==b", "x and y", "not x", "a xor b",
		"a<= >b", "a<==b", "a***b", "a&&&&b", "a<=>=b"} {
		for _, s := range sets {
			c09One(r, s, c)
		}
	}
	alphabets := [][]rune{
		{'t', 'r', 'u', 'e', 'o', '1', '.', '<', '=', '!', ' ', '\n', '"', 'é'},
		{'i', 's', 'n', 't', '.', '+', '=', '>', '<', '0', 'x', ' ', '\'', '_', '\n'},
		{'+', '!', '~', '>', 'i', 'n', 'ˆ', '1', 'e', '.', '-', ' ', '`', '\\', '0'},
		{':', '=', 'a', '1', ' ', '?', '[', ']'},
		{'<', '=', '>', '*', '&', 'a', 'n', 'd', ' ', '1'},
		{'!', '=', '|', '>', '&', 'x', 'o', 'r', ' ', '.'},
	}
	depth := 4
	if r.Tier == "thorough" {
		depth = 5
	}
	for si, s := range sets {
		alpha := alphabets[si]
		var rec func(cur []rune, d int)
		rec = func(cur []rune, d int) {
			if len(cur) > 0 {
				c09One(r, s, string(cur))
			}
			if d == 0 {
				return
			}
			for _, c := range alpha {
				rec(append(append([]rune{}, cur...), c), d-1)
			}
		}
		rec(nil, depth)
		r.Notes = append(r.Notes, fmt.Sprintf("exhaustive: all strings of length <= %d over %q with operator set %s", depth, string(alpha), s.name))
	}
	// random longer strings built from lexical fragments (mostly valid) and raw noise (malformed stream)
	frags := []string{"true", "false", "and", "or", "not", "x", "foo_1", "é", "1", "0", "12.5", "1e3", "0x1f", "0b10", "0o7", "\"s\"", "\"a\\nb\"", "`r`", "'2020-01-01'", "'a\nb'", "`r\n\n`",
		"+", "-", "*", "/", "%", "^", "<", "<=", ">", ">=", "==", "!=", "!", "&&", "||", "?", ":", ".", ",", "(", ")", "[", "]", "{", "}", " ", "  ", "\n", "\t",
		"<=>", ".+", "=>>", "is", "isnt", "né", "+++", "++", "~>", "in", "ˆ", "\\", "@", "#", "$", "\"", "'", "`", "0x", "1.", ".5", "e5", "1e", " ", " "}
	n := 4000
	if r.Tier == "thorough" {
		n = 150000
	}
	for i := 0; i < n; i++ {
		var b strings.Builder
		k := 1 + r.Rng.Intn(12)
		for j := 0; j < k; j++ {
			if r.Rng.Intn(10) == 0 {
				b.WriteRune(rune(32 + r.Rng.Intn(95)))
			} else {
				b.WriteString(frags[r.Rng.Intn(len(frags))])
			}
		}
		c09One(r, sets[r.Rng.Intn(len(sets))], b.String())
	}
}
