package main

// C10 — syntactic sugar means exactly the call it stands for.
// Correspondence: trans.Desugar on parsed trees against the Coq model (whole tree, positions and debug columns).
// Direct predicates: core forms only after desugaring; desugaring twice changes nothing; the input tree is left
// untouched; sugared and explicit renderings evaluate alike (c ? a : b / if(c,a,b), o.f(x) / f(o,x), (e) / e).

import (
	"fmt"
	"github.com/goghcrow/yae/conv"
	"github.com/goghcrow/yae/interp"
	"reflect"
	"strconv"
	"strings"

	yae "github.com/goghcrow/yae"
	"github.com/goghcrow/yae/parser/ast"
	"github.com/goghcrow/yae/parser/oper"
	"github.com/goghcrow/yae/trans"
)

func init() { props["C10"] = runC10 }

func coreOnly(e ast.Expr) bool {
	ok := true
	walkExpr(e, func(n ast.Expr) {
		switch n.(type) {
		case *ast.UnaryExpr, *ast.BinaryExpr, *ast.TenaryExpr, *ast.GroupExpr:
			ok = false
		}
	})
	return ok
}

func hasMemberCallee(e ast.Expr) bool {
	found := false
	walkExpr(e, func(n ast.Expr) {
		if c, ok := n.(*ast.CallExpr); ok {
			if _, ok := c.Callee.(*ast.MemberExpr); ok {
				found = true
			}
		}
	})
	return found
}

func safeDesugar(e ast.Expr) (d ast.Expr, ok bool) {
	defer func() {
		if r := recover(); r != nil {
			d, ok = nil, false
		}
	}()
	return trans.Desugar(e), true
}

func c10Tree(r *Run, what string, e ast.Expr) {
	before := ExprSx(e)
	d, ok := safeDesugar(e)
	if !ok {
		r.Case(L(A("desugar"), before), A("err"))
		r.Count("desugar:panic")
		return
	}
	r.Case(L(A("desugar"), before), L(A("ok"), ExprSx(d)))
	r.Count("desugar:ok")
	r.Nontrivial(string(before))
	if ExprSx(e) != before {
		r.Violate("input-mutated", what, "Desugar changed its argument")
	}
	if d1b, ok := safeDesugar(e); !ok || ExprSx(d1b) != ExprSx(d) {
		r.Violate("second-desugaring-of-the-same-tree-differs", what, fmt.Sprintf("first %s, second %s", d, d1b))
	}
	if !coreOnly(d) {
		r.Violate("not-core", what, "a sugar node survives desugaring")
	}
	d2, ok2 := safeDesugar(d)
	if !ok2 || ExprSx(d2) != ExprSx(d) {
		kind := "not-idempotent"
		if hasMemberCallee(d) {
			kind = "not-idempotent-member-callee" // (o.f)(x): the parenthesised member used as callee
		}
		r.Violate(kind, what, fmt.Sprintf("second pass gives %s, first %s", d2, d))
	}
}

func evalStr(src string, env interface{}) string {
	var out string
	pan, msg := protect(func() {
		v, err := yae.Eval(src, env)
		if err != nil {
			out = "error"
			return
		}
		out = string(TySx(v.Type)) + ":" + v.String()
	})
	if pan {
		return "panic:" + msg
	}
	return out
}

func runC10(r *Run) {
	builtin := newTable("builtin", append([]oper.Operator{}, oper.BuiltIn()...))
	custom := newTable("custom", []oper.Operator{
		{Kind: "-", BP: 10, Fixity: oper.PREFIX}, {Kind: "~", BP: 2.5, Fixity: oper.PREFIX},
		{Kind: "-", BP: 7, Fixity: oper.INFIX_L}, {Kind: "*", BP: 8, Fixity: oper.INFIX_L},
		{Kind: "^", BP: 9, Fixity: oper.INFIX_R}, {Kind: "<", BP: 6, Fixity: oper.INFIX_N},
		{Kind: "!", BP: 11, Fixity: oper.POSTFIX}, {Kind: "@", BP: 12.5, Fixity: oper.INFIX_L}})
	tables := []*table{builtin, custom}
	parse := func(tb *table, src string) (ast.Expr, bool) {
		toks, ok := implLex(tb, src)
		if !ok {
			return nil, false
		}
		return implParseToks(tb, toks)
	}
	for _, c := range []string{"(o.f)(1)", "o.f(1)", "a ? b : c", "-a", "a + b * c", "(a)", "((a))(b)", "x.f(1)(2)", "a.b.c(d)", "[1, (2)]", "[(1): -2]", "{p: (a ? b : c)}",
		"a[(1)]", "(a)[1]", "!a.b", "f((1))", "(f)(1)", "a.f().g()", "(a.f)().g", "o.f", "(o.f)", "((o.f))(1)(2)",
		"o.f(a, b, c)", "o.f(a + 1, b + 1, c + 1)", "o.f(1, 2, 3, 4, 5)", "x.f(a, b, c, d, e, f)", "o.f(a, b, c, d, e, f, g)", "o.f(1, 2, 3, 4, 5, 6, 7, 8, 9)", "o.f(-a, (b), c ? d : e)",
		"o.f(a, b, c).g(d, e, f)", "f(a, b, c)", "f(a, b, c, d, e)", "o.f(a)", "o.f(a, b)", "o.f(a, b, c, d)", "o.f(a, b, c, d, e, f, g, h)"} {
		if e, ok := parse(builtin, c); ok {
			c10Tree(r, fmt.Sprintf("%q", c), e)
			r.Sample(fmt.Sprintf("%q", c))
		}
	}
	n := 3000
	if r.Tier == "thorough" {
		n = 120000
	}
	for i := 0; i < n; i++ {
		tb := tables[r.Rng.Intn(2)]
		g := &exprGen{r, tb}
		t := g.tree(1 + r.Rng.Intn(4))
		src := render(g.fix(0, t, r.Rng.Intn(2) == 0))
		e, ok := parse(tb, src)
		if !ok {
			r.Count("gen:rejected")
			continue
		}
		c10Tree(r, fmt.Sprintf("%q table=%s", src, tb.name), e)
	}

	// semantic half: sugared / explicit renderings of well-typed programs
	type env struct {
		A  float64            `yae:"a"`
		B  float64            `yae:"b"`
		S  string             `yae:"s"`
		T  bool               `yae:"t"`
		Xs []float64          `yae:"xs"`
		M  map[string]float64 `yae:"m"`
		O  struct {
			P float64 `yae:"p"`
			Q string  `yae:"q"`
		} `yae:"o"`
	}
	ev := env{A: 3, B: -2.5, S: "héllo", T: true, Xs: []float64{1, 2, 3}, M: map[string]float64{"k": 1, "j": 2}}
	ev.O.P, ev.O.Q = 7, "q"
	nums := []string{"a", "b", "1", "o.p", "xs[0]", "len(xs)", "max(a, b)", "get(m, s, 0)", "(a + b)", "a * b - 1"}
	bools := []string{"t", "a < b", "s == \"x\"", "isset(m, \"k\")", "!t", "t && a > 0"}
	pick := func(xs []string) string { return xs[r.Rng.Intn(len(xs))] }
	pairs := [][2]string{}
	m := 400
	if r.Tier == "thorough" {
		m = 8000
	}
	for i := 0; i < m; i++ {
		c, x, y := pick(bools), pick(nums), pick(nums)
		pairs = append(pairs,
			[2]string{fmt.Sprintf("%s ? %s : %s", c, x, y), fmt.Sprintf("if(%s, %s, %s)", c, x, y)},
			[2]string{fmt.Sprintf("xs.get(%s, %s)", x, y), fmt.Sprintf("get(xs, %s, %s)", x, y)},
			[2]string{fmt.Sprintf("(%s).max(%s)", x, y), fmt.Sprintf("max(%s, %s)", x, y)},
			[2]string{fmt.Sprintf("m.isset(s)"), "isset(m, s)"},
			[2]string{fmt.Sprintf("((%s))", x), x},
			[2]string{fmt.Sprintf("(%s) + ((%s))", x, y), fmt.Sprintf("%s + %s", x, y)},
			[2]string{fmt.Sprintf("s.len() + xs.len()"), "len(s) + len(xs)"},
			[2]string{fmt.Sprintf("(%s ? %s : %s).abs()", c, x, y), fmt.Sprintf("abs(if(%s, %s, %s))", c, x, y)},
		)
	}
	seen := map[string]bool{}
	for _, p := range pairs {
		if seen[p[0]] {
			continue
		}
		seen[p[0]] = true
		a, b := evalStr(p[0], ev), evalStr(p[1], ev)
		r.Count("pair:" + strings.SplitN(a, ":", 2)[0])
		r.Nontrivial("pair:" + p[0])
		if a != b {
			r.Violate("sugar-differs", fmt.Sprintf("%q vs %q", p[0], p[1]), fmt.Sprintf("%s vs %s", a, b))
		}
	}
	r.Notes = append(r.Notes, fmt.Sprintf("%d distinct sugared/explicit pairs evaluated through yae.Eval", len(seen)))

	// one parsed tree used twice: compiling it (desugar + check + back end) must leave it as the parser built it, and a
	// second compilation of the SAME tree under another environment must give what a fresh parse gives
	envA := map[string]interface{}{"x": []float64{1, 2, 3}, "n": 5.0, "c": true, "s": "héllo"}
	envB := map[string]interface{}{"x": "abcde", "n": 2.0, "c": false, "s": "z"}
	envC := map[string]interface{}{"x": map[string]float64{"a": 1}, "n": 2.0, "c": false, "s": "z"}
	for _, src := range []string{`len(x)`, `x.len()`, `len(x) + n`, `max(n, abs(n))`, `if(c, n, 0 - n)`, `c ? n : 0 - n`, `n > 1 ? n : 0 - n`, `string(x) + s`, `get(x, 0, 0)`, `s + s`, `-n`, `(n)`, `n + n * n`,
		`len(string(x))`, `if(c, len(x), n)`, `[n, n]`, `{a: n}.a`, `isset(["k": n], s)`, `!c`, `c && n > 0`, `len(x) == n`, `string(len(x))`} {
		for _, envs := range [][2]map[string]interface{}{{envA, envB}, {envB, envA}, {envA, envC}, {envC, envA}, {envA, envA}} {
			for kind := 0; kind < 3; kind++ {
				var first, second, fresh, dump0, dump1 string
				pan, msg := protect(func() {
					mk := func() *yae.Expr {
						e := yae.NewExpr()
						switch kind {
						case 1:
							e.UseClosureCompiler()
						case 2:
							e.UseCompiler(interp.Interp)
						}
						return e
					}
					runTree := func(e *yae.Expr, tree ast.Expr, env map[string]interface{}) (out string) {
						defer func() {
							if x := recover(); x != nil {
								out = "error"
							}
						}()
						te, err := conv.TypeEnvOf(env)
						if err != nil {
							return "env-error"
						}
						cl := e.CompileExpr(tree, te)
						ve, _ := conv.ValEnvOf(env)
						v := cl(ve)
						return string(TySx(v.Type)) + ":" + v.String()
					}
					e := mk()
					tree := e.Parse(src)
					dump0 = reflectDump(tree)
					first = runTree(e, tree, envs[0])
					dump1 = reflectDump(tree)
					second = runTree(e, tree, envs[1])
					e2 := mk()
					fresh = runTree(e2, e2.Parse(src), envs[1])
				})
				if pan {
					r.Count("reuse:panic:" + firstLine(msg)[:12])
					continue
				}
				r.Count("parse-once-compile-twice histories")
				what := fmt.Sprintf("%q back end %d", src, kind)
				if dump0 != dump1 {
					r.Violate("source-tree-changed-by-compilation", what, fmt.Sprintf("the parsed tree differs after Desugar + Check: %s -> %s", trunc(dump0, 300), trunc(dump1, 300)))
				}
				if second != fresh {
					r.Violate("reused-tree-differs-from-fresh-parse", what, fmt.Sprintf("second compilation of the same tree gives %s, a fresh parse gives %s (first compilation gave %s)", second, fresh, first))
				}
			}
		}
	}
}

// reflectDump prints every field of a tree (annotations included), following pointers, with a guard against cycles.
func reflectDump(x interface{}) string {
	var b strings.Builder
	seen := map[uintptr]bool{}
	var walk func(v reflect.Value, d int)
	walk = func(v reflect.Value, d int) {
		if d > 60 {
			b.WriteString("<deep>")
			return
		}
		switch v.Kind() {
		case reflect.Ptr:
			if v.IsNil() {
				b.WriteString("nil")
				return
			}
			if v.Type().String() == "*types.Type" {
				b.WriteString("T<")
				if v.CanInterface() {
					b.WriteString(fmt.Sprint(v.Interface()))
				} else {
					b.WriteString("set")
				}
				b.WriteString(">")
				return
			}
			if seen[v.Pointer()] {
				b.WriteString("<again>")
				return
			}
			seen[v.Pointer()] = true
			b.WriteString("&")
			walk(v.Elem(), d+1)
		case reflect.Interface:
			if v.IsNil() {
				b.WriteString("nil")
				return
			}
			walk(v.Elem(), d+1)
		case reflect.Struct:
			b.WriteString(v.Type().String() + "{")
			for i := 0; i < v.NumField(); i++ {
				b.WriteString(v.Type().Field(i).Name + ":")
				walk(v.Field(i), d+1)
				b.WriteString(" ")
			}
			b.WriteString("}")
		case reflect.Slice, reflect.Array:
			b.WriteString("[")
			for i := 0; i < v.Len(); i++ {
				walk(v.Index(i), d+1)
				b.WriteString(" ")
			}
			b.WriteString("]")
		case reflect.String:
			b.WriteString(strconv.Quote(v.String()))
		case reflect.Bool:
			b.WriteString(fmt.Sprint(v.Bool()))
		case reflect.Int, reflect.Int8, reflect.Int16, reflect.Int32, reflect.Int64:
			b.WriteString(fmt.Sprint(v.Int()))
		case reflect.Uint, reflect.Uint8, reflect.Uint16, reflect.Uint32, reflect.Uint64:
			b.WriteString(fmt.Sprint(v.Uint()))
		case reflect.Float32, reflect.Float64:
			b.WriteString(fmt.Sprint(v.Float()))
		case reflect.Func:
			if v.IsNil() {
				b.WriteString("nilfunc")
			} else {
				b.WriteString("func")
			}
		default:
			b.WriteString(v.Kind().String())
		}
	}
	walk(reflect.ValueOf(x), 0)
	return b.String()
}
