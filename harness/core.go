// Verification harness for goghcrow/yae: generates cases, runs the implementation (built from /repo's working
// tree with -tags verif), evaluates each property's own predicate directly on the implementation's outputs, and
// writes the cases (request + implementation observable) for the extracted Coq model to be run on.
package main

import (
	"encoding/hex"
	"encoding/json"
	"fmt"
	"math/rand"
	"os"
	"runtime/debug"
	"sort"
	"strconv"
	"strings"
	"sync/atomic"
	"time"
)

// ---------- S-expressions (text only; the model side decodes in Gallina) ----------

type Sx string

func A(s string) Sx { return Sx(s) }
func L(xs ...Sx) Sx {
	ss := make([]string, len(xs))
	for i, x := range xs {
		ss[i] = string(x)
	}
	return Sx("(" + strings.Join(ss, " ") + ")")
}
func LS(xs []Sx) Sx    { return L(xs...) }
func Name(s string) Sx { return Sx("x" + hex.EncodeToString([]byte(s))) }
func Int(i int) Sx     { return Sx(strconv.Itoa(i)) }
func I64(i int64) Sx   { return Sx(strconv.FormatInt(i, 10)) }
func U64(i uint64) Sx  { return Sx(strconv.FormatUint(i, 10)) }
func Bool(b bool) Sx {
	if b {
		return "T"
	}
	return "F"
}
func Runes(s string) Sx {
	rs := []rune(s)
	xs := make([]Sx, len(rs))
	for i, r := range rs {
		xs[i] = Int(int(r))
	}
	return LS(xs)
}
func Bytes(s string) Sx {
	xs := make([]Sx, len(s))
	for i := 0; i < len(s); i++ {
		xs[i] = Int(int(s[i]))
	}
	return LS(xs)
}

// ---------- run context ----------

type Violation struct {
	Kind   string `json:"kind"`   // short class, stable across runs: used to match KNOWN_FINDINGS
	Input  string `json:"input"`  // human-readable replay (source text, types, ...)
	Detail string `json:"detail"` // what was observed
}

type Run struct {
	Prop       string
	Seed       int64
	Tier       string
	Rng        *rand.Rand
	out        *os.File
	n          int
	Dist       map[string]int
	nontrivial map[string]bool
	Violations []Violation
	Samples    []string
	Notes      []string
	violSeen   map[string]int
	OutDir     string
	markF      *os.File
	lastMark   atomic.Value
	lastMarkAt int64
	progress   int64 // bumped by every Mark / Case / Count: the watchdog fires only when nothing at all moves
}

func NewRun(prop string, seed int64, tier, outDir string) *Run {
	f, err := os.Create(outDir + "/cases.txt")
	if err != nil {
		panic(err)
	}
	return &Run{Prop: prop, Seed: seed, Tier: tier, Rng: rand.New(rand.NewSource(seed)), out: f,
		Dist: map[string]int{}, nontrivial: map[string]bool{}, violSeen: map[string]int{}, OutDir: outDir}
}

// Mark notes what the harness is about to run (overwriting the previous note): if the implementation kills the
// process (fatal fault, stack overflow, runtime corruption after a wrong unsafe cast), the check reports this input.
func (r *Run) Mark(what string) {
	if r == nil || r.OutDir == "" {
		return
	}
	if len(what) > 4000 {
		what = what[:4000]
	}
	if r.markF == nil {
		f, err := os.Create(r.OutDir + "/current.txt")
		if err != nil {
			return
		}
		r.markF = f
	}
	// one pwrite, no truncation: the reader stops at the first NUL
	r.markF.WriteAt(append([]byte(what), 0), 0)
	r.lastMark.Store(what)
	atomic.StoreInt64(&r.lastMarkAt, time.Now().UnixNano())
	atomic.AddInt64(&r.progress, 1)
}

// watchdog: an implementation that BLOCKS (a lock left held, a wait that never ends) or runs away would stall the
// harness for ever; when nothing at all has moved (no input noted, no case emitted, nothing counted) for the limit, the
// input being run is reported and the run is finished.
func (r *Run) watchdog(outDir string, limit time.Duration) {
	seen, since := int64(-1), time.Now()
	for {
		time.Sleep(5 * time.Second)
		if atomic.LoadInt64(&r.lastMarkAt) == 0 {
			continue
		}
		if p := atomic.LoadInt64(&r.progress); p != seen {
			seen, since = p, time.Now()
			continue
		}
		if time.Since(since) > limit {
			what, _ := r.lastMark.Load().(string)
			r.Violations = append(r.Violations, Violation{Kind: "implementation-blocks-or-does-not-return", Input: what,
				Detail: fmt.Sprintf("no progress for %v while running this input; the harness run was cut short here", limit)})
			if r.violSeen != nil {
				r.violSeen["implementation-blocks-or-does-not-return"]++
			}
			r.Finish(outDir)
			os.Exit(0)
		}
	}
}

var markRun *Run

func mark(what string) { markRun.Mark(what) }

// Case records one correspondence case: the request the model will be run on and what the implementation did.
func (r *Run) Case(req Sx, implObs Sx) {
	r.n++
	atomic.AddInt64(&r.progress, 1)
	fmt.Fprintf(r.out, "%d\t%s\t%s\n", r.n, req, implObs)
}

func (r *Run) Count(k string) { r.Dist[k]++; atomic.AddInt64(&r.progress, 1) }

// Nontrivial marks a distinct non-trivial case (by key).
func (r *Run) Nontrivial(key string) { r.nontrivial[key] = true }

func (r *Run) Sample(s string) {
	if len(r.Samples) < 12 {
		r.Samples = append(r.Samples, s)
	}
}

// Violate records a failure of the property's direct predicate on the implementation (at most 5 per kind kept).
func (r *Run) Violate(kind, input, detail string) {
	r.violSeen[kind]++
	if r.violSeen[kind] <= 25 {
		r.Violations = append(r.Violations, Violation{kind, input, detail})
	}
}

func (r *Run) Finish(outDir string) {
	r.out.Close()
	rep := map[string]interface{}{
		"property": r.Prop, "seed": r.Seed, "tier": r.Tier, "cases": r.n,
		"distinct_nontrivial": len(r.nontrivial), "distribution": r.Dist,
		"violations": r.Violations, "violation_counts": r.violSeen, "samples": r.Samples, "notes": r.Notes,
	}
	b, _ := json.MarshalIndent(rep, "", " ")
	if err := os.WriteFile(outDir+"/report.json", b, 0o644); err != nil {
		panic(err)
	}
}

func sortedKeys(m map[string]int) []string {
	ks := make([]string, 0, len(m))
	for k := range m {
		ks = append(ks, k)
	}
	sort.Strings(ks)
	return ks
}

// protect runs f and reports whether it panicked.
func protect(f func()) (panicked bool, msg string) {
	// a fault at a non-nil address (reading a value through the wrong unsafe cast) becomes a panic instead of killing
	// the harness
	defer debug.SetPanicOnFault(debug.SetPanicOnFault(true))
	defer func() {
		if r := recover(); r != nil {
			panicked = true
			msg = fmt.Sprint(r)
		}
	}()
	f()
	return
}

var props = map[string]func(r *Run){}

func main() {
	if len(os.Args) < 3 {
		fmt.Println("usage: yaeh <Cxx> <outdir> [seed] [tier] | yaeh replay <Cxx> <file>")
		os.Exit(2)
	}
	if os.Args[1] == "C17screen" && len(os.Args) >= 6 {
		sd, _ := strconv.ParseInt(os.Args[2], 10, 64)
		st, _ := strconv.Atoi(os.Args[4])
		c17Screen(sd, os.Args[3], st, os.Args[5])
		return
	}
	if os.Args[1] == "C12src" {
		c12Src(os.Args[2])
		return
	}
	if os.Args[1] == "C12child" {
		i, _ := strconv.Atoi(os.Args[2])
		c12Child(i)
		return
	}
	prop, outDir := os.Args[1], os.Args[2]
	seed := int64(1)
	tier := "quick"
	if len(os.Args) > 3 {
		seed, _ = strconv.ParseInt(os.Args[3], 10, 64)
	}
	if len(os.Args) > 4 {
		tier = os.Args[4]
	}
	f, ok := props[prop]
	if !ok {
		fmt.Println("unknown property", prop)
		os.Exit(2)
	}
	r := NewRun(prop, seed, tier, outDir)
	markRun = r
	os.Remove(outDir + "/current.txt")
	go r.watchdog(outDir, 240*time.Second)
	f(r)
	if r.markF != nil {
		r.markF.Close()
	}
	os.Remove(outDir + "/current.txt")
	r.Finish(outDir)
}
