package main

// C05 — the type checker accepts exactly the well-typed programs and infers their type.
// Correspondence: parse + desugar + types.Check (accept/reject, inferred type, every annotation the back ends rely on)
// against the Coq checker model, under several registration histories of extra overloads.
// Direct predicate: an independently written reference checker (the typing rules in the property's words).

import (
	"fmt"

	"github.com/goghcrow/yae/fun"
	"github.com/goghcrow/yae/parser/ast"
	"github.com/goghcrow/yae/parser/oper"
	"github.com/goghcrow/yae/trans"
	"github.com/goghcrow/yae/types"
)

func init() { props["C05"] = runC05 }

// annotated tree as the back ends see it
func AExprSx(e ast.Expr) Sx {
	ty := func(x interface{}) Sx {
		if t, ok := x.(*types.Type); ok && t != nil {
			return TySx(t)
		}
		return A("nil")
	}
	switch x := e.(type) {
	case *ast.StrExpr:
		return L(A("str"), Bytes(x.Val))
	case *ast.NumExpr:
		return L(A("num"), Runes(x.Text))
	case *ast.TimeExpr:
		return L(A("time"), Runes(x.Text))
	case *ast.BoolExpr:
		return L(A("bool"), Bool(x.Val))
	case *ast.ListExpr:
		xs := make([]Sx, len(x.Elems))
		for i, el := range x.Elems {
			xs[i] = AExprSx(el)
		}
		return L(A("list"), ty(x.Type), LS(xs))
	case *ast.MapExpr:
		xs := make([]Sx, len(x.Pairs))
		for i, p := range x.Pairs {
			xs[i] = L(AExprSx(p.Key), AExprSx(p.Val))
		}
		return L(A("map"), ty(x.Type), LS(xs))
	case *ast.ObjExpr:
		xs := make([]Sx, len(x.Fields))
		for i, f := range x.Fields {
			xs[i] = L(Name(f.Name), AExprSx(f.Val))
		}
		return L(A("obj"), ty(x.Type), LS(xs))
	case *ast.IdentExpr:
		return L(A("id"), Int(x.Col), Name(x.Name))
	case *ast.CallExpr:
		xs := make([]Sx, len(x.Args))
		for i, a := range x.Args {
			xs[i] = AExprSx(a)
		}
		return L(A("call"), Int(int(x.DBGCol)), Name(x.Resolved), Int(x.Index), ty(x.CalleeType), AExprSx(x.Callee), LS(xs))
	case *ast.SubscriptExpr:
		return L(A("sub"), Int(int(x.DBGCol)), ty(x.VarType), AExprSx(x.Var), AExprSx(x.Idx))
	case *ast.MemberExpr:
		return L(A("member"), Int(int(x.DBGCol)), ty(x.ObjType), Int(x.Index), AExprSx(x.Obj), Name(x.Field.Name))
	}
	return A("sugar-node")
}

// ---- reference checker (typing rules as the property words them) ----
type refSig struct {
	name   string
	params []*T
	ret    *T
}

type refEnv struct {
	vars  map[string]*T
	monos []refSig // registration order; "exactly matching" = types equal (object fields by name)
	polys []refSig
}

func groundT(t *T) bool { return !t.hasKind("var") }

func refMatch(sig map[string]*T, p, g *T) bool {
	if p.K == "var" {
		if s, ok := sig[p.Name]; ok {
			return refEq(s, g)
		}
		sig[p.Name] = g
		return true
	}
	if g.K == "bot" {
		return true
	}
	if p.K != g.K {
		return false
	}
	if p.K == "obj" {
		if len(p.Fn) != len(g.Fn) {
			return false
		}
		for i, f := range p.Fn {
			j := fieldIdx(g.Fn, f)
			if j < 0 || !refMatch(sig, p.Sub[i], g.Sub[j]) {
				return false
			}
		}
		return true
	}
	if len(p.Sub) != len(g.Sub) {
		return false
	}
	for i := range p.Sub {
		if !refMatch(sig, p.Sub[i], g.Sub[i]) {
			return false
		}
	}
	return true
}

func refApply(sig map[string]*T, p *T) *T {
	if p.K == "var" {
		if s, ok := sig[p.Name]; ok {
			return s
		}
		return p
	}
	out := &T{K: p.K, Name: p.Name, Fn: p.Fn}
	for _, s := range p.Sub {
		out.Sub = append(out.Sub, refApply(sig, s))
	}
	return out
}

var reservedWords = map[string]bool{}

// refCheck: returns the type, or nil when ill-typed.  note != "" marks where the reference and the property's wording
// need care (used to classify disagreements).
func (re *refEnv) check(e ast.Expr) *T {
	isPrim := func(t *T) bool { return t.K == "num" || t.K == "str" || t.K == "bool" || t.K == "time" }
	switch x := e.(type) {
	case *ast.StrExpr:
		return tstr()
	case *ast.NumExpr:
		return tnum()
	case *ast.TimeExpr:
		return ttime()
	case *ast.BoolExpr:
		return tbool()
	case *ast.ListExpr:
		if len(x.Elems) == 0 {
			return tlist(tp("bot"))
		}
		t0 := re.check(x.Elems[0])
		if t0 == nil {
			return nil
		}
		for _, el := range x.Elems[1:] {
			t := re.check(el)
			if t == nil || !refEq(t0, t) {
				return nil
			}
		}
		return tlist(t0)
	case *ast.MapExpr:
		if len(x.Pairs) == 0 {
			return tmap(tp("bot"), tp("bot"))
		}
		k0 := re.check(x.Pairs[0].Key)
		if k0 == nil || !isPrim(k0) {
			return nil
		}
		v0 := re.check(x.Pairs[0].Val)
		if v0 == nil {
			return nil
		}
		for _, p := range x.Pairs[1:] {
			k := re.check(p.Key)
			if k == nil || !refEq(k0, k) {
				return nil
			}
			v := re.check(p.Val)
			if v == nil || !refEq(v0, v) {
				return nil
			}
		}
		return tmap(k0, v0)
	case *ast.ObjExpr:
		o := &T{K: "obj"}
		for _, f := range x.Fields {
			ft := re.check(f.Val)
			if ft == nil || fieldIdx(o.Fn, f.Name) >= 0 {
				return nil
			}
			o.Fn = append(o.Fn, f.Name)
			o.Sub = append(o.Sub, ft)
		}
		return o
	case *ast.IdentExpr:
		if reservedWords[x.Name] {
			return nil
		}
		return re.vars[x.Name] // nil when undefined
	case *ast.CallExpr:
		args := []*T{}
		for _, a := range x.Args {
			t := re.check(a)
			if t == nil {
				return nil
			}
			args = append(args, t)
		}
		id, ok := x.Callee.(*ast.IdentExpr)
		if !ok {
			ft := re.check(x.Callee)
			if ft == nil || ft.K != "fun" || len(ft.Sub)-1 != len(args) {
				return nil
			}
			sig := map[string]*T{}
			for j := range args {
				if !refMatch(sig, ft.Sub[j], args[j]) || !refEq(refApply(sig, ft.Sub[j]), args[j]) {
					return nil
				}
			}
			ret := refApply(sig, ft.Sub[len(args)])
			if !groundT(ret) {
				return nil
			}
			return ret
		}
		// 1. an exactly matching monomorphic overload (last registration with equal parameter types wins)
		var hit *refSig
		for i := range re.monos {
			m := &re.monos[i]
			if m.name != id.Name || len(m.params) != len(args) {
				continue
			}
			same := true
			for j := range args {
				if !refEq(m.params[j], args[j]) {
					same = false
				}
			}
			if same {
				hit = m
			}
		}
		if hit != nil {
			return hit.ret
		}
		// 2. the first registered polymorphic overload whose parameters can be instantiated to the argument types
		//    with a fully concrete result
		for i := range re.polys {
			p := &re.polys[i]
			if p.name != id.Name || len(p.params) != len(args) {
				continue
			}
			sig := map[string]*T{}
			ok := true
			for j := range args {
				if !refMatch(sig, p.params[j], args[j]) {
					ok = false
					break
				}
			}
			if !ok {
				continue
			}
			// "can be instantiated to the argument types": the instantiated parameters equal the arguments
			for j := range args {
				if !refEq(refApply(sig, p.params[j]), args[j]) {
					ok = false
				}
			}
			if !ok {
				continue
			}
			ret := refApply(sig, p.ret)
			if !groundT(ret) {
				continue
			}
			return ret
		}
		return nil
	case *ast.SubscriptExpr:
		vt := re.check(x.Var)
		if vt == nil {
			return nil
		}
		it := re.check(x.Idx)
		if it == nil {
			return nil
		}
		switch vt.K {
		case "list":
			if !refEq(it, tnum()) {
				return nil
			}
			return vt.Sub[0]
		case "map":
			if !refEq(it, vt.Sub[0]) {
				return nil
			}
			return vt.Sub[1]
		}
		return nil
	case *ast.MemberExpr:
		ot := re.check(x.Obj)
		if ot == nil || ot.K != "obj" {
			return nil
		}
		j := fieldIdx(ot.Fn, x.Field.Name)
		if j < 0 {
			return nil
		}
		return ot.Sub[j]
	}
	return nil
}

type regHistory struct {
	name  string
	items []interface{} // "builtin" or userFn
}

func (h regHistory) Sx() Sx {
	xs := []Sx{}
	for _, it := range h.items {
		if _, ok := it.(string); ok {
			xs = append(xs, A("builtin"))
		} else {
			xs = append(xs, fnSx(it.(userFn)))
		}
	}
	return LS(xs)
}

func (h regHistory) build() (*types.Env, *refEnv) {
	te := types.NewEnv()
	re := &refEnv{vars: map[string]*T{}}
	add := func(name string, params []*T, ret *T, gt *types.Type) {
		te.RegisterFun(gt)
		s := refSig{name, params, ret}
		poly := !groundT(ret)
		for _, p := range params {
			poly = poly || !groundT(p)
		}
		if poly {
			re.polys = append(re.polys, s)
		} else {
			re.monos = append(re.monos, s)
		}
	}
	for _, it := range h.items {
		if _, ok := it.(string); ok {
			for _, f := range fun.BuiltIn() {
				ft := FromGo(f.Type)
				add(ft.Name, ft.Sub[:len(ft.Sub)-1], ft.Sub[len(ft.Sub)-1], f.Type)
			}
		} else {
			u := it.(userFn)
			ft := &T{K: "fun", Name: u.Name, Sub: append(append([]*T{}, u.Params...), u.Ret)}
			add(u.Name, u.Params, u.Ret, ft.Go())
		}
	}
	return te, re
}

func c05One(r *Run, tb *table, h regHistory, te *types.Env, re *refEnv, vars []envVar, src string) {
	toks, ok := implLex(tb, src)
	if !ok {
		r.Count("src:lexerr")
		return
	}
	parsed, ok := implParseToks(tb, toks)
	if !ok {
		r.Count("src:syntaxerr")
		return
	}
	req := L(A("check"), h.Sx(), tenvSx(vars), ExprSx(parsed))
	env := types.NewEnv()
	for _, v := range vars {
		env.Put(v.Name, v.Ty.Go())
		re.vars[v.Name] = v.Ty
	}
	var got *types.Type
	var des ast.Expr
	pan, _ := protect(func() {
		des = trans.Desugar(parsed)
		got = types.Check(des, env.Inherit(te))
	})
	want := (*T)(nil)
	if des != nil {
		want = re.check(des)
	}
	what := fmt.Sprintf("%q history=%s", src, h.name)
	if pan {
		r.Case(req, A("err"))
		r.Count("check:reject")
		if want != nil {
			r.Violate(c05Class(src, "rejected-well-typed"), what, fmt.Sprintf("well-typed at %s by the rules, rejected", want))
		}
		return
	}
	r.Case(req, L(A("ok"), TySx(got), AExprSx(des)))
	r.Count("check:accept")
	r.Nontrivial(src + "|" + h.name)
	if want == nil {
		r.Violate("accepted-ill-typed", what, fmt.Sprintf("ill-typed by the rules, accepted at %s", got))
	} else if !refEq(FromGo(got), want) {
		r.Violate("wrong-type", what, fmt.Sprintf("inferred %s, the rules give %s", got, want))
	}
}

// c05Class names the root cause when it is recognisable from the input (so that KNOWN_FINDINGS stays specific).
func c05Class(src, dflt string) string {
	switch {
	case containsAny(src, "area({h:", "area({ h"):
		return "rejected-mono-overload-permuted-object-argument"
	case containsAny(src, "pick([]", "pick(es", "pick(union([]", "pick(["):
		return dflt + ":pick"
	}
	return dflt
}

func containsAny(s string, subs ...string) bool {
	for _, x := range subs {
		if len(x) <= len(s) {
			for i := 0; i+len(x) <= len(s); i++ {
				if s[i:i+len(x)] == x {
					return true
				}
			}
		}
	}
	return false
}

func runC05(r *Run) {
	for _, w := range []string{"byte", "int", "float", "double", "string", "bool", "boolean", "ch", "void", "type", "var", "def", "define", "let", "rec", "mut", "fun", "fn", "function",
		"record", "struct", "map", "list", "object", "class", "trait", "interface", "sealed", "extends", "prefix", "infixl", "infixr", "infixn",
		"for", "do", "while", "switch", "cast", "range", "match", "select", "break", "continue", "return", "try", "catch", "throw", "finally",
		"import", "as", "module", "package", "namespace", "assert", "debugger"} {
		reservedWords[w] = true
	}
	tb := newTable("builtin", append([]oper.Operator{}, oper.BuiltIn()...))
	mk := func(name string, items ...interface{}) regHistory { return regHistory{name, items} }
	var all []interface{}
	for _, f := range stdFns {
		all = append(all, f)
	}
	rev := []interface{}{}
	for i := len(stdFns) - 1; i >= 0; i-- {
		rev = append(rev, stdFns[i])
	}
	hists := []regHistory{
		mk("builtin", "builtin"),
		mk("builtin+user", append([]interface{}{"builtin"}, all...)...),
		mk("user+builtin", append(append([]interface{}{}, all...), "builtin")...),
		mk("builtin+user-reversed", append([]interface{}{"builtin"}, rev...)...),
		mk("shadowing", "builtin", userFn{"len", []*T{tv("A")}, tnum(), false}, userFn{"+", []*T{tbool(), tbool()}, tbool(), false},
			userFn{"abs", []*T{tnum()}, tstr(), false}, userFn{"get", []*T{tv("A"), tv("A")}, tv("A"), false}),
		// monomorphic overloads over several composite parameters next to polymorphic ones of the same name and arity
		mk("mono-composite", "builtin", userFn{"total", []*T{tlist(tnum()), tlist(tnum())}, tnum(), false}, userFn{"total", []*T{tv("A"), tv("A")}, tstr(), false},
			userFn{"zip", []*T{tmap(tstr(), tnum()), tmap(tstr(), tnum()), tlist(tnum())}, tbool(), false}, userFn{"same", []*T{tmaybe(tnum()), tmaybe(tnum())}, tnum(), false},
			userFn{"same", []*T{tv("A"), tv("B")}, tbool(), false}, userFn{"objs", []*T{pq, pq}, tnum(), false}),
		mk("poly-then-mono-composite", "builtin", userFn{"total", []*T{tv("A"), tv("A")}, tstr(), false}, userFn{"total", []*T{tlist(tnum()), tlist(tnum())}, tnum(), false}),
	}
	vars := append([]envVar{}, stdVars...)
	vars = append(vars, envVar{"fv", &T{K: "fun", Name: "fv", Sub: []*T{tnum(), tnum()}}}, envVar{"gv", &T{K: "fun", Name: "gv", Sub: []*T{tv("A"), tlist(tv("A"))}}},
		envVar{"fo", tobj("call", &T{K: "fun", Name: "c", Sub: []*T{tnum(), tbool()}})})
	// gv has a type variable: types.Env.Put refuses it (slotFree) -> drop it from the environment proper
	vars2 := []envVar{}
	for _, v := range vars {
		if v.Name != "gv" {
			vars2 = append(vars2, v)
		}
	}
	vars = vars2
	built := make([]struct {
		te *types.Env
		re *refEnv
	}, len(hists))
	for i, h := range hists {
		built[i].te, built[i].re = h.build()
	}
	corpus := []string{`[{a:1,b:"x"},{b:"y",a:2}][1].a`, `area({h: 1, w: 2})`, `area({w: 1, h: 2})`, `pick([], 1)`, `pick([1], "s")`, `pick(["a"], 1)`, `get([1,2],-1,0)`,
		`[1, "a"]`, `[1: 2, "a": 3]`, `[[1]: 2]`, `{a: 1, a: 2}`, `o.nope`, `xs["a"]`, `m[1]`, `x.p`, `get(mb, "s")`, `mb + 1`, `len(mb)`, `if(b, 1, "a")`, `if(x, 1, 2)`,
		`[] == []`, `[:] == [:]`, `[[]] == [[1]]`, `union([], [1])`, `union([1], ["a"])`, `get([], 0, 1)`, `get([:], "k", 1)`, `isset([:], 1)`, `string(mb)`, `nope(1)`, `len(1, 2)`,
		`type`, `var + 1`, `match("a", "b")`, `fo.call(1)`, `(fo.call)(1)`, `fv(1)`, `(fv)(1)`, `[fv][0](1)`, `[fv][0]("s")`, `o == o2`, `[o, o2]`, `[o2, o][0].p`, `ident(o).q`, `lm[0]`, `get(lm[0], 1)`,
		`1 < 2 < 3`, `!x`, `-s`, `s + 1`, `"a" + "b"`, `t0 - t1`, `t0 + 1`, `t0 < t1`, `'2020-01-01 00:00:00' == t0`, `max([])`, `max(["a"])`, `print(o)`, `print(1) + 1`}
	for _, c := range corpus {
		for i, h := range hists {
			c05One(r, tb, h, built[i].te, built[i].re, vars, c)
		}
		r.Sample(c)
	}
	n := 2500
	if r.Tier == "thorough" {
		n = 100000
	}
	for i := 0; i < n; i++ {
		g := &progGen{r: r, vars: vars, fns: stdFns}
		hi := r.Rng.Intn(5)
		g.useFns = hi >= 1 && hi <= 3
		if r.Rng.Intn(2) == 0 {
			g.poison = 1 + r.Rng.Intn(2)
		}
		src := g.Gen(g.randType(1), 1+r.Rng.Intn(3))
		if i < 3 {
			r.Sample(src)
		}
		c05One(r, tb, hists[hi], built[hi].te, built[hi].re, vars, src)
	}
	// calls whose arguments are the SAME variable (one type node used twice) or equal types from different nodes
	for hi := 5; hi <= 6; hi++ {
		for _, c := range []string{`total(xs, xs)`, `total(xs, es)`, `total(es, xs)`, `total([1], xs)`, `total(xs, [1, 2])`, `total(ss, ss)`, `total(xs, ss)`, `total(nest.in.l, nest.in.l)`, `total(nest.in.l, xs)`,
			`total(x, x)`, `total(o, o)`, `zip(m, m, xs)`, `zip(m, em, es)`, `zip(em, em, xs)`, `zip(m, m, ss)`, `same(mb, mb)`, `same(mb, mz)`, `same(mb, x)`, `same(lm[0], lm[0])`, `objs(o, o)`, `objs(o, o2)`,
			`objs(o2, o2)`, `objs(os[0], os[0])`, `total(get([xs], 0, xs), get([xs], 0, xs))`, `total(if(b, xs, xs), xs)`} {
			c05One(r, tb, hists[hi], built[hi].te, built[hi].re, vars, c)
			r.Count("same-node argument programs")
		}
	}
	for i := 0; i < n/5; i++ {
		g := &progGen{r: r, vars: stdVars, fns: stdFns}
		hi := r.Rng.Intn(5)
		g.useFns = hi >= 1 && hi <= 3
		src := g.sharedVarProg(r.Rng.Intn(4) != 0)
		if i%2 == 1 {
			src = g.permObjProg(r.Rng.Intn(3) != 0)
		}
		r.Count("shared-variable / permuted-object programs")
		c05One(r, tb, hists[hi], built[hi].te, built[hi].re, vars, src)
	}
}
