package main

// C17 — unification and type equality are sound.
// Correspondence: types.Equals / types.Unify / applySubst / inferFun / slotFree / String against the Coq model.
// Direct predicates (evaluated on the implementation, in the property's own words):
//   eq-refl, eq-sym, eq-trans, eq-structural (Equals x y <=> identical trees modulo object field order),
//   unify-sound (after success both sides become equal under the resulting substitution, unless a bottom/top leniency
//   was involved; no variable bound to a type containing itself; no variable bound to two different types),
//   match-complete (pattern vs variable-free type: success <=> an instantiation exists, with the empty-container rule).

import (
	"fmt"
	"os"
	"os/exec"
	"path/filepath"
	"runtime/debug"
	"strconv"
	"strings"

	"github.com/goghcrow/yae/types"
)

func init() { props["C17"] = runC17 }

type tyGen struct {
	r     *Run
	vars  []string
	bot   bool
	top   bool
	names []string
}

func (g *tyGen) leaf() *T {
	n := g.r.Rng.Intn(10)
	switch {
	case n < 2:
		return tp("num")
	case n < 4:
		return tp("str")
	case n < 5:
		return tp("bool")
	case n < 6:
		return tp("time")
	case n < 8 && len(g.vars) > 0:
		return &T{K: "var", Name: g.vars[g.r.Rng.Intn(len(g.vars))]}
	case n < 9 && g.bot:
		return tp("bot")
	case g.top && g.r.Rng.Intn(4) == 0:
		return tp("top")
	}
	return tp("num")
}

func (g *tyGen) key() *T {
	for {
		l := g.leaf()
		if l.K != "top" {
			return l
		}
	}
}

func (g *tyGen) gen(depth int) *T {
	if depth == 0 || g.r.Rng.Intn(3) == 0 {
		return g.leaf()
	}
	switch g.r.Rng.Intn(6) {
	case 0:
		return tp("list", g.gen(depth-1))
	case 1:
		return tp("maybe", g.gen(depth-1))
	case 2:
		return tp("map", g.key(), g.gen(depth-1))
	case 3, 4:
		n := g.r.Rng.Intn(4)
		perm := g.r.Rng.Perm(len(g.names))
		o := &T{K: "obj"}
		for i := 0; i < n && i < len(perm); i++ {
			o.Fn = append(o.Fn, g.names[perm[i]])
			o.Sub = append(o.Sub, g.gen(depth-1))
		}
		return o
	default:
		n := g.r.Rng.Intn(3)
		f := &T{K: "fun", Name: []string{"f", "g"}[g.r.Rng.Intn(2)]}
		for i := 0; i < n; i++ {
			f.Sub = append(f.Sub, g.gen(depth-1))
		}
		f.Sub = append(f.Sub, g.gen(depth-1))
		return f
	}
}

// mutate returns a near-copy of t: permuted object fields, one leaf changed, or identical copy.
func (g *tyGen) mutate(t *T) *T {
	c := &T{K: t.K, Name: t.Name, Fn: append([]string{}, t.Fn...)}
	for _, s := range t.Sub {
		c.Sub = append(c.Sub, g.mutate(s))
	}
	if t.K == "obj" && len(t.Fn) > 1 && g.r.Rng.Intn(2) == 0 {
		p := g.r.Rng.Perm(len(t.Fn))
		fn := make([]string, len(p))
		sub := make([]*T, len(p))
		for i, j := range p {
			fn[i], sub[i] = c.Fn[j], c.Sub[j]
		}
		c.Fn, c.Sub = fn, sub
	}
	if len(t.Sub) == 0 && g.r.Rng.Intn(12) == 0 {
		return g.leaf()
	}
	return c
}

// inst: does sigma instantiate pattern p to g (structural in the pattern; only a non-variable may face bottom)?
func refInst(sig map[string]*T, p, g *T) bool {
	if p.K == "var" {
		s, ok := sig[p.Name]
		return ok && refEq(s, g)
	}
	if g.K == "bot" {
		return true
	}
	if p.K == "top" {
		return true
	}
	if p.K != g.K {
		return false
	}
	if p.K == "obj" {
		if len(p.Fn) != len(g.Fn) {
			return false
		}
		for i, f := range p.Fn {
			j := fieldIdx(g.Fn, f)
			if j < 0 || !refInst(sig, p.Sub[i], g.Sub[j]) {
				return false
			}
		}
		return true
	}
	if len(p.Sub) != len(g.Sub) {
		return false
	}
	for i := range p.Sub {
		if !refInst(sig, p.Sub[i], g.Sub[i]) {
			return false
		}
	}
	return true
}

func subterms(g *T, acc *[]*T) {
	*acc = append(*acc, g)
	for _, s := range g.Sub {
		subterms(s, acc)
	}
}

func collectVars(t *T, seen map[string]bool, out *[]string) {
	if t.K == "var" && !seen[t.Name] {
		seen[t.Name] = true
		*out = append(*out, t.Name)
	}
	for _, s := range t.Sub {
		collectVars(s, seen, out)
	}
}

func existsSigma(p, g *T) bool {
	var vars []string
	collectVars(p, map[string]bool{}, &vars)
	var cands []*T
	subterms(g, &cands)
	sig := map[string]*T{}
	var rec func(i int) bool
	rec = func(i int) bool {
		if i == len(vars) {
			return refInst(sig, p, g)
		}
		for _, c := range cands {
			sig[vars[i]] = c
			if rec(i + 1) {
				return true
			}
		}
		return false
	}
	return rec(0)
}

func occurs(t *T, v string) bool {
	if t.K == "var" && t.Name == v {
		return true
	}
	for _, s := range t.Sub {
		if occurs(s, v) {
			return true
		}
	}
	return false
}

type unifyOut struct {
	cls string // ok fail panic
	res *types.Type
	m   map[string]*types.Type
}

func implUnify(x, y *types.Type, m map[string]*types.Type) unifyOut {
	var res *types.Type
	pan, _ := protect(func() { res = types.Unify(x, y, m) })
	if pan {
		return unifyOut{cls: "panic"}
	}
	if res == nil {
		return unifyOut{cls: "fail"}
	}
	return unifyOut{"ok", res, m}
}

func (o unifyOut) Sx() Sx {
	switch o.cls {
	case "ok":
		return L(A("ok"), L(TySx(o.res), SubstSx(o.m)))
	default:
		return A(o.cls)
	}
}

func c17Pair(r *Run, x, y *T, init map[string]*T) {
	r.Mark(fmt.Sprintf("types.Equals / types.Unify on %s ~ %s", x, y))
	var gx, gy *types.Type
	if pan, _ := protect(func() { gx, gy = x.Go(), y.Go() }); pan {
		r.Count("pair:not-buildable(skipped)") // the constructors of package types refuse it (e.g. a key that is not keyable)
		return
	}
	// --- equality: correspondence + laws
	eq := types.Equals(gx, gy)
	r.Case(L(A("tyeq"), TySx(gx), TySx(gy)), Bool(eq))
	if eq != refEq(x, y) && !x.hasKind("fun") {
		r.Violate("eq-structural", fmt.Sprintf("%s vs %s", x, y), fmt.Sprintf("Equals=%v structural=%v", eq, refEq(x, y)))
	}
	if eq != types.Equals(gy, gx) {
		r.Violate("eq-sym", fmt.Sprintf("%s vs %s", x, y), "Equals is not symmetric here")
	}
	if !types.Equals(gx, gx) {
		r.Violate("eq-refl", x.String(), "Equals(x,x) false")
	}
	if eq {
		r.Count("eq:true")
	} else {
		r.Count("eq:false")
	}
	// --- unification
	m := map[string]*types.Type{}
	mi := []Sx{}
	for _, k := range sortedT(init) {
		m[goVar(k).TyVar().Name] = init[k].Go()
	}
	mi = append(mi, SubstSx(m))
	req := L(A("unify"), TySx(gx), TySx(gy), mi[0])
	out := implUnify(gx, gy, m)
	r.Case(req, out.Sx())
	r.Count("unify:" + out.cls)
	if out.cls == "ok" {
		r.Nontrivial(string(req))
		// no variable bound, directly or through other bindings, to a type containing itself (checked BEFORE the
		// substitution is applied: applying a cyclic one does not terminate)
		if cyc := cyclicBinding(out.m); cyc != "" {
			r.Violate("unify-occurs", fmt.Sprintf("%s ~ %s", x, y), "cyclic substitution: "+cyc)
			return
		}
		// soundness on the implementation's own answer
		var ax, ay *T
		lenient0 := y.hasKind("bot") || x.hasKind("top") || x.hasKind("bot") || y.hasKind("top") || initHas(init, "bot")
		if pan, msg := protect(func() {
			ax = FromGo(types.VerifApplySubst(gx, out.m))
			ay = FromGo(types.VerifApplySubst(gy, out.m))
		}); pan {
			// the substitution cannot even be applied (e.g. a map key variable bound to a composite through the
			// empty-container leniency): only an alarm when no leniency was involved
			if !lenient0 && len(init) == 0 {
				k := "unify-sound"
				if strings.Contains(msg, "invalid type of map's key") {
					k = "unify-binds-map-key-variable-to-unkeyable-type"
				}
				r.Violate(k, fmt.Sprintf("%s ~ %s", x, y), "applying the resulting substitution panics: "+firstLine(msg))
			}
			r.Count("unify:ok-but-unappliable")
			return
		}
		lenient := y.hasKind("bot") || x.hasKind("top") || x.hasKind("bot") || y.hasKind("top") || initHas(init, "bot")
		if !lenient && len(init) == 0 && !refEq(ax, ay) {
			r.Violate("unify-sound", fmt.Sprintf("%s ~ %s", x, y), fmt.Sprintf("after substitution %s /= %s", ax, ay))
		}
		for k, v := range out.m {
			tv := FromGo(v)
			if l, ok := tyVarLabel[k]; ok && occurs(tv, l) && !(tv.K == "var" && tv.Name == l) {
				r.Violate("unify-occurs", fmt.Sprintf("%s ~ %s", x, y), fmt.Sprintf("%s bound to %s", l, tv))
			}
		}
	}
	// --- matching completeness: pattern (may hold variables) against a variable-free type
	if !y.hasKind("var") && !x.hasKind("top") && !y.hasKind("top") && !x.hasKind("bot") && !x.hasKind("fun") && !y.hasKind("fun") && len(init) == 0 && out.cls != "panic" {
		want := existsSigma(x, y)
		r.Count(fmt.Sprintf("match:%v", want))
		if want != (out.cls == "ok") {
			r.Violate("match-complete", fmt.Sprintf("%s ~ %s", x, y), fmt.Sprintf("unify=%s, an instantiation exists=%v", out.cls, want))
		}
	}
}

// fixKeys makes every map key keyable (primitive, variable or bottom), as types.Map demands.
func fixKeys(t *T) *T {
	for i, s := range t.Sub {
		t.Sub[i] = fixKeys(s)
	}
	if t.K == "map" {
		switch t.Sub[0].K {
		case "num", "str", "bool", "time", "bot", "var":
		default:
			t.Sub[0] = tp("str")
		}
	}
	return t
}

func initHas(init map[string]*T, k string) bool {
	for _, v := range init {
		if v.hasKind(k) {
			return true
		}
	}
	return false
}

func sortedT(m map[string]*T) []string {
	mm := map[string]int{}
	for k := range m {
		mm[k] = 1
	}
	return sortedKeys(mm)
}

func enumTypes(depth int, leaves []*T, objs bool) []*T {
	if depth == 0 {
		return leaves
	}
	sub := enumTypes(depth-1, leaves, objs)
	out := append([]*T{}, sub...)
	for _, a := range sub {
		out = append(out, tp("list", a), tp("maybe", a))
	}
	for _, k := range leaves {
		if k.K == "top" {
			continue
		}
		for _, v := range sub {
			out = append(out, tp("map", k, v))
		}
	}
	if objs {
		for _, a := range sub {
			for _, b := range sub {
				out = append(out, &T{K: "obj", Fn: []string{"x", "y"}, Sub: []*T{a, b}}, &T{K: "obj", Fn: []string{"y", "x"}, Sub: []*T{a, b}})
			}
		}
	}
	return out
}

func runC17(r *Run) {
	// corpus: hand-written boundary cases (run first)
	a, b := &T{K: "var", Name: "a"}, &T{K: "var", Name: "b"}
	num, str, bot := tp("num"), tp("str"), tp("bot")
	corpus := [][2]*T{
		{tp("tuple", a, a), tp("tuple", num, bot)},
		{tp("tuple", a, a), tp("tuple", bot, num)},
		{tp("tuple", tp("list", a), a), tp("tuple", tp("list", bot), num)},
		{a, tp("list", a)},
		{tp("list", a), a},
		{a, b}, {b, a}, {a, a},
		{&T{K: "obj", Fn: []string{"x", "y"}, Sub: []*T{a, b}}, &T{K: "obj", Fn: []string{"y", "x"}, Sub: []*T{str, num}}},
		{tp("map", a, b), tp("map", bot, bot)},
		{tp("tuple", a, tp("map", a, num)), tp("tuple", tp("list", num), tp("map", bot, bot))},
		{&T{K: "fun", Name: "f", Sub: []*T{a, a}}, &T{K: "fun", Name: "g", Sub: []*T{num, num}}},
		{&T{K: "fun", Name: "f", Sub: []*T{a, b, a}}, &T{K: "fun", Name: "f", Sub: []*T{b, num, str}}},
		{tp("top"), num}, {num, tp("top")}, {tp("top"), bot}, {bot, bot}, {bot, num}, {num, bot},
		{a, tp("tuple", num)},
		{tp("tuple", a, b), tp("tuple", b, a)},
		{tp("tuple", a, b, a), tp("tuple", b, tp("list", a), num)},
	}
	for _, c := range corpus {
		c17Pair(r, c[0], c[1], nil)
		r.Sample(fmt.Sprintf("unify %s ~ %s", c[0], c[1]))
	}

	// exhaustive: two-component patterns against two-component grounds (the checker's use: parameter tuple vs arguments)
	pl := []*T{num, str, a, b}
	gl := []*T{num, str, bot}
	pats := enumTypes(1, pl, true)
	grds := enumTypes(1, gl, true)
	stride := 1
	if r.Tier == "quick" {
		stride = 97 // a deterministic 1/97 slice per run, shifted by the seed
	}
	k := int(r.Seed % int64(stride))
	if k < 0 {
		k = -k
	}
	idx := 0
	for _, p1 := range pats {
		for _, p2 := range pats {
			for _, g1 := range grds {
				for _, g2 := range grds {
					idx++
					if idx%stride != k {
						continue
					}
					c17Pair(r, tp("tuple", p1, p2), tp("tuple", g1, g2), nil)
				}
			}
		}
	}
	r.Notes = append(r.Notes, fmt.Sprintf("exhaustive block: %d patterns^2 x %d grounds^2, stride %d", len(pats), len(grds), stride))

	// exhaustive, variables on BOTH sides (occurs check after substitution, bindings made earlier in the same call).
	// A unifier that lets a cyclic binding through recurses for ever on the next application and dies with a fatal stack
	// overflow, so the pairs are screened in a child process first; a pair that kills the child is reported and skipped.
	{
		pairs := twoSidedPairs(r.Seed, r.Tier)
		crashed := map[int]bool{}
		start := 0
		prog := filepath.Join(r.OutDir, "c17screen.txt")
		for round := 0; round < 25 && start < len(pairs); round++ {
			os.WriteFile(prog, []byte("-1"), 0o644)
			cmd := exec.Command(os.Args[0], "C17screen", fmt.Sprint(r.Seed), r.Tier, fmt.Sprint(start), prog)
			err := cmd.Run()
			if err == nil {
				start = len(pairs)
				break
			}
			b, _ := os.ReadFile(prog)
			idx, _ := strconv.Atoi(strings.TrimSpace(string(b)))
			if idx < start || idx >= len(pairs) {
				break
			}
			crashed[idx] = true
			r.Violate("unify-kills-the-process", fmt.Sprintf("%s ~ %s", pairs[idx][0], pairs[idx][1]), fmt.Sprintf("child process died in types.Unify / applySubst: %v (non-terminating recursion on a cyclic substitution)", err))
			start = idx + 1
		}
		for i, p := range pairs {
			if crashed[i] || (len(crashed) >= 25 && i >= start) {
				continue
			}
			c17Pair(r, p[0], p[1], nil)
		}
		r.Notes = append(r.Notes, fmt.Sprintf("two-sided exhaustive blocks: %d pairs, screened in a child process first (%d killed it)", len(pairs), len(crashed)))
	}

	// shared type nodes: Go types are graphs — the checker hands out the environment's own *Type for an identifier, so
	// one node can occur several times inside a type; Equals / Unify must treat such a DAG as the tree it denotes.
	{
		gs := &tyGen{r: r, vars: []string{"a"}, names: []string{"x", "y", "z"}}
		ns := 400
		if r.Tier == "thorough" {
			ns = 20000
		}
		for i := 0; i < ns; i++ {
			t := gs.gen(1 + r.Rng.Intn(2))
			t2 := t
			t = fixKeys(t)
			if r.Rng.Intn(3) != 0 {
				t2 = fixKeys(gs.mutate(t))
			}
			sh := t.Go() // ONE node used in several places
			var gx, gy *types.Type
			var tx, ty *T
			switch r.Rng.Intn(4) {
			case 0:
				gx = types.Obj([]types.Field{{Name: "a", Val: sh}, {Name: "b", Val: sh}})
				tx = &T{K: "obj", Fn: []string{"a", "b"}, Sub: []*T{t, t}}
				ty = &T{K: "obj", Fn: []string{"a", "b"}, Sub: []*T{t, t2}}
			case 1:
				gx = types.Tuple([]*types.Type{sh, sh, sh})
				tx = tp("tuple", t, t, t)
				ty = tp("tuple", t, t, t2)
			case 2:
				gx = types.List(types.Obj([]types.Field{{Name: "p", Val: sh}, {Name: "q", Val: types.List(sh)}}))
				tx = tp("list", &T{K: "obj", Fn: []string{"p", "q"}, Sub: []*T{t, tp("list", t)}})
				ty = tp("list", &T{K: "obj", Fn: []string{"p", "q"}, Sub: []*T{t, tp("list", t2)}})
			default:
				gx = types.Map(types.Str, types.Tuple([]*types.Type{sh, types.Maybe(sh)}))
				tx = tp("map", tp("str"), tp("tuple", t, tp("maybe", t)))
				ty = tp("map", tp("str"), tp("tuple", t, tp("maybe", t2)))
			}
			gy = ty.Go()
			for _, pr := range [][2]*types.Type{{gx, gy}, {gy, gx}} {
				eq := types.Equals(pr[0], pr[1])
				r.Case(L(A("tyeq"), TySx(pr[0]), TySx(pr[1])), Bool(eq))
				if eq != refEq(tx, ty) && !tx.hasKind("fun") && !ty.hasKind("fun") {
					r.Violate("eq-structural-shared-node", fmt.Sprintf("%s vs %s (left built with one shared node)", tx, ty), fmt.Sprintf("Equals=%v structural=%v", eq, refEq(tx, ty)))
				}
			}
			r.Count("shared-node pairs")
			m := map[string]*types.Type{}
			out := implUnify(gx, gy, m)
			r.Case(L(A("unify"), TySx(gx), TySx(gy), SubstSx(map[string]*types.Type{})), out.Sx())
		}
	}

	// random pairs, deeper, with related (mutated) partners, variables on both sides, initial substitutions
	g := &tyGen{r: r, vars: []string{"a", "b", "c"}, bot: true, top: true, names: []string{"x", "y", "z", "w"}}
	n := 6000
	if r.Tier == "thorough" {
		n = 200000
	}
	for i := 0; i < n; i++ {
		x := g.gen(3)
		var y *T
		switch r.Rng.Intn(3) {
		case 0:
			y = g.gen(3)
		default:
			y = fixKeys(g.mutate(x))
		}
		var init map[string]*T
		if r.Rng.Intn(5) == 0 {
			// an initial substitution that is acyclic by construction: a var may only mention later vars
			init = map[string]*T{}
			gi := &tyGen{r: r, vars: []string{"c"}, bot: true, names: g.names}
			init["a"] = gi.gen(1)
			if r.Rng.Intn(2) == 0 {
				gi.vars = nil
				init["c"] = gi.gen(1)
			}
		}
		if i < 3 {
			r.Sample(fmt.Sprintf("unify %s ~ %s", x, y))
		}
		c17Pair(r, x, y, init)
		if i%4 == 0 {
			// transitivity of equality on a triple of related types
			z := fixKeys(g.mutate(y))
			var gx, gy, gz *types.Type
			if pan, _ := protect(func() { gx, gy, gz = x.Go(), y.Go(), z.Go() }); pan {
				continue
			}
			if types.Equals(gx, gy) && types.Equals(gy, gz) && !types.Equals(gx, gz) {
				r.Violate("eq-trans", fmt.Sprintf("%s, %s, %s", x, y, z), "Equals not transitive")
			}
			// rendering / slotFree correspondence
			r.Case(L(A("tyinfo"), TySx(gz)), L(Bool(types.VerifSlotFree(gz)), Name(gz.String()), A("T")))
		}
		if i%5 == 0 {
			// inferFun: a generated signature applied to generated argument types (variable-free)
			ga := &tyGen{r: r, bot: true, names: g.names}
			np := r.Rng.Intn(3) + 1
			f := &T{K: "fun", Name: "f"}
			args := []*T{}
			for j := 0; j < np; j++ {
				p := g.gen(2)
				for p.hasKind("top") || p.hasKind("bot") || p.hasKind("fun") {
					p = g.gen(2)
				}
				f.Sub = append(f.Sub, p)
				var ar *T
				if r.Rng.Intn(3) == 0 {
					ar = ga.gen(2)
				} else {
					ar = instantiate(r, p, ga)
				}
				for ar.hasKind("fun") {
					ar = ga.gen(2)
				}
				args = append(args, ar)
			}
			ret := g.gen(2)
			for ret.hasKind("top") || ret.hasKind("fun") {
				ret = g.gen(2)
			}
			f.Sub = append(f.Sub, ret)
			gf := f.Go()
			gargs := make([]*types.Type, len(args))
			asx := make([]Sx, len(args))
			for j, ar := range args {
				gargs[j] = ar.Go()
				asx[j] = TySx(gargs[j])
			}
			var res *types.Type
			pan, _ := protect(func() { res = types.VerifInferFun(gf, gargs) })
			var obs Sx
			switch {
			case pan:
				obs = A("panic")
			case res == nil:
				obs = A("fail")
			default:
				ps := []Sx{}
				for _, p := range res.Fun().Param {
					ps = append(ps, TySx(p))
				}
				obs = L(A("ok"), L(LS(ps), TySx(res.Fun().Return)))
				r.Nontrivial("inferfun:" + string(TySx(gf)) + string(LS(asx)))
			}
			r.Count("inferfun:" + string(obs[:3]))
			r.Case(L(A("inferfun"), TySx(gf), LS(asx)), obs)
		}
	}
}

// instantiate replaces the variables of pattern p by generated ground types (consistently), sometimes bottom containers.
func instantiate(r *Run, p *T, ga *tyGen) *T {
	sig := map[string]*T{}
	var rec func(t *T) *T
	rec = func(t *T) *T {
		if t.K == "var" {
			if s, ok := sig[t.Name]; ok {
				return s
			}
			s := ga.gen(1)
			sig[t.Name] = s
			return s
		}
		if (t.K == "list" || t.K == "map") && r.Rng.Intn(6) == 0 {
			if t.K == "list" {
				return tp("list", tp("bot"))
			}
			return tp("map", tp("bot"), tp("bot"))
		}
		if t.K == "map" && t.Sub[0].K == "var" {
			if _, ok := sig[t.Sub[0].Name]; !ok {
				sig[t.Sub[0].Name] = tp([]string{"num", "str", "bool", "time"}[r.Rng.Intn(4)])
			}
		}
		c := &T{K: t.K, Name: t.Name, Fn: t.Fn}
		for _, s := range t.Sub {
			c.Sub = append(c.Sub, rec(s))
		}
		if c.K == "map" && !(c.Sub[0].K == "num" || c.Sub[0].K == "str" || c.Sub[0].K == "bool" || c.Sub[0].K == "time" || c.Sub[0].K == "bot") {
			c.Sub[0] = tp("str")
		}
		return c
	}
	// map-key variables first, so that a key variable is never instantiated by a composite
	var pre func(t *T)
	pre = func(t *T) {
		if t.K == "map" && t.Sub[0].K == "var" {
			if _, ok := sig[t.Sub[0].Name]; !ok {
				sig[t.Sub[0].Name] = tp([]string{"num", "str", "bool", "time"}[r.Rng.Intn(4)])
			}
		}
		for _, s := range t.Sub {
			pre(s)
		}
	}
	pre(p)
	return rec(p)
}

// cyclicBinding: a dependency cycle among the bindings (a variable bound to itself alone counts as unbound).
func cyclicBinding(m map[string]*types.Type) string {
	dep := map[string][]string{}
	var vars func(t *T, acc *[]string)
	vars = func(t *T, acc *[]string) {
		if t.K == "var" {
			*acc = append(*acc, t.Name)
		}
		for _, s := range t.Sub {
			vars(s, acc)
		}
	}
	label := func(k string) string {
		if l, ok := tyVarLabel[k]; ok {
			return l
		}
		return k
	}
	for k, v := range m {
		tv := FromGo(v)
		if tv.K == "var" && tv.Name == label(k) {
			continue
		}
		var acc []string
		vars(tv, &acc)
		dep[label(k)] = acc
	}
	state := map[string]int{}
	var visit func(n string) string
	visit = func(n string) string {
		switch state[n] {
		case 1:
			return n
		case 2:
			return ""
		}
		state[n] = 1
		for _, d := range dep[n] {
			if c := visit(d); c != "" {
				return n + " -> " + c
			}
		}
		state[n] = 2
		return ""
	}
	for k := range dep {
		if c := visit(k); c != "" {
			return c
		}
	}
	return ""
}

// twoSidedPairs: the deterministic two-sided blocks (all of 6^4 small pairs, a stride of 18^4 wider ones).
func twoSidedPairs(seed int64, tier string) [][2]*T {
	a, b := &T{K: "var", Name: "a"}, &T{K: "var", Name: "b"}
	num := tp("num")
	var out [][2]*T
	two := []*T{a, b, num, tp("list", a), tp("list", b), tp("list", num)}
	for _, p1 := range two {
		for _, p2 := range two {
			for _, q1 := range two {
				for _, q2 := range two {
					out = append(out, [2]*T{tp("tuple", p1, p2), tp("tuple", q1, q2)})
				}
			}
		}
	}
	wide := enumTypes(1, []*T{num, a, b}, false)
	stride2 := 1
	if tier == "quick" {
		stride2 = 23
	}
	k2 := int(seed % int64(stride2))
	if k2 < 0 {
		k2 = -k2
	}
	idx2 := 0
	for _, p1 := range wide {
		for _, p2 := range wide {
			for _, q1 := range wide {
				for _, q2 := range wide {
					idx2++
					if idx2%stride2 == k2 {
						out = append(out, [2]*T{tp("tuple", p1, p2), tp("tuple", q1, q2)})
					}
				}
			}
		}
	}
	return out
}

// c17Screen: child mode — unify every two-sided pair from index start on, writing the index to the progress file first.
func c17Screen(seed int64, tier string, start int, prog string) {
	debug.SetMaxStack(32 << 20)
	pairs := twoSidedPairs(seed, tier)
	pf, err := os.Create(prog)
	if err != nil {
		os.Exit(4)
	}
	for i := start; i < len(pairs); i++ {
		pf.WriteAt([]byte(fmt.Sprintf("%-12d", i)), 0)
		gx, gy := pairs[i][0].Go(), pairs[i][1].Go()
		m := map[string]*types.Type{}
		out := implUnify(gx, gy, m)
		if out.cls == "ok" && cyclicBinding(out.m) == "" {
			protect(func() { types.VerifApplySubst(gx, out.m); types.VerifApplySubst(gy, out.m) })
			// a second unification through the same substitution (bindings made earlier are chased again)
			protect(func() { types.Unify(gy, gx, out.m) })
		}
	}
	os.Exit(0)
}
