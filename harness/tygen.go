package main

import (
	"sort"

	"github.com/goghcrow/yae/types"
)

// T is the harness's own tree view of a type (independent of the implementation's representation).
type T struct {
	K    string // top bot var num str bool time tuple list map obj fun maybe
	Name string // var / fun name
	Sub  []*T   // tuple elems; list/maybe: [e]; map: [k v]; obj: field types; fun: params..., ret last
	Fn   []string
}

func tp(k string, sub ...*T) *T { return &T{K: k, Sub: sub} }

var tyVarCache = map[string]*types.Type{}
var tyVarLabel = map[string]string{}

// goVar returns the implementation's type variable for label a (types.TyVar appends a process-wide counter).
func goVar(label string) *types.Type {
	if v, ok := tyVarCache[label]; ok {
		return v
	}
	v := types.TyVar(label)
	tyVarCache[label] = v
	tyVarLabel[v.TyVar().Name] = label
	return v
}

func (t *T) Go() *types.Type {
	switch t.K {
	case "top":
		return types.Top
	case "bot":
		return types.Bottom
	case "num":
		return types.Num
	case "str":
		return types.Str
	case "bool":
		return types.Bool
	case "time":
		return types.Time
	case "var":
		return goVar(t.Name)
	case "list":
		return types.List(t.Sub[0].Go())
	case "maybe":
		return types.Maybe(t.Sub[0].Go())
	case "map":
		return types.Map(t.Sub[0].Go(), t.Sub[1].Go())
	case "tuple":
		xs := make([]*types.Type, len(t.Sub))
		for i, s := range t.Sub {
			xs[i] = s.Go()
		}
		return types.Tuple(xs)
	case "obj":
		fs := make([]types.Field, len(t.Fn))
		for i := range t.Fn {
			fs[i] = types.Field{Name: t.Fn[i], Val: t.Sub[i].Go()}
		}
		return types.Obj(fs)
	case "fun":
		n := len(t.Sub) - 1
		ps := make([]*types.Type, n)
		for i := 0; i < n; i++ {
			ps[i] = t.Sub[i].Go()
		}
		return types.Fun(t.Name, ps, t.Sub[n].Go())
	}
	panic("T.Go " + t.K)
}

// TySx encodes an implementation type by walking its exported fields.
func TySx(t *types.Type) Sx {
	if t == nil {
		return A("nil")
	}
	switch t.Kind {
	case types.KTop:
		return A("top")
	case types.KBot:
		return A("bot")
	case types.KNum:
		return A("num")
	case types.KStr:
		return A("str")
	case types.KBool:
		return A("bool")
	case types.KTime:
		return A("time")
	case types.KTyVar:
		return L(A("var"), Name(t.TyVar().Name))
	case types.KList:
		return L(A("list"), TySx(t.List().El))
	case types.KMaybe:
		return L(A("maybe"), TySx(t.Maybe().Elem))
	case types.KMap:
		return L(A("map"), TySx(t.Map().Key), TySx(t.Map().Val))
	case types.KObj:
		xs := []Sx{A("obj")}
		for _, f := range t.Obj().Fields {
			xs = append(xs, L(Name(f.Name), TySx(f.Val)))
		}
		return LS(xs)
	case types.KFun:
		ps := []Sx{}
		for _, p := range t.Fun().Param {
			ps = append(ps, TySx(p))
		}
		return L(A("fun"), Name(t.Fun().Name), LS(ps), TySx(t.Fun().Return))
	default: // tuple (unexported kind)
		xs := []Sx{A("tuple")}
		for _, e := range t.Tuple().Val {
			xs = append(xs, TySx(e))
		}
		return LS(xs)
	}
}

func SubstSx(m map[string]*types.Type) Sx {
	ks := make([]string, 0, len(m))
	for k := range m {
		ks = append(ks, k)
	}
	sort.Strings(ks)
	xs := make([]Sx, len(ks))
	for i, k := range ks {
		xs[i] = L(Name(k), TySx(m[k]))
	}
	return LS(xs)
}

// ---------- reference predicates on T (the property's own vocabulary) ----------

func fieldIdx(fn []string, f string) int {
	for k, g := range fn {
		if g == f {
			return k
		}
	}
	return -1
}

// refEq: structural identity with object fields compared by name.  Function names are not part of a type's identity
// for the checker (calls are resolved by name before types are compared).
func refEq(a, b *T) bool {
	if a.K != b.K {
		return false
	}
	switch a.K {
	case "var":
		return a.Name == b.Name
	case "obj":
		if len(a.Fn) != len(b.Fn) {
			return false
		}
		for i, f := range a.Fn {
			j := fieldIdx(b.Fn, f)
			if j < 0 || !refEq(a.Sub[i], b.Sub[j]) {
				return false
			}
		}
		return true
	}
	if len(a.Sub) != len(b.Sub) {
		return false
	}
	for i := range a.Sub {
		if !refEq(a.Sub[i], b.Sub[i]) {
			return false
		}
	}
	return true
}

func (t *T) hasKind(k string) bool {
	if t.K == k {
		return true
	}
	for _, s := range t.Sub {
		if s.hasKind(k) {
			return true
		}
	}
	return false
}

func (t *T) String() string { return string(TySx(t.Go())) }

func (t *T) size() int {
	n := 1
	for _, s := range t.Sub {
		n += s.size()
	}
	return n
}

// FromGo rebuilds the harness view from an implementation type (labels = implementation variable names).
func FromGo(t *types.Type) *T {
	switch t.Kind {
	case types.KTop:
		return tp("top")
	case types.KBot:
		return tp("bot")
	case types.KNum:
		return tp("num")
	case types.KStr:
		return tp("str")
	case types.KBool:
		return tp("bool")
	case types.KTime:
		return tp("time")
	case types.KTyVar:
		if l, ok := tyVarLabel[t.TyVar().Name]; ok {
			return &T{K: "var", Name: l}
		}
		return &T{K: "var", Name: "?" + t.TyVar().Name}
	case types.KList:
		return tp("list", FromGo(t.List().El))
	case types.KMaybe:
		return tp("maybe", FromGo(t.Maybe().Elem))
	case types.KMap:
		return tp("map", FromGo(t.Map().Key), FromGo(t.Map().Val))
	case types.KObj:
		r := &T{K: "obj"}
		for _, f := range t.Obj().Fields {
			r.Fn = append(r.Fn, f.Name)
			r.Sub = append(r.Sub, FromGo(f.Val))
		}
		return r
	case types.KFun:
		r := &T{K: "fun", Name: t.Fun().Name}
		for _, p := range t.Fun().Param {
			r.Sub = append(r.Sub, FromGo(p))
		}
		r.Sub = append(r.Sub, FromGo(t.Fun().Return))
		return r
	default:
		r := &T{K: "tuple"}
		for _, e := range t.Tuple().Val {
			r.Sub = append(r.Sub, FromGo(e))
		}
		return r
	}
}
