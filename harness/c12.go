package main

// C12 — the public API is total: a value or an error, promptly, for every input.
// Direct predicate: Eval, Compile, the returned Callable and Debug return (value, error) — no panic crosses the API
// boundary — within a per-input time budget, for arbitrary source strings and host values.

import (
	"bytes"
	"fmt"
	"os"
	"os/exec"
	"path/filepath"
	"runtime/debug"
	"strings"
	"time"

	yae "github.com/goghcrow/yae"
)

func init() { props["C12"] = runC12 }

type hostCyclic struct {
	Next *hostCyclic `yae:"next,maybe"`
	V    int         `yae:"v"`
}

type hostOrder struct {
	ID       int           `yae:"id"`
	Customer *hostCustomer `yae:"customer"`
}

type hostCustomer struct {
	Name string      `yae:"name"`
	Last *hostOrder  `yae:"last"`
	Any  interface{} `yae:"any"`
}

type hostTree struct {
	V    int         `yae:"v"`
	Kids []*hostTree `yae:"kids"`
}

func c12Hosts() []interface{} {
	type in struct {
		P float64 `yae:"p"`
	}
	type st struct {
		X  int                    `yae:"x"`
		S  string                 `yae:"s"`
		Xs []float64              `yae:"xs"`
		M  map[string]float64     `yae:"m"`
		I  interface{}            `yae:"i"`
		Pt *in                    `yae:"pt,maybe"`
		Np *in                    `yae:"np"`
		Ch chan int               `yae:"ch"`
		Mi map[string]interface{} `yae:"mi"`
	}
	cyc := &hostCyclic{V: 1}
	cyc.Next = cyc
	var nilp *st
	order := &hostOrder{ID: 7, Customer: &hostCustomer{Name: "c"}}
	order.Customer.Last = order // back-reference: a cycle made of struct-field hops only
	viaIface := &hostCustomer{Name: "i"}
	viaIface.Any = viaIface // cycle through an interface-typed field
	tree := &hostTree{V: 1}
	tree.Kids = []*hostTree{tree} // cycle through a slice element
	ringMap := map[string]interface{}{}
	ringMap["self"] = ringMap // cycle through a map value
	a2, b2 := &hostCyclic{V: 1}, &hostCyclic{V: 2}
	a2.Next, b2.Next = b2, a2 // two-node ring
	deep := map[string]interface{}{}
	cur := deep
	for i := 0; i < 150; i++ {
		nx := map[string]interface{}{}
		cur["d"] = nx
		cur = nx
	}
	cur["d"] = 1
	return []interface{}{
		nil, 1, "s", nilp, &nilp, st{}, &st{X: 1, I: 2, Np: &in{1}, Mi: map[string]interface{}{"a": 1, "b": "x"}},
		st{I: []interface{}{1, "a"}}, map[string]interface{}{"x": 1, "f": func() {}}, map[string]interface{}{"x": []interface{}{1, "a"}},
		map[int]int{1: 2}, []int{1}, struct{ A, B int }{1, 2}, struct {
			A int `yae:"a"`
			B int `yae:"a"`
		}{1, 2}, cyc, order, *order, viaIface, tree, ringMap, a2, map[string]interface{}{"x": order}, deep, map[string]interface{}{"x": map[string]interface{}{}}, map[string]interface{}{"x": []int(nil)},
		struct{ U uint64 }{1 << 63}, struct{ C complex128 }{1}, map[string]interface{}{"x": 1.5, "s": "héllo", "xs": []float64{1, 2}, "m": map[string]float64{"k": 1}},
	}
}

func c12Class(src string, stage string, msg string) string {
	switch {
	case stage == "callable" || stage == "eval-run":
		return "panic-escapes:callable"
	}
	return "panic-escapes:" + stage
}

func c12One(r *Run, src string, host interface{}, hostName string, budget time.Duration) {
	what := fmt.Sprintf("%q host=%s", trunc(src, 160), hostName)
	r.Mark("Eval / Compile / Callable / Debug on " + what)
	t0 := time.Now()
	// Eval
	if pan, msg := protect(func() { yae.Eval(src, host) }); pan {
		r.Violate("panic-escapes:eval", what, firstLine(msg))
	}
	// Compile + Callable
	var cl yae.Callable
	var err error
	if pan, msg := protect(func() { cl, err = yae.NewExpr().Compile(src, host) }); pan {
		r.Violate("panic-escapes:compile", what, firstLine(msg))
	} else if err == nil && cl != nil {
		r.Count("compiled")
		if pan, msg := protect(func() { cl(host) }); pan {
			r.Violate("panic-escapes:callable", what, firstLine(msg))
		}
	} else {
		r.Count("compile-error")
	}
	// Debug
	if pan, msg := protect(func() { yae.Debug(src, host) }); pan {
		r.Violate("panic-escapes:debug", what, firstLine(msg))
	}
	// the budget grows quadratically with the input beyond 200 runes (the property allows polynomial growth)
	if n := len([]rune(src)); n > 200 {
		budget = budget * time.Duration(n*n) / (200 * 200)
	}
	if d := time.Since(t0); d > budget {
		k := "time-budget"
		if strings.Count(src, "[") > 12 {
			k = "time-budget:nested-brackets"
		}
		r.Violate(k, what, fmt.Sprintf("%v for %d runes (budget %v)", d.Round(time.Millisecond), len([]rune(src)), budget))
	}
}

// c12Api: correspondence of the API level (Compile + Callable over raw environments) with Model/Api.v
func c12Api(r *Run, src string) {
	vals := stdValues()
	var obs Sx
	pan, _ := protect(func() {
		cl, err := yae.NewExpr().Compile(src, typeEnvOf(stdVars))
		if err != nil {
			obs = A("err")
			return
		}
		v, err := cl(valEnvOf(vals))
		if err != nil {
			obs = A("err")
			return
		}
		obs = L(A("ok"), ValSx(v))
	})
	if pan {
		obs = A("escaped")
	}
	h := historyFor(false)
	r.Case(LS([]Sx{A("apieval"), h.Sx(), tenvSx(stdVars), venvSx(stdVars, vals), oraclesSx(src, vals), Runes(src)}), obs)
}

func trunc(s string, n int) string {
	if len(s) > n {
		return s[:n] + "..."
	}
	return s
}

func runC12(r *Run) {
	hosts := c12Hosts()
	good := hosts[len(hosts)-1]
	budget := 400 * time.Millisecond
	corpus := []string{`[1,2][5]`, `5 % 0`, `match("[", "a")`, `m["zz"]`, `xs[7]`, `x + `, ``, ` `, `((((`, `1 +* 2`, `"unterminated`, `'x`, "`", `a.`, `.`, `?`, `x ? 1`, `[1,`, `{a:`, `f(`,
		`1e999`, `0x8000000000000000`, `"\/"`, `1.2.3`, "x\n+\n1", `xs[0/0]`, `xs[1e308*10]`, `get(xs, 0/0, 1)`, `string(0/0)`, `max([])`, `strtotime("garbage")`, `'garbage'`,
		`'2020-01-02 03:04:05' - 'x'`, `x.y.z`, `s.len().abs()`, `(x)(1)`, `x(1)`, `[[[[[[[[1]]]]]]]]`,
		"x + 1\n", "\nx + 1", "  x + 1 \r\n  ", "x +\n1", "x + 1\n\n", "\t\nx", "x\r", "1\n", "\"a\nb\"", "len(\"a\nb\")\n", "x + 1 ", " x", "x\u2028", "x\u0085"}
	for _, c := range corpus {
		c12One(r, c, good, "map", budget)
		c12Api(r, c)
		r.Sample(c)
	}
	// every hostile host value first in a CHILD process: a runaway reflective walk ends in a fatal stack overflow, which
	// no recover can turn into an error and which would take this process down with it
	crashed := map[int]bool{}
	for i, h := range hosts {
		cmd := exec.Command(os.Args[0], "C12child", fmt.Sprint(i))
		var eb bytes.Buffer
		cmd.Stderr = &eb
		done := make(chan error, 1)
		if err := cmd.Start(); err != nil {
			continue
		}
		go func() { done <- cmd.Wait() }()
		select {
		case err := <-done:
			if err != nil {
				crashed[i] = true
				line := firstLine(eb.String())
				for _, l := range strings.Split(eb.String(), "\n") {
					if strings.HasPrefix(l, "fatal error") || strings.HasPrefix(l, "panic:") {
						line = l
						break
					}
				}
				r.Violate("process-crash:host-value", fmt.Sprintf("host#%d(%T) passed to Eval / Compile / Callable / Debug", i, h), fmt.Sprintf("child process died: %v: %s", err, line))
			}
		case <-time.After(90 * time.Second):
			cmd.Process.Kill()
			crashed[i] = true
			r.Violate("time-budget:host-value", fmt.Sprintf("host#%d(%T)", i, h), "child process still running after 90 s")
		}
		r.Count("host values probed in a child process")
	}
	for i, h := range hosts {
		if crashed[i] {
			continue
		}
		for _, c := range []string{`x`, `1`, `x + 1`, `next`, `d`, `v`, `i`, `a`} {
			c12One(r, c, h, fmt.Sprintf("host#%d(%T)", i, h), budget)
		}
	}
	// bracket nests: the list-or-map alternative re-parses its first element
	depths := []int{4, 8, 12, 16, 18, 20}
	if r.Tier == "thorough" {
		depths = append(depths, 22, 24, 60, 100, 200, 1000, 5000)
	}
	// every nest first in a CHILD process with a time limit: a front end that is exponential in the nesting depth would
	// otherwise stall this process for ever
	nest := func(src string) {
		f := filepath.Join(r.OutDir, "c12src.txt")
		os.WriteFile(f, []byte(src), 0o644)
		cmd := exec.Command(os.Args[0], "C12src", f)
		done := make(chan error, 1)
		if err := cmd.Start(); err != nil {
			return
		}
		go func() { done <- cmd.Wait() }()
		limit := 20 * time.Second
		if n := len([]rune(src)); n > 2000 {
			limit = 120 * time.Second
		}
		select {
		case err := <-done:
			if err != nil {
				r.Violate("process-crash:source", fmt.Sprintf("%q (%d runes)", trunc(src, 120), len([]rune(src))), fmt.Sprintf("child process died: %v", err))
				return
			}
		case <-time.After(limit):
			cmd.Process.Kill()
			r.Violate("time-budget:source", fmt.Sprintf("%q (%d runes)", trunc(src, 120), len([]rune(src))), fmt.Sprintf("Eval / Compile / Debug did not return within %v", limit))
			return
		}
		r.Count("nests probed in a child process")
		c12One(r, src, good, "map", budget)
	}
	for _, d := range depths {
		if d > 200 { // the chains below are probed up to depth 200; deeper only the bracket / parenthesis nests
			continue
		}
		nest("x" + strings.Repeat(".abs()", d*2))
		nest("s" + strings.Repeat(".len().string()", d))
		nest(strings.Repeat("abs(", d*2) + "x" + strings.Repeat(")", d*2))
		nest("xs" + strings.Repeat(".get(0, 1).max(2)", d) + " + xs[0]")
		nest("m" + strings.Repeat("[\"k\"].string().len()", 1) + strings.Repeat(" + x.abs().abs()", d))
		nest(strings.Repeat("!", d*3) + "(x > 1)")
		nest(strings.Repeat("(x > 0 ? ", d) + "1" + strings.Repeat(" : 2)", d))
	}
	for _, d := range depths {
		c12One(r, strings.Repeat("[", d)+"1:1"+strings.Repeat("]:1", d-1)+"]", good, "map", budget)
		c12One(r, strings.Repeat("[", d)+"1"+strings.Repeat("]", d), good, "map", budget)
		c12One(r, strings.Repeat("(", d*10)+"1"+strings.Repeat(")", d*10), good, "map", budget)
		c12One(r, strings.Repeat("-", d*10)+"1", good, "map", budget)
		c12One(r, strings.Repeat("{a:", d)+"1"+strings.Repeat("}", d), good, "map", budget)
		if d <= 24 { // the debug renderer is cubic in the number of recorded values: 480 terms take seconds, 4000 an hour
			c12One(r, "x"+strings.Repeat(" + x", d*20), good, "map", budget)
		}
		c12One(r, strings.Repeat("if(true, ", d)+"1"+strings.Repeat(", 2)", d), good, "map", budget)
	}
	n := 1200
	if r.Tier == "thorough" {
		n = 25000
	}
	frags := []string{"x", "s", "xs", "m", "1", "2.5", "\"a\"", "true", "+", "-", "*", "/", "%", "^", "<", "==", "&&", "||", "!", "?", ":", ".", ",", "(", ")", "[", "]", "{", "}", " ", "len", "get", "if", "string", "match", "'", "`", "\"", "\\", "é", "\n", "0x", "1e", "@", "#"}
	for i := 0; i < n; i++ {
		var b strings.Builder
		switch r.Rng.Intn(3) {
		case 0: // random runes
			k := r.Rng.Intn(24)
			for j := 0; j < k; j++ {
				b.WriteRune(rune(r.Rng.Intn(0x250)))
			}
		case 1: // fragments
			k := 1 + r.Rng.Intn(14)
			for j := 0; j < k; j++ {
				b.WriteString(frags[r.Rng.Intn(len(frags))])
			}
		default: // token mutation of a valid program
			g := &progGen{r: r, vars: []envVar{{"x", tnum()}, {"s", tstr()}, {"xs", tlist(tnum())}, {"m", tmap(tstr(), tnum())}}}
			src := g.Gen(g.randType(1), 1+r.Rng.Intn(3))
			rs := []rune(src)
			if len(rs) > 0 {
				k := r.Rng.Intn(len(rs))
				switch r.Rng.Intn(3) {
				case 0:
					rs = append(rs[:k], rs[k+1:]...)
				case 1:
					rs = append(rs[:k], append([]rune{rs[k]}, rs[k:]...)...)
				default:
					rs[k] = []rune(frags[r.Rng.Intn(len(frags))])[0]
				}
			}
			b.WriteString(string(rs))
		}
		src := b.String()
		r.Nontrivial(src)
		c12One(r, src, good, "map", budget)
		c12Api(r, src)
	}
}

// c12Child: run the four API entry points on hostile host value #i and exit 0 (see runC12).
func c12Child(i int) {
	debug.SetMaxStack(64 << 20)
	hosts := c12Hosts()
	if i < 0 || i >= len(hosts) {
		os.Exit(3)
	}
	h := hosts[i]
	for _, src := range []string{`1`, `x`, `id + 1`, `v`, `name`} {
		protect(func() { yae.Eval(src, h) })
		var cl yae.Callable
		var err error
		protect(func() { cl, err = yae.NewExpr().Compile(src, h) })
		if err == nil && cl != nil {
			protect(func() { cl(h) })
		}
		protect(func() { yae.Debug(src, h) })
	}
	// compiled against ordinary data, invoked with the hostile value
	var cl yae.Callable
	protect(func() { cl, _ = yae.NewExpr().Compile(`1`, map[string]interface{}{}) })
	if cl != nil {
		protect(func() { cl(h) })
	}
	os.Exit(0)
}

// c12Src: run the API entry points on the source in the given file over the ordinary host value and exit 0.
func c12Src(file string) {
	b, err := os.ReadFile(file)
	if err != nil {
		os.Exit(3)
	}
	src := string(b)
	hosts := c12Hosts()
	good := hosts[len(hosts)-1]
	protect(func() { yae.Eval(src, good) })
	protect(func() {
		cl, err := yae.NewExpr().Compile(src, good)
		if err == nil && cl != nil {
			cl(good)
		}
	})
	protect(func() { yae.NewExpr().UseClosureCompiler().Compile(src, good) })
	protect(func() { yae.Debug(src, good) })
	os.Exit(0)
}
