package main

// C14 — the part of the check that runs without the race detector: sequential re-runs of the racer's operation mix to
// make sure the baseline itself is deterministic (the concurrent search is harness/cmd/racer, built with -race and driven
// by ./check).

import (
	"fmt"

	yae "github.com/goghcrow/yae"
)

func init() { props["C14"] = runC14 }

func runC14(r *Run) {
	progs := []string{`x + y * 2`, `len(xs) + max(xs)`, `if(x > 1, "a", "b")`, `get(xs, 1, 0) + get(m, "k", 0)`, `union(xs, [4, 5]) == [1, 2, 3, 4, 5]`,
		`string([x, y]) + s`, `{p: x, q: s}.p + o.p`, `x > 0 && y > 0 || len(s) == 0`, `[] == []`, `isset(m, "k")`}
	for _, p := range progs {
		first := ""
		for k := 0; k < 5; k++ {
			e := yae.NewExpr()
			out := runOn("vm-switch", p, stdVars, stdValues(), false)
			_ = e
			s := string(out.Sx())
			if k == 0 {
				first = s
				r.Nontrivial(p)
				r.Sample(p)
			} else if s != first {
				r.Violate("sequential-baseline-unstable", fmt.Sprintf("%q", p), "two sequential runs differ")
			}
			r.Count("baseline-run")
		}
	}
}
