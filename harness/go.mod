module verifharness

go 1.17

require github.com/goghcrow/yae v0.0.0

replace github.com/goghcrow/yae => /repo
