package main

// Type-directed generator of source programs over a fixed environment (variables, user-registered functions),
// with a switch that breaks typing at a random position.  Shared by the checker and evaluation properties.

import (
	"fmt"
	"strings"
)

func tnum() *T        { return tp("num") }
func tstr() *T        { return tp("str") }
func tbool() *T       { return tp("bool") }
func ttime() *T       { return tp("time") }
func tlist(e *T) *T   { return tp("list", e) }
func tmap(k, v *T) *T { return tp("map", k, v) }
func tmaybe(e *T) *T  { return tp("maybe", e) }
func tobj(kv ...interface{}) *T {
	o := &T{K: "obj"}
	for i := 0; i < len(kv); i += 2 {
		o.Fn = append(o.Fn, kv[i].(string))
		o.Sub = append(o.Sub, kv[i+1].(*T))
	}
	return o
}

type envVar struct {
	Name string
	Ty   *T
}

type userFn struct {
	Name   string
	Params []*T
	Ret    *T
	Lazy   bool
}

func tv(n string) *T { return &T{K: "var", Name: n} }

var pq = tobj("p", tnum(), "q", tstr())
var qp = tobj("q", tstr(), "p", tnum())

var stdVars = []envVar{
	{"x", tnum()}, {"y", tnum()}, {"z", tnum()}, {"big", tnum()},
	{"s", tstr()}, {"e", tstr()}, {"b", tbool()}, {"f", tbool()}, {"t0", ttime()}, {"t1", ttime()},
	{"xs", tlist(tnum())}, {"es", tlist(tnum())}, {"ss", tlist(tstr())},
	{"m", tmap(tstr(), tnum())}, {"mn", tmap(tnum(), tstr())}, {"em", tmap(tstr(), tnum())},
	{"o", pq}, {"o2", qp}, {"os", tlist(pq)},
	{"mb", tmaybe(tnum())}, {"mz", tmaybe(tnum())}, {"mo", tmaybe(tobj("p", tnum()))},
	{"nest", tobj("in", tobj("p", tnum()), "l", tlist(tnum()), "mb", tmaybe(tstr()))},
	{"lm", tlist(tmaybe(tnum()))},
}

var stdFns = []userFn{
	{"inc", []*T{tnum()}, tnum(), false},
	{"area", []*T{tobj("w", tnum(), "h", tnum())}, tnum(), false},
	{"ident", []*T{tv("A")}, tv("A"), false},
	{"pick", []*T{tlist(tnum()), tv("A")}, tv("A"), false},
	{"pick", []*T{tlist(tv("A")), tv("B")}, tv("B"), false},
	{"lazyif", []*T{tbool(), tv("A"), tv("A")}, tv("A"), true},
	{"both", []*T{tbool(), tbool()}, tbool(), true},
	{"tr", []*T{tnum()}, tnum(), false},
	{"trs", []*T{tstr()}, tstr(), false},
	{"trb", []*T{tbool()}, tbool(), false},
	{"boom", []*T{tnum()}, tnum(), false},
}

type progGen struct {
	r      *Run
	vars   []envVar
	fns    []userFn
	poison int  // >0: break typing somewhere (decremented when used)
	useFns bool // allow calls to user functions
	trace  bool // sprinkle tracing calls tr/trs/trb
	noFail bool // avoid partial operations (subscripts, %, match, boom)
}

func (g *progGen) rn(n int) int { return g.r.Rng.Intn(n) }

func (g *progGen) varsOf(t *T) []string {
	var out []string
	for _, v := range g.vars {
		if refEq(v.Ty, t) {
			out = append(out, v.Name)
		}
	}
	return out
}

func (g *progGen) randType(d int) *T {
	if d == 0 || g.rn(3) > 0 {
		return []*T{tnum(), tnum(), tstr(), tbool(), ttime()}[g.rn(5)]
	}
	switch g.rn(5) {
	case 0:
		return tlist(g.randType(d - 1))
	case 1:
		return tmap([]*T{tstr(), tnum(), tbool()}[g.rn(3)], g.randType(d-1))
	case 2:
		return tobj("p", g.randType(d-1), "q", g.randType(d-1))
	case 3:
		return tobj("q", tstr(), "p", tnum())
	default:
		return tmaybe(tnum())
	}
}

func numLit(g *progGen) string {
	return []string{"0", "1", "2", "3", "10", "0.5", "2.5", "1e3", "1.5e-3", "0x1f", "0b101", "0o17", "9007199254740993", "1e19", "4294967296", "0.1", "0.2", "0.30000000000000004", "1e-9", "1e-10"}[g.rn(20)]
}

func strLit(g *progGen) string {
	return []string{`""`, `"a"`, `"héllo"`, `"x\ty"`, `"q\"r"`, "`raw`", `"é"`, `"a b"`, `"k"`, `"j"`, `"^a.*"`, `"["`}[g.rn(12)]
}

// Gen returns source text of type t (when g.poison == 0).
func (g *progGen) Gen(t *T, d int) string {
	if g.poison > 0 && g.rn(6) == 0 {
		g.poison--
		// break typing: an expression of some other type
		for {
			o := g.randType(1)
			if !refEq(o, t) {
				return g.Gen(o, d)
			}
		}
	}
	if g.trace && d > 0 && g.rn(5) == 0 {
		switch t.K {
		case "num":
			return "tr(" + g.Gen(t, d-1) + ")"
		case "str":
			return "trs(" + g.Gen(t, d-1) + ")"
		case "bool":
			return "trb(" + g.Gen(t, d-1) + ")"
		}
	}
	vs := g.varsOf(t)
	if len(vs) > 0 && (d == 0 || g.rn(4) == 0) {
		return vs[g.rn(len(vs))]
	}
	p := func(s string) string { return "(" + s + ")" }
	sub := func(t *T) string { return g.Gen(t, d-1) }
	if d <= 0 {
		return g.leaf(t)
	}
	// generic forms available at every type
	switch g.rn(14) {
	case 0:
		return "if(" + sub(tbool()) + ", " + sub(t) + ", " + sub(t) + ")"
	case 1:
		return p(sub(tbool())) + " ? " + p(sub(t)) + " : " + p(sub(t))
	case 2:
		if !g.noFail {
			return p(g.Gen(tlist(t), d-1)) + "[" + sub(tnum()) + "]"
		}
	case 3:
		return "get(" + g.Gen(tlist(t), d-1) + ", " + sub(tnum()) + ", " + sub(t) + ")"
	case 4:
		k := []*T{tstr(), tnum()}[g.rn(2)]
		return "get(" + g.Gen(tmap(k, t), d-1) + ", " + sub(k) + ", " + sub(t) + ")"
	case 5:
		if !g.noFail {
			k := []*T{tstr(), tnum()}[g.rn(2)]
			return p(g.Gen(tmap(k, t), d-1)) + "[" + sub(k) + "]"
		}
	case 6:
		return "get(" + g.Gen(tmaybe(t), d-1) + ", " + sub(t) + ")"
	case 7:
		// member of an object literal / variable with a field of this type
		o := tobj("p", g.randType(0), "v", t)
		if g.rn(2) == 0 {
			o = tobj("v", t, "p", g.randType(0))
		}
		return p(g.Gen(o, d-1)) + ".v"
	case 8:
		if g.useFns {
			switch g.rn(4) {
			case 0:
				return "ident(" + sub(t) + ")"
			case 1:
				return "lazyif(" + sub(tbool()) + ", " + sub(t) + ", " + sub(t) + ")"
			case 2:
				return "pick(" + g.Gen(tlist(g.randType(0)), d-1) + ", " + sub(t) + ")"
			default:
				return sub(t) + ".ident()"
			}
		}
	case 9:
		if t.K != "obj" && t.K != "maybe" {
			return "print(" + sub(t) + ")"
		}
	}
	switch t.K {
	case "num":
		a, b := sub(t), sub(t)
		switch g.rn(22) {
		case 0:
			return p(a) + " + " + p(b)
		case 1:
			return p(a) + " - " + p(b)
		case 2:
			return p(a) + " * " + p(b)
		case 3:
			return p(a) + " / " + p(b)
		case 4:
			if !g.noFail {
				return p(a) + " % " + p(b)
			}
			return "-" + p(a)
		case 5:
			return "-" + p(a)
		case 6:
			return "+" + p(a)
		case 7:
			return []string{"abs", "ceil", "floor", "round"}[g.rn(4)] + "(" + a + ")"
		case 8:
			return []string{"max", "min"}[g.rn(2)] + "(" + a + ", " + b + ")"
		case 9:
			return []string{"max", "min"}[g.rn(2)] + "(" + g.Gen(tlist(tnum()), d-1) + ")"
		case 10:
			return "len(" + g.Gen([]*T{tstr(), tlist(g.randType(0)), tmap(tstr(), tnum())}[g.rn(3)], d-1) + ")"
		case 11:
			return p(sub(ttime())) + " - " + p(sub(ttime()))
		case 12:
			return p(a) + " ^ " + []string{"2", "0.5", "0", "-1", "3"}[g.rn(5)]
		case 13:
			if g.useFns {
				return "inc(" + a + ")"
			}
		case 14:
			if g.useFns {
				if g.rn(2) == 0 {
					return "area({w: " + a + ", h: " + b + "})"
				}
				return "area({h: " + a + ", w: " + b + "})"
			}
		case 15:
			if g.useFns && !g.noFail && g.rn(4) == 0 {
				return "boom(" + a + ")"
			}
		case 16:
			return a + ".max(" + b + ")"
		}
		return g.leaf(t)
	case "str":
		switch g.rn(5) {
		case 0:
			return p(sub(t)) + " + " + p(sub(t))
		case 1:
			return "string(" + g.Gen(g.randType(1), d-1) + ")"
		}
		return g.leaf(t)
	case "bool":
		switch g.rn(16) {
		case 0, 1:
			n := tnum()
			return p(sub(n)) + " " + []string{"<", "<=", ">", ">=", "==", "!="}[g.rn(6)] + " " + p(sub(n))
		case 2:
			o := []*T{tstr(), tbool(), ttime(), tlist(tnum()), tmap(tstr(), tnum())}[g.rn(5)]
			return p(g.Gen(o, d-1)) + " " + []string{"==", "!="}[g.rn(2)] + " " + p(g.Gen(o, d-1))
		case 3:
			return p(sub(ttime())) + " " + []string{"<", "<=", ">", ">="}[g.rn(4)] + " " + p(sub(ttime()))
		case 4:
			return p(sub(t)) + " " + []string{"&&", "||", "and", "or"}[g.rn(4)] + " " + p(sub(t))
		case 5:
			return []string{"!", "not "}[g.rn(2)] + p(sub(t))
		case 6:
			k := []*T{tstr(), tnum()}[g.rn(2)]
			return "isset(" + g.Gen(tmap(k, g.randType(0)), d-1) + ", " + sub(k) + ")"
		case 7:
			if !g.noFail {
				return "match(" + g.leaf(tstr()) + ", " + g.leaf(tstr()) + ")"
			}
		case 8:
			if g.useFns {
				return "both(" + sub(t) + ", " + sub(t) + ")"
			}
		case 9:
			// guarded partial operation
			return "if(isset(m, " + sub(tstr()) + "), m[" + `"k"` + "] > 0, " + sub(t) + ")"
		}
		return g.leaf(t)
	case "time":
		if g.rn(3) == 0 {
			return "strtotime(" + []string{`"2020-01-02 03:04:05"`, `"1970-01-01 00:00:00"`, `"2001-09-09 01:46:40"`}[g.rn(3)] + ")"
		}
		return g.leaf(t)
	case "list":
		switch g.rn(6) {
		case 0:
			return []string{"union", "intersect", "diff"}[g.rn(3)] + "(" + sub(t) + ", " + sub(t) + ")"
		}
		n := g.rn(4)
		if n == 0 && g.rn(2) == 0 {
			return "[]"
		}
		xs := make([]string, n+1)
		for i := range xs {
			xs[i] = g.Gen(t.Sub[0], d-1)
		}
		return "[" + strings.Join(xs, ", ") + "]"
	case "map":
		n := g.rn(4)
		if n == 0 {
			if g.rn(2) == 0 {
				return "[:]"
			}
			n = 1
		}
		xs := make([]string, n)
		for i := range xs {
			xs[i] = g.Gen(t.Sub[0], d-1) + ": " + g.Gen(t.Sub[1], d-1)
		}
		return "[" + strings.Join(xs, ", ") + "]"
	case "obj":
		perm := g.r.Rng.Perm(len(t.Fn))
		xs := make([]string, len(perm))
		for i, j := range perm {
			xs[i] = t.Fn[j] + ": " + g.Gen(t.Sub[j], d-1)
		}
		return "{" + strings.Join(xs, ", ") + "}"
	case "maybe":
		return g.leaf(t)
	}
	return g.leaf(t)
}

func (g *progGen) leaf(t *T) string {
	vs := g.varsOf(t)
	if len(vs) > 0 && g.rn(2) == 0 {
		return vs[g.rn(len(vs))]
	}
	switch t.K {
	case "num":
		return numLit(g)
	case "str":
		return strLit(g)
	case "bool":
		return []string{"true", "false"}[g.rn(2)]
	case "time":
		if len(vs) > 0 {
			return vs[g.rn(len(vs))]
		}
		return "'2020-01-02 03:04:05'"
	case "list":
		if g.rn(3) == 0 {
			return "[]"
		}
		return "[" + g.leaf(t.Sub[0]) + "]"
	case "map":
		if g.rn(3) == 0 {
			return "[:]"
		}
		return "[" + g.leaf(t.Sub[0]) + ": " + g.leaf(t.Sub[1]) + "]"
	case "obj":
		perm := g.r.Rng.Perm(len(t.Fn))
		xs := make([]string, len(perm))
		for i, j := range perm {
			xs[i] = t.Fn[j] + ": " + g.leaf(t.Sub[j])
		}
		return "{" + strings.Join(xs, ", ") + "}"
	case "maybe":
		if len(vs) > 0 {
			return vs[g.rn(len(vs))]
		}
		// no variable of this optional type: there is no literal form; fall back to a (wrongly typed) payload
		return g.leaf(t.Sub[0])
	}
	return "0"
}

func fnSx(f userFn) Sx {
	ps := make([]Sx, len(f.Params))
	for i, p := range f.Params {
		ps[i] = TySx(p.Go())
	}
	return L(Name(f.Name), LS(ps), TySx(f.Ret.Go()), Bool(f.Lazy))
}

func tenvSx(vars []envVar) Sx {
	xs := make([]Sx, len(vars))
	for i, v := range vars {
		xs[i] = L(Name(v.Name), TySx(v.Ty.Go()))
	}
	return LS(xs)
}

var _ = fmt.Sprintf

// sharedVarProg: a container literal whose FIRST element mentions one composite-typed variable several times (the checker
// hands out the environment's own *Type node for an identifier, so the element type is a graph with a shared node) and
// whose later element agrees with it at the first use and, when bad, disagrees at a later one.
func (g *progGen) sharedVarProg(bad bool) string {
	var comps []envVar
	for _, v := range g.vars {
		switch v.Ty.K {
		case "list", "map", "obj", "maybe":
			comps = append(comps, v)
		}
	}
	v := comps[g.rn(len(comps))]
	save := g.poison
	g.poison = 0
	good := g.Gen(v.Ty, 1)
	x := g.Gen(v.Ty, 1)
	if bad {
		for {
			o := g.randType(2)
			if !refEq(o, v.Ty) {
				x = g.Gen(o, 1)
				break
			}
		}
	}
	g.poison = save
	V := v.Name
	var s string
	switch g.rn(5) {
	case 0:
		s = fmt.Sprintf("[{a: %s, b: %s}, {a: %s, b: %s}]", V, V, good, x)
	case 1:
		s = fmt.Sprintf("[{a: %s, b: %s}, {b: %s, a: %s}]", V, V, x, good)
	case 2:
		s = fmt.Sprintf("[1: {a: %s, b: %s}, 2: {a: %s, b: %s}]", V, V, good, x)
		if g.rn(2) == 0 {
			return s + "[2].b"
		}
		return s
	case 3:
		s = fmt.Sprintf("[{a: %s, b: {c: %s}}, {a: %s, b: {c: %s}}]", V, V, good, x)
		if g.rn(2) == 0 {
			return s + "[1].b.c"
		}
		return s
	default:
		s = fmt.Sprintf("[{a: %s, b: [%s], c: %s}, {a: %s, b: [%s], c: %s}]", V, V, V, good, good, x)
		if g.rn(2) == 0 {
			return s + "[1].c"
		}
		return s
	}
	if g.rn(2) == 0 {
		return s + "[1].b"
	}
	return s
}

// poolSweep: programs whose final operator is preceded by k distinct constants, so that the operand bytes emitted just
// before it (constant-pool indices of its own operands) sweep over all byte values — where peepholes that look at "the
// last byte emitted" and operand-width boundaries go wrong.
func poolSweep(ks []int, tails []string) []string {
	var out []string
	for _, k := range ks {
		cs := make([]string, k)
		for i := range cs {
			cs[i] = fmt.Sprint(1000 + i)
		}
		pre := "len([" + strings.Join(cs, ", ") + "]) >= 0"
		for _, t := range tails {
			out = append(out, pre+" && "+t)
		}
	}
	return out
}

var sweepTails = []string{`!b`, `!f`, `!(x > y)`, `!(s == e)`, `!(t0 == t1)`, `!(xs == es)`, `!(m == em)`, `!isset(m, "k")`, `b`, `x > y`, `-x < y`, `o.p > 0`, `xs[0] > 0`, `if(b, f, b)`,
	`!(t0 < t1)`, `!(s != e)`, `!(b == f)`, `!(b != f)`, `!(xs != es)`, `!(m != em)`, `!(t0 >= t1)`, `!(t0 <= t1)`, `!(t0 > t1)`, `!(t0 != t1)`}

// permObjProg: two object literals with the same field names written in different orders meet at a type-equality check
// (list / map literal, branches of if, get with default); when bad, the field TYPES line up by position but not by name.
func (g *progGen) permObjProg(bad bool) string {
	save := g.poison
	g.poison = 0
	defer func() { g.poison = save }()
	k := 2 + g.rn(2)
	names := []string{"a", "b", "c"}[:k]
	prims := []*T{tnum(), tstr(), tbool(), ttime(), tlist(tnum())}
	ts := make([]*T, k)
	for {
		for i := range ts {
			ts[i] = prims[g.rn(len(prims))]
		}
		if !refEq(ts[0], ts[1]) {
			break
		}
	}
	var f1, f2 []string
	for i := 0; i < k; i++ {
		f1 = append(f1, names[i]+": "+g.Gen(ts[i], 0))
	}
	for i := 0; i < k; i++ {
		j := (i + 1) % k // rotated order of names
		vt := ts[j]
		if bad {
			vt = ts[i] // the value at POSITION i has the type the first object has at position i
		}
		f2 = append(f2, names[j]+": "+g.Gen(vt, 0))
	}
	first, second := "{"+strings.Join(f1, ", ")+"}", "{"+strings.Join(f2, ", ")+"}"
	fld := names[g.rn(k)]
	switch g.rn(6) {
	case 0:
		return "[" + first + ", " + second + "][1]." + fld
	case 1:
		return "if(f, " + first + ", " + second + ")." + fld
	case 2:
		return "[\"k\": " + first + ", \"j\": " + second + "][\"j\"]." + fld
	case 3:
		return "get([" + first + "], 7, " + second + ")." + fld
	case 4:
		return "{o: [" + first + ", " + second + "]}.o[1]." + fld
	default:
		return "[" + first + ", " + second + "]"
	}
}
