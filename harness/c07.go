package main

// C07 — a compiled expression never runs on an environment of mismatching types.
// Pairs (compile-time host value, run-time host value): same value, another value of the same Go type, a Go type with the
// same shape (fields permuted, other field names behind the same tags), type-changing / name-dropping mutations, extra
// names, structs versus maps.  Direct predicates: a missing or differently typed name gives an error and no host function
// is called; equal types are accepted and evaluate normally.  Correspondence: Compile + Callable against Model/Api.v.

import (
	"fmt"
	"github.com/goghcrow/yae/val"
	"reflect"
	"strings"

	yae "github.com/goghcrow/yae"
	"github.com/goghcrow/yae/conv"
	"github.com/goghcrow/yae/types"
)

func init() { props["C07"] = runC07 }

type envField struct {
	name string
	t    *HT
	use  string // expression of type num using the name
}

func (g *hostGen) envField(name string) envField {
	inner := &HT{K: "struct", F: []HField{{Name: "P", Tag: "p", T: &HT{K: "float64"}}, {Name: "Q", Tag: "q", T: &HT{K: "string"}}}}
	switch g.r.Rng.Intn(13) {
	case 11, 12:
		// an interface-typed field: its yae type follows the DYNAMIC value, so two values of one Go type can mismatch
		return envField{name, &HT{K: "iface"}, "len(string(" + name + "))"}
	case 8:
		return envField{name, &HT{K: "slice", Elem: inner}, "len(" + name + ")"}
	case 9:
		return envField{name, &HT{K: "map", Key: &HT{K: "string"}, Elem: inner}, "len(" + name + ")"}
	case 10:
		return envField{name, &HT{K: "struct", F: []HField{{Name: "In", Tag: "in", T: inner}, {Name: "N", Tag: "n", T: &HT{K: "int"}}}}, name + ".in.p + " + name + ".n"}
	case 0:
		return envField{name, &HT{K: "int"}, name}
	case 1:
		return envField{name, &HT{K: "float64"}, name + " * 2"}
	case 2:
		return envField{name, &HT{K: "string"}, "len(" + name + ")"}
	case 3:
		return envField{name, &HT{K: "bool"}, "if(" + name + ", 1, 0)"}
	case 4:
		return envField{name, &HT{K: "slice", Elem: &HT{K: "float64"}}, "len(" + name + ")"}
	case 5:
		return envField{name, inner, name + ".p + len(" + name + ".q)"}
	case 6:
		return envField{name, &HT{K: "map", Key: &HT{K: "string"}, Elem: &HT{K: "float64"}}, "get(" + name + ", \"a\", 7)"}
	default:
		return envField{name, &HT{K: "ptr", Elem: inner}, name + ".p"}
	}
}

func implTypeEnvEquals(a, b *types.Env) bool {
	ok := true
	a.ForEach(func(n string, t *types.Type) {
		u, found := b.Get(n)
		// the harness's own by-name structural comparison, not types.Equals (the function under test)
		if !found || !refEq(FromGo(t), FromGo(u)) {
			ok = false
		}
	})
	return ok
}

func runC07(r *Run) {
	c07SharedNodes(r)
	g := &hostGen{r}
	n := 700
	if r.Tier == "thorough" {
		n = 40000
	}
	names := []string{"a", "b", "c", "d"}
	goN := []string{"A", "B", "C", "D"}
	for i := 0; i < n; i++ {
		k := 1 + r.Rng.Intn(3)
		var fs []envField
		t1 := &HT{K: "struct"}
		for j := 0; j < k; j++ {
			f := g.envField(names[j])
			fs = append(fs, f)
			t1.F = append(t1.F, HField{Name: goN[j], Tag: names[j], T: f.t})
		}
		v1 := g.val(t1, 2, 0)
		// the program uses every name; tracing calls show whether anything was evaluated
		var parts []string
		for _, f := range fs {
			parts = append(parts, "tr("+f.use+")")
		}
		src := strings.Join(parts, " + ")
		// run-time partner
		t2, v2, kind := t1, g.val(t1, 2, 0), "same-go-type"
		switch r.Rng.Intn(10) {
		case 0:
			v2, kind = v1, "same-value"
		case 1: // same shape, fields permuted and renamed on the Go side
			perm := r.Rng.Perm(len(t1.F))
			t2 = &HT{K: "struct"}
			for q, j := range perm {
				t2.F = append(t2.F, HField{Name: []string{"W", "X", "Y", "Z"}[q], Tag: t1.F[j].Tag, T: t1.F[j].T})
			}
			v2, kind = g.val(t2, 2, 0), "same-shape-permuted"
		case 2: // one field changes type
			t2 = &HT{K: "struct"}
			j := r.Rng.Intn(len(t1.F))
			for q, f := range t1.F {
				nf := f
				if q == j {
					if f.T.K == "string" {
						nf.T = &HT{K: "int"}
					} else {
						nf.T = &HT{K: "string"}
					}
				}
				t2.F = append(t2.F, nf)
			}
			v2, kind = g.val(t2, 2, 0), "type-changed"
		case 3: // one name dropped
			if len(t1.F) > 1 {
				t2 = &HT{K: "struct", F: append([]HField{}, t1.F[1:]...)}
				v2, kind = g.val(t2, 2, 0), "name-dropped"
			}
		case 4: // an extra name
			t2 = &HT{K: "struct", F: append(append([]HField{}, t1.F...), HField{Name: "Extra", Tag: "zz", T: &HT{K: "int"}})}
			v2, kind = g.val(t2, 2, 0), "extra-name"
		case 6, 7: // object-typed bindings: the same fields declared in another order (equal types: field order is irrelevant)
			if t3, changed := mapInner(t1, false, true); changed {
				t2 = t3
				v2, kind = g.val(t2, 2, 0), "inner-fields-permuted"
			}
		case 8: // object-typed bindings: names exchanged while the types stay in place (p: str, q: num — a different type)
			if t3, changed := mapInner(t1, false, false); changed {
				t2 = t3
				v2, kind = g.val(t2, 2, 0), "inner-names-exchanged"
			}
		case 5: // nil where the compile-time value had a pointer
			for q, f := range t1.F {
				if f.T.K == "ptr" {
					v2 = g.val(t1, 2, 0)
					v2.Seq[q] = &HV{K: "nil"}
					kind = "pointer-nil-at-run-time"
				}
			}
		}
		b1, b2 := t1.Build(v1), t2.Build(v2)
		i1, i2 := b1.Interface(), b2.Interface()
		what := fmt.Sprintf("%q compile=%s run(%s)=%s", src, t1.VSx(v1, b1), kind, t2.VSx(v2, b2))
		if len(what) > 700 {
			what = what[:700] + "..."
		}
		r.Mark("compile against one host value, call with another: " + what)
		tl := &traceLog{}
		e := yae.NewExpr()
		registerStdFns(e, tl)
		var obs Sx
		var cls string
		pan, msg := protect(func() {
			cl, err := e.Compile(src, i1)
			if err != nil {
				if _, terr := conv.TypeEnvOf(i1); terr != nil {
					obs, cls = A("compile-env-error"), "compile-error"
					return
				}
				obs, cls = A("compile-error"), "compile-error"
				return
			}
			// an accepted call first (the compile-time value itself), then the observed call on the same Callable
			cl(i1)
			tl.ev = nil
			v, err := cl(i2)
			if err != nil {
				if _, verr := conv.ValEnvOf(i2); verr != nil {
					obs, cls = A("run-env-error"), "run-env-error"
					return
				}
				obs, cls = L(A("err"), LS(tl.ev)), "err"
				return
			}
			obs, cls = L(A("ok"), ValSx(v), LS(tl.ev)), "ok"
		})
		if pan {
			r.Violate("panic", what, msg)
			continue
		}
		r.Count(kind + ":" + cls)
		r.Case(L(A("envcall"), t1.Sx(), t1.VSx(v1, b1), t2.Sx(), t2.VSx(v2, reflectValue(b2)), oraclesSx(src, nil), Runes(src)), obs)
		if cls == "compile-error" || cls == "run-env-error" {
			continue
		}
		r.Nontrivial(what)
		if i < 3 {
			r.Sample(what)
		}
		// the property's predicate, from the types the implementation itself reports
		te1, err1 := conv.TypeEnvOf(i1)
		te2, err2 := conv.TypeEnvOf(i2)
		if err1 != nil || err2 != nil {
			continue
		}
		// one raw *val.Env object passed again after a name was re-bound to a value of another type (the check must be
		// made on every call: the object is mutable)
		if i%3 == 0 {
			pan, msg := protect(func() {
				venv, verr := conv.ValEnvOf(i1)
				if verr != nil {
					return
				}
				tl2 := &traceLog{}
				e2 := yae.NewExpr()
				registerStdFns(e2, tl2)
				cl, err := e2.Compile(src, te1)
				if err != nil {
					return
				}
				if _, err := cl(venv); err != nil {
					return
				}
				r.Count("raw-env-reuse histories")
				// re-bind a number (an unchecked call then reads a str through the wrong cast, which at worst faults; a
				// composite read through the wrong cast can corrupt the runtime beyond recovery)
				var cands []envField
				for _, f := range fs {
					if o, ok := venv.Get(f.name); ok && o.Type.Kind == types.KNum {
						cands = append(cands, f)
					}
				}
				if len(cands) == 0 {
					return
				}
				name := cands[r.Rng.Intn(len(cands))]
				old, _ := venv.Get(name.name)
				var other *val.Val = val.Str("wrong")
				if old.Type.Kind == types.KStr {
					other = val.Num(7)
				}
				venv.Put(name.name, other)
				tl2.ev = nil
				if _, err := cl(venv); err == nil || len(tl2.ev) > 0 {
					r.Violate("rebound-environment-accepted", what+fmt.Sprintf(" ; same *val.Env re-bound %s := %s between two calls", name.name, other),
						fmt.Sprintf("second call: err=%v, %d host calls", err, len(tl2.ev)))
				}
				for retry := 2; retry <= 3; retry++ { // the same mismatching object again
					tl2.ev = nil
					if _, err := cl(venv); err == nil || len(tl2.ev) > 0 {
						r.Violate("rebound-environment-accepted", what+fmt.Sprintf(" ; same *val.Env re-bound %s := %s, mismatching call #%d", name.name, other, retry),
							fmt.Sprintf("err=%v, %d host calls (the first mismatching call was rejected)", err, len(tl2.ev)))
						break
					}
				}
				venv.Put(name.name, old)
				tl2.ev = nil
				if _, err := cl(venv); err != nil {
					r.Violate("conforming-environment-rejected", what+" ; same *val.Env after restoring the binding", firstLine(err.Error()))
				}
			})
			if pan {
				r.Violate("panic", what+" ; raw env reuse", msg)
			}
		}
		conforms := implTypeEnvEquals(te1, te2)
		switch {
		case conforms && cls == "err" && len(tl.ev) == 0:
			r.Violate("conforming-environment-rejected", what, "every compile-time name is bound with an equal type, yet the call failed before evaluating anything")
		case !conforms && cls == "ok":
			r.Violate("mismatching-environment-accepted", what, "a name is missing or bound to another type, yet the expression ran")
		case !conforms && len(tl.ev) > 0:
			r.Violate("evaluated-on-mismatching-environment", what, fmt.Sprintf("%d host calls before the error", len(tl.ev)))
		}
	}
}

// c07SharedNodes: compile-time environments built by hand as raw *types.Env whose binding types reuse ONE *Type node in
// several places (types are graphs); run-time environments agree at the first occurrence and differ at a later one.
func c07SharedNodes(r *Run) {
	point := types.Obj([]types.Field{{Name: "x", Val: types.Num}, {Name: "y", Val: types.Num}})
	label := types.Obj([]types.Field{{Name: "x", Val: types.Str}, {Name: "y", Val: types.Str}})
	// run-time values carry their OWN type nodes (as values converted from host data do), never the declared ones
	freshPoint := func() *types.Type {
		return types.Obj([]types.Field{{Name: "x", Val: types.Num}, {Name: "y", Val: types.Num}})
	}
	pv := func(a, b float64) *val.Val { return mkObj(freshPoint(), val.Num(a), val.Num(b)) }
	lv := mkObj(label, val.Str("a"), val.Str("b"))
	ln := types.List(types.Num)
	type tcase struct {
		name string
		ty   *types.Type // declared (one shared node inside)
		src  string
		good *val.Val
		bad  []*val.Val
	}
	seg := types.Obj([]types.Field{{Name: "from", Val: point}, {Name: "to", Val: point}})
	segT := func(a, b *types.Type) *types.Type {
		return types.Obj([]types.Field{{Name: "from", Val: a}, {Name: "to", Val: b}})
	}
	pair := types.Obj([]types.Field{{Name: "a", Val: ln}, {Name: "b", Val: ln}, {Name: "c", Val: ln}})
	pairT := func(a, b, c *types.Type) *types.Type {
		return types.Obj([]types.Field{{Name: "a", Val: a}, {Name: "b", Val: b}, {Name: "c", Val: c}})
	}
	ls := types.List(types.Str)
	nl := func(xs ...float64) *val.Val {
		vs := make([]*val.Val, len(xs))
		for i, x := range xs {
			vs[i] = val.Num(x)
		}
		return mkList(types.Num, vs...)
	}
	sl := mkList(types.Str, val.Str("s"))
	lp := types.List(point)
	nest := types.Obj([]types.Field{{Name: "ps", Val: lp}, {Name: "p", Val: point}, {Name: "qs", Val: lp}})
	nestT := func(a, b, c *types.Type) *types.Type {
		return types.Obj([]types.Field{{Name: "ps", Val: a}, {Name: "p", Val: b}, {Name: "qs", Val: c}})
	}
	cases := []tcase{
		{"seg", seg, "tr(seg.from.x)", mkObj(segT(freshPoint(), freshPoint()), pv(1, 2), pv(3, 4)),
			[]*val.Val{mkObj(segT(freshPoint(), label), pv(1, 2), lv), mkObj(segT(freshPoint(), ls), pv(1, 2), sl), mkObj(segT(label, freshPoint()), lv, pv(1, 2))}},
		{"pair", pair, "tr(len(pair.a))", mkObj(pairT(types.List(types.Num), types.List(types.Num), types.List(types.Num)), nl(1), nl(2), nl(3)),
			[]*val.Val{mkObj(pairT(types.List(types.Num), types.List(types.Num), ls), nl(1), nl(2), sl), mkObj(pairT(types.List(types.Num), ls, types.List(types.Num)), nl(1), sl, nl(3)),
				mkObj(pairT(types.List(types.Num), freshPoint(), types.List(types.Num)), nl(1), pv(1, 2), nl(3))}},
		{"nest", nest, "tr(len(nest.ps))", mkObj(nestT(types.List(freshPoint()), freshPoint(), types.List(freshPoint())), mkList(freshPoint(), pv(1, 2)), pv(3, 4), mkList(freshPoint())),
			[]*val.Val{mkObj(nestT(types.List(freshPoint()), freshPoint(), types.List(label)), mkList(freshPoint(), pv(1, 2)), pv(3, 4), mkList(label, lv)),
				mkObj(nestT(types.List(freshPoint()), label, types.List(freshPoint())), mkList(freshPoint()), lv, mkList(freshPoint()))}},
	}
	for _, c := range cases {
		for _, be := range backends {
			tl := &traceLog{}
			te := types.NewEnv()
			te.Put(c.name, c.ty)
			var cl yae.Callable
			var cerr error
			if pan, _ := protect(func() { cl, cerr = newExpr(be, tl, true).Compile(c.src, te) }); pan || cerr != nil {
				r.Violate("shared-node-environment-not-compilable", fmt.Sprintf("%q with %s : %s on %s", c.src, c.name, c.ty, be), fmt.Sprint(cerr))
				continue
			}
			call := func(v *val.Val) (err error, n int) {
				ve := val.NewEnv()
				ve.Put(c.name, v)
				tl.ev = nil
				r.Mark(fmt.Sprintf("%q compiled against %s : %s (one shared node), called with a value of type %s on %s", c.src, c.name, c.ty, v.Type, be))
				pan, msg := protect(func() { _, err = cl(ve) })
				if pan {
					err = fmt.Errorf("panic: %s", firstLine(msg))
				}
				return err, len(tl.ev)
			}
			r.Count("shared-node environment cases")
			if err, _ := call(c.good); err != nil {
				r.Violate("conforming-environment-rejected", fmt.Sprintf("%q, %s : %s with one shared node, value of the same type on %s", c.src, c.name, c.ty, be), firstLine(err.Error()))
			}
			for _, b0 := range c.bad {
				b := b0
				for rep := 0; rep < 2; rep++ { // a rejected value stays rejected when it is presented again
					if err, n := call(b); err == nil || n > 0 {
						r.Violate("mismatching-environment-accepted", fmt.Sprintf("%q compiled against %s : %s (one shared node), called AGAIN with %s : %s on %s", c.src, c.name, c.ty, c.name, b.Type, be),
							fmt.Sprintf("err=%v, %d host calls on repetition %d", err, n, rep+2))
						break
					}
				}
				if err, n := call(b); err == nil || n > 0 {
					r.Violate("mismatching-environment-accepted", fmt.Sprintf("%q compiled against %s : %s (one shared node), called with %s : %s on %s", c.src, c.name, c.ty, c.name, b.Type, be),
						fmt.Sprintf("err=%v, %d host calls", err, n))
				}
			}
		}
	}
}

func reflectValue(v reflect.Value) reflect.Value { return v }

// mapInner rewrites every struct type strictly below the top level: perm = fields declared in reverse order (same
// names, same types: an equal object type); otherwise the tags are rotated while the types stay in place (same names,
// other types). Go-side field names are changed too, so that the result is a different Go type.
func mapInner(t *HT, inside bool, perm bool) (*HT, bool) {
	c := *t
	changed := false
	if t.Elem != nil {
		e, ch := mapInner(t.Elem, true, perm)
		c.Elem, changed = e, ch
	}
	if t.K == "struct" {
		c.F = nil
		for _, f := range t.F {
			ft, ch := mapInner(f.T, true, perm)
			changed = changed || ch
			c.F = append(c.F, HField{Name: f.Name, Tag: f.Tag, T: ft})
		}
		if inside && len(c.F) > 1 {
			n := len(c.F)
			fs := make([]HField, n)
			for i := range c.F {
				if perm {
					fs[i] = c.F[n-1-i]
				} else {
					fs[i] = HField{Name: c.F[i].Name, Tag: c.F[(i+1)%n].Tag, T: c.F[i].T}
				}
				fs[i].Name = fs[i].Name + "x"
			}
			c.F = fs
			changed = true
		}
	}
	return &c, changed
}
