package main

// Host values built by reflection from shape descriptors (C15, C07): a description of the static Go type and of the
// value, from which both the real Go value (reflect) and the model's view (S-expression) are derived.

import (
	"fmt"
	"math"
	"reflect"
	"time"
)

type HT struct {
	K    string // bool int int8 uint16 ... float32 float64 string time ptr slice array map struct iface chan func
	Elem *HT
	Key  *HT
	N    int // array length
	F    []HField
}

type HField struct {
	Name string // Go field name (exported)
	Tag  string // content of the yae tag ("" = none)
	T    *HT
}

type HV struct {
	K    string // bool int uint float string time nil ptr seq map struct iface other
	B    bool
	I    int64
	U    uint64
	F    float64
	S    string
	T    time.Time
	Elem *HV
	Seq  []*HV
	KV   [][2]*HV
	Dyn  *HT // iface: dynamic type
}

var ifaceType = reflect.TypeOf((*interface{})(nil)).Elem()
var timeType = reflect.TypeOf(time.Time{})

func (t *HT) Go() reflect.Type {
	switch t.K {
	case "bool":
		return reflect.TypeOf(false)
	case "int":
		return reflect.TypeOf(int(0))
	case "int8":
		return reflect.TypeOf(int8(0))
	case "int32":
		return reflect.TypeOf(int32(0))
	case "int64":
		return reflect.TypeOf(int64(0))
	case "uint":
		return reflect.TypeOf(uint(0))
	case "uint8":
		return reflect.TypeOf(uint8(0))
	case "uint64":
		return reflect.TypeOf(uint64(0))
	case "float32":
		return reflect.TypeOf(float32(0))
	case "float64":
		return reflect.TypeOf(float64(0))
	case "string":
		return reflect.TypeOf("")
	case "time":
		return timeType
	case "ptr":
		return reflect.PtrTo(t.Elem.Go())
	case "slice":
		return reflect.SliceOf(t.Elem.Go())
	case "array":
		return reflect.ArrayOf(t.N, t.Elem.Go())
	case "map":
		return reflect.MapOf(t.Key.Go(), t.Elem.Go())
	case "struct":
		fs := make([]reflect.StructField, len(t.F))
		for i, f := range t.F {
			fs[i] = reflect.StructField{Name: f.Name, Type: f.T.Go()}
			if f.Tag != "" {
				fs[i].Tag = reflect.StructTag(fmt.Sprintf(`yae:%q`, f.Tag))
			}
		}
		return reflect.StructOf(fs)
	case "iface":
		return ifaceType
	case "chan":
		return reflect.ChanOf(reflect.BothDir, reflect.TypeOf(0))
	case "func":
		return reflect.TypeOf(func() {})
	}
	panic("HT.Go " + t.K)
}

func (t *HT) Sx() Sx {
	switch t.K {
	case "bool", "string", "time":
		return A(t.K)
	case "int", "int8", "int32", "int64":
		return A("int")
	case "uint", "uint8", "uint64":
		return A("uint")
	case "float32", "float64":
		return A("float")
	case "ptr":
		return L(A("ptr"), t.Elem.Sx())
	case "slice":
		return L(A("slice"), t.Elem.Sx())
	case "array":
		return L(A("array"), t.Elem.Sx())
	case "map":
		return L(A("map"), t.Key.Sx(), t.Elem.Sx())
	case "struct":
		xs := []Sx{A("struct")}
		for _, f := range t.F {
			xs = append(xs, L(Name(f.Name), Name(f.Tag), f.T.Sx()))
		}
		return LS(xs)
	case "iface":
		return A("iface")
	}
	return A("other")
}

// Build the reflect.Value of static type t holding v.
func (t *HT) Build(v *HV) reflect.Value {
	rt := t.Go()
	rv := reflect.New(rt).Elem()
	if v.K == "nil" {
		return rv // zero value: nil pointer / slice / map / interface
	}
	switch t.K {
	case "bool":
		rv.SetBool(v.B)
	case "int", "int8", "int32", "int64":
		rv.SetInt(v.I)
	case "uint", "uint8", "uint64":
		rv.SetUint(v.U)
	case "float32", "float64":
		rv.SetFloat(v.F)
	case "string":
		rv.SetString(v.S)
	case "time":
		rv.Set(reflect.ValueOf(v.T))
	case "ptr":
		p := reflect.New(t.Elem.Go())
		p.Elem().Set(t.Elem.Build(v.Elem))
		rv.Set(p)
	case "slice":
		s := reflect.MakeSlice(rt, len(v.Seq), len(v.Seq))
		for i, e := range v.Seq {
			s.Index(i).Set(t.Elem.Build(e))
		}
		rv.Set(s)
	case "array":
		for i, e := range v.Seq {
			rv.Index(i).Set(t.Elem.Build(e))
		}
	case "map":
		m := reflect.MakeMap(rt)
		for _, kv := range v.KV {
			m.SetMapIndex(t.Key.Build(kv[0]), t.Elem.Build(kv[1]))
		}
		rv.Set(m)
	case "struct":
		for i, f := range t.F {
			rv.Field(i).Set(f.T.Build(v.Seq[i]))
		}
	case "iface":
		rv.Set(v.Dyn.Build(v.Elem))
	case "chan":
		rv.Set(reflect.MakeChan(rt, 0))
	case "func":
		rv.Set(reflect.ValueOf(func() {}))
	}
	return rv
}

// Sx of a value, relative to its static type (the float of a float32 slot is what reflect's Float() returns;
// map entries are listed in the order reflect.MapKeys returns them for THIS built value: see buildAndDescribe).
func (t *HT) VSx(v *HV, built reflect.Value) Sx {
	if v.K == "nil" {
		return A("nil")
	}
	switch t.K {
	case "bool":
		return L(A("bool"), Bool(v.B))
	case "int", "int8", "int32", "int64":
		return L(A("int"), I64(built.Int()))
	case "uint", "uint8", "uint64":
		return L(A("uint"), U64(built.Uint()))
	case "float32", "float64":
		return L(A("float"), U64(numBits(built.Float())))
	case "string":
		return L(A("string"), Bytes(v.S))
	case "time":
		return L(A("time"), I64(v.T.Unix()), Int(v.T.Nanosecond()))
	case "ptr":
		return L(A("ptr"), t.Elem.VSx(v.Elem, built.Elem()))
	case "slice", "array":
		xs := []Sx{A("seq")}
		for i, e := range v.Seq {
			xs = append(xs, t.Elem.VSx(e, built.Index(i)))
		}
		return LS(xs)
	case "map":
		xs := []Sx{A("map")}
		// in reflect.MapKeys order of the built map (the order conv will see is another call to MapKeys: for maps with
		// more than one entry the generator only builds maps whose conversion does not depend on the order)
		for _, k := range built.MapKeys() {
			for _, kv := range v.KV {
				bk := t.Key.Build(kv[0])
				if reflect.DeepEqual(bk.Interface(), k.Interface()) {
					xs = append(xs, L(t.Key.VSx(kv[0], bk), t.Elem.VSx(kv[1], built.MapIndex(k))))
					break
				}
			}
		}
		return LS(xs)
	case "struct":
		xs := []Sx{A("struct")}
		for i, f := range t.F {
			xs = append(xs, f.T.VSx(v.Seq[i], built.Field(i)))
		}
		return LS(xs)
	case "iface":
		return L(A("iface"), v.Dyn.Sx(), v.Dyn.VSx(v.Elem, built.Elem()))
	}
	return A("other")
}

// ---------- generation ----------

type hostGen struct{ r *Run }

var goNames = []string{"A", "B", "C", "D"}

func (g *hostGen) prim() *HT {
	ks := []string{"bool", "int", "int8", "int64", "uint8", "uint64", "float32", "float64", "string", "time"}
	return &HT{K: ks[g.r.Rng.Intn(len(ks))]}
}

func (g *hostGen) typ(d int, allowIface bool) *HT {
	rn := g.r.Rng
	if d == 0 || rn.Intn(3) == 0 {
		return g.prim()
	}
	switch rn.Intn(9) {
	case 0:
		return &HT{K: "ptr", Elem: g.typ(d-1, allowIface)}
	case 1, 2:
		return &HT{K: "slice", Elem: g.typ(d-1, allowIface)}
	case 3:
		return &HT{K: "array", N: rn.Intn(3), Elem: g.typ(d-1, allowIface)}
	case 4:
		ks := []string{"string", "int", "bool", "float64"}
		return &HT{K: "map", Key: &HT{K: ks[rn.Intn(len(ks))]}, Elem: g.typ(d-1, allowIface)}
	case 5, 6:
		n := rn.Intn(4)
		t := &HT{K: "struct"}
		perm := rn.Perm(len(goNames))
		tags := []string{"", "", "p", "q", "p,maybe", ",maybe", " r , MAYBE ", "q,other", ","}
		for i := 0; i < n; i++ {
			t.F = append(t.F, HField{Name: goNames[perm[i]], Tag: tags[rn.Intn(len(tags))], T: g.typ(d-1, allowIface)})
		}
		return t
	case 7:
		if allowIface {
			return &HT{K: "iface"}
		}
	case 8:
		if rn.Intn(6) == 0 {
			return &HT{K: []string{"chan", "func"}[rn.Intn(2)]}
		}
	}
	return g.prim()
}

// val builds a value of type t; nilp = probability (in tenths) of nil at a nil-able place
func (g *hostGen) val(t *HT, d int, nilp int) *HV {
	rn := g.r.Rng
	isNilable := t.K == "ptr" || t.K == "slice" || t.K == "map" || t.K == "iface" || t.K == "chan" || t.K == "func"
	if isNilable && rn.Intn(10) < nilp {
		return &HV{K: "nil"}
	}
	switch t.K {
	case "bool":
		return &HV{K: "bool", B: rn.Intn(2) == 0}
	case "int", "int64":
		return &HV{K: "int", I: []int64{0, 1, -1, 42, 1 << 53, (1 << 53) + 1, math.MaxInt64, math.MinInt64}[rn.Intn(8)]}
	case "int8":
		return &HV{K: "int", I: []int64{0, 1, -128, 127}[rn.Intn(4)]}
	case "int32":
		return &HV{K: "int", I: []int64{0, -5, 1 << 30}[rn.Intn(3)]}
	case "uint", "uint64":
		return &HV{K: "uint", U: []uint64{0, 1, 255, 1 << 63, math.MaxUint64, (1 << 53) + 1}[rn.Intn(6)]}
	case "uint8":
		return &HV{K: "uint", U: []uint64{0, 255, 7}[rn.Intn(3)]}
	case "float32":
		return &HV{K: "float", F: []float64{0, 0.1, 1.5, -2.25, 3.4e38}[rn.Intn(5)]}
	case "float64":
		return &HV{K: "float", F: []float64{0, 0.1, 1.5, -2.25, 1e300, math.Inf(1)}[rn.Intn(6)]}
	case "string":
		return &HV{K: "string", S: []string{"", "a", "héllo", "q\"r", "\xff"}[rn.Intn(5)]}
	case "time":
		return &HV{K: "time", T: time.Unix(int64(rn.Intn(3))*1000000000, int64(rn.Intn(2))*500).UTC()}
	case "ptr":
		return &HV{K: "ptr", Elem: g.val(t.Elem, d, nilp)}
	case "slice":
		n := rn.Intn(4)
		v := &HV{K: "seq"}
		for i := 0; i < n; i++ {
			v.Seq = append(v.Seq, g.val(t.Elem, d, nilp))
		}
		return v
	case "array":
		v := &HV{K: "seq"}
		for i := 0; i < t.N; i++ {
			v.Seq = append(v.Seq, g.val(t.Elem, d, nilp))
		}
		return v
	case "map":
		// at most one entry unless the element type is flat: conversion walks reflect.MapKeys, whose order is unspecified
		n := rn.Intn(2)
		if t.Elem.K != "iface" && t.Elem.K != "struct" && t.Elem.K != "ptr" && t.Elem.K != "slice" && t.Elem.K != "map" {
			n = rn.Intn(4)
		}
		v := &HV{K: "map"}
		seen := map[string]bool{}
		for i := 0; i < n; i++ {
			k := g.val(t.Key, 0, 0)
			if k.K == "int" && (k.I > 1<<52 || k.I < -(1<<52)) {
				// integer keys beyond 2^53 collide after conversion to float64 (KNOWN_FINDINGS C15): which entry survives
				// depends on reflect.MapKeys order, so such maps cannot be compared case by case
				k.I = int64(i)
			}
			ks := fmt.Sprint(k.B, k.I, k.U, k.F, k.S)
			if seen[ks] {
				continue
			}
			seen[ks] = true
			v.KV = append(v.KV, [2]*HV{k, g.val(t.Elem, d, nilp)})
		}
		return v
	case "struct":
		v := &HV{K: "struct"}
		for _, f := range t.F {
			v.Seq = append(v.Seq, g.val(f.T, d, nilp))
		}
		return v
	case "iface":
		dt := g.typ(1, false)
		for dt.K == "chan" || dt.K == "func" {
			dt = g.prim()
		}
		return &HV{K: "iface", Dyn: dt, Elem: g.val(dt, d, 0)}
	}
	return &HV{K: "other"}
}
