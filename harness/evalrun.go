package main

// Running programs on the four back ends with a canonical view of the outcome (value / failure class / trace).

import (
	"fmt"
	"math"
	"sort"
	"strings"
	"time"

	yae "github.com/goghcrow/yae"
	"github.com/goghcrow/yae/interp"
	"github.com/goghcrow/yae/types"
	"github.com/goghcrow/yae/val"
	"github.com/goghcrow/yae/vm"
)

var backends = []string{"closure", "interp", "vm-switch", "vm-call"}

// ---------- values ----------

const canonNaN = uint64(0x7ff8000000000001)

func numBits(f float64) uint64 {
	if f != f {
		return canonNaN
	}
	return math.Float64bits(f)
}

// ValSx: canonical encoding of a value, walking exported fields only.
// ValSx encodes an implementation value; a value that cannot even be read (a back end handed out a pointer to
// something that is not a value) is encoded as the atom unreadable-value instead of taking the harness down.
func ValSx(v *val.Val) (sx Sx) {
	if pan, _ := protect(func() { sx = valSxRaw(v) }); pan {
		return A("unreadable-value")
	}
	return sx
}

func valSxRaw(v *val.Val) Sx {
	if v == nil {
		return A("nil")
	}
	if v.Type == nil {
		return A("nil-type")
	}
	switch v.Type.Kind {
	case types.KNum:
		return L(A("num"), U64(numBits(v.Num().V)))
	case types.KBool:
		return L(A("bool"), Bool(v.Bool().V))
	case types.KStr:
		return L(A("str"), Bytes(v.Str().V))
	case types.KTime:
		t := v.Time().V
		return L(A("time"), I64(t.Unix()), Int(t.Nanosecond()))
	case types.KList:
		xs := make([]Sx, len(v.List().V))
		for i, e := range v.List().V {
			xs[i] = valSxRaw(e)
		}
		return L(A("list"), TySx(v.Type), LS(xs))
	case types.KMap:
		type kv struct {
			k string
			s Sx
		}
		var kvs []kv
		for k, e := range v.Map().V {
			ks := k.String()
			kvs = append(kvs, kv{fmt.Sprintf("%d:%s", keyTag(k), ks), L(Int(keyTag(k)), Bytes(ks), valSxRaw(e))})
		}
		sort.Slice(kvs, func(i, j int) bool { return kvs[i].k < kvs[j].k })
		xs := make([]Sx, len(kvs))
		for i := range kvs {
			xs[i] = kvs[i].s
		}
		return L(A("map"), TySx(v.Type), LS(xs))
	case types.KObj:
		xs := make([]Sx, len(v.Obj().V))
		for i, e := range v.Obj().V {
			xs[i] = valSxRaw(e)
		}
		return L(A("obj"), TySx(v.Type), LS(xs))
	case types.KMaybe:
		if v.Maybe().V == nil {
			return L(A("maybe"), TySx(v.Type), A("none"))
		}
		return L(A("maybe"), TySx(v.Type), valSxRaw(v.Maybe().V))
	case types.KFun:
		return L(A("fun"), Name(v.Type.Fun().Name))
	}
	return A("unknown-kind")
}

// keyTag recovers the kind tag of a map key from its rendering context (the tag field is unexported):
// the harness only needs a stable discriminator, so it uses the fmt verb that prints the struct.
func keyTag(k val.Key) int {
	s := fmt.Sprintf("%+v", struct{ K val.Key }{k}) // {K:<text>} : String() is used; fall back to 0
	_ = s
	return 0
}

// deepTyped: the property's notion "v has type t and every component has the type its container declares, no nil".
// Returns "" or a description of the first discrepancy.
func deepTyped(v *val.Val, t *types.Type, path string) string {
	if v == nil {
		return path + ": nil component"
	}
	if v.Type == nil {
		return path + ": value without type"
	}
	// the harness's own by-name structural comparison, not types.Equals (which the checker under test relies on)
	if !refEq(FromGo(v.Type), FromGo(t)) {
		return fmt.Sprintf("%s: dynamic type %s, expected %s", path, v.Type, t)
	}
	switch v.Type.Kind {
	case types.KList:
		el := v.Type.List().El
		for i, e := range v.List().V {
			if r := deepTyped(e, elemOr(e, el), fmt.Sprintf("%s[%d]", path, i)); r != "" {
				return r
			}
		}
	case types.KMap:
		vt := v.Type.Map().Val
		for k, e := range v.Map().V {
			if r := deepTyped(e, elemOr(e, vt), fmt.Sprintf("%s[%s]", path, k)); r != "" {
				return r
			}
		}
	case types.KObj:
		fs := v.Type.Obj().Fields
		if len(fs) != len(v.Obj().V) {
			return path + ": object arity differs from its type"
		}
		for i, e := range v.Obj().V {
			if r := deepTyped(e, fs[i].Val, path+"."+fs[i].Name); r != "" {
				return r
			}
		}
	case types.KMaybe:
		if v.Maybe().V != nil {
			return deepTyped(v.Maybe().V, v.Type.Maybe().Elem, path+"?")
		}
	}
	return ""
}

// elemOr: an element of an empty-container-typed (bottom) container cannot exist; otherwise the declared type.
func elemOr(e *val.Val, declared *types.Type) *types.Type { return declared }

// ---------- environment ----------

var t0v = time.Unix(1577934245, 0) // 2020-01-02 03:04:05 UTC
var t1v = time.Unix(1000000000, 0)

func mkList(el *types.Type, vs ...*val.Val) *val.Val {
	l := val.List(types.List(el).List(), 0).List()
	l.V = vs
	return l.Vl()
}

func mkObj(ty *types.Type, vs ...*val.Val) *val.Val {
	o := val.Obj(ty.Obj()).Obj()
	copy(o.V, vs)
	return o.Vl()
}

func mkMap(k, v *types.Type, kvs ...*val.Val) *val.Val {
	m := val.Map(types.Map(k, v).Map()).Map()
	for i := 0; i+1 < len(kvs); i += 2 {
		m.V[kvs[i].Key()] = kvs[i+1]
	}
	return m.Vl()
}

// stdValues: the values of stdVars (same names and types).
func stdValues() map[string]*val.Val {
	n, s := val.Num, val.Str
	pqT, qpT := pq.Go(), qp.Go()
	return map[string]*val.Val{
		"x": n(3), "y": n(-2.5), "z": n(0), "big": n(9007199254740993),
		"s": s("héllo"), "e": s(""), "b": val.True, "f": val.False, "t0": val.Time(t0v), "t1": val.Time(t1v),
		"xs": mkList(types.Num, n(1), n(2), n(3)), "es": mkList(types.Num), "ss": mkList(types.Str, s("a"), s("b"), s("a")),
		"m":  mkMap(types.Str, types.Num, s("k"), n(1), s("j"), n(2)),
		"mn": mkMap(types.Num, types.Str, n(1), s("one"), n(2.5), s("x")), "em": mkMap(types.Str, types.Num),
		"o": mkObj(pqT, n(7), s("q")), "o2": mkObj(qpT, s("r"), n(8)),
		"os": mkList(pqT, mkObj(pqT, n(1), s("a")), mkObj(pqT, n(2), s("b"))),
		"mb": val.Just(types.Num, n(5)), "mz": val.Nothing(types.Num),
		"mo": val.Just(tobj("p", tnum()).Go(), mkObj(tobj("p", tnum()).Go(), n(9))),
		"nest": mkObj(tobj("in", tobj("p", tnum()), "l", tlist(tnum()), "mb", tmaybe(tstr())).Go(),
			mkObj(tobj("p", tnum()).Go(), n(4)), mkList(types.Num, n(6)), val.Nothing(types.Str)),
		"lm": mkList(types.Maybe(types.Num), val.Just(types.Num, n(1)), val.Nothing(types.Num)),
	}
}

type traceLog struct{ ev []Sx }

func (t *traceLog) add(name string, args ...*val.Val) {
	xs := []Sx{Name(name)}
	for _, a := range args {
		xs = append(xs, ValSx(a))
	}
	t.ev = append(t.ev, LS(xs))
}

// registerStdFns registers the fixed user library (the same functions exist in the Coq model).
func registerStdFns(e *yae.Expr, tl *traceLog) {
	for _, u := range stdFns {
		u := u
		ft := (&T{K: "fun", Name: u.Name, Sub: append(append([]*T{}, u.Params...), u.Ret)}).Go()
		var f val.IFun
		switch u.Name {
		case "inc":
			f = func(a ...*val.Val) *val.Val { tl.add("inc", a...); return val.Num(a[0].Num().V + 1) }
		case "area":
			f = func(a ...*val.Val) *val.Val {
				tl.add("area")
				w, _ := a[0].Obj().Get("w")
				h, _ := a[0].Obj().Get("h")
				return val.Num(w.Num().V * h.Num().V)
			}
		case "ident":
			f = func(a ...*val.Val) *val.Val { tl.add("ident", a...); return a[0] }
		case "pick":
			f = func(a ...*val.Val) *val.Val { tl.add("pick", a...); return a[1] }
		case "lazyif":
			f = func(a ...*val.Val) *val.Val {
				tl.add("lazyif")
				if a[0].Fun().Call().Bool().V {
					return a[1].Fun().Call()
				}
				return a[2].Fun().Call()
			}
		case "both":
			f = func(a ...*val.Val) *val.Val {
				tl.add("both")
				if !a[0].Fun().Call().Bool().V {
					return val.False
				}
				return val.Bool(a[1].Fun().Call().Bool().V)
			}
		case "tr", "trs", "trb":
			name := u.Name
			f = func(a ...*val.Val) *val.Val { tl.add(name, a...); return a[0] }
		case "boom":
			f = func(a ...*val.Val) *val.Val { tl.add("boom", a...); panic("boom: host function failed") }
		}
		if u.Lazy {
			e.RegisterFun(val.LazyFun(ft, f))
		} else {
			e.RegisterFun(val.Fun(ft, f))
		}
	}
}

// ---------- outcome ----------

type outcome struct {
	cls    string   // value | compile-error | env-error | fail:<class> | fault:<class>
	v      *val.Val // when cls == value
	ty     string
	trace  []Sx
	msg    string
	stdout string
}

func classify(msg string) string {
	m := strings.ToLower(msg)
	switch {
	case strings.Contains(m, "out of range"):
		return "fail:index"
	case strings.Contains(m, "undefined key"):
		return "fail:key"
	case strings.Contains(m, "divide by zero"):
		return "fail:modzero"
	case strings.Contains(m, "error parsing regexp"), strings.Contains(m, "regexp:"):
		return "fail:regex"
	case strings.Contains(m, "boom"):
		return "fail:host"
	case strings.Contains(m, "nil pointer"), strings.Contains(m, "invalid memory address"):
		return "fault:nil"
	case strings.Contains(m, "unreachable"):
		return "fault:unreachable"
	case strings.Contains(m, "over exec limit"):
		return "fault:limit"
	case strings.Contains(m, "unsupported opcode"):
		return "fault:opcode"
	case strings.Contains(m, "interface conversion"), strings.Contains(m, "type assertion"):
		return "fault:typeconf"
	case strings.Contains(m, "overflow"):
		return "refused:overflow"
	}
	return "fault:other(" + firstLine(msg) + ")"
}

func firstLine(s string) string {
	if i := strings.IndexByte(s, '\n'); i >= 0 {
		s = s[:i]
	}
	if len(s) > 80 {
		s = s[:80]
	}
	return s
}

func newExpr(backend string, tl *traceLog, withFns bool) *yae.Expr {
	e := yae.NewExpr()
	switch backend {
	case "closure":
		e.UseClosureCompiler()
	case "interp":
		e.UseCompiler(interp.Interp)
	case "vm-switch":
		e.UseBytecodeCompiler()
	case "vm-call":
		e.UseCompiler(vm.VerifCompileCallThreading)
	}
	if withFns {
		registerStdFns(e, tl)
	}
	return e
}

func typeEnvOf(vars []envVar) *types.Env {
	te := types.NewEnv()
	for _, v := range vars {
		te.Put(v.Name, v.Ty.Go())
	}
	return te
}

func valEnvOf(vals map[string]*val.Val) *val.Env {
	ve := val.NewEnv()
	for k, v := range vals {
		ve.Put(k, v)
	}
	return ve
}

// runOn compiles and runs src on one back end, in fresh engine and environment objects.
func runOn(backend, src string, vars []envVar, vals map[string]*val.Val, withFns bool) outcome {
	mark(fmt.Sprintf("program %q on back end %s (withFns=%v)", src, backend, withFns))
	tl := &traceLog{}
	var out outcome
	var cl yae.Callable
	var cerr error
	if pan, msg := protect(func() {
		e := newExpr(backend, tl, withFns)
		cl, cerr = e.Compile(src, typeEnvOf(vars))
	}); pan {
		return outcome{cls: "compile-panic", msg: msg}
	}
	if cerr != nil {
		c := "compile-error"
		if strings.Contains(cerr.Error(), "overflow") {
			c = "refused:overflow"
		}
		return outcome{cls: c, msg: cerr.Error()}
	}
	tl.ev = nil
	var v *val.Val
	var rerr error
	pan, msg := protect(func() { v, rerr = cl(valEnvOf(vals)) })
	out.trace = tl.ev
	switch {
	case pan:
		out.cls, out.msg = classify(msg), "escaped panic: "+msg
		out.msg = "PANIC " + msg
	case rerr != nil:
		out.cls, out.msg = classify(rerr.Error()), rerr.Error()
	default:
		out.cls, out.v = "value", v
	}
	return out
}

func (o outcome) Sx() Sx {
	switch o.cls {
	case "value":
		return L(A("value"), ValSx(o.v), LS(o.trace))
	default:
		return L(A(strings.SplitN(o.cls, "(", 2)[0]), LS(o.trace))
	}
}

// obsEqual: outcomes observationally equal (class, value, trace).
func obsEqual(a, b outcome) bool { return a.Sx() == b.Sx() }
