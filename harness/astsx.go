package main

import (
	"github.com/goghcrow/yae/parser/ast"
	"github.com/goghcrow/yae/parser/oper"
	"github.com/goghcrow/yae/parser/pos"
	"github.com/goghcrow/yae/parser/token"
)

func posSx(p pos.Pos) Sx { return L(Int(p.Idx), Int(p.IdxEnd), Int(p.Col), Int(p.Line)) }

// ExprSx encodes a parse tree with every exported syntactic field (positions included).
func ExprSx(e ast.Expr) Sx {
	switch x := e.(type) {
	case *ast.StrExpr:
		return L(A("str"), posSx(x.Pos), Runes(x.Text))
	case *ast.NumExpr:
		return L(A("num"), posSx(x.Pos), Runes(x.Text))
	case *ast.TimeExpr:
		return L(A("time"), posSx(x.Pos), Runes(x.Text))
	case *ast.BoolExpr:
		return L(A("bool"), posSx(x.Pos), Bool(x.Val))
	case *ast.ListExpr:
		xs := make([]Sx, len(x.Elems))
		for i, el := range x.Elems {
			xs[i] = ExprSx(el)
		}
		return L(A("list"), posSx(x.Pos), LS(xs))
	case *ast.MapExpr:
		xs := make([]Sx, len(x.Pairs))
		for i, p := range x.Pairs {
			xs[i] = L(ExprSx(p.Key), ExprSx(p.Val))
		}
		return L(A("map"), posSx(x.Pos), LS(xs))
	case *ast.ObjExpr:
		xs := make([]Sx, len(x.Fields))
		for i, f := range x.Fields {
			xs[i] = L(Runes(f.Name), ExprSx(f.Val))
		}
		return L(A("obj"), posSx(x.Pos), LS(xs))
	case *ast.IdentExpr:
		return L(A("id"), posSx(x.Pos), Runes(x.Name))
	case *ast.CallExpr:
		xs := make([]Sx, len(x.Args))
		for i, a := range x.Args {
			xs[i] = ExprSx(a)
		}
		return L(A("call"), posSx(x.Pos), Int(int(x.DBGCol)), ExprSx(x.Callee), LS(xs))
	case *ast.SubscriptExpr:
		return L(A("sub"), posSx(x.Pos), Int(int(x.DBGCol)), ExprSx(x.Var), ExprSx(x.Idx))
	case *ast.MemberExpr:
		return L(A("member"), posSx(x.Pos), Int(int(x.DBGCol)), ExprSx(x.Obj), Runes(x.Field.Name), posSx(x.Field.Pos))
	case *ast.UnaryExpr:
		return L(A("unary"), posSx(x.Pos), Runes(x.Name), posSx(x.IdentExpr.Pos), ExprSx(x.LHS), Bool(x.Prefix))
	case *ast.BinaryExpr:
		return L(A("binary"), posSx(x.Pos), Runes(x.Name), posSx(x.IdentExpr.Pos), Int(int(x.Fixity)), ExprSx(x.LHS), ExprSx(x.RHS))
	case *ast.TenaryExpr:
		return L(A("ternary"), posSx(x.Pos), Runes(x.Name), posSx(x.IdentExpr.Pos), ExprSx(x.Left), ExprSx(x.Mid), ExprSx(x.Right))
	case *ast.GroupExpr:
		return L(A("group"), posSx(x.Pos), ExprSx(x.SubExpr))
	}
	return A("unknown-node")
}

func OpsSx(ops []oper.Operator) Sx {
	xs := make([]Sx, len(ops))
	for i, o := range ops {
		xs[i] = L(Runes(string(o.Kind)), Int(int(float64(o.BP)*8)), Int(int(o.Fixity)))
	}
	return LS(xs)
}

func TokSx(t *token.Token) Sx {
	return L(Runes(string(t.Kind)), Runes(t.Lexeme), Int(t.Idx), Int(t.IdxEnd), Int(t.Line), Int(t.Col))
}

// walkExpr visits every node (pre-order).
func walkExpr(e ast.Expr, f func(ast.Expr)) {
	if e == nil {
		return
	}
	f(e)
	switch x := e.(type) {
	case *ast.ListExpr:
		for _, el := range x.Elems {
			walkExpr(el, f)
		}
	case *ast.MapExpr:
		for _, p := range x.Pairs {
			walkExpr(p.Key, f)
			walkExpr(p.Val, f)
		}
	case *ast.ObjExpr:
		for _, fl := range x.Fields {
			walkExpr(fl.Val, f)
		}
	case *ast.CallExpr:
		walkExpr(x.Callee, f)
		for _, a := range x.Args {
			walkExpr(a, f)
		}
	case *ast.SubscriptExpr:
		walkExpr(x.Var, f)
		walkExpr(x.Idx, f)
	case *ast.MemberExpr:
		walkExpr(x.Obj, f)
	case *ast.UnaryExpr:
		walkExpr(x.LHS, f)
	case *ast.BinaryExpr:
		walkExpr(x.LHS, f)
		walkExpr(x.RHS, f)
	case *ast.TenaryExpr:
		walkExpr(x.Left, f)
		walkExpr(x.Mid, f)
		walkExpr(x.Right, f)
	case *ast.GroupExpr:
		walkExpr(x.SubExpr, f)
	}
}
