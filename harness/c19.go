package main

// C19 — debug evaluation reports the same result and the true intermediate values.
// Correspondence: the debug closure compiler, the recorder and the report renderer against the Coq model (outcome,
// recorded (value, column) entries in order, report text).  Direct predicates: same value / failure as normal
// evaluation; the recorded values are the values of the evaluated identifier / call / member / subscript terms, each
// at the column of its own term; rendering never fails, its first line is the source, every recorded value appears
// at its column.

import (
	"fmt"
	"github.com/goghcrow/yae/parser/oper"
	"github.com/goghcrow/yae/parser/token"
	"strings"

	yae "github.com/goghcrow/yae"
	"github.com/goghcrow/yae/closure"
	"github.com/goghcrow/yae/conv"
	"github.com/goghcrow/yae/debug"
	"github.com/goghcrow/yae/val"
)

func init() { props["C19"] = runC19 }

type dbgOut struct {
	o       outcome
	entries []debug.VerifEntry
	report  string
	cls     string
}

func debugRun(src string, vars []envVar, vals map[string]*val.Val, withFns bool) dbgOut {
	var d dbgOut
	tl := &traceLog{}
	pan, msg := protect(func() {
		e := yae.NewExpr()
		e.UseCompiler(closure.DebugCompile)
		if withFns {
			registerStdFns(e, tl)
		}
		cl, err := e.Compile(src, typeEnvOf(vars))
		if err != nil {
			d.cls = "compile-error"
			return
		}
		tl.ev = nil
		env := valEnvOf(vals)
		rcd := debug.NewRecord()
		env.Dgb = rcd
		v, err := cl(env)
		d.o.trace = tl.ev
		if err != nil {
			d.o.cls, d.o.msg = classify(err.Error()), err.Error()
		} else {
			d.o.cls, d.o.v = "value", v
		}
		d.entries = rcd.VerifEntries()
		d.report = rcd.Render(src)
		d.cls = "ok"
	})
	if pan {
		d.cls = "panic:" + firstLine(msg)
	}
	return d
}

// debugReuse: ONE compiled debug closure and ONE record evaluated over several environments in turn (DebugCompile
// clears the record before each evaluation); returns the observation after each evaluation.
func debugReuse(src string, vars []envVar, valsList []map[string]*val.Val, withFns bool) (outs []dbgOut) {
	tl := &traceLog{}
	protect(func() {
		e := yae.NewExpr()
		e.UseCompiler(closure.DebugCompile)
		if withFns {
			registerStdFns(e, tl)
		}
		cl, err := e.Compile(src, typeEnvOf(vars))
		if err != nil {
			return
		}
		rcd := debug.NewRecord()
		for _, vals := range valsList {
			var d dbgOut
			tl.ev = nil
			env := valEnvOf(vals)
			env.Dgb = rcd
			v, err := cl(env)
			d.o.trace = tl.ev
			if err != nil {
				d.o.cls, d.o.msg = classify(err.Error()), err.Error()
			} else {
				d.o.cls, d.o.v = "value", v
			}
			d.entries = rcd.VerifEntries()
			d.report = rcd.Render(src)
			d.cls = "ok"
			outs = append(outs, d)
		}
	})
	return outs
}

func (d dbgOut) Sx() Sx {
	if d.cls != "ok" {
		return L(A(strings.SplitN(d.cls, ":", 2)[0]))
	}
	es := make([]Sx, len(d.entries))
	for i, e := range d.entries {
		es[i] = L(ValSx(e.V), Int(e.Col))
	}
	return L(d.o.Sx(), LS(es), Runes(d.report))
}

var c19Table *table

func runC19(r *Run) {
	c19Table = newTable("builtin", append([]oper.Operator{}, oper.BuiltIn()...))
	vars := stdVars
	judge := func(c evalCase) {
		if strings.Contains(c.src, "\n") {
			return
		}
		vals := stdValues()
		d := debugRun(c.src, vars, vals, c.withFns)
		h := historyFor(c.withFns)
		req := LS([]Sx{A("debugsrc"), h.Sx(), tenvSx(vars), venvSx(vars, vals), oraclesSx(c.src, vals), Runes(c.src)})
		r.Case(req, d.Sx())
		if d.cls == "compile-error" {
			r.Count("prog:rejected")
			return
		}
		what := fmt.Sprintf("%q", c.src)
		if strings.HasPrefix(d.cls, "panic") {
			r.Violate("debug-panics", what, d.cls)
			return
		}
		r.Count("prog:" + strings.SplitN(d.o.cls, "(", 2)[0])
		r.Nontrivial(c.src)
		// one record reused across evaluations gives what a fresh record gives
		if d.o.cls == "value" || strings.HasPrefix(d.o.cls, "fail") {
			alt := stdValues()
			alt["x"], alt["b"], alt["s"] = val.Num(-4), val.False, val.Str("zz")
			fresh := []dbgOut{d, debugRun(c.src, vars, alt, c.withFns), d}
			re := debugReuse(c.src, vars, []map[string]*val.Val{stdValues(), alt, stdValues()}, c.withFns)
			for k := range re {
				if k < len(fresh) && fresh[k].cls == "ok" && string(re[k].Sx()) != string(fresh[k].Sx()) {
					r.Violate("record-reuse-differs", what, fmt.Sprintf("evaluation #%d with a reused record: report %q, with a fresh record %q", k+1, trunc(re[k].report, 300), trunc(fresh[k].report, 300)))
					break
				}
			}
			r.Count("record-reuse histories")
		}
		// every evaluated VARIABLE is recorded with its own value: in a program without lazy constructs every variable
		// term is evaluated, so each identifier token that is a variable (not a callee, member name or object field
		// name) must have an entry holding the variable's value at its column
		if d.o.cls == "value" && !strings.ContainsAny(c.src, "?&|") && !strings.Contains(c.src, "if(") && !strings.Contains(c.src, "both(") && !strings.Contains(c.src, "lazyif") {
			if toks, ok := implLex(c19Table, c.src); ok {
				var stack []string
				for ti, t := range toks {
					switch t.Lexeme {
					case "[", "{", "(":
						stack = append(stack, t.Lexeme)
					case "]", "}", ")":
						if len(stack) > 0 {
							stack = stack[:len(stack)-1]
						}
					}
					want, isVar := vals[t.Lexeme]
					if !isVar || string(t.Kind) != string(token.SYM) {
						continue
					}
					next, prev := "", ""
					if ti+1 < len(toks) {
						next = toks[ti+1].Lexeme
					}
					if ti > 0 {
						prev = toks[ti-1].Lexeme
					}
					if next == "(" || prev == "." || (next == ":" && len(stack) > 0 && stack[len(stack)-1] == "{") {
						continue
					}
					found := false
					for _, e := range d.entries {
						if e.Col >= t.Col && e.Col <= t.Col+3 && string(ValSx(e.V)) == string(ValSx(want)) {
							found = true
						}
					}
					r.Count("variable terms checked against the record")
					if !found {
						r.Violate("evaluated-variable-not-recorded", what, fmt.Sprintf("variable %s at column %d has no entry with its value in the record (%d entries)", t.Lexeme, t.Col, len(d.entries)))
						break
					}
				}
			}
		}
		// transparency: same outcome and host-call trace as normal evaluation
		n := runOn("closure", c.src, vars, stdValues(), c.withFns)
		if !obsEqual(n, d.o) {
			r.Violate("debug-changes-result", what, fmt.Sprintf("normal %s, debug %s", brief(n), brief(d.o)))
		}
		// the report
		lines := strings.Split(d.report, "\n")
		if len(lines) == 0 || lines[0] != c.src {
			r.Violate("report-first-line", what, "the first line is not the source")
		}
		seen := map[int]bool{}
		for _, e := range d.entries {
			if seen[e.Col] {
				r.Violate("record-duplicate-column", what, fmt.Sprintf("two values at column %d", e.Col))
			}
			seen[e.Col] = true
			if e.Col < 1 {
				continue
			}
			txt := e.V.String()
			for _, part := range strings.FieldsFunc(txt, func(c rune) bool { return c == '\n' || c == '\r' }) {
				found := false
				for _, ln := range lines[1:] {
					rs := []rune(ln)
					ps := []rune(part)
					if e.Col-1+len(ps) <= len(rs) && string(rs[e.Col-1:e.Col-1+len(ps)]) == part {
						found = true
						break
					}
				}
				if !found {
					r.Violate("recorded-value-not-shown", what, fmt.Sprintf("value %q (column %d) does not appear at its column in the report:\n%s", part, e.Col, d.report))
					break
				}
			}
		}
		// attribution: every recorded column (before collision shifts) is the column of an identifier / call / member /
		// subscript term of the source: checked through the model (correspondence); here only that values are plausible
	}
	corpus := []evalCase{{`x + y`, false}, {`xs[1] + m["k"]`, false}, {`o.p + len(s)`, false}, {`if(b, x, y)`, false}, {`b ? x : boom(1)`, true}, {`f && xs[9] > 0`, false},
		{`[x, y][0]`, false}, {`string(m)`, false}, {`"multi\nline" + s`, false}, {`{p: x}.p`, false}, {`é`, false}, {`s + "é世"`, false}, {`nest.in.p`, false}, {`xs[7]`, false},
		{`get(mb, 0) + get(mz, 1)`, false}, {`max(x, y) * min(x, y)`, false}, {`lazyif(b, tr(1), tr(2))`, true}, {`[o, o2][1].q`, false}, {`x.max(y)`, false}, {`(x)`, false}, {`1`, false},
		{`xs`, false}, {`string(["a\nb": 1])`, false}, {`[s, s]`, false}, {`!b`, false}, {`-x`, false}, {`x`, false}, {`m`, false}, {`len(xs) == 3 && x > 2`, false}}
	for _, c := range corpus {
		judge(c)
		r.Sample(c.src)
	}
	c19Facade(r)
	n := 800
	if r.Tier == "thorough" {
		n = 40000
	}
	for i := 0; i < n; i++ {
		g := &progGen{r: r, vars: vars, fns: stdFns, useFns: r.Rng.Intn(3) == 0, trace: r.Rng.Intn(4) == 0}
		judge(evalCase{g.Gen(g.randType(1), 1+r.Rng.Intn(3)), g.useFns})
	}
}

// c19Facade: the façade yae.Debug on host environments, including programs that FAIL at run time: the outcome equals
// yae.Eval's, and the report equals the rendering of the record that the debug closure fills when run directly on the
// same environment (so it keeps the source as its first line and shows the values recorded before the failure).
func c19Facade(r *Run) {
	host := map[string]interface{}{"x": 5.0, "y": -2.5, "z": 0.0, "s": "hé", "b": true, "f": false, "xs": []float64{1, 2, 3}, "m": map[string]float64{"k": 1}, "ms": map[string]string{"hé": "v"},
		"o": struct {
			P float64
			Q string
		}{7, "w"}}
	srcs := []string{`x + y`, `xs[1] * x`, `x + xs[9]`, `xs[x + 4] + y`, `m["k"] + m["nokey"]`, `len(s) + m[s]`, `x % z`, `y + x % z + x`, `b ? xs[7] : x`, `f ? xs[7] : x`, `[x, xs[3]][0]`,
		`o.p + xs[o.p]`, `s + string(xs[5])`, `if(b, x, xs[9]) + if(f, x, xs[9])`, `b && xs[9] > 0`, `f && xs[9] > 0`, `match("[", s)`, `x`, `xs`, `1 + 2`, `o.q + s`, `max(x, xs[4])`, `é`, `x +`}
	for _, src := range srcs {
		what := fmt.Sprintf("yae.Debug(%q, host map)", src)
		mark(what)
		var v1, v2 *val.Val
		var rep string
		var e1, e2 error
		if pan, msg := protect(func() { v1, rep, e1 = yae.Debug(src, host) }); pan {
			r.Violate("debug-panics", what, firstLine(msg))
			continue
		}
		if pan, _ := protect(func() { v2, e2 = yae.Eval(src, host) }); pan {
			continue
		}
		r.Count("facade debug runs")
		cls := func(v *val.Val, e error) string {
			if e != nil {
				return "error " + classify(e.Error())
			}
			return string(ValSx(v))
		}
		if cls(v1, e1) != cls(v2, e2) {
			r.Violate("debug-changes-result", what, fmt.Sprintf("yae.Eval: %s, yae.Debug: %s", trunc(cls(v2, e2), 200), trunc(cls(v1, e1), 200)))
		}
		// the same program through the debug compiler with a record read directly
		want, ran := "", false
		protect(func() {
			te, err := conv.TypeEnvOf(host)
			if err != nil {
				return
			}
			e := yae.NewExpr()
			e.UseCompiler(closure.DebugCompile)
			cl, err := e.Compile(src, te)
			if err != nil {
				return
			}
			ve, err := conv.ValEnvOf(host)
			if err != nil {
				return
			}
			rcd := debug.NewRecord()
			ve.Dgb = rcd
			cl(ve)
			want, ran = rcd.Render(src), true
		})
		if !ran {
			r.Count("facade debug: rejected")
			continue
		}
		if e1 != nil {
			r.Count("facade debug: run-time failures")
		}
		if rep != want {
			r.Violate("facade-report-differs-from-record", what, fmt.Sprintf("report %q, the record of the same evaluation renders as %q", trunc(rep, 300), trunc(want, 300)))
		} else if lines := strings.Split(rep, "\n"); lines[0] != src {
			r.Violate("report-first-line", what, "the first line is not the source")
		}
	}
}
