package main

// C01 (preservation), C02 (progress), C06 (lazy / strict evaluation order): direct predicates on the implementation.
// The correspondence cases (model vs implementation, per back end) are produced by evalCases in evalcorr.go.

import (
	"fmt"
	"github.com/goghcrow/yae/val"
	"strings"

	"github.com/goghcrow/yae/parser/oper"
	"github.com/goghcrow/yae/trans"
	"github.com/goghcrow/yae/types"
)

func init() {
	props["C01"] = runC01
	props["C02"] = runC02
	props["C06"] = runC06
}

var builtinTable *table

func staticType(src string, vars []envVar, withFns bool) (t *types.Type, ok bool) {
	if builtinTable == nil {
		builtinTable = newTable("builtin", append([]oper.Operator{}, oper.BuiltIn()...))
	}
	toks, ok1 := implLex(builtinTable, src)
	if !ok1 {
		return nil, false
	}
	parsed, ok2 := implParseToks(builtinTable, toks)
	if !ok2 {
		return nil, false
	}
	h := regHistory{"x", []interface{}{"builtin"}}
	if withFns {
		for _, f := range stdFns {
			h.items = append(h.items, f)
		}
	}
	te, _ := h.build()
	env := typeEnvOf(vars)
	pan, _ := protect(func() { t = types.Check(trans.Desugar(parsed), env.Inherit(te)) })
	return t, !pan && t != nil
}

func c01Class(src string) string {
	switch {
	case strings.Contains(src, "o2") || strings.Contains(src, "{"):
		return "value-not-of-static-type:object-field-order"
	}
	return "value-not-of-static-type"
}

func runC01(r *Run) {
	quietRun = r
	vars := stdVars
	corpus := []evalCase{
		{`[{a:1,b:"x"},{b:"y",a:2}][1].a`, false}, {`[o2, o][0].p`, false}, {`[o, o2][1].p + 1`, false}, {`[o, o2]`, false}, {`if(b, o, o2).p`, false}, {`get([o], 3, o2).q`, false},
		{`ident(if(f, o, o2)).p`, true}, {`[[o], [o2]][1][0].p`, false}, {`["a": o, "b": o2]["b"].p`, false}, {`get(mo, {p: 1}).p`, false}, {`{in: o2}.in.p`, false},
		{`union([o], [o2])`, false}, {`[[], [1]]`, false}, {`[[:], ["a": 1]]`, false}, {`get([], 0, 1)`, false}, {`[mb, mz]`, false}, {`lm`, false}, {`nest.in.p`, false}, {`nest`, false},
		{`print(xs)`, false}, {`pick([], o2).p`, true}, {`lazyif(b, o, o2).q`, true},
	}
	check := func(c evalCase) {
		st, ok := staticType(c.src, vars, c.withFns)
		outs, acc := judgeBackendsQuiet(c, vars)
		if !acc || !ok {
			r.Count("prog:rejected")
			return
		}
		r.Count("prog:accepted")
		any := false
		for i, o := range outs {
			if o.cls != "value" {
				continue
			}
			any = true
			var why string
			if pan, msg := protect(func() { why = deepTyped(o.v, st, "result") }); pan {
				why = "walking the value panics: " + firstLine(msg)
			}
			if why != "" {
				r.Violate(c01Class(c.src), fmt.Sprintf("%q on %s", c.src, backends[i]), fmt.Sprintf("static type %s; %s", st, why))
			}
		}
		if any {
			r.Nontrivial(c.src)
			r.Count("prog:value")
		}
	}
	for _, c := range corpus {
		check(c)
		r.Sample(c.src)
	}
	n := 1200
	if r.Tier == "thorough" {
		n = 60000
	}
	for i := 0; i < n; i++ {
		g := &progGen{r: r, vars: vars, fns: stdFns, useFns: r.Rng.Intn(2) == 0}
		src := g.Gen(g.randType(2), 1+r.Rng.Intn(4))
		if i < 3 {
			r.Sample(src)
		}
		check(evalCase{src, g.useFns})
	}
	// programs that may be ill-typed: whatever the checker accepts must still evaluate to its inferred type
	for i := 0; i < n/3; i++ {
		g := &progGen{r: r, vars: vars, fns: stdFns, useFns: r.Rng.Intn(2) == 0}
		var src string
		if i%3 == 0 {
			src = g.sharedVarProg(r.Rng.Intn(4) != 0)
		} else if i%3 == 1 {
			src = g.permObjProg(r.Rng.Intn(4) != 0)
		} else {
			g.poison = 1
			src = g.Gen(g.randType(2), 1+r.Rng.Intn(3))
		}
		r.Count("prog:possibly-ill-typed")
		check(evalCase{src, g.useFns})
	}
}

var quietRun *Run

func judgeBackendsQuiet(c evalCase, vars []envVar) ([]outcome, bool) {
	vals := stdValues()
	outs := make([]outcome, len(backends))
	for i, b := range backends {
		outs[i] = runOn(b, c.src, vars, vals, c.withFns)
	}
	if quietRun != nil && len(c.src) < 4000 {
		emitEvalCases(quietRun, c, vars, vals, outs)
	}
	return outs, !(outs[0].cls == "compile-error" || outs[0].cls == "compile-panic")
}

// ---------------- C02 ----------------

func runC02(r *Run) {
	quietRun = r
	vars := stdVars
	documented := map[string]bool{"fail:index": true, "fail:key": true, "fail:modzero": true, "fail:regex": true, "fail:host": true}
	judge := func(c evalCase, total bool) {
		outs, acc := judgeBackendsQuiet(c, vars)
		if !acc {
			r.Count("prog:rejected")
			return
		}
		r.Nontrivial(c.src)
		// "stops exactly when the semantics says the operation is undefined": the semantics is one, so a back end that
		// stops where another yields a value stops wrongly (the call-threaded loop's instruction limit is a known finding)
		for i, o := range outs[1:] {
			a, b := outs[0].cls == "value", o.cls == "value"
			if a != b && o.cls != "refused:overflow" && o.cls != "fault:limit" && outs[0].cls != "fault:limit" {
				r.Violate("stops-on-one-back-end-only", fmt.Sprintf("%q", c.src), fmt.Sprintf("%s: %s, %s: %s", backends[0], brief(outs[0]), backends[i+1], brief(o)))
			}
		}
		for i, o := range outs {
			r.Count("outcome:" + strings.SplitN(o.cls, "(", 2)[0])
			switch {
			case o.cls == "value", o.cls == "refused:overflow":
			case documented[o.cls]:
				if total {
					r.Violate(c02Class(c.src, o), fmt.Sprintf("%q on %s", c.src, backends[i]), "a program built from total operations only stopped with "+o.cls+" ["+firstLine(o.msg)+"]")
				}
			default:
				r.Violate(c02Class(c.src, o), fmt.Sprintf("%q on %s", c.src, backends[i]), "internal fault "+o.cls+" ["+firstLine(o.msg)+"]")
			}
		}
	}
	idx := []string{"-1", "-0.5", "0.5", "2.9", "3", "1e10", "2147483648", "9223372036854775808", "-9223372036854775809", "1e308 * 10", "-(1e308 * 10)", "0 / 0", "-0", "z - 1"}
	for _, i := range idx {
		for _, c := range []string{"xs", "es", "[1]", "[]"} {
			judge(evalCase{fmt.Sprintf("get(%s, %s, 42)", c, i), false}, true)
			judge(evalCase{fmt.Sprintf("(%s)[%s]", c, i), false}, false)
		}
		judge(evalCase{fmt.Sprintf("7 %% (%s)", i), false}, false)
		judge(evalCase{fmt.Sprintf("(%s) %% 3", i), false}, false)
		judge(evalCase{fmt.Sprintf("get(mn, %s, \"d\")", i), false}, true)
		judge(evalCase{fmt.Sprintf("isset(mn, %s)", i), false}, true)
	}
	for _, c := range []string{`max([])`, `min([])`, `max(es)`, `get(mz, 1)`, `get(mb, 1)`, `get(em, "k", 0)`, `isset(em, "")`, `len("")`, `len([])`, `len([:])`, `abs(0/0)`, `round(1e308*10)`,
		`string(0/0)`, `string(1e308*10)`, `string(lm)`, `string(nest)`, `union([],[])`, `diff(xs, xs)`, `intersect(es, xs)`, `get(lm[1], 3)`, `get(nest.mb, "d")`} {
		judge(evalCase{c, false}, true)
		r.Sample(c)
	}
	for _, c := range []string{`match("[", "a")`, `match("a(", "a")`, `match("^a.*$", "abc")`, `m["zz"]`, `mn[3]`, `os[2].p`, `[[1]][0][1]`, `(fo)(1)`} {
		judge(evalCase{c, false}, false)
	}
	// wide and deep literals: beyond the VM's initial stack (42 slots), 8-bit operand range, growth step (500)
	for _, w := range []int{41, 42, 43, 255, 256, 257, 541, 542, 543, 1100} {
		xs := make([]string, w)
		for i := range xs {
			xs[i] = fmt.Sprint(i)
		}
		judge(evalCase{"len([" + strings.Join(xs, ", ") + "])", false}, true)
		judge(evalCase{"[" + strings.Join(xs, ", ") + "][" + fmt.Sprint(w-1) + "]", false}, false)
		ps := make([]string, w)
		for i := range ps {
			ps[i] = fmt.Sprintf("%d: %d", i, i)
		}
		judge(evalCase{"len([" + strings.Join(ps, ", ") + "])", false}, true)
		fs := make([]string, w)
		for i := range fs {
			fs[i] = fmt.Sprintf("f%d: %d", i, i)
		}
		judge(evalCase{"{" + strings.Join(fs, ", ") + "}.f" + fmt.Sprint(w-1), false}, true)
	}
	for _, d := range []int{10, 45, 200, 600} {
		judge(evalCase{strings.Repeat("[", d) + "1" + strings.Repeat("]", d) + strings.Repeat("[0]", d), false}, false)
		judge(evalCase{strings.Repeat("(1 + ", d) + "1" + strings.Repeat(")", d), false}, true)
		judge(evalCase{strings.Repeat("if(b, ", d) + "1" + strings.Repeat(", 2)", d), false}, true)
	}
	n := 800
	if r.Tier == "thorough" {
		n = 50000
	}
	for i := 0; i < n; i++ {
		total := r.Rng.Intn(2) == 0
		g := &progGen{r: r, vars: vars, fns: stdFns, useFns: r.Rng.Intn(2) == 0, noFail: total}
		src := g.Gen(g.randType(1), 1+r.Rng.Intn(4))
		judge(evalCase{src, g.useFns}, total)
	}
}

func c02Class(src string, o outcome) string {
	switch {
	case strings.HasPrefix(src, "get(") && o.cls == "fail:index":
		return "get-with-default-fails-on-negative-index"
	case o.cls == "fault:nil":
		return "fault:nil"
	}
	return "unexpected:" + strings.SplitN(o.cls, "(", 2)[0]
}

// ---------------- C06 ----------------

func runC06(r *Run) {
	quietRun = r
	vars := stdVars
	n := 500
	if r.Tier == "thorough" {
		n = 30000
	}
	// a sub-expression of type t that always fails
	poison := func(g *progGen, t *T) string {
		inner := g.Gen(t, 0)
		switch g.rn(3) {
		case 0:
			return "[" + inner + "][7]"
		case 1:
			return "[\"a\": " + inner + "][\"zz\"]"
		default:
			return "get([boom(1)], 0, 0) > 0 ? " + inner + " : " + inner
		}
	}
	for i := 0; i < n; i++ {
		g := &progGen{r: r, vars: vars, fns: stdFns, useFns: true, trace: true, noFail: true}
		t := []*T{tnum(), tstr(), tbool(), tlist(tnum())}[g.rn(4)]
		p := g.Gen(t, 1+g.rn(3))
		pb := g.Gen(tbool(), 1+g.rn(2))
		bad := poison(g, t)
		badb := poison(g, tbool())
		variants := []string{
			"if(true, " + p + ", " + bad + ")", "if(false, " + bad + ", " + p + ")",
			"true ? (" + p + ") : (" + bad + ")", "lazyif(true, " + p + ", " + bad + ")", "lazyif(false, " + bad + ", " + p + ")",
			"if(isset(m, \"zz\"), " + "[" + p + "][m[\"zz\"]]" + ", " + p + ")",
		}
		base := judgeTrace(r, evalCase{p, true}, vars)
		if base == nil {
			continue
		}
		r.Nontrivial(p)
		for _, v := range variants {
			o := judgeTrace(r, evalCase{v, true}, vars)
			if o == nil {
				continue
			}
			if o.cls != "value" {
				r.Violate("unselected-operand-ran", fmt.Sprintf("%q", v), "stopped with "+o.cls+" although the failing operand is not selected")
			} else if string(ValSx(o.v)) != string(ValSx(base.v)) || !sameTraceMod(o.trace, base.trace) {
				r.Violate("lazy-changes-result-or-trace", fmt.Sprintf("%q vs %q", v, p), fmt.Sprintf("%s vs %s", brief(*o), brief(*base)))
			}
		}
		// boolean short circuits
		bbase := judgeTrace(r, evalCase{pb, true}, vars)
		if bbase != nil && bbase.cls == "value" {
			for _, v := range []string{"(" + pb + ") || true || (" + badb + ")", "true || (" + badb + ")", "false && (" + badb + ")", "both(false, " + badb + ")", "!(false && (" + badb + "))"} {
				o := judgeTrace(r, evalCase{v, true}, vars)
				if o != nil && o.cls != "value" {
					r.Violate("unselected-operand-ran", fmt.Sprintf("%q", v), "stopped with "+o.cls)
				}
			}
		}
		if i < 3 {
			r.Sample(variants[0])
		}
	}
	// strict operands: once each, left to right — the trace of a literal of tracing calls is the source order
	for i := 0; i < n/2; i++ {
		k := 2 + r.Rng.Intn(4)
		var parts, want []string
		for j := 0; j < k; j++ {
			parts = append(parts, fmt.Sprintf("tr(%d)", j+1))
			want = append(want, fmt.Sprint(j+1))
		}
		var src string
		switch r.Rng.Intn(5) {
		case 0:
			src = "[" + strings.Join(parts, ", ") + "]"
		case 1:
			var ps []string
			for j := 0; j+1 < len(parts); j += 2 {
				ps = append(ps, parts[j]+": "+parts[j+1])
			}
			want = want[:len(ps)*2]
			src = "[" + strings.Join(ps, ", ") + "]"
		case 2:
			var fs []string
			for j, p := range parts {
				fs = append(fs, fmt.Sprintf("f%d: %s", len(parts)-j, p))
			}
			src = "{" + strings.Join(fs, ", ") + "}"
		case 3:
			src = strings.Join(parts, " + ")
		default:
			src = "max(" + parts[0] + ", " + parts[1] + ") + [" + strings.Join(parts[2:], ", ") + "][0]"
			if len(parts) < 3 {
				src = "max(" + parts[0] + ", " + parts[1] + ")"
			}
		}
		o := judgeTrace(r, evalCase{src, true}, vars)
		if o == nil || o.cls != "value" {
			continue
		}
		var got []string
		for _, e := range o.trace {
			s := string(e)
			if strings.HasPrefix(s, "("+string(Name("tr"))+" ") {
				got = append(got, s)
			}
		}
		if len(got) != len(want) {
			r.Violate("strict-operand-count", fmt.Sprintf("%q", src), fmt.Sprintf("%d tracing calls, expected %d", len(got), len(want)))
		}
		r.Nontrivial(src)
	}
	// the same Callable invoked again: lazy operands run once PER EVALUATION, on every back end
	judgeReinvocations(r, vars)
	// operand ORDER in every operand position: tr(k) calls numbered in source order must be traced as 1, 2, 3, ...
	for _, c := range []struct {
		src  string
		want int
	}{
		{"[tr(1), tr(2)][tr(3) - 3]", 3}, {"ident([tr(1)])[tr(2) - 2]", 2}, {"[[tr(1)]][tr(2) - 2][tr(3) - 3]", 3}, {"[\"k\": tr(1)][if(tr(2) > 0, \"k\", \"j\")]", 2},
		{"tr(1) - tr(2) * tr(3)", 3}, {"tr(1) / tr(2) + tr(3) % tr(4)", 4}, {"tr(1) ^ tr(2)", 2}, {"max(tr(1), min(tr(2), tr(3)))", 3}, {"{a: tr(1), b: tr(2)}.b + tr(3)", 3},
		{"get([tr(1)], tr(2) - 2, tr(3))", 3}, {"get([\"k\": tr(1)], if(tr(2) > 0, \"k\", \"j\"), tr(3))", 3}, {"tr(1) == tr(2)", 2}, {"tr(1) < tr(2)", 2}, {"tr(1) >= tr(2)", 2}, {"tr(1) != tr(2)", 2},
		{"string(tr(1)) + string(tr(2))", 2}, {"if(tr(1) > 0, tr(2), tr(99))", 2}, {"tr(1) > 0 && tr(2) > 0", 2}, {"tr(1) < 0 || tr(2) > 0", 2}, {"inc(tr(1)) + inc(tr(2))", 2},
		{"pick([tr(1)], tr(2))", 2}, {"union([tr(1)], [tr(2), tr(3)])", 3}, {"len([tr(1), tr(2)]) + abs(tr(3))", 3}, {"[tr(1): tr(2), tr(3): tr(4)]", 4}, {"isset([tr(1): 0], tr(2))", 2},
		{"-tr(1) + -tr(2)", 2}, {"(tr(1) > 0 ? tr(2) : tr(99)) + tr(3)", 3}, {"[tr(1), tr(2)][tr(3) - 3] + [tr(4)][tr(5) - 5]", 5}, {"lazyif(tr(1) > 0, tr(2), tr(99)) + tr(3)", 3},
		{"lazyif(b, lazyif(b, tr(1), tr(99)), tr(98)) + tr(2)", 2}, {"[lazyif(b, lazyif(b, tr(1), tr(99)), tr(98)), tr(2)]", 2}, {"lazyif(b, lazyif(f, tr(99), tr(1)) * 2, tr(98)) - tr(2)", 2},
		{"tr(1) > 0 && f", 1}, {"tr(1) < 0 || b", 1}, {"[tr(1) > 0, tr(2) > 0 && f, tr(3) > 0]", 3}, {"tr(1) > 0 && b && tr(2) > 0", 2}, {"(tr(1) < 0 || b) && tr(2) > 0", 2},
		{"if(!!(tr(1) > 0), tr(2), tr(99))", 2}, {"if(!!!(tr(1) > 0), tr(99), tr(2))", 2}, {"!!(tr(1) < 0) && tr(99) > 0", 1}, {"!!(tr(1) > 0) || tr(99) > 0", 1}, {"!(!(tr(1) > 0)) ? tr(2) : tr(99)", 2},
		{"!!!!(tr(1) > 0) && tr(2) > 0", 2}, {"if(!(tr(1) > 0), tr(99), tr(2))", 2},
		{"both(both(trb(b), trb(b)), trb(b)) || tr(1) > 0", 0}, {"if(both(b, both(b, b)), tr(1), tr(99)) + tr(2)", 2},
	} {
		o := judgeTrace(r, evalCase{c.src, true}, vars)
		if o == nil {
			r.Violate("operand-order-program-rejected", fmt.Sprintf("%q", c.src), "a well-typed program of the operand-order family was rejected")
			continue
		}
		var got []string
		for _, e := range o.trace {
			s := string(e)
			if strings.HasPrefix(s, "("+string(Name("tr"))+" ") {
				got = append(got, s)
			}
		}
		var want []string
		for j := 1; j <= c.want; j++ {
			want = append(want, string(L(Name("tr"), ValSx(val.Num(float64(j))))))
		}
		if c.want > 0 && strings.Join(got, " ") != strings.Join(want, " ") {
			r.Violate("operand-order", fmt.Sprintf("%q", c.src), fmt.Sprintf("tracing calls ran as %v, source order is %v", got, want))
		}
		r.Count("operand-order programs")
	}
}

// judgeTrace: all back ends must agree; returns the common outcome (nil if rejected at compile time).
func judgeTrace(r *Run, c evalCase, vars []envVar) *outcome {
	outs, acc := judgeBackendsQuiet(c, vars)
	if !acc {
		r.Count("prog:rejected")
		return nil
	}
	r.Count("prog:" + strings.SplitN(outs[0].cls, "(", 2)[0])
	for i, o := range outs[1:] {
		if o.cls != "refused:overflow" && !obsEqual(outs[0], o) {
			r.Violate("trace-differs-across-backends", fmt.Sprintf("%q", c.src), fmt.Sprintf("%s: %s vs %s: %s", backends[0], brief(outs[0]), backends[i+1], brief(o)))
		}
	}
	return &outs[0]
}

// sameTraceMod: same events, ignoring the bookkeeping events of the lazy wrappers themselves.
func sameTraceMod(a, b []Sx) bool {
	f := func(xs []Sx) []string {
		var out []string
		for _, x := range xs {
			s := string(x)
			if strings.HasPrefix(s, "("+string(Name("lazyif"))) {
				continue
			}
			out = append(out, s)
		}
		return out
	}
	x, y := f(a), f(b)
	if len(x) != len(y) {
		return false
	}
	for i := range x {
		if x[i] != y[i] {
			return false
		}
	}
	return true
}
