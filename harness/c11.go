package main

// C11 — emitted bytecode is structurally safe and can only run forward.
// Correspondence: the bytes and the constant pool emitted by vm.Compile against the Coq compiler model, byte for byte.
// Direct predicate: an independent structural check of the implementation's bytes (complete decoding, known opcodes,
// operand kinds and ranges, forward in-range jump targets on instruction boundaries, one stack depth per pc,
// never negative, exactly one at RETURN, recursively for thunk bodies).

import (
	"fmt"
	"strings"

	"github.com/goghcrow/yae/parser/oper"
	"github.com/goghcrow/yae/trans"
	"github.com/goghcrow/yae/types"
	"github.com/goghcrow/yae/val"
	"github.com/goghcrow/yae/vm"

	yae "github.com/goghcrow/yae"
)

func init() { props["C11"] = runC11 }

func poolSx(pool []vm.VerifConst) Sx {
	xs := make([]Sx, len(pool))
	for i, c := range pool {
		switch c.Kind {
		case "val":
			xs[i] = L(A("val"), ValSx(c.Val))
		case "fun":
			xs[i] = L(A("fun"), Name(c.Val.Type.Fun().Name), Int(len(c.Val.Type.Fun().Param)), Bool(c.Val.Fun().Lazy))
		case "thunk":
			xs[i] = L(A("thunk"), bytesSx(c.Thunk), TySx(c.Ty.Fun().Return))
		case "type":
			xs[i] = L(A("type"), TySx(c.Ty))
		case "name":
			xs[i] = L(A("name"), Name(c.Name))
		default:
			xs[i] = A(c.Kind)
		}
	}
	return LS(xs)
}

func bytesSx(b []byte) Sx {
	xs := make([]Sx, len(b))
	for i, x := range b {
		xs[i] = Int(int(x))
	}
	return LS(xs)
}

// implBytecode: parse, desugar, check and compile with the implementation.
func implBytecode(src string, vars []envVar, withFns bool) (code []byte, pool []vm.VerifConst, cls string) {
	if builtinTable == nil {
		builtinTable = newTable("builtin", append([]oper.Operator{}, oper.BuiltIn()...))
	}
	toks, ok := implLex(builtinTable, src)
	if !ok {
		return nil, nil, "compile-error"
	}
	parsed, ok := implParseToks(builtinTable, toks)
	if !ok {
		return nil, nil, "compile-error"
	}
	// an engine gives us the run-time function table in the registration order the facade uses
	tl := &traceLog{}
	e := newExpr("vm-switch", tl, withFns)
	var rt *val.Env
	cls = "ok"
	pan, msg := protect(func() {
		// reproduce facade.CompileExpr up to the compiler call, then ask the hook for the bytes
		_, err := e.Compile("1", types.NewEnv()) // forces makeSureInit (built-ins registered)
		_ = err
		rt = yae.VerifRuntimeEnv(e)
		des := trans.Desugar(parsed)
		types.Check(des, typeEnvOf(vars).Inherit(yae.VerifTypeEnv(e)))
		code, pool = vm.VerifBytecode(des, rt)
	})
	if pan {
		cls = "compile-error"
		if classify(msg) == "refused:overflow" {
			cls = "refused:overflow"
		}
	}
	return
}

// ---- independent structural verifier of the implementation's bytes ----
type opInfo struct {
	operands  string // sequence of: c (16-bit const index), m (16-bit medium int), j (16-bit jump target), b (8-bit)
	pop, push int    // fixed stack effect; -1 = depends on operands
}

func opTable() map[string]opInfo {
	t := map[string]opInfo{
		"OP_NOP": {"", 0, 0}, "OP_RETURN": {"", 1, 0}, "OP_CONST": {"c", 0, 1}, "OP_LOAD": {"c", 0, 1},
		"OP_ADD_NUM": {"", 0, 0}, "OP_SUB_NUM": {"", 1, 1}, "OP_ABS_NUM": {"", 1, 1}, "OP_CEIL_NUM": {"", 1, 1}, "OP_FLOOR_NUM": {"", 1, 1},
		"OP_ROUND_NUM": {"", 1, 1}, "OP_LEN_STR": {"", 1, 1}, "OP_LEN_LIST": {"", 1, 1}, "OP_LEN_MAP": {"", 1, 1}, "OP_STRTOTIME_STR": {"", 1, 1},
		"OP_LOGICAL_NOT": {"", 1, 1}, "OP_GET_MAYBE": {"", 2, 1}, "OP_LIST_LOAD": {"", 2, 1}, "OP_MAP_LOAD": {"", 2, 1},
		"OP_OBJ_LOAD": {"mc", 1, 1}, "OP_NEW_LIST": {"cm", -1, 1}, "OP_NEW_MAP": {"cm", -1, 1}, "OP_NEW_OBJ": {"c", -1, 1},
		"OP_CALL_BY_VALUE": {"cb", -1, 1}, "OP_CALL_BY_NEED": {"cb", -1, 1}, "OP_DYNAMIC_CALL": {"b", -1, 1},
		"OP_IF_TRUE": {"j", 1, 0}, "OP_JUMP": {"j", 0, 0},
	}
	for _, n := range vm.VerifOpcodes() {
		if _, ok := t[n]; !ok {
			t[n] = opInfo{"", 2, 1} // the binary intrinsics
		}
	}
	return t
}

func verifyCode(code []byte, pool []vm.VerifConst, names []string, tbl map[string]opInfo) string {
	depth := map[int]int{0: 0}
	starts := map[int]bool{}
	type jmp struct{ from, to, d int }
	var jumps []jmp
	pc := 0
	sawReturnEnd := false
	for pc < len(code) {
		starts[pc] = true
		d, ok := depth[pc]
		if !ok {
			return fmt.Sprintf("pc %d unreachable or depth unknown", pc)
		}
		op := int(code[pc])
		if op >= len(names) {
			return fmt.Sprintf("unknown opcode %d at %d", op, pc)
		}
		name := names[op]
		info := tbl[name]
		at := pc
		pc++
		var cidx, med, b8, target = -1, -1, -1, -1
		for _, o := range info.operands {
			switch o {
			case 'c', 'm', 'j':
				if pc+2 > len(code) {
					return fmt.Sprintf("truncated operand at %d", at)
				}
				v := int(code[pc])<<8 | int(code[pc+1])
				pc += 2
				switch o {
				case 'c':
					cidx = v
					if v >= len(pool) {
						return fmt.Sprintf("constant index %d out of range at %d", v, at)
					}
				case 'm':
					med = v
				case 'j':
					target = v
				}
			case 'b':
				if pc+1 > len(code) {
					return fmt.Sprintf("truncated operand at %d", at)
				}
				b8 = int(code[pc])
				pc++
			}
		}
		pop, push := info.pop, info.push
		kind := ""
		if cidx >= 0 {
			kind = pool[cidx].Kind
		}
		switch name {
		case "OP_CONST":
			if kind != "val" && kind != "thunk" {
				return fmt.Sprintf("OP_CONST of a %s constant at %d", kind, at)
			}
		case "OP_LOAD":
			if kind != "name" {
				return fmt.Sprintf("OP_LOAD of a %s constant at %d", kind, at)
			}
		case "OP_OBJ_LOAD":
			if kind != "name" {
				return fmt.Sprintf("OP_OBJ_LOAD name operand is a %s constant at %d", kind, at)
			}
		case "OP_NEW_LIST":
			if kind != "type" || pool[cidx].Ty.Kind != types.KList {
				return fmt.Sprintf("OP_NEW_LIST type operand at %d", at)
			}
			pop = med
		case "OP_NEW_MAP":
			if kind != "type" || pool[cidx].Ty.Kind != types.KMap {
				return fmt.Sprintf("OP_NEW_MAP type operand at %d", at)
			}
			pop = 2 * med
		case "OP_NEW_OBJ":
			if kind != "type" || pool[cidx].Ty.Kind != types.KObj {
				return fmt.Sprintf("OP_NEW_OBJ type operand at %d", at)
			}
			pop = len(pool[cidx].Ty.Obj().Fields)
		case "OP_CALL_BY_VALUE", "OP_CALL_BY_NEED":
			if kind != "fun" {
				return fmt.Sprintf("%s of a %s constant at %d", name, kind, at)
			}
			if len(pool[cidx].Val.Type.Fun().Param) != b8 {
				return fmt.Sprintf("%s argument count %d differs from the function's arity at %d", name, b8, at)
			}
			if (name == "OP_CALL_BY_NEED") != pool[cidx].Val.Fun().Lazy {
				return fmt.Sprintf("%s used for a function of the other evaluation strategy at %d", name, at)
			}
			pop = b8
		case "OP_DYNAMIC_CALL":
			pop = b8 + 1
		}
		if d < pop {
			return fmt.Sprintf("stack underflow at %d (%s): depth %d, pops %d", at, name, d, pop)
		}
		nd := d - pop + push
		if name == "OP_RETURN" {
			if d != 1 {
				return fmt.Sprintf("depth %d at OP_RETURN (pc %d)", d, at)
			}
			if pc == len(code) {
				sawReturnEnd = true
			}
			continue
		}
		set := func(p, v int) string {
			if old, ok := depth[p]; ok && old != v {
				return fmt.Sprintf("two stack depths (%d, %d) at pc %d", old, v, p)
			}
			depth[p] = v
			return ""
		}
		if target >= 0 {
			if target <= at || target >= len(code) {
				return fmt.Sprintf("jump at %d targets %d: not a later position inside the code", at, target)
			}
			jumps = append(jumps, jmp{at, target, nd})
			if r := set(target, nd); r != "" {
				return r
			}
		}
		if name != "OP_JUMP" {
			if r := set(pc, nd); r != "" {
				return r
			}
		}
	}
	for _, j := range jumps {
		if !starts[j.to] {
			return fmt.Sprintf("jump at %d targets %d, not an instruction boundary", j.from, j.to)
		}
	}
	if !sawReturnEnd {
		return "code does not end with OP_RETURN"
	}
	return ""
}

func runC11(r *Run) {
	vars := stdVars
	names := vm.VerifOpcodes()
	tbl := opTable()
	judge := func(c evalCase) {
		code, pool, cls := implBytecode(c.src, vars, c.withFns)
		h := historyFor(c.withFns)
		req := L(A("bytecode"), h.Sx(), tenvSx(vars), oraclesSx(c.src, stdValues()), Runes(c.src))
		if cls != "ok" {
			if len(c.src) < 20000 {
				r.Case(req, A(cls))
			}
			r.Count("prog:" + cls)
			return
		}
		if len(code) < 20000 {
			r.Case(req, L(A("ok"), bytesSx(code), poolSx(pool)))
			// the extracted verifier on the implementation's bytes
			r.Case(L(A("verify"), bytesSx(code), poolSx(pool)), Bool(true))
		} else {
			r.Count("prog:too-large-for-the-extracted-model(direct verifier only)")
		}
		r.Count("prog:compiled")
		r.Nontrivial(c.src)
		if why := verifyCode(code, pool, names, tbl); why != "" {
			r.Violate("bytecode-not-safe", fmt.Sprintf("%q", c.src), why)
		}
		nth := 0
		for _, pc := range pool {
			if pc.Kind == "thunk" {
				nth++
				if why := verifyCode(pc.Thunk, pool, names, tbl); why != "" {
					r.Violate("thunk-bytecode-not-safe", fmt.Sprintf("%q", c.src), why)
				}
			}
		}
		if nth > 0 {
			r.Count("prog:with-thunks")
		}
		// at most one step per emitted instruction: forward jumps only is what verifyCode established
	}
	corpus := []evalCase{{`1`, false}, {`x + y`, false}, {`if(b, x, y)`, false}, {`b && f || !b`, false}, {`[1, 2, 3][0]`, false}, {`["a": 1]["a"]`, false}, {`{p: 1, q: "s"}.q`, false},
		{`get(xs, 0, 1)`, false}, {`lazyif(b, tr(1), tr(2))`, true}, {`both(trb(f), lazyif(b, f, b))`, true}, {`if(b, if(f, 1, 2), if(f, 3, 4))`, false}, {`inc(inc(x))`, true},
		{`(b ? x : y) + (f ? 1 : 2)`, false}, {`len([])`, false}, {`[:]`, false}, {`{}`, false}, {`o2.p`, false}, {`string(nest.in.p)`, false}, {`print(1)`, false}}
	for _, c := range corpus {
		judge(c)
		r.Sample(c.src)
	}
	for _, w := range []int{255, 256, 257, 300} {
		xs := ""
		for i := 0; i < w; i++ {
			if i > 0 {
				xs += ", "
			}
			xs += fmt.Sprint(i % 7)
		}
		judge(evalCase{"[" + xs + "]", false})
		// a conditional spanning more than 255 bytes
		judge(evalCase{"if(b, len([" + xs + "]), 0)", false})
	}
	// code that straddles the 64K boundary of 16-bit jump operands: refused, or emitted with exact targets
	{
		big := func(n int) string {
			xs := make([]string, n)
			for i := range xs {
				xs[i] = fmt.Sprint(i % 9)
			}
			return "[" + strings.Join(xs, ", ") + "]"
		}
		L := big(21900)
		srcs := []string{"if(b, 0, len(" + L + "))", "b || len(" + L + ") > 0", "if(b, len(" + L + "), 0)", "f && len(" + L + ") > 0", "if(b, 1, 2) + len(" + L + ")"}
		if r.Tier != "thorough" {
			srcs = srcs[:2]
		}
		for _, src := range srcs {
			judge(evalCase{src, false})
			r.Count("64K-boundary programs")
		}
	}
	// constant-pool position sweep: every tail operator after 0..N constants
	{
		var ks []int
		for k := 0; k <= 90; k++ {
			ks = append(ks, k)
		}
		for k := 97; k <= 600; k += 13 {
			ks = append(ks, k)
		}
		if r.Tier == "thorough" {
			ks = nil
			for k := 0; k <= 700; k++ {
				ks = append(ks, k)
			}
		}
		for _, src := range poolSweep(ks, sweepTails) {
			judge(evalCase{src, false})
			r.Count("pool-sweep programs")
		}
	}
	n := 1200
	if r.Tier == "thorough" {
		n = 60000
	}
	for i := 0; i < n; i++ {
		g := &progGen{r: r, vars: vars, fns: stdFns, useFns: r.Rng.Intn(2) == 0, trace: r.Rng.Intn(4) == 0}
		src := g.Gen(g.randType(1), 1+r.Rng.Intn(4))
		judge(evalCase{src, g.useFns})
	}
}
