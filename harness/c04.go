package main

// C04 — operators and built-in functions compute their documented results.
// The reference is the Coq model's evaluator (IEEE arithmetic through the numeric interface, tolerance comparisons,
// exact string / bool / time comparison, rune-counted length, order-preserving de-duplicating set operations,
// get / isset, string conversion, literal decoding): every built-in is applied to boundary operands on all back ends
// and the value compared with the model's (correspondence), exhaustively over the operand pools for unary and binary
// built-ins and randomly for larger programs.

import (
	"fmt"
	"strings"
	"time"

	"github.com/goghcrow/yae/fun"
	"github.com/goghcrow/yae/val"
)

func init() { props["C04"] = runC04 }

var c04Pool = map[string][]string{
	"num": {"0", "-(0)", "1", "-(1)", "2", "0.5", "-(2.5)", "3.5", "1e-9", "1.0000000001e-9", "0.9999999999e-9", "0.1 + 0.2", "0.3", "9007199254740992", "9007199254740993",
		"9223372036854775807", "9223372036854775808", "-(9223372036854775808)", "1e19", "1e308 * 10", "-(1e308 * 10)", "0 / 0", "1e-320", "4294967296", "255", "0x1f", "0b101", "0o17", "1.5e3", "2.5e-3"},
	"str":   {`""`, `"a"`, `"héllo"`, "`raw\\n`", `"tab\there"`, `"aé世"`, `"ab"`, `"A"`, `"10"`, `"9"`},
	"bool":  {"true", "false"},
	"time":  {"t0", "t1", "'2020-01-02 03:04:05'", "'1970-01-01 00:00:00'", "strtotime(\"2001-09-09 01:46:40\")"},
	"list":  {"[]", "[1]", "[1, 2, 2, 1, 3]", "xs", "es", "[3, 1, 2]", "[0.1 + 0.2, 0.3]", "[1e19, 2e19, 1e19]", "ss", "[\"a\", \"b\", \"a\"]", "[o, o2, o]", "[[1], [1], []]", "[4, 2]", "[1, 2, 3, 4]", "[3, 3, 3, 1, 1]", "[\"c\", \"a\"]", "[\"a\", \"b\", \"c\"]"},
	"map":   {"[:]", "m", "em", "mn", "[\"a\": 1, \"a\": 2]", "[1: \"x\", 1.0: \"y\", 2: \"z\"]", "[true: 1, false: 2]"},
	"maybe": {"mb", "mz", "nest.mb", "lm[0]", "lm[1]"},
	"var":   {"1", `"s"`, "true", "xs", "o", "mb", "[]", "t0"},
}

func runC04(r *Run) {
	quietRun = r
	vars := stdVars
	isOp := func(n string) bool { return strings.ContainsAny(n[:1], "+-*/%^<>=!&|") }
	call := func(name string, args []string) string {
		if isOp(name) {
			if len(args) == 2 {
				return "(" + args[0] + ") " + name + " (" + args[1] + ")"
			}
			return name + "(" + args[0] + ")"
		}
		return name + "(" + strings.Join(args, ", ") + ")"
	}
	n := 0
	for _, f := range fun.BuiltIn() {
		ft := FromGo(f.Type)
		params := ft.Sub[:len(ft.Sub)-1]
		pools := make([][]string, len(params))
		for i, p := range params {
			k := p.K
			pools[i] = c04Pool[k]
			if len(pools[i]) == 0 {
				pools[i] = []string{"1"}
			}
		}
		if ft.Name == "^" {
			// math.Pow with a fractional exponent other than +-0.5 goes through Go's own Exp and Log: an oracle the model does
			// not reproduce bit for bit (DESIGN.md, trusted base)
			pools[1] = []string{"0", "1", "2", "3", "-(1)", "-(2)", "0.5", "-(0.5)", "10", "1e308 * 10", "0 / 0"}
		}
		if ft.Name == "match" || ft.Name == "strtotime" {
			// oracles: literal operands only
			pools = [][]string{{`"^a.*"`, `"["`, `"é+"`, `""`}, {`"abc"`, `"é"`, `""`}}[:len(params)]
			if ft.Name == "strtotime" {
				pools = [][]string{{`"2020-01-02 03:04:05"`, `"1970-01-01 00:00:00"`, `"garbage"`, `""`}}
			}
		}
		// all combinations for arity <= 2, a diagonal slice for arity 3
		var rec func(i int, cur []string)
		rec = func(i int, cur []string) {
			if i == len(params) {
				src := call(ft.Name, cur)
				if len(params) == 3 && (n+int(r.Seed))%5 != 0 && r.Tier != "thorough" {
					n++
					return
				}
				n++
				_, acc := judgeBackendsQuiet(evalCase{src, false}, vars)
				if acc {
					r.Nontrivial(src)
					r.Count("builtin:" + ft.Name)
				} else {
					r.Count("rejected")
				}
				return
			}
			for _, a := range pools[i] {
				rec(i+1, append(append([]string{}, cur...), a))
			}
		}
		rec(0, nil)
	}
	// set operations on lists of small integers with duplicates, different sizes and orders: the result is the
	// order-preserving de-duplication the documentation defines (reference computed here), on every back end
	{
		ns := 250
		if r.Tier == "thorough" {
			ns = 20000
		}
		lit := func(xs []int) string {
			ss := make([]string, len(xs))
			for i, x := range xs {
				ss[i] = fmt.Sprint(x)
			}
			return "[" + strings.Join(ss, ", ") + "]"
		}
		dedup := func(xs []int) []int {
			seen := map[int]bool{}
			out := []int{}
			for _, x := range xs {
				if !seen[x] {
					seen[x] = true
					out = append(out, x)
				}
			}
			return out
		}
		has := func(xs []int, v int) bool {
			for _, x := range xs {
				if x == v {
					return true
				}
			}
			return false
		}
		for i := 0; i < ns; i++ {
			mk := func() []int {
				k := r.Rng.Intn(7)
				xs := make([]int, k)
				for j := range xs {
					xs[j] = r.Rng.Intn(6)
				}
				return xs
			}
			a, b := mk(), mk()
			var fa, fb []int
			for _, x := range a {
				if has(b, x) {
					fa = append(fa, x)
				} else {
					fb = append(fb, x)
				}
			}
			want := map[string][]int{"union": dedup(append(append([]int{}, a...), b...)), "intersect": dedup(fa), "diff": dedup(fb)}
			for _, op := range []string{"union", "intersect", "diff"} {
				src := fmt.Sprintf("%s(%s, %s)", op, lit(a), lit(b))
				if len(a) == 0 && len(b) == 0 {
					continue
				}
				outs, acc := judgeBackendsQuiet(evalCase{src, false}, vars)
				r.Count("set-op programs")
				if !acc {
					continue
				}
				for bi, o := range outs {
					if o.cls != "value" {
						continue
					}
					got := []int{}
					for _, e := range o.v.List().V {
						got = append(got, int(e.Num().V))
					}
					if fmt.Sprint(got) != fmt.Sprint(want[op]) {
						r.Violate("set-operation-result", fmt.Sprintf("%q on %s", src, backends[bi]), fmt.Sprintf("got %v, the order-preserving de-duplicating %s is %v", got, op, want[op]))
					}
				}
			}
		}
	}
	// set operations over composites that contain strings with the renderer's own delimiters, and numeric map keys that
	// are equal numbers with different bit patterns or spellings (correspondence with the model decides)
	{
		elems := []string{`["a, b"]`, `["a", "b"]`, `["a"]`, `["b"]`, `["a", "b, c"]`, `["a, b", "c"]`, `["é, ü"]`, `["é", "ü"]`, `["a\", \"b"]`, `["1", "2"]`, `["1, 2"]`}
		for _, a := range elems {
			for _, b := range elems {
				for _, op := range []string{"union", "intersect", "diff"} {
					judgeBackendsQuiet(evalCase{fmt.Sprintf("%s([%s], [%s, %s])", op, a, b, a), false}, vars)
				}
				judgeBackendsQuiet(evalCase{fmt.Sprintf("[%s] == [%s]", a, b), false}, vars)
				r.Count("set-op programs over string composites")
			}
		}
		keys := []string{"0", "-(0)", "ceil(-(0.5))", "0 * -(3)", "round(-(0.2))", "1", "1.0", "0.5 + 0.5", "0.1 + 0.2", "0.3", "9007199254740992", "9007199254740993", "1e19", "9223372036854775808", "-(9223372036854775808)", "2.5", "x - 3"}
		for _, k1 := range keys {
			for _, k2 := range keys {
				for _, tpl := range []string{`[%s: "a", 7: "b"][%s]`, `get([%s: "a"], %s, "none")`, `isset([%s: 1], %s)`, `len([%s: 1, %s: 2])`, `[%s: 1] == [%s: 1]`, `string([%s: 1]) == string([%s: 1])`} {
					judgeBackendsQuiet(evalCase{fmt.Sprintf(tpl, k1, k2), false}, vars)
				}
				r.Count("numeric-map-key programs")
			}
		}
	}
	// exact time comparison is comparison of INSTANTS: host times denoting the same instants in other locations, alone and
	// inside lists, maps and objects (element-by-element equality); correspondence with the model decides
	{
		zvars := append(append([]envVar{}, vars...), envVar{"tz0", ttime()}, envVar{"tz1", ttime()})
		zvals := stdValues()
		zvals["tz0"] = val.Time(t0v.In(time.FixedZone("X", 3600)))
		zvals["tz1"] = val.Time(t1v.UTC())
		names := []string{"t0", "tz0", "t1", "tz1"}
		for _, a := range names {
			for _, b := range names {
				for _, tpl := range []string{"%s == %s", "%s != %s", "%s <= %s", "[%s] == [%s]", "[%s] != [%s]", "[[%s]] == [[%s]]", `["k": %s] == ["k": %s]`, "{a: %s} == {a: %s}", "{a: [%s], b: 1} != {a: [%s], b: 1}", "[1: {p: %s}] == [1: {p: %s}]"} {
					src := fmt.Sprintf(tpl, a, b)
					outs := make([]outcome, len(backends))
					for i, be := range backends {
						outs[i] = runOn(be, src, zvars, zvals, false)
					}
					emitEvalCases(r, evalCase{src, false}, zvars, zvals, outs)
				}
				r.Count("host-times-other-zone pairs")
			}
		}
	}
	for _, s := range []string{`1e-9 == 0`, `0.1 + 0.2 == 0.3`, `len("héllo")`, `union([1, 2, 2], [2, 3])`, `get(xs, 1, 0)`, `string([1.5, 1e19])`, `0x1f + 0b101 + 0o17`, `2 ^ 0.5`, `round(-(2.5))`, `t0 - t1`} {
		r.Sample(s)
	}
	// literal decoding
	for _, lit := range []string{"0", "1", "10", "0.5", "1.25e2", "1E3", "1e+3", "1e-3", "0.1", "123456789012345678901234567890", "1e22", "1e23", "8.5e-324", "4.9e-324", "2.2250738585072014e-308",
		"1.7976931348623157e308", "1.7976931348623158e308", "0x0", "0xff", "0xFF", "0x7fffffffffffffff", "0b0", "0b1111", "0o0", "0o777", "9007199254740993", "0.30000000000000004", "1e0", "0e5", "0.0"} {
		judgeBackendsQuiet(evalCase{lit, false}, vars)
		judgeBackendsQuiet(evalCase{"string(" + lit + ")", false}, vars)
	}
	for _, lit := range []string{`"é"`, `"\\"`, `"\""`, `"\t\r\n\b\f"`, "`a\rb`", `"\ud800"`, `"\/"`, `"é世"`, "``", `""`} {
		judgeBackendsQuiet(evalCase{lit, false}, vars)
		judgeBackendsQuiet(evalCase{"len(" + lit + ")", false}, vars)
	}
	m := 600
	if r.Tier == "thorough" {
		m = 60000
	}
	for i := 0; i < m; i++ {
		g := &progGen{r: r, vars: vars, noFail: r.Rng.Intn(2) == 0}
		src := g.Gen(g.randType(1), 2+r.Rng.Intn(3))
		if _, acc := judgeBackendsQuiet(evalCase{src, false}, vars); acc {
			r.Nontrivial(src)
		}
	}
	r.Notes = append(r.Notes, fmt.Sprintf("%d built-in applications over the boundary pools", n))
}
