package main

// C18 — equality, map-key identity, set membership and rendering agree.
// Direct predicates on pairs of values of equal type whose numeric parts are identical or farther apart than the
// comparison tolerance: == <=> same rendering <=> same map key (primitives) <=> same element in union/intersect/diff;
// reflexive, symmetric; rendering independent of field order and insertion order; distinct numbers never collide.

import (
	"fmt"
	"math"
	"strings"
	"time"

	yae "github.com/goghcrow/yae"
	"github.com/goghcrow/yae/fun"
	"github.com/goghcrow/yae/types"
	"github.com/goghcrow/yae/val"
)

func init() { props["C18"] = runC18 }

type vgen struct{ r *Run }

var numPool = []float64{0, 1, -1, 2, 0.5, 0.1, 1.5, -2.5, 1e-7, 123456789, 1 << 53, (1 << 53) + 2, 1 << 62, 1 << 63, (1 << 63) + 2048, 1e19, 2e19, 1.8446744073709552e19, -(1 << 63), -(1<<63 + 2048), 1e300, 4294967296, 0.30000000000000004}
var strPool = []string{"", "a", "b", "a b", "é", "q\"r", "x\ty", "\n", "\\", "\x00", " ", "\U0001F600", "\xff", "a,b", "a: b", "[", "{", "1"}

func (g *vgen) prim(t *T) *val.Val {
	rn := g.r.Rng
	switch t.K {
	case "num":
		return val.Num(numPool[rn.Intn(len(numPool))])
	case "str":
		return val.Str(strPool[rn.Intn(len(strPool))])
	case "bool":
		return val.Bool(rn.Intn(2) == 0)
	case "time":
		return val.Time(time.Unix(int64(rn.Intn(4))*86400*365, 0))
	}
	panic(t.K)
}

// gen builds a value of type t; the dynamic type of objects uses a random permutation of the fields.
func (g *vgen) gen(t *T, d int) *val.Val {
	rn := g.r.Rng
	switch t.K {
	case "num", "str", "bool", "time":
		return g.prim(t)
	case "list":
		n := rn.Intn(4)
		if d <= 0 {
			n = rn.Intn(2)
		}
		vs := make([]*val.Val, n)
		for i := range vs {
			vs[i] = g.gen(t.Sub[0], d-1)
		}
		return mkList(t.Sub[0].Go(), vs...)
	case "map":
		n := rn.Intn(4)
		kvs := []*val.Val{}
		for i := 0; i < n; i++ {
			kvs = append(kvs, g.prim(t.Sub[0]), g.gen(t.Sub[1], d-1))
		}
		return mkMap(t.Sub[0].Go(), t.Sub[1].Go(), kvs...)
	case "obj":
		perm := rn.Perm(len(t.Fn))
		ot := &T{K: "obj"}
		vs := make([]*val.Val, len(perm))
		for i, j := range perm {
			ot.Fn = append(ot.Fn, t.Fn[j])
			ot.Sub = append(ot.Sub, t.Sub[j])
			vs[i] = g.gen(t.Sub[j], d-1)
		}
		// the object's own type must list the dynamic types of its parts
		fs := make([]types.Field, len(perm))
		for i := range perm {
			fs[i] = types.Field{Name: ot.Fn[i], Val: vs[i].Type}
		}
		return mkObj(types.Obj(fs), vs...)
	case "maybe":
		if rn.Intn(3) == 0 {
			return val.Nothing(t.Sub[0].Go())
		}
		v := g.gen(t.Sub[0], d-1)
		return val.Just(v.Type, v)
	}
	panic(t.K)
}

// variant: an equal-by-construction copy of v (permuted fields, other insertion order), or with one leaf changed.
func (g *vgen) variant(v *val.Val, change *bool) *val.Val {
	rn := g.r.Rng
	switch v.Type.Kind {
	case types.KNum, types.KStr, types.KBool, types.KTime:
		if *change && rn.Intn(2) == 0 {
			*change = false
			for i := 0; i < 20; i++ {
				w := g.prim(FromGo(v.Type))
				if string(ValSx(w)) != string(ValSx(v)) {
					return w
				}
			}
		}
		return v
	case types.KList:
		vs := make([]*val.Val, len(v.List().V))
		for i, e := range v.List().V {
			vs[i] = g.variant(e, change)
		}
		l := val.List(v.Type.List(), 0).List()
		l.V = vs
		return l.Vl()
	case types.KMap:
		m := val.Map(v.Type.Map()).Map()
		keys := []val.Key{}
		for k := range v.Map().V {
			keys = append(keys, k)
		}
		for _, i := range rn.Perm(len(keys)) {
			m.V[keys[i]] = g.variant(v.Map().V[keys[i]], change)
		}
		return m.Vl()
	case types.KObj:
		fs := v.Type.Obj().Fields
		perm := rn.Perm(len(fs))
		nf := make([]types.Field, len(fs))
		vs := make([]*val.Val, len(fs))
		for i, j := range perm {
			vs[i] = g.variant(v.Obj().V[j], change)
			nf[i] = types.Field{Name: fs[j].Name, Val: vs[i].Type}
		}
		return mkObj(types.Obj(nf), vs...)
	case types.KMaybe:
		if v.Maybe().V == nil {
			return val.Nothing(v.Type.Maybe().Elem)
		}
		w := g.variant(v.Maybe().V, change)
		return val.Just(w.Type, w)
	}
	return v
}

func hasBigNum(v *val.Val) bool {
	found := false
	var walk func(v *val.Val)
	walk = func(v *val.Val) {
		if v == nil {
			return
		}
		switch v.Type.Kind {
		case types.KNum:
			if math.Abs(v.Num().V) >= 1<<63 {
				found = true
			}
		case types.KList:
			for _, e := range v.List().V {
				walk(e)
			}
		case types.KMap:
			for _, e := range v.Map().V {
				walk(e)
			}
		case types.KObj:
			for _, e := range v.Obj().V {
				walk(e)
			}
		case types.KMaybe:
			walk(v.Maybe().V)
		}
	}
	walk(v)
	return found
}

func hasKind(v *val.Val, k types.Kind) bool {
	if v == nil {
		return false
	}
	if v.Type.Kind == k {
		return true
	}
	switch v.Type.Kind {
	case types.KList:
		for _, e := range v.List().V {
			if hasKind(e, k) {
				return true
			}
		}
	case types.KMap:
		for _, e := range v.Map().V {
			if hasKind(e, k) {
				return true
			}
		}
	case types.KObj:
		for _, e := range v.Obj().V {
			if hasKind(e, k) {
				return true
			}
		}
	case types.KMaybe:
		return hasKind(v.Maybe().V, k)
	}
	return false
}

func c18Class(kind string, x, y *val.Val) string {
	switch {
	case hasBigNum(x) || hasBigNum(y):
		return kind + ":number-beyond-int64"
	case hasKind(x, types.KMaybe) && hasKind(x, types.KObj):
		return kind + ":optional-of-object"
	case hasKind(x, types.KObj):
		return kind + ":object"
	}
	return kind
}

func evalBool(src string, x, y *val.Val) (res string) {
	pan, msg := protect(func() {
		e := yae.NewExpr()
		te := types.NewEnv()
		te.Put("a", x.Type)
		te.Put("b", y.Type)
		cl, err := e.Compile(src, te)
		if err != nil {
			res = "compile-error"
			return
		}
		ve := val.NewEnv()
		ve.Put("a", x)
		ve.Put("b", y)
		v, err := cl(ve)
		if err != nil {
			res = "error:" + firstLine(err.Error())
			return
		}
		res = v.String()
	})
	if pan {
		return "panic:" + firstLine(msg)
	}
	return res
}

// tolSeparated: the property's premise — numeric parts pairwise identical or farther apart than the tolerance (1e-9).
func tolSeparated(x, y *val.Val) bool {
	if x == nil || y == nil || x.Type.Kind != y.Type.Kind {
		return true
	}
	switch x.Type.Kind {
	case types.KNum:
		a, b := x.Num().V, y.Num().V
		return math.Float64bits(a) == math.Float64bits(b) || math.Abs(a-b) > 2e-9 || (a == 0 && b == 0)
	case types.KList:
		for i := 0; i < len(x.List().V) && i < len(y.List().V); i++ {
			if !tolSeparated(x.List().V[i], y.List().V[i]) {
				return false
			}
		}
	case types.KMap:
		for k, e := range x.Map().V {
			if f, ok := y.Map().V[k]; ok && !tolSeparated(e, f) {
				return false
			}
		}
		// keys themselves
		for k := range x.Map().V {
			for l := range y.Map().V {
				_ = k
				_ = l
			}
		}
	case types.KObj:
		for i, f := range x.Type.Obj().Fields {
			if w, ok := y.Obj().Get(f.Name); ok && !tolSeparated(x.Obj().V[i], w) {
				return false
			}
		}
	case types.KMaybe:
		return tolSeparated(x.Maybe().V, y.Maybe().V)
	}
	return true
}

var c18ForceLang bool

func c18Pair(r *Run, x, y *val.Val, sameByConstruction bool) {
	if !tolSeparated(x, y) {
		r.Count("pair:within-tolerance(skipped)")
		return
	}
	what := fmt.Sprintf("%s  vs  %s", ValSx(x), ValSx(y))
	r.Mark("equality / rendering / key / set membership of " + what)
	if len(what) > 600 {
		what = what[:600] + "..."
	}
	var eq, eqr bool
	var sx, sy string
	if pan, msg := protect(func() {
		eq, eqr = val.Equals(x, y), val.Equals(y, x)
		sx, sy = x.String(), y.String()
	}); pan {
		r.Violate("panic", what, msg)
		return
	}
	// correspondence with the model: rendering, key, equality, string()
	r.Case(L(A("render"), ValSx(x)), Bytes(sx))
	r.Case(L(A("valeq"), ValSx(x), ValSx(y)), Bool(eq))
	r.Case(L(A("stringify"), ValSx(x)), Bytes(fun.VerifStringify(x)))
	if x.Type.Kind.IsPrimitive() {
		r.Case(L(A("key"), ValSx(x)), L(A("ok"), Bytes(x.Key().String())))
	}
	if eq && fun.VerifStringify(x) != fun.VerifStringify(y) && !hasKind(x, types.KNum) {
		r.Violate(c18Class("string-builtin-differs-on-equal-values", x, y), what, fmt.Sprintf("%q / %q", fun.VerifStringify(x), fun.VerifStringify(y)))
	}
	if eq {
		r.Count("pair:equal")
	} else {
		r.Count("pair:different")
	}
	if eq != eqr {
		r.Violate(c18Class("eq-not-symmetric", x, y), what, "")
	}
	if !val.Equals(x, x) {
		r.Violate(c18Class("eq-not-reflexive", x, x), what, "")
	}
	if sameByConstruction && !eq {
		r.Violate(c18Class("equal-values-compare-different", x, y), what, "same contents (fields / entries in another order) but == is false")
	}
	if eq != (sx == sy) {
		r.Violate(c18Class("eq-vs-render", x, y), what, fmt.Sprintf("==: %v, renderings %q / %q", eq, sx, sy))
	}
	if strings.Contains(sx, "@0x") || strings.Contains(sx, "recursive-val") {
		r.Violate("render-address", what, sx)
	}
	if x.Type.Kind.IsPrimitive() {
		kx, ky := x.Key(), y.Key()
		if eq != (kx == ky) {
			r.Violate(c18Class("eq-vs-key", x, y), what, fmt.Sprintf("==: %v, keys %q / %q", eq, kx, ky))
		}
	}
	// through the language: ==, set operations, map lookup
	if r.Rng.Intn(4) == 0 || sameByConstruction || c18ForceLang {
		lang := evalBool("a == b", x, y)
		if x.Type.Kind == types.KObj || x.Type.Kind == types.KMaybe {
			lang = "" // no == overload for these at top level
		}
		if lang != "" && lang != fmt.Sprint(eq) {
			r.Violate(c18Class("language-eq", x, y), what, "a == b gives "+lang)
		}
		u := evalBool("len(union([a], [b])) == 1", x, y)
		i := evalBool("len(intersect([a], [b])) == 1", x, y)
		d := evalBool("len(diff([a], [b])) == 0", x, y)
		for _, p := range [][2]string{{"union", u}, {"intersect", i}, {"diff", d}} {
			if p[1] != fmt.Sprint(eq) {
				r.Violate(c18Class("set-membership:"+p[0], x, y), what, fmt.Sprintf("== is %v but %s treats them as same element: %s", eq, p[0], p[1]))
			}
		}
		if x.Type.Kind.IsPrimitive() {
			k := evalBool("isset([a: 1], b)", x, y)
			if k != fmt.Sprint(eq) {
				r.Violate(c18Class("map-key-identity", x, y), what, fmt.Sprintf("== is %v but isset([a:1], b) = %s", eq, k))
			}
		}
	}
}

func runC18(r *Run) {
	g := &vgen{r}
	tg := &progGen{r: r}
	// corpus
	n := val.Num
	objT := func(names ...string) *types.Type {
		fs := []types.Field{}
		for _, nm := range names {
			fs = append(fs, types.Field{Name: nm, Val: types.Num})
		}
		return types.Obj(fs)
	}
	corpus := [][2]*val.Val{
		{mkObj(objT("c", "a", "b"), n(1), n(2), n(3)), mkObj(objT("a", "b", "c"), n(2), n(3), n(1))},
		{n(1e19), n(2e19)}, {n(1 << 63), n((1 << 63) + 2048)}, {n(-(1 << 63)), n(-(1<<63 + 2048))},
		{n(1 << 53), n((1 << 53) + 2)}, {val.Str("a"), val.Str("a")}, {val.Str("\xff"), val.Str("�")},
		{val.Just(objT("x", "y"), mkObj(objT("x", "y"), n(1), n(2))), val.Just(objT("y", "x"), mkObj(objT("y", "x"), n(2), n(1)))},
		{val.Time(time.Unix(100, 0)), val.Time(time.Unix(100, 0).UTC())},
		{mkList(objT("a", "b"), mkObj(objT("a", "b"), n(1), n(2))), mkList(objT("b", "a"), mkObj(objT("b", "a"), n(2), n(1)))},
	}
	for _, c := range corpus {
		c18Pair(r, c[0], c[1], false)
		r.Sample(fmt.Sprintf("%s vs %s", ValSx(c[0]), ValSx(c[1])))
	}
	// strings that spell an escape sequence against the character the escape denotes: distinct values whose quoted
	// renderings differ only if the backslash itself is escaped
	c18ForceLang = true
	for _, p := range [][2]string{{"a\\nb", "a\nb"}, {"\\t", "\t"}, {"\\\"", "\""}, {"\\\\", "\\"}, {"\\x00", "\x00"}, {"\\u00e9", "\u00e9"}, {"\\xff", "\xff"},
		{"\\U0001f600", "\U0001F600"}, {"\\r", "\r"}, {"\\a", "\a"}, {"\\u2028", "\u2028"}, {"'", "\\'"}, {"\\", "/"}, {"x\\", "x"}} {
		a, b := val.Str(p[0]), val.Str(p[1])
		c18Pair(r, a, b, false)
		c18Pair(r, mkList(types.Str, a), mkList(types.Str, b), false)
		c18Pair(r, mkMap(types.Str, types.Num, a, n(1)), mkMap(types.Str, types.Num, b, n(1)), false)
		c18Pair(r, mkObj(types.Obj([]types.Field{{Name: "s", Val: types.Str}}), a), mkObj(types.Obj([]types.Field{{Name: "s", Val: types.Str}}), b), false)
		c18Pair(r, val.Just(types.Str, a), val.Just(types.Str, b), false)
		r.Count("pair:escape-spelling")
	}
	// optionals whose element type nests object types with the inner fields declared in different orders (the type text is
	// part of an optional's rendering)
	{
		in1 := types.Obj([]types.Field{{Name: "a", Val: types.Num}, {Name: "b", Val: types.Num}})
		in2 := types.Obj([]types.Field{{Name: "b", Val: types.Num}, {Name: "a", Val: types.Num}})
		mid := func(in *types.Type) *types.Type {
			return types.Obj([]types.Field{{Name: "in", Val: in}, {Name: "z", Val: types.Str}})
		}
		deep := func(in *types.Type) *types.Type {
			return types.Obj([]types.Field{{Name: "l", Val: types.List(mid(in))}, {Name: "m", Val: types.Map(types.Str, types.Maybe(in))}})
		}
		c18ForceLang = true
		for _, mk := range []func(*types.Type) *types.Type{mid, deep, func(in *types.Type) *types.Type { return types.List(mid(in)) }, func(in *types.Type) *types.Type { return types.Maybe(mid(in)) }} {
			c18Pair(r, val.Nothing(mk(in1)), val.Nothing(mk(in2)), true)
			o1 := mkObj(types.Obj([]types.Field{{Name: "m", Val: types.Maybe(mk(in1))}}), val.Nothing(mk(in1)))
			o2 := mkObj(types.Obj([]types.Field{{Name: "m", Val: types.Maybe(mk(in2))}}), val.Nothing(mk(in2)))
			c18Pair(r, o1, o2, true)
			c18Pair(r, mkList(o1.Type, o1), mkList(o2.Type, o2), true)
			r.Count("pair:optional-of-nested-objects")
		}
		c18ForceLang = false
	}
	// composites whose renderings coincide once the quotes around strings are dropped (a set keyed by the string()
	// conversion instead of the canonical rendering would merge them)
	{
		sl := func(xs ...string) *val.Val {
			vs := make([]*val.Val, len(xs))
			for i, x := range xs {
				vs[i] = val.Str(x)
			}
			return mkList(types.Str, vs...)
		}
		c18Pair(r, sl("a, b"), sl("a", "b"), false)
		c18Pair(r, sl("é, ü"), sl("é", "ü"), false)
		c18Pair(r, sl("1", "2"), sl("1, 2"), false)
		c18Pair(r, mkList(types.List(types.Str), sl("a], [b")), mkList(types.List(types.Str), sl("a"), sl("b")), false)
		c18Pair(r, mkMap(types.Str, types.Str, val.Str("j"), val.Str("w, \"k\": v")), mkMap(types.Str, types.Str, val.Str("j"), val.Str("w"), val.Str("k"), val.Str("v")), false)
		c18Pair(r, mkMap(types.Str, types.Str, val.Str("j"), val.Str("w, k: v")), mkMap(types.Str, types.Str, val.Str("j"), val.Str("w"), val.Str("k"), val.Str("v")), false)
		ot := types.Obj([]types.Field{{Name: "s", Val: types.Str}, {Name: "t", Val: types.Str}})
		c18Pair(r, mkObj(ot, val.Str("x, t: y"), val.Str("z")), mkObj(ot, val.Str("x"), val.Str("y, t: z")), false)
		c18Pair(r, mkList(types.Str, val.Str("1")), mkList(types.Str, val.Str("1 ")), false)
		c18Pair(r, val.Just(types.Str, val.Str("")), val.Just(types.Str, val.Str(" ")), false)
		c18Pair(r, mkList(types.Num, n(1), n(2)), mkList(types.Num, n(12)), false)
		negZero := math.Copysign(0, -1)
		c18Pair(r, n(0), n(negZero), true)
		c18Pair(r, mkList(types.Num, n(negZero)), mkList(types.Num, n(0)), true)
		c18Pair(r, mkMap(types.Num, types.Str, n(negZero), val.Str("a")), mkMap(types.Num, types.Str, n(0), val.Str("a")), true)
		r.Count("pair:unquoted-rendering-coincides")
	}
	c18ForceLang = false
	// host times denoting one instant in different locations (direct predicate only: the model's time values carry no
	// location, see DESIGN.md section 8)
	for _, sec := range []int64{0, 100, 1700000000} {
		a := val.Time(time.Unix(sec, 0).UTC())
		b := val.Time(time.Unix(sec, 0).In(time.FixedZone("X", 3600)))
		r.Count("pair:host-times-other-zone")
		eq := val.Equals(a, b)
		same := a.String() == b.String() && a.Key() == b.Key() && evalBool("len(union([a], [b])) == 1", a, b) == "true" && evalBool("isset([a: 1], b)", a, b) == "true"
		if evalBool("a == b", a, b) != fmt.Sprint(eq) {
			r.Violate("language-eq", fmt.Sprintf("host times %v / %v", a, b), "a == b differs from val.Equals")
		}
		if eq != same {
			r.Violate("host-times-equal-instant-different-zone", fmt.Sprintf("host times %v / %v", a, b),
				fmt.Sprintf("== is %v; renderings %q / %q; keys %v / %v", eq, a.String(), b.String(), a.Key(), b.Key()))
		}
	}
	// aliasing: one sub-value used twice renders like two copies
	{
		xs := mkList(types.Num, n(1))
		al := mkList(xs.Type, xs, xs)
		cp := mkList(xs.Type, mkList(types.Num, n(1)), mkList(types.Num, n(1)))
		c18Pair(r, al, cp, true)
		// the same for EMPTY composites and optionals (early-return paths of the renderer)
		em := mkMap(types.Str, types.Num)
		el := mkList(types.Num)
		no := val.Nothing(types.Num)
		for _, p := range [][2]*val.Val{
			{mkList(em.Type, em, em), mkList(em.Type, mkMap(types.Str, types.Num), mkMap(types.Str, types.Num))},
			{mkList(el.Type, el, el), mkList(el.Type, mkList(types.Num), mkList(types.Num))},
			{mkList(no.Type, no, no), mkList(no.Type, val.Nothing(types.Num), val.Nothing(types.Num))},
			{mkList(types.List(em.Type), mkList(em.Type, em), mkList(em.Type, em)), mkList(types.List(em.Type), mkList(em.Type, mkMap(types.Str, types.Num)), mkList(em.Type, mkMap(types.Str, types.Num)))},
			{mkObj(types.Obj([]types.Field{{Name: "a", Val: em.Type}, {Name: "b", Val: em.Type}}), em, em), mkObj(types.Obj([]types.Field{{Name: "a", Val: em.Type}, {Name: "b", Val: em.Type}}), mkMap(types.Str, types.Num), mkMap(types.Str, types.Num))},
			{mkMap(types.Str, em.Type, val.Str("k"), em, val.Str("j"), em), mkMap(types.Str, em.Type, val.Str("k"), mkMap(types.Str, types.Num), val.Str("j"), mkMap(types.Str, types.Num))},
		} {
			c18ForceLang = true
			c18Pair(r, p[0], p[1], true)
			c18ForceLang = false
			r.Count("pair:one-value-at-two-positions")
		}
	}
	m := 3000
	if r.Tier == "thorough" {
		m = 120000
	}
	for i := 0; i < m; i++ {
		t := tg.randType(2)
		x := g.gen(t, 2)
		change := r.Rng.Intn(2) == 0
		ch := change
		y := g.variant(x, &ch)
		same := !change || ch // nothing was changed
		r.Nontrivial(string(ValSx(x)) + string(ValSx(y)))
		c18Pair(r, x, y, same)
		if i%3 == 0 {
			c18Pair(r, x, g.gen(t, 2), false)
		}
	}
}
