package main

// Inventory of package-level mutable state and its write sites outside init (C14): a syntactic scan of every
// non-test source file of the module.

import (
	"fmt"
	"go/ast"
	"go/parser"
	"go/token"
	"os"
	"path/filepath"
	"sort"
	"strings"
)

func sharedState() []string {
	var out []string
	pkgs := map[string][]*ast.File{}
	fset := token.NewFileSet()
	filepath.Walk(repo, func(p string, info os.FileInfo, err error) error {
		if err != nil {
			return nil
		}
		if info.IsDir() {
			if info.Name() == ".git" || info.Name() == "test" {
				return filepath.SkipDir
			}
			return nil
		}
		if !strings.HasSuffix(p, ".go") || strings.HasSuffix(p, "_test.go") || strings.Contains(p, "verif_hooks") {
			return nil
		}
		f, err := parser.ParseFile(fset, p, nil, 0)
		if err != nil {
			return nil
		}
		dir, _ := filepath.Rel(repo, filepath.Dir(p))
		pkgs[dir] = append(pkgs[dir], f)
		return nil
	})
	for dir, files := range pkgs {
		pkgVars := map[string]bool{}
		for _, f := range files {
			for _, d := range f.Decls {
				if g, ok := d.(*ast.GenDecl); ok && g.Tok == token.VAR {
					for _, s := range g.Specs {
						for _, n := range s.(*ast.ValueSpec).Names {
							pkgVars[n.Name] = true
						}
					}
				}
			}
		}
		root := func(e ast.Expr) (string, string) { // root identifier of an lvalue and the access form
			form := "assign"
			for {
				switch x := e.(type) {
				case *ast.IndexExpr:
					e, form = x.X, "element-write"
				case *ast.SelectorExpr:
					e, form = x.X, "field-write"
				case *ast.StarExpr:
					e = x.X
				case *ast.ParenExpr:
					e = x.X
				case *ast.Ident:
					return x.Name, form
				default:
					return "", form
				}
			}
		}
		for _, f := range files {
			for _, d := range f.Decls {
				switch x := d.(type) {
				case *ast.FuncDecl:
					if x.Body == nil || x.Name.Name == "init" {
						continue
					}
					locals := map[string]bool{}
					if x.Recv != nil {
						for _, fl := range x.Recv.List {
							for _, n := range fl.Names {
								locals[n.Name] = true
							}
						}
					}
					for _, fl := range x.Type.Params.List {
						for _, n := range fl.Names {
							locals[n.Name] = true
						}
					}
					locked := ""
					ast.Inspect(x.Body, func(n ast.Node) bool {
						switch s := n.(type) {
						case *ast.AssignStmt:
							if s.Tok == token.DEFINE {
								for _, l := range s.Lhs {
									if id, ok := l.(*ast.Ident); ok {
										locals[id.Name] = true
									}
								}
								return true
							}
							for _, l := range s.Lhs {
								if name, form := root(l); name != "" && pkgVars[name] && !locals[name] {
									out = append(out, fmt.Sprintf("%s.%s %s in %s%s", dir, name, form, x.Name.Name, locked))
								}
							}
						case *ast.IncDecStmt:
							if name, form := root(s.X); name != "" && pkgVars[name] && !locals[name] {
								out = append(out, fmt.Sprintf("%s.%s %s in %s%s", dir, name, form, x.Name.Name, locked))
							}
						case *ast.CallExpr:
							if sel, ok := s.Fun.(*ast.SelectorExpr); ok {
								if sel.Sel.Name == "Lock" {
									if id, ok := sel.X.(*ast.Ident); ok {
										locked = " under " + id.Name
									}
								}
								if sel.Sel.Name == "Unlock" {
									locked = ""
								}
								// in-place sorting of a package-level slice
								if strings.Contains(sel.Sel.Name, "Sort") || strings.HasPrefix(sel.Sel.Name, "Slice") {
									for _, a := range s.Args {
										if id, ok := a.(*ast.Ident); ok && pkgVars[id.Name] && !locals[id.Name] {
											out = append(out, fmt.Sprintf("%s.%s sorted-in-place in %s", dir, id.Name, x.Name.Name))
										}
									}
								}
							}
						}
						return true
					})
				case *ast.GenDecl:
					if x.Tok != token.VAR {
						continue
					}
					// generator closures: var X = func() ... { n := 0; return func() { n++ } }()
					for _, s := range x.Specs {
						vs := s.(*ast.ValueSpec)
						for i, v := range vs.Values {
							call, ok := v.(*ast.CallExpr)
							if !ok {
								continue
							}
							lit, ok := call.Fun.(*ast.FuncLit)
							if !ok {
								continue
							}
							outer := map[string]bool{}
							for _, st := range lit.Body.List {
								switch a := st.(type) {
								case *ast.AssignStmt:
									if a.Tok == token.DEFINE {
										for _, l := range a.Lhs {
											if id, ok := l.(*ast.Ident); ok {
												outer[id.Name] = true
											}
										}
									}
								case *ast.DeclStmt:
									if g, ok := a.Decl.(*ast.GenDecl); ok {
										for _, sp := range g.Specs {
											if vsp, ok := sp.(*ast.ValueSpec); ok {
												for _, n := range vsp.Names {
													outer[n.Name] = true
												}
											}
										}
									}
								}
							}
							ast.Inspect(lit.Body, func(n ast.Node) bool {
								inner, ok := n.(*ast.FuncLit)
								if !ok || inner == lit {
									return true
								}
								ast.Inspect(inner.Body, func(m ast.Node) bool {
									switch w := m.(type) {
									case *ast.IncDecStmt:
										if name, _ := root(w.X); outer[name] {
											out = append(out, fmt.Sprintf("%s.%s#%s plain-update", dir, vs.Names[i].Name, name))
										}
									case *ast.AssignStmt:
										if w.Tok != token.DEFINE {
											for _, l := range w.Lhs {
												if name, _ := root(l); outer[name] {
													out = append(out, fmt.Sprintf("%s.%s#%s plain-update", dir, vs.Names[i].Name, name))
												}
											}
										}
									case *ast.CallExpr:
										if sel, ok := w.Fun.(*ast.SelectorExpr); ok {
											if pk, ok := sel.X.(*ast.Ident); ok && pk.Name == "atomic" {
												for _, a := range w.Args {
													if u, ok := a.(*ast.UnaryExpr); ok {
														if name, _ := root(u.X); outer[name] {
															out = append(out, fmt.Sprintf("%s.%s#%s atomic-update", dir, vs.Names[i].Name, name))
														}
													}
												}
											}
										}
									}
									return true
								})
								return false
							})
						}
					}
				}
			}
		}
	}
	sort.Strings(out)
	return out
}

// recoverSites: which functions of facade.go and conv install a deferred recover (C12)
func recoverSites() []string {
	var out []string
	for _, rel := range []string{"facade.go", "conv/val.go", "conv/type.go", "conv/typeenv.go", "conv/valenv.go", "types/typecheck.go", "ext/sql.go"} {
		fs, f := parseFile(rel)
		_ = fs
		var walkFn func(name string, body *ast.BlockStmt)
		walkFn = func(name string, body *ast.BlockStmt) {
			if body == nil {
				return
			}
			for _, st := range body.List {
				if d, ok := st.(*ast.DeferStmt); ok {
					txt := src(fs, d.Call.Fun)
					if strings.Contains(txt, "backStrace") || strings.Contains(txt, "Recover") {
						out = append(out, rel+":"+name+" defers "+txt)
					}
					if lit, ok := d.Call.Fun.(*ast.FuncLit); ok && strings.Contains(src(fs, lit), "recover()") {
						out = append(out, rel+":"+name+" defers func(){recover()}")
					}
				}
			}
			// function literals returned by the function (the Callable)
			ast.Inspect(body, func(n ast.Node) bool {
				if lit, ok := n.(*ast.FuncLit); ok {
					walkFn(name+".func", lit.Body)
					return false
				}
				return true
			})
		}
		for _, d := range f.Decls {
			if fd, ok := d.(*ast.FuncDecl); ok {
				walkFn(fd.Name.Name, fd.Body)
			}
		}
	}
	sort.Strings(out)
	return out
}
