// gentables regenerates coq/Gen/Generated.v from /repo's working tree: tables the Coq model uses, obtained either by
// executing the package initialisers (what Go computes) or by scanning the source (literals not observable at run time).
package main

import (
	"bytes"
	"fmt"
	"go/ast"
	"go/parser"
	"go/printer"
	"go/token"
	"os"
	"path/filepath"
	"sort"
	"strconv"
	"strings"
	"unicode"

	"github.com/goghcrow/yae/fun"
	"github.com/goghcrow/yae/parser/oper"
	"github.com/goghcrow/yae/types"
	"github.com/goghcrow/yae/val"
	sqlfun "github.com/goghcrow/yae/ext/sql"
	"github.com/goghcrow/yae/vm"
)

// coqTy renders an implementation type as a Coq term of Model.Ty.ty.
func coqTy(t *types.Type) string {
	switch t.Kind {
	case types.KTop:
		return "TTop"
	case types.KBot:
		return "TBot"
	case types.KNum:
		return "TNum"
	case types.KStr:
		return "TStr"
	case types.KBool:
		return "TBool"
	case types.KTime:
		return "TTime"
	case types.KTyVar:
		return "(TVar " + coqStr(t.TyVar().Name) + ")"
	case types.KList:
		return "(TList " + coqTy(t.List().El) + ")"
	case types.KMaybe:
		return "(TMaybe " + coqTy(t.Maybe().Elem) + ")"
	case types.KMap:
		return "(TMap " + coqTy(t.Map().Key) + " " + coqTy(t.Map().Val) + ")"
	case types.KObj:
		var fs []string
		for _, f := range t.Obj().Fields {
			fs = append(fs, "("+coqStr(f.Name)+", "+coqTy(f.Val)+")")
		}
		return "(TObj [" + strings.Join(fs, "; ") + "])"
	case types.KFun:
		return "(TFun " + coqStr(t.Fun().Name) + " " + coqTys(t.Fun().Param) + " " + coqTy(t.Fun().Return) + ")"
	default:
		return "(TTuple " + coqTys(t.Tuple().Val) + ")"
	}
}

func coqTys(ts []*types.Type) string {
	var xs []string
	for _, t := range ts {
		xs = append(xs, coqTy(t))
	}
	return "[" + strings.Join(xs, "; ") + "]"
}

func sigTable(name string, fs []*val.Val) {
	pf("(* (name, parameter types, result type, lazy) in registration order *)\n")
	pf("Definition %s : list (string * list ty * ty * bool) := [\n", name)
	for i, f := range fs {
		ft := f.Type.Fun()
		sep := ";"
		if i == len(fs)-1 {
			sep = ""
		}
		lazy := "false"
		if f.Fun().Lazy {
			lazy = "true"
		}
		pf("  (%s, %s, %s, %s)%s\n", coqStr(ft.Name), coqTys(ft.Param), coqTy(ft.Return), lazy, sep)
	}
	pf("].\n\n")
}

var repo string
var out bytes.Buffer

func pf(format string, a ...interface{}) { fmt.Fprintf(&out, format, a...) }

func coqStr(s string) string { return "\"" + strings.ReplaceAll(s, "\"", "\"\"") + "\"" }

func runesLit(s string) string {
	var xs []string
	for _, r := range s {
		xs = append(xs, strconv.Itoa(int(r)))
	}
	return "[" + strings.Join(xs, "; ") + "]%N"
}

func parseFile(rel string) (*token.FileSet, *ast.File) {
	fs := token.NewFileSet()
	f, err := parser.ParseFile(fs, filepath.Join(repo, rel), nil, parser.ParseComments)
	if err != nil {
		fmt.Fprintln(os.Stderr, "gentables:", err)
		os.Exit(1)
	}
	return fs, f
}

func src(fs *token.FileSet, n ast.Node) string {
	var b bytes.Buffer
	printer.Fprint(&b, fs, n)
	return b.String()
}

// constStrings returns the string constants declared in a file (name -> value), resolving simple references.
func constStrings(rel string) ([]string, map[string]string) {
	_, f := parseFile(rel)
	vals := map[string]string{}
	var order []string
	for _, d := range f.Decls {
		g, ok := d.(*ast.GenDecl)
		if !ok || (g.Tok != token.CONST && g.Tok != token.VAR) {
			continue
		}
		for _, s := range g.Specs {
			vs := s.(*ast.ValueSpec)
			for i, n := range vs.Names {
				if i < len(vs.Values) {
					if bl, ok := vs.Values[i].(*ast.BasicLit); ok && bl.Kind == token.STRING {
						v, _ := strconv.Unquote(bl.Value)
						vals[n.Name] = v
						order = append(order, n.Name)
					}
				}
			}
		}
	}
	return order, vals
}

func rangeTable(name string, tab *unicode.RangeTable) {
	var xs []string
	add := func(lo, hi, stride uint32) {
		if stride == 1 {
			xs = append(xs, fmt.Sprintf("(%d, %d)", lo, hi))
		} else {
			for c := lo; c <= hi; c += stride {
				xs = append(xs, fmt.Sprintf("(%d, %d)", c, c))
			}
		}
	}
	for _, r := range tab.R16 {
		add(uint32(r.Lo), uint32(r.Hi), uint32(r.Stride))
	}
	for _, r := range tab.R32 {
		add(r.Lo, r.Hi, r.Stride)
	}
	pf("Definition %s : list (N * N) := [\n  %s]%%N.\n\n", name, strings.Join(xs, ";\n  "))
}

func lexerRules() {
	fs, f := parseFile("parser/lexer/factory.go")
	pf("(* parser/lexer/factory.go: newLexicon, statement by statement, in order *)\n")
	var rules []string
	for _, d := range f.Decls {
		fd, ok := d.(*ast.FuncDecl)
		if !ok || fd.Name.Name != "newLexicon" {
			continue
		}
		var walk func(stmts []ast.Stmt, prefix string)
		walk = func(stmts []ast.Stmt, prefix string) {
			for _, st := range stmts {
				switch s := st.(type) {
				case *ast.ExprStmt:
					call, ok := s.X.(*ast.CallExpr)
					if !ok {
						continue
					}
					txt := src(fs, call)
					// evaluate string literals so that the pattern text (not its Go quoting) is pinned
					for _, a := range call.Args {
						if inner, ok := a.(*ast.CallExpr); ok {
							for _, ia := range inner.Args {
								if bl, ok := ia.(*ast.BasicLit); ok && bl.Kind == token.STRING {
									v, _ := strconv.Unquote(bl.Value)
									txt = strings.Replace(txt, bl.Value, "<"+v+">", 1)
								}
							}
						}
					}
					rules = append(rules, prefix+txt)
				case *ast.RangeStmt:
					walk(s.Body.List, prefix+"for "+src(fs, s.X)+": ")
				}
			}
		}
		walk(fd.Body.List, "")
	}
	pf("Definition lexer_rules : list string := [\n")
	for i, r := range rules {
		sep := ";"
		if i == len(rules)-1 {
			sep = ""
		}
		pf("  %s%s\n", coqStr(r), sep)
	}
	pf("].\n\n")
	// the two file-level tables the loops range over
	for _, d := range f.Decls {
		g, ok := d.(*ast.GenDecl)
		if !ok || g.Tok != token.VAR {
			continue
		}
		for _, s := range g.Specs {
			vs := s.(*ast.ValueSpec)
			for i, n := range vs.Names {
				if n.Name == "keywords" || n.Name == "builtInOpers" {
					cl := vs.Values[i].(*ast.CompositeLit)
					var elts []string
					for _, e := range cl.Elts {
						elts = append(elts, coqStr(src(fs, e)))
					}
					pf("Definition lexer_%s : list string := [%s].\n", n.Name, strings.Join(elts, "; "))
				}
			}
		}
	}
	pf("\n")
}

func main() {
	repo = os.Args[1]
	pf("(* GENERATED by harness/cmd/gentables from the working tree of /repo on every check; do not edit. *)\n")
	pf("From Coq Require Import List String NArith ZArith.\nFrom Yae Require Import Model.Ty.\nImport ListNotations.\nOpen Scope string_scope.\n\n")

	// ---- unicode tables of the Go toolchain in use (regexp \\p{L}, unicode.IsSpace) ----
	rangeTable("letter_ranges", unicode.L)
	rangeTable("space_ranges", unicode.White_Space)
	// strconv.IsPrint (what strconv.Quote leaves unescaped), as ranges
	{
		var xs []string
		lo := -1
		for c := 0; c <= 0x10FFFF+1; c++ {
			p := c <= 0x10FFFF && strconv.IsPrint(rune(c))
			if p && lo < 0 {
				lo = c
			}
			if !p && lo >= 0 {
				xs = append(xs, fmt.Sprintf("(%d, %d)", lo, c-1))
				lo = -1
			}
		}
		pf("Definition print_ranges : list (N * N) := [\n  %s]%%N.\n\n", strings.Join(xs, ";\n  "))
	}

	// ---- token kinds (parser/token/type.go) ----
	order, tv := constStrings("parser/token/type.go")
	pf("Definition token_consts : list (string * string) := [\n")
	for i, n := range order {
		sep := ";"
		if i == len(order)-1 {
			sep = ""
		}
		pf("  (%s, %s)%s\n", coqStr(n), coqStr(tv[n]), sep)
	}
	pf("].\n\n")

	// ---- operator characters (parser/oper/operator.go: const operators) ----
	_, ov := constStrings("parser/oper/operator.go")
	pf("Definition oper_chars : list N := %s.\n\n", runesLit(ov["operators"]))

	// ---- built-in operator table, as oper.BuiltIn() returns it (binding powers in eighths) ----
	pf("(* (name as runes, binding power * 8, fixity: 1 prefix 2 infixN 3 infixL 4 infixR 5 postfix) *)\n")
	pf("Definition builtin_ops : list (list N * Z * N) := [\n")
	ops := append([]oper.Operator{}, oper.BuiltIn()...)
	for i, op := range ops {
		sep := ";"
		if i == len(ops)-1 {
			sep = ""
		}
		pf("  (%s, %d%%Z, %d%%N)%s\n", runesLit(string(op.Kind)), int(float64(op.BP)*8), int(op.Fixity), sep)
	}
	pf("].\n\n")
	pf("Definition bp_fixed : list (string * Z) := [(\"NONE\", %d); (\"LEFT_BRACE\", %d); (\"COND\", %d); (\"CALL\", %d); (\"MEMBER\", %d); (\"PREFIX\", %d); (\"POSTFIX\", %d)]%%Z.\n\n",
		int(oper.BP_NONE*8), int(oper.BP_LEFT_BRACE*8), int(oper.BP_COND*8), int(oper.BP_CALL*8), int(oper.BP_MEMBER*8), int(oper.BP_PREFIX*8), int(oper.BP_POSTFIX*8))

	lexerRules()

	// ---- built-in function signatures (fun.BuiltIn(), ext/sql.BuiltIn()) ----
	sigTable("builtin_sigs", fun.BuiltIn())
	sigTable("sql_sigs", sqlfun.BuiltIn())

	// ---- VM: opcode numbering, intrinsic tables, constants ----
	{
		var xs []string
		for _, n := range vm.VerifOpcodes() {
			xs = append(xs, coqStr(n))
		}
		pf("Definition opcode_names : list string := [%s].\n\n", strings.Join(xs, "; "))
		pf("(* built-in (name, parameter types) -> opcode replacing a call by value / jump scheme replacing a call by need *)\n")
		var cbv, cbn []string
		for _, f := range fun.BuiltIn() {
			ft := f.Type.Fun()
			op, need := vm.VerifIntrinsics(f)
			if op != "" {
				cbv = append(cbv, fmt.Sprintf("(%s, %s, %s)", coqStr(ft.Name), coqTys(ft.Param), coqStr(op)))
			}
			if need {
				cbn = append(cbn, fmt.Sprintf("(%s, %s)", coqStr(ft.Name), coqTys(ft.Param)))
			}
		}
		pf("Definition intrinsics_cbv : list (string * list ty * string) := [\n  %s].\n\n", strings.Join(cbv, ";\n  "))
		pf("Definition intrinsics_cbn : list (string * list ty) := [\n  %s].\n\n", strings.Join(cbn, ";\n  "))
		pf("Definition vm_consts : list (string * Z) := [(\"stackInit\", %d); (\"stackGrow\", %d); (\"limit\", %d)]%%Z.\n\n", vm.VerifStackInit, vm.VerifStackGrow, vm.VerifLimit)
	}

	// reserved identifiers (parser/lexer/reserved.go)
	{
		_, f := parseFile("parser/lexer/reserved.go")
		var rs []string
		ast.Inspect(f, func(n ast.Node) bool {
			if vs, ok := n.(*ast.ValueSpec); ok && len(vs.Names) == 1 && vs.Names[0].Name == "reserved" {
				for _, e := range vs.Values[0].(*ast.CompositeLit).Elts {
					v, _ := strconv.Unquote(e.(*ast.BasicLit).Value)
					rs = append(rs, coqStr(v))
				}
			}
			return true
		})
		sort.Strings(rs)
		pf("Definition reserved_words : list string := [%s].\n\n", strings.Join(rs, "; "))
	}
	// ---- shared mutable state (C14) and recover placement (C12) ----
	{
		ss := sharedState()
		var xs []string
		for _, x := range ss {
			xs = append(xs, coqStr(x))
		}
		pf("Definition shared_state : list string := [\n  %s].\n\n", strings.Join(xs, ";\n  "))
		rs := recoverSites()
		xs = nil
		for _, x := range rs {
			xs = append(xs, coqStr(x))
		}
		pf("Definition recover_sites : list string := [\n  %s].\n\n", strings.Join(xs, ";\n  "))
	}
	os.Stdout.Write(out.Bytes())
}
