package main

import "time"

func timeUnix(s int64) time.Time { return time.Unix(s, 0) }
