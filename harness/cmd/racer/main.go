// racer: the search for a failing schedule of C14.  Built with -race.  Many goroutines compile on separate engines,
// compile on one engine that has finished its first compilation, and invoke one compiled expression concurrently;
// every outcome is compared with the outcome of the same operation run alone.  The race detector reports to stderr.
package main

import (
	"fmt"
	"math/rand"
	"os"
	"strconv"
	"sync"

	yae "github.com/goghcrow/yae"
	"github.com/goghcrow/yae/interp"
	"github.com/goghcrow/yae/types"
	"github.com/goghcrow/yae/val"
)

// programs for the shared compiled expressions: user-registered strict and LAZY functions (thunks, nested thunks),
// conversion of composites to text, rendering, set operations, optionals
var sharedProgs = []string{
	`x + len(xs) + get(m, "k", 0)`, `pick(x > 0, x + 1000, x - 1000)`, `pick(x > 2, pick(x > 4, x * 10, x * 100), pick(x > 0, x + 1, x - 1)) + 7`,
	`allof(x > 0, allof(x > 1, x > 2)) || x == 0`, `[pick(x > 3, twice(x), x), twice(x + 1)]`, `string(xs)`, `string(m)`, `string(o)`, `string([xs, xs])`, `string(mb)`,
	`string([x: s])`, `string({p: xs, q: [x]})`, `[xs, xs]`, `{a: xs, b: m}`, `len(string(xs)) + len(string(m)) + x`, `union(xs, [x]) == intersect(xs, xs)`,
	`string(union([[x]], [[x], [1]]))`, `if(x > 1, string(xs), string(m))`, `twice(twice(x)) + pick(x > 1, twice(x), 0)`,
	// lazy arguments that FAIL at run time for some inputs (x = 3..6 is out of range): error paths of thunk evaluation
	`pick(x >= 0, xs[x], 0)`, `y + pick(x > 2, xs[x], x)`, `pick(x > 4, m["zz"], twice(x)) + 1`, `allof(x > 2, xs[x] > 0) || x < 3`, `[pick(x > 5, xs[9], x), twice(x)]`,
}

func newEngine(kind int) *yae.Expr {
	e := yae.NewExpr()
	switch kind {
	case 1:
		e.UseClosureCompiler()
	case 2:
		e.UseCompiler(interp.Interp)
	}
	a := types.TyVar("a")
	e.RegisterFun(
		val.LazyFun(types.Fun("pick", []*types.Type{types.Bool, a, a}, a), func(args ...*val.Val) *val.Val {
			if args[0].Fun().Call().Bool().V {
				return args[1].Fun().Call()
			}
			return args[2].Fun().Call()
		}),
		val.LazyFun(types.Fun("allof", []*types.Type{types.Bool, types.Bool}, types.Bool), func(args ...*val.Val) *val.Val {
			if !args[0].Fun().Call().Bool().V {
				return val.False
			}
			return args[1].Fun().Call()
		}),
		val.Fun(types.Fun("twice", []*types.Type{types.Num}, types.Num), func(args ...*val.Val) *val.Val { return val.Num(args[0].Num().V * 2) }),
	)
	return e
}

var progs = []string{
	`x + y * 2`, `len(xs) + max(xs)`, `if(x > 1, "a", "b")`, `get(xs, 1, 0) + get(m, "k", 0)`, `union(xs, [4, 5]) == [1, 2, 3, 4, 5]`,
	`string([x, y]) + s`, `[x: "a", y: "b"][x]`, `{p: x, q: s}.p + o.p`, `x > 0 && y > 0 || len(s) == 0`, `xs[1] * 2`,
	`get(mb, 0) + 1`, `[[1], [2]][1][0]`, `strtotime("2020-01-02 03:04:05") == t0`, `abs(-x) + round(2.5)`, `[] == []`, `isset(m, "k")`,
}

func tenv() *types.Env {
	te := types.NewEnv()
	te.Put("x", types.Num)
	te.Put("y", types.Num)
	te.Put("s", types.Str)
	te.Put("xs", types.List(types.Num))
	te.Put("m", types.Map(types.Str, types.Num))
	te.Put("o", types.Obj([]types.Field{{Name: "p", Val: types.Num}}))
	te.Put("mb", types.Maybe(types.Num))
	te.Put("t0", types.Time)
	return te
}

func venv(k int) *val.Env {
	ve := val.NewEnv()
	ve.Put("x", val.Num(float64(k%7)))
	ve.Put("y", val.Num(2.5))
	ve.Put("s", val.Str("héllo"))
	l := val.List(types.List(types.Num).List(), 0).List()
	l.V = []*val.Val{val.Num(1), val.Num(2), val.Num(3)}
	ve.Put("xs", l.Vl())
	m := val.Map(types.Map(types.Str, types.Num).Map()).Map()
	m.V[val.Str("k").Key()] = val.Num(1)
	ve.Put("m", m.Vl())
	ot := types.Obj([]types.Field{{Name: "p", Val: types.Num}})
	o := val.Obj(ot.Obj()).Obj()
	o.V[0] = val.Num(7)
	ve.Put("o", o.Vl())
	ve.Put("mb", val.Just(types.Num, val.Num(5)))
	ve.Put("t0", val.Time(timeUnix(1577934245)))
	return ve
}

func run(e *yae.Expr, src string, k int) string {
	var out string
	func() {
		defer func() {
			if r := recover(); r != nil {
				out = fmt.Sprint("panic:", r)
			}
		}()
		cl, err := e.Compile(src, tenv())
		if err != nil {
			out = "compile-error:" + err.Error()
			return
		}
		v, err := cl(venv(k))
		if err != nil {
			out = "error:" + err.Error()
			return
		}
		out = fmt.Sprint(v.Type.Kind) + " " + v.String()
	}()
	return out
}

func main() {
	goroutines, iters := 8, 100
	seed := int64(1)
	if len(os.Args) > 1 {
		goroutines, _ = strconv.Atoi(os.Args[1])
	}
	if len(os.Args) > 2 {
		iters, _ = strconv.Atoi(os.Args[2])
	}
	if len(os.Args) > 3 {
		seed, _ = strconv.ParseInt(os.Args[3], 10, 64)
	}
	// sequential baseline
	base := map[string]string{}
	for _, p := range progs {
		for k := 0; k < 7; k++ {
			base[fmt.Sprint(p, "|", k)] = run(yae.NewExpr(), p, k)
		}
	}
	shared := yae.NewExpr()
	shared.Compile("1", tenv()) // an engine that has finished its first compilation
	// shared compiled expressions on every back end, sequential outcomes first
	type sharedC struct {
		src  string
		kind int
		cl   yae.Callable
		want [7]string
	}
	outOf := func(cl yae.Callable, env *val.Env) (out string) {
		defer func() {
			if r := recover(); r != nil {
				out = fmt.Sprint("panic:", r)
			}
		}()
		v, err := cl(env)
		if err != nil {
			return "error:" + err.Error()
		}
		return fmt.Sprint(v.Type.Kind) + " " + v.String()
	}
	var cs []*sharedC
	for kind := 0; kind < 3; kind++ {
		e := newEngine(kind)
		for _, src := range sharedProgs {
			cl, err := e.Compile(src, tenv())
			if err != nil {
				fmt.Println("MISMATCH setup", src, err)
				os.Exit(3)
			}
			c := &sharedC{src: src, kind: kind, cl: cl}
			for k := 0; k < 7; k++ {
				c.want[k] = outOf(cl, venv(k))
			}
			cs = append(cs, c)
		}
	}
	var matchCl []yae.Callable
	for kind := 0; kind < 3; kind++ {
		te := tenv()
		te.Put("pat", types.Str)
		cl, err := newEngine(kind).Compile(`match(pat, s) && match(pat, "h" + s)`, te)
		if err != nil {
			fmt.Println("MISMATCH setup match", err)
			os.Exit(3)
		}
		matchCl = append(matchCl, cl)
	}
	// environment objects shared by all goroutines (never written after this point)
	var sharedEnv [7]*val.Env
	for k := range sharedEnv {
		sharedEnv[k] = venv(k)
	}
	var wg sync.WaitGroup
	var mu sync.Mutex
	mism := 0
	ops := 0
	start := make(chan struct{})
	for g := 0; g < goroutines; g++ {
		wg.Add(1)
		go func(g int) {
			defer wg.Done()
			rn := rand.New(rand.NewSource(seed*1000 + int64(g)))
			myOps, myMism := 0, 0
			var lines []string
			<-start
			for i := 0; i < iters; i++ {
				p := progs[rn.Intn(len(progs))]
				k := rn.Intn(7)
				var got, exp, what string
				switch rn.Intn(8) {
				case 0: // separate engine
					got, exp, what = run(yae.NewExpr(), p, k), base[fmt.Sprint(p, "|", k)], p
				case 1: // the initialised shared engine
					got, exp, what = run(shared, p, k), base[fmt.Sprint(p, "|", k)], p
				case 2, 3, 4: // one compiled expression, many goroutines, distinct environment objects
					c := cs[rn.Intn(len(cs))]
					got, exp, what = outOf(c.cl, venv(k)), c.want[k], c.src
				case 5: // a built-in fed with a value it has never seen in this process (caches keyed by the argument)
					pat := fmt.Sprintf("^h.*(%d)?[a-z]*$", rn.Int63())
					ve := venv(k)
					ve.Put("pat", val.Str(pat))
					got, exp, what = outOf(matchCl[rn.Intn(len(matchCl))], ve), "bool true", "match(pat, s) with a fresh pattern"
				default: // one compiled expression, many goroutines, ONE environment object
					c := cs[rn.Intn(len(cs))]
					got, exp, what = outOf(c.cl, sharedEnv[k]), c.want[k], c.src+" (shared env)"
				}
				myOps++
				if got != exp {
					myMism++
					if len(lines) < 3 {
						lines = append(lines, fmt.Sprintf("MISMATCH %q k=%d: concurrent %q, alone %q", what, k, got, exp))
					}
				}
			}
			mu.Lock()
			ops += myOps
			mism += myMism
			for _, l := range lines {
				fmt.Println(l)
			}
			mu.Unlock()
		}(g)
	}
	close(start)
	wg.Wait()
	fmt.Printf("RACER goroutines=%d iters=%d operations=%d mismatches=%d\n", goroutines, iters, ops, mism)
	if mism > 0 {
		os.Exit(3)
	}
}
