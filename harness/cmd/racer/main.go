// racer: the search for a failing schedule of C14.  Built with -race.  Many goroutines compile on separate engines,
// compile on one engine that has finished its first compilation, and invoke one compiled expression concurrently;
// every outcome is compared with the outcome of the same operation run alone.  The race detector reports to stderr.
package main

import (
	"fmt"
	"math/rand"
	"os"
	"strconv"
	"sync"

	yae "github.com/goghcrow/yae"
	"github.com/goghcrow/yae/types"
	"github.com/goghcrow/yae/val"
)

var progs = []string{
	`x + y * 2`, `len(xs) + max(xs)`, `if(x > 1, "a", "b")`, `get(xs, 1, 0) + get(m, "k", 0)`, `union(xs, [4, 5]) == [1, 2, 3, 4, 5]`,
	`string([x, y]) + s`, `[x: "a", y: "b"][x]`, `{p: x, q: s}.p + o.p`, `x > 0 && y > 0 || len(s) == 0`, `xs[1] * 2`,
	`get(mb, 0) + 1`, `[[1], [2]][1][0]`, `strtotime("2020-01-02 03:04:05") == t0`, `abs(-x) + round(2.5)`, `[] == []`, `isset(m, "k")`,
}

func tenv() *types.Env {
	te := types.NewEnv()
	te.Put("x", types.Num)
	te.Put("y", types.Num)
	te.Put("s", types.Str)
	te.Put("xs", types.List(types.Num))
	te.Put("m", types.Map(types.Str, types.Num))
	te.Put("o", types.Obj([]types.Field{{Name: "p", Val: types.Num}}))
	te.Put("mb", types.Maybe(types.Num))
	te.Put("t0", types.Time)
	return te
}

func venv(k int) *val.Env {
	ve := val.NewEnv()
	ve.Put("x", val.Num(float64(k%7)))
	ve.Put("y", val.Num(2.5))
	ve.Put("s", val.Str("héllo"))
	l := val.List(types.List(types.Num).List(), 0).List()
	l.V = []*val.Val{val.Num(1), val.Num(2), val.Num(3)}
	ve.Put("xs", l.Vl())
	m := val.Map(types.Map(types.Str, types.Num).Map()).Map()
	m.V[val.Str("k").Key()] = val.Num(1)
	ve.Put("m", m.Vl())
	ot := types.Obj([]types.Field{{Name: "p", Val: types.Num}})
	o := val.Obj(ot.Obj()).Obj()
	o.V[0] = val.Num(7)
	ve.Put("o", o.Vl())
	ve.Put("mb", val.Just(types.Num, val.Num(5)))
	ve.Put("t0", val.Time(timeUnix(1577934245)))
	return ve
}

func run(e *yae.Expr, src string, k int) string {
	var out string
	func() {
		defer func() {
			if r := recover(); r != nil {
				out = fmt.Sprint("panic:", r)
			}
		}()
		cl, err := e.Compile(src, tenv())
		if err != nil {
			out = "compile-error:" + err.Error()
			return
		}
		v, err := cl(venv(k))
		if err != nil {
			out = "error:" + err.Error()
			return
		}
		out = v.Type.String() + " " + v.String()
	}()
	return out
}

func main() {
	goroutines, iters := 8, 100
	seed := int64(1)
	if len(os.Args) > 1 {
		goroutines, _ = strconv.Atoi(os.Args[1])
	}
	if len(os.Args) > 2 {
		iters, _ = strconv.Atoi(os.Args[2])
	}
	if len(os.Args) > 3 {
		seed, _ = strconv.ParseInt(os.Args[3], 10, 64)
	}
	// sequential baseline
	base := map[string]string{}
	for _, p := range progs {
		for k := 0; k < 7; k++ {
			base[fmt.Sprint(p, "|", k)] = run(yae.NewExpr(), p, k)
		}
	}
	shared := yae.NewExpr()
	shared.Compile("1", tenv()) // an engine that has finished its first compilation
	callable, err := yae.NewExpr().Compile(`x + len(xs) + get(m, "k", 0)`, tenv())
	if err != nil {
		fmt.Println("MISMATCH setup", err)
		os.Exit(3)
	}
	want := map[int]string{}
	for k := 0; k < 7; k++ {
		v, _ := callable(venv(k))
		want[k] = v.String()
	}
	var wg sync.WaitGroup
	var mu sync.Mutex
	mism := 0
	ops := 0
	start := make(chan struct{})
	for g := 0; g < goroutines; g++ {
		wg.Add(1)
		go func(g int) {
			defer wg.Done()
			rn := rand.New(rand.NewSource(seed*1000 + int64(g)))
			<-start
			for i := 0; i < rn.Intn(50); i++ { // randomised start offset
				_ = i * i
			}
			for i := 0; i < iters; i++ {
				p := progs[rn.Intn(len(progs))]
				k := rn.Intn(7)
				var got, exp string
				switch rn.Intn(3) {
				case 0: // separate engine
					got, exp = run(yae.NewExpr(), p, k), base[fmt.Sprint(p, "|", k)]
				case 1: // the initialised shared engine
					got, exp = run(shared, p, k), base[fmt.Sprint(p, "|", k)]
				default: // one compiled expression, many goroutines, distinct environment objects
					v, err := callable(venv(k))
					if err != nil {
						got = "error:" + err.Error()
					} else {
						got = v.String()
					}
					exp = want[k]
				}
				mu.Lock()
				ops++
				if got != exp {
					mism++
					if mism <= 5 {
						fmt.Printf("MISMATCH %q k=%d: concurrent %q, alone %q\n", p, k, got, exp)
					}
				}
				mu.Unlock()
			}
		}(g)
	}
	close(start)
	wg.Wait()
	fmt.Printf("RACER goroutines=%d iters=%d operations=%d mismatches=%d\n", goroutines, iters, ops, mism)
	if mism > 0 {
		os.Exit(3)
	}
}
