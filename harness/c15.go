package main

// C15 — host data converts faithfully and its type depends only on its Go shape.
// Correspondence: conv.ValOf / TypeOf / TypeEnvOf / ValEnvOf on Go values built by reflection against the Coq model.
// Direct predicates: a converted value is deeply well typed and its type equals the reported type; two values of one
// interface-free Go type whose nil-able parts are non-nil or declared optional get the same type; contents are kept.

import (
	"fmt"
	"reflect"
	"sort"
	"time"

	"github.com/goghcrow/yae/conv"
	"github.com/goghcrow/yae/types"
	"github.com/goghcrow/yae/val"
)

func init() { props["C15"] = runC15 }

func envTySx(e *types.Env) Sx {
	type nt struct {
		n string
		s Sx
	}
	var xs []nt
	e.ForEach(func(n string, t *types.Type) { xs = append(xs, nt{n, L(Name(n), TySx(t))}) })
	sort.Slice(xs, func(i, j int) bool { return xs[i].n < xs[j].n })
	out := make([]Sx, len(xs))
	for i := range xs {
		out[i] = xs[i].s
	}
	return LS(out)
}

func envValSx(e *val.Env) Sx {
	type nv struct {
		n string
		s Sx
	}
	var xs []nv
	e.ForEach(func(n string, v *val.Val) { xs = append(xs, nv{n, L(Name(n), ValSx(v))}) })
	sort.Slice(xs, func(i, j int) bool { return xs[i].n < xs[j].n })
	out := make([]Sx, len(xs))
	for i := range xs {
		out[i] = xs[i].s
	}
	return LS(out)
}

func optSx(ok bool, s Sx) Sx {
	if !ok {
		return A("none")
	}
	return L(A("some"), s)
}

// declared-optional-or-non-nil: the premise of the shape-only clause
func shapeStable(t *HT, v *HV, maybe bool) bool {
	if v.K == "nil" {
		return maybe
	}
	switch t.K {
	case "iface", "chan", "func":
		return false
	case "ptr":
		return shapeStable(t.Elem, v.Elem, false)
	case "slice", "array":
		if t.Elem.hasIface() {
			return false
		}
		for _, e := range v.Seq {
			if !shapeStable(t.Elem, e, false) {
				return false
			}
		}
	case "map":
		if t.Elem.hasIface() {
			return false
		}
		for _, kv := range v.KV {
			if !shapeStable(t.Elem, kv[1], false) {
				return false
			}
		}
	case "struct":
		for i, f := range t.F {
			_, mb := parseTagLike(f.Tag)
			if mb && v.Seq[i].K != "nil" && !(f.T.K == "ptr" || f.T.K == "slice" || f.T.K == "map") {
				// a `maybe` field of a non-nil-able type is always Just: stable
			}
			if !shapeStable(f.T, v.Seq[i], mb) {
				return false
			}
		}
	}
	return true
}

func (t *HT) hasIface() bool {
	if t == nil {
		return false
	}
	if t.K == "iface" || t.K == "chan" || t.K == "func" {
		return true
	}
	if t.Elem.hasIface() || t.Key.hasIface() {
		return true
	}
	for _, f := range t.F {
		if f.T.hasIface() {
			return true
		}
	}
	return false
}

func parseTagLike(tag string) (string, bool) {
	name, maybe := "", false
	parts := splitComma(tag)
	if len(parts) > 0 {
		name = trimSp(parts[0])
	}
	if len(parts) > 1 {
		maybe = lowerASCII(trimSp(parts[1])) == "maybe"
	}
	return name, maybe
}

func splitComma(s string) []string {
	var out []string
	cur := ""
	for _, c := range s {
		if c == ',' {
			out = append(out, cur)
			cur = ""
		} else {
			cur += string(c)
		}
	}
	return append(out, cur)
}
func trimSp(s string) string {
	for len(s) > 0 && (s[0] == ' ' || s[0] == '\t') {
		s = s[1:]
	}
	for len(s) > 0 && (s[len(s)-1] == ' ' || s[len(s)-1] == '\t') {
		s = s[:len(s)-1]
	}
	return s
}
func lowerASCII(s string) string {
	b := []byte(s)
	for i, c := range b {
		if c >= 'A' && c <= 'Z' {
			b[i] = c + 32
		}
	}
	return string(b)
}

func c15One(r *Run, t *HT, v *HV) (ty *types.Type, ok bool) {
	var built reflect.Value
	if pan, msg := protect(func() { built = t.Build(v) }); pan {
		r.Count("build-failed:" + firstLine(msg)[:20])
		return nil, false
	}
	var iv interface{}
	if built.IsValid() && built.CanInterface() {
		iv = built.Interface()
	}
	what := fmt.Sprintf("%s : %s", t.VSx(v, built), t.Sx())
	if len(what) > 500 {
		what = what[:500] + "..."
	}
	r.Mark("conv.ValOf / TypeOf / TypeEnvOf / ValEnvOf on " + what)
	var vl *val.Val
	var verr, terr, teerr, veerr error
	var tenv *types.Env
	var venv *val.Env
	if pan, msg := protect(func() {
		vl, verr = conv.ValOf(iv)
		ty, terr = conv.TypeOf(iv)
		tenv, teerr = conv.TypeEnvOf(iv)
		venv, veerr = conv.ValEnvOf(iv)
	}); pan {
		r.Violate("conv-panics", what, msg)
		return nil, false
	}
	obs := []Sx{optSx(verr == nil, ValSxSafe(vl)), optSx(terr == nil, TySxSafe(ty))}
	if teerr == nil {
		obs = append(obs, L(A("some"), envTySx(tenv)))
	} else {
		obs = append(obs, A("none"))
	}
	if veerr == nil {
		obs = append(obs, L(A("some"), envValSx(venv)))
	} else {
		obs = append(obs, A("none"))
	}
	// a top-level interface slot does not exist in Go (reflect.ValueOf sees the dynamic value): the static type on the
	// wire is the dynamic one
	r.Case(L(A("conv"), t.Sx(), t.VSx(v, built)), LS(obs))
	if verr != nil {
		r.Count("valof:error")
	} else {
		r.Count("valof:ok")
		r.Nontrivial(what)
		if why := deepTyped(vl, vl.Type, "value"); why != "" {
			r.Violate("converted-value-ill-typed", what, why)
		}
		if terr != nil || !refEq(FromGo(ty), FromGo(vl.Type)) {
			r.Violate("type-differs-from-value-type", what, fmt.Sprintf("TypeOf gives %v (%v), the value has type %s", ty, terr, vl.Type))
		}
	}
	return ty, verr == nil
}

func ValSxSafe(v *val.Val) Sx {
	if v == nil {
		return A("nil")
	}
	return ValSx(v)
}
func TySxSafe(t *types.Type) Sx {
	if t == nil {
		return A("nil")
	}
	return TySx(t)
}

func runC15(r *Run) {
	g := &hostGen{r}
	n := 2000
	if r.Tier == "thorough" {
		n = 80000
	}
	for i := 0; i < n; i++ {
		t := g.typ(1+r.Rng.Intn(3), true)
		for t.K == "iface" { // no top-level interface slot
			t = g.typ(2, true)
		}
		v1 := g.val(t, 3, 2)
		v2 := g.val(t, 3, 2)
		ty1, ok1 := c15One(r, t, v1)
		ty2, ok2 := c15One(r, t, v2)
		if i < 4 {
			r.Sample(string(t.Sx()))
		}
		// shape only: same Go type, no interface parts, nil-able parts non-nil or declared optional
		if ok1 && ok2 && !t.hasIface() && shapeStable(t, v1, false) && shapeStable(t, v2, false) {
			r.Count("shape-pair")
			if !refEq(FromGo(ty1), FromGo(ty2)) {
				r.Violate("type-depends-on-value", string(t.Sx()), fmt.Sprintf("%s vs %s", ty1, ty2))
			}
		}
	}
	// corpus: things the property names
	type inner struct {
		P float64 `yae:"p"`
	}
	type dup struct {
		A int `yae:"x"`
		B int `yae:"x"`
	}
	var nilp *inner
	for _, iv := range []interface{}{nil, nilp, &nilp, []interface{}{1, "a"}, []interface{}{}, map[string]interface{}{"a": 1, "b": "x"}, make(chan int), func() {}, complex(1, 2), dup{1, 2},
		map[int64]string{1 << 53: "a", 1<<53 + 1: "b"}, struct{ X []int }{}, struct{ X *inner }{}, struct {
			X *inner `yae:"x,maybe"`
		}{&inner{1}}} {
		var vl *val.Val
		var err error
		pan, msg := protect(func() { vl, err = conv.ValOf(iv) })
		r.Count("corpus")
		if pan {
			r.Violate("conv-panics", fmt.Sprintf("%T %v", iv, iv), msg)
		}
		if m, ok := iv.(map[int64]string); ok && err == nil && len(vl.Map().V) != len(m) {
			r.Violate("map-integer-keys-collide-as-float", fmt.Sprintf("%v", iv), fmt.Sprintf("%d entries become %d", len(m), len(vl.Map().V)))
		}
	}
	// inconsistent containers with SEVERAL entries (whatever order reflect.MapKeys yields, the elements disagree): the data
	// must be refused by every entry point; if anything comes back it must at least be well typed
	type withIface struct {
		X interface{} `yae:"x"`
	}
	one, str := interface{}(1), interface{}("s")
	for _, iv := range []interface{}{
		map[string][]interface{}{"a": {1}, "b": {"x"}}, map[string]withIface{"a": {1}, "b": {"s"}}, map[int]map[string]interface{}{1: {"k": 1}, 2: {"k": "s"}},
		map[string]*interface{}{"a": &one, "b": &str}, []map[string]interface{}{{"k": 1}, {"k": "s"}}, [][]interface{}{{1}, {"x"}}, []interface{}{[]interface{}{1}, []interface{}{"x"}},
		[]withIface{{1}, {"s"}}, [2]withIface{{1}, {true}}, map[string][]withIface{"a": {{1}}, "b": {{"s"}}}, map[bool][]interface{}{true: {1}, false: {"x"}},
		[]*withIface{{1}, {"s"}}, map[string]map[string][]interface{}{"a": {"k": {1}}, "b": {"k": {"x"}}},
		// no interface anywhere in the static type: an untagged nil-able field is T when set and maybe[T] when nil
		map[string]struct{ P *int }{"a": {new(int)}, "b": {nil}}, []struct{ P *int }{{new(int)}, {nil}}, []struct{ P *int }{{nil}, {new(int)}},
		map[string]struct{ L []int }{"a": {[]int{1}}, "b": {nil}}, map[int][]struct{ M map[string]int }{1: {{map[string]int{}}}, 2: {{nil}}},
		[2]struct{ P *inner }{{&inner{1}}, {nil}}, map[string]*struct{ P *float64 }{"a": {new(float64)}, "b": {nil}},
	} {
		for _, wrap := range []func(interface{}) interface{}{
			func(x interface{}) interface{} { return x },
			func(x interface{}) interface{} { return map[string]interface{}{"m": x} },
			func(x interface{}) interface{} { return struct{ M interface{} }{x} },
		} {
			hv := wrap(iv)
			var vl *val.Val
			var err error
			pan, msg := protect(func() { vl, err = conv.ValOf(hv) })
			r.Count("inconsistent-container corpus")
			what := fmt.Sprintf("%T %v", hv, hv)
			switch {
			case pan:
				r.Violate("conv-panics", what, msg)
			case err == nil:
				why := deepTyped(vl, vl.Type, "value")
				r.Violate("inconsistent-data-accepted", what, fmt.Sprintf("ValOf returned a value of type %s (%s)", vl.Type, why))
			}
			var eerr error
			protect(func() { _, eerr = conv.ValEnvOf(map[string]interface{}{"v": hv}) })
			if eerr == nil {
				r.Violate("inconsistent-data-accepted", what, "ValEnvOf accepted it")
			}
		}
	}
	// the same Go type with absent and present parts behind declared-optional fields and in empty containers
	{
		tm := time.Unix(1577934245, 0).UTC()
		type opt struct {
			T *time.Time  `yae:"t,maybe"`
			P *inner      `yae:"p,maybe"`
			Q **float64   `yae:"q,maybe"`
			L []time.Time `yae:"l"`
		}
		f := 1.5
		pf := &f
		pairs := [][2]interface{}{
			{opt{L: []time.Time{}}, opt{T: &tm, P: &inner{1}, Q: &pf, L: []time.Time{tm}}}, {[]*time.Time{}, []*time.Time{&tm}}, {map[string]*time.Time{}, map[string]*time.Time{"a": &tm}},
			{[]**time.Time{}, []**time.Time{}}, {struct{ X []*time.Time }{[]*time.Time{}}, struct{ X []*time.Time }{[]*time.Time{&tm}}}, {[]opt{}, []opt{{T: &tm, L: []time.Time{}}}}, {[]opt{{L: []time.Time{}}}, []opt{{T: &tm, L: []time.Time{tm}}}},
			{map[string][]*inner{}, map[string][]*inner{"a": {{1}}}}, {[0]*time.Time{}, [0]*time.Time{}},
		}
		// conversion history must not matter: a value with an absent untagged part is converted FIRST, then the type-only
		// path (empty containers) of the same Go type is compared with the value path of a complete value
		type un struct {
			P *int
			L []int
			I interface{}
		}
		one := 1
		protect(func() { conv.ValOf(un{}); conv.ValOf(struct{ U un }{}); conv.TypeOf(un{I: "s"}) })
		pairs = append(pairs, [2]interface{}{[]un{}, []un{{P: &one, L: []int{1}, I: 1}}}, [2]interface{}{map[string]un{}, map[string]un{"a": {P: &one, L: []int{}, I: 2}}},
			[2]interface{}{struct{ Xs []un }{[]un{}}, struct{ Xs []un }{[]un{{P: &one, L: []int{2}, I: 3}}}})
		for _, p := range pairs {
			var t1, t2 *types.Type
			var e1, e2 error
			protect(func() { t1, e1 = conv.TypeOf(p[0]); t2, e2 = conv.TypeOf(p[1]) })
			r.Count("same-go-type pairs")
			if e1 != nil || e2 != nil {
				continue
			}
			if !refEq(FromGo(t1), FromGo(t2)) {
				r.Violate("type-depends-on-value", fmt.Sprintf("%T", p[0]), fmt.Sprintf("%s vs %s", t1, t2))
			}
			var v2 *val.Val
			var ve error
			protect(func() { v2, ve = conv.ValOf(p[1]) })
			if ve == nil && v2 != nil && !refEq(FromGo(v2.Type), FromGo(t2)) {
				r.Violate("type-differs-from-value-type", fmt.Sprintf("%T", p[1]), fmt.Sprintf("TypeOf %s, value type %s", t2, v2.Type))
			}
		}
	}
}
