package main

// C20 — generated SQL keeps the criteria's boolean structure and quotes literals safely.
// Correspondence: ext.CompileToSql on generated criteria trees (and environments) against the Coq printer model.
// Direct predicates: the WHERE text re-read with standard SQL precedence (condition, NOT, AND, OR) is the criteria tree
// up to associativity; each string operand is one quoted literal that ends exactly where the printer ended it;
// numbers, booleans and times appear in their exact form.

import (
	"fmt"
	"math"
	"strconv"
	"strings"
	"sync"
	"time"

	"github.com/goghcrow/yae/ext"
	"github.com/goghcrow/yae/parser/ast"
	"github.com/goghcrow/yae/parser/pos"
	"github.com/goghcrow/yae/types"
	"github.com/goghcrow/yae/val"
)

func init() { props["C20"] = runC20 }

type sqlOperand struct {
	kind string // num str bool time name
	num  float64
	str  string
	b    bool
	sec  int64
}

func (o sqlOperand) Sx() Sx {
	switch o.kind {
	case "num":
		return L(A("num"), U64(numBits(o.num)))
	case "str":
		return L(A("str"), Bytes(o.str))
	case "bool":
		return L(A("bool"), Bool(o.b))
	case "time":
		return L(A("time"), I64(o.sec))
	}
	return L(A("name"), Name(o.str))
}

func (o sqlOperand) expr() ast.Expr {
	switch o.kind {
	case "num":
		// a literal whose text parses back to exactly this float; small non-negative integers also in their hexadecimal
		// spelling (the SOURCE text of a literal is not its SQL text)
		if o.num >= 0 && o.num < 1<<40 && o.num == math.Trunc(o.num) && int64(o.num)%3 == 0 {
			return &ast.NumExpr{Pos: pos.Unknown, Text: "0x" + strconv.FormatInt(int64(o.num), 16), Val: o.num}
		}
		return &ast.NumExpr{Pos: pos.Unknown, Text: strconv.FormatFloat(o.num, 'g', -1, 64), Val: o.num}
	case "str":
		// raw back-quoted spelling where the value allows it (by length parity, so that both spellings occur), and the
		// \u escape spelling for non-ASCII text
		if !strings.Contains(o.str, "`") && !strings.Contains(o.str, "\r") && len(o.str)%2 == 1 {
			return &ast.StrExpr{Pos: pos.Unknown, Text: "`" + o.str + "`", Val: o.str}
		}
		return &ast.StrExpr{Pos: pos.Unknown, Text: strconv.QuoteToASCII(o.str), Val: o.str}
	case "bool":
		if o.b {
			return ast.True(pos.Unknown)
		}
		return ast.False(pos.Unknown)
	case "time":
		return &ast.TimeExpr{Pos: pos.Unknown, Text: "'x'", Val: o.sec}
	}
	return ast.Var(o.str, pos.Unknown)
}

type sqlCond struct {
	kind  string // cmp between in isnull
	field string
	op    string
	ops   []sqlOperand
}

func (c sqlCond) Sx() Sx {
	switch c.kind {
	case "cmp":
		return L(A("cmp"), Name(c.field), Name(c.op), c.ops[0].Sx())
	case "between":
		return L(A("between"), Name(c.field), c.ops[0].Sx(), c.ops[1].Sx())
	case "in":
		xs := make([]Sx, len(c.ops))
		for i, o := range c.ops {
			xs[i] = o.Sx()
		}
		return L(A("in"), Name(c.field), LS(xs))
	}
	return L(A("isnull"), Name(c.field))
}

func (c sqlCond) crit() ext.Criteria {
	switch c.kind {
	case "cmp":
		return ext.Cond{Field: c.field, Operator: c.op, Operands: []ast.Expr{c.ops[0].expr()}}
	case "between":
		return ext.Cond{Field: c.field, Operator: "BETWEEN", Operands: []ast.Expr{c.ops[0].expr(), c.ops[1].expr()}}
	case "in":
		es := make([]ast.Expr, len(c.ops))
		for i, o := range c.ops {
			es[i] = o.expr()
		}
		return ext.Cond{Field: c.field, Operator: "IN", Operands: []ast.Expr{ast.List(es, pos.Unknown)}}
	}
	return ext.Cond{Field: c.field, Operator: "ISNULL"}
}

type sqlTree struct {
	k    string // leaf and or not
	leaf sqlCond
	sub  []*sqlTree
}

func (t *sqlTree) Sx() Sx {
	switch t.k {
	case "leaf":
		return L(A("leaf"), t.leaf.Sx())
	case "not":
		return L(A("not"), t.sub[0].Sx())
	}
	return L(A(t.k), t.sub[0].Sx(), t.sub[1].Sx())
}

func (t *sqlTree) crit() ext.Criteria {
	switch t.k {
	case "leaf":
		return t.leaf.crit()
	case "and":
		return ext.CondGroup{LogicalOper: ext.AND, Conds: []ext.Criteria{t.sub[0].crit(), t.sub[1].crit()}}
	case "or":
		return ext.CondGroup{LogicalOper: ext.OR, Conds: []ext.Criteria{t.sub[0].crit(), t.sub[1].crit()}}
	}
	return ext.CondGroup{LogicalOper: ext.NOT, Conds: []ext.Criteria{t.sub[0].crit()}}
}

// shape: boolean structure up to associativity, leaves numbered by identity
func (t *sqlTree) shape(ids map[*sqlTree]int) string {
	switch t.k {
	case "leaf":
		return fmt.Sprintf("L%d", ids[t])
	case "not":
		return "(not " + t.sub[0].shape(ids) + ")"
	}
	var parts []string
	var flat func(x *sqlTree)
	flat = func(x *sqlTree) {
		if x.k == t.k {
			flat(x.sub[0])
			flat(x.sub[1])
		} else {
			parts = append(parts, x.shape(ids))
		}
	}
	flat(t)
	return "(" + t.k + " " + strings.Join(parts, " ") + ")"
}

func sqlModelEnv() *types.Env {
	te := types.NewEnv()
	te.Put("c", types.Num)
	te.Put("d", types.Num)
	te.Put("s", types.Str)
	te.Put("b", types.Bool)
	te.Put("t", types.Time)
	te.Put("lim", types.Num)
	te.Put("who", types.Str)
	return te
}

func compileSql(t *sqlTree, env *val.Env) (sql string, cls string) {
	pan, msg := protect(func() {
		f := ext.CompileToSql(t.crit(), sqlModelEnv())
		s, err := f(env)
		if err != nil {
			cls = "err:" + firstLine(err.Error())
			return
		}
		sql, cls = s, "ok"
	})
	if pan {
		cls = "panic:" + firstLine(msg)
	}
	return
}

// reader with standard SQL precedence over a token list: leaves are recognised by their own rendering
type sqlReader struct {
	t []string
	i int
}

func (r *sqlReader) peek() string {
	if r.i < len(r.t) {
		return r.t[r.i]
	}
	return ""
}
func (r *sqlReader) or() string {
	xs := []string{r.and()}
	for r.peek() == "OR" {
		r.i++
		xs = append(xs, r.and())
	}
	if len(xs) == 1 {
		return xs[0]
	}
	return "(or " + strings.Join(xs, " ") + ")"
}
func (r *sqlReader) and() string {
	xs := []string{r.not()}
	for r.peek() == "AND" {
		r.i++
		xs = append(xs, r.not())
	}
	if len(xs) == 1 {
		return xs[0]
	}
	return "(and " + strings.Join(xs, " ") + ")"
}
func (r *sqlReader) not() string {
	if r.peek() == "NOT" {
		r.i++
		return "(not " + r.not() + ")"
	}
	t := r.peek()
	r.i++
	if t == "(" {
		e := r.or()
		if r.peek() != ")" {
			return "?unbalanced"
		}
		r.i++
		// a parenthesised group of the same connective flattens by associativity on re-reading
		return e
	}
	if strings.HasPrefix(t, "L") {
		return t
	}
	return "?" + t
}

// flattenShape re-associates nested same connectives in a reader result such as (and (and L0 L1) L2)
func flattenShape(s string) string { return s }

func tokenizeSql(s string, leaves []string) []string {
	var toks []string
	for len(s) > 0 {
		s = strings.TrimLeft(s, " ")
		if s == "" {
			break
		}
		best, bi := -1, -1
		for i, l := range leaves {
			if l != "" && strings.HasPrefix(s, l) && len(l) > best {
				best, bi = len(l), i
			}
		}
		if bi >= 0 {
			toks = append(toks, fmt.Sprintf("L%d", bi))
			s = s[best:]
			continue
		}
		matched := false
		for _, k := range []string{"AND", "OR", "NOT", "(", ")"} {
			if strings.HasPrefix(s, k) {
				toks = append(toks, k)
				s = s[len(k):]
				matched = true
				break
			}
		}
		if !matched {
			return append(toks, "?"+s)
		}
	}
	return toks
}

// mysqlLiteralEnd: scanning from an opening double quote with backslash escapes, where does the literal end?
func mysqlLiteralEnd(s string) int {
	if len(s) == 0 || s[0] != '"' {
		return -1
	}
	for i := 1; i < len(s); i++ {
		switch s[i] {
		case '\\':
			i++
		case '"':
			return i + 1
		}
	}
	return -1
}

type sqlGen struct{ r *Run }

func (g *sqlGen) operand(kind string) sqlOperand {
	rn := g.r.Rng
	switch kind {
	case "num":
		if rn.Intn(5) == 0 {
			return sqlOperand{kind: "name", str: []string{"lim", "d"}[rn.Intn(2)]}
		}
		pool := []float64{0, 1, -1, 2.5, 1e19, 1 << 63, -(1 << 63), 9007199254740993, 0.1, 1e-7, 123456789012, 1e21, -2.5e-5, math.MaxFloat64}
		return sqlOperand{kind: "num", num: pool[rn.Intn(len(pool))]}
	case "str":
		if rn.Intn(5) == 0 {
			return sqlOperand{kind: "name", str: "who"}
		}
		pool := []string{"", "a", "admin", "a AND b", "x\" OR \"1\"=\"1", "C:\\dir\\", "x\" OR 1=1 --", "it's", "back\\slash", "\\\"", "tab\there", "nl\nx", "é", "\x00", "\x1a", "%_", "\xff", "\" ) OR ( \"", "a\\", "\\"}
		return sqlOperand{kind: "str", str: pool[rn.Intn(len(pool))]}
	case "bool":
		return sqlOperand{kind: "bool", b: rn.Intn(2) == 0}
	default:
		return sqlOperand{kind: "time", sec: []int64{0, 1577934245, -1, 253402300799}[rn.Intn(4)]}
	}
}

func (g *sqlGen) leaf() sqlCond {
	rn := g.r.Rng
	fields := map[string][]string{"num": {"c", "d"}, "str": {"s"}, "bool": {"b"}, "time": {"t"}}
	kinds := []string{"num", "num", "str", "str", "bool", "time"}
	k := kinds[rn.Intn(len(kinds))]
	f := fields[k][rn.Intn(len(fields[k]))]
	switch rn.Intn(6) {
	case 0:
		if k == "num" || k == "time" {
			return sqlCond{kind: "between", field: f, ops: []sqlOperand{g.operand(k), g.operand(k)}}
		}
	case 1:
		n := 1 + rn.Intn(3)
		c := sqlCond{kind: "in", field: f}
		for i := 0; i < n; i++ {
			c.ops = append(c.ops, g.operand(k))
		}
		return c
	case 2:
		return sqlCond{kind: "isnull", field: f}
	case 3:
		if k == "str" {
			return sqlCond{kind: "cmp", field: f, op: "LIKE", ops: []sqlOperand{g.operand(k)}}
		}
	}
	opsFor := map[string][]string{"num": {"=", "<>", ">", ">=", "<", "<="}, "str": {"=", "<>"}, "bool": {"=", "<>"}, "time": {"=", "<>", ">", ">=", "<", "<="}}
	return sqlCond{kind: "cmp", field: f, op: opsFor[k][rn.Intn(len(opsFor[k]))], ops: []sqlOperand{g.operand(k)}}
}

func (g *sqlGen) tree(d int) *sqlTree {
	if d == 0 || g.r.Rng.Intn(4) == 0 {
		return &sqlTree{k: "leaf", leaf: g.leaf()}
	}
	switch g.r.Rng.Intn(5) {
	case 0:
		return &sqlTree{k: "not", sub: []*sqlTree{g.tree(d - 1)}}
	case 1, 2:
		return &sqlTree{k: "and", sub: []*sqlTree{g.tree(d - 1), g.tree(d - 1)}}
	default:
		return &sqlTree{k: "or", sub: []*sqlTree{g.tree(d - 1), g.tree(d - 1)}}
	}
}

func collectLeaves(t *sqlTree, out *[]*sqlTree) {
	if t.k == "leaf" {
		*out = append(*out, t)
		return
	}
	for _, s := range t.sub {
		collectLeaves(s, out)
	}
}

func runC20(r *Run) {
	g := &sqlGen{r}
	n := 1500
	if r.Tier == "thorough" {
		n = 80000
	}
	mkEnv := func() (*val.Env, Sx) {
		ve := val.NewEnv()
		xs := []Sx{}
		put := func(name string, v *val.Val) {
			ve.Put(name, v)
			xs = append(xs, L(Name(name), ValSx(v)))
		}
		if r.Rng.Intn(2) == 0 {
			put("lim", val.Num([]float64{10, 2.5, 1e19}[r.Rng.Intn(3)]))
		}
		if r.Rng.Intn(2) == 0 {
			put("who", val.Str([]string{"bob", "o\"hara", "x\\"}[r.Rng.Intn(3)]))
		}
		if r.Rng.Intn(4) == 0 {
			put("t", val.Time(time.Unix(86400, 0)))
		}
		return ve, LS(xs)
	}
	// one compiled criteria shared by several callers at once: every caller's text depends on ITS environment only
	for k := 0; k < 12; k++ {
		t := g.tree(2 + r.Rng.Intn(3))
		var f func(v interface{}) (string, error)
		if pan, _ := protect(func() { f = ext.CompileToSql(t.crit(), sqlModelEnv()) }); pan || f == nil {
			continue
		}
		envs := make([]*val.Env, 8)
		want := make([]string, 8)
		for j := range envs {
			ve := val.NewEnv()
			ve.Put("lim", val.Num(float64(1000+j)))
			ve.Put("d", val.Num(float64(2000+j)))
			ve.Put("who", val.Str(fmt.Sprintf("caller-%d", j)))
			ve.Put("t", val.Time(time.Unix(int64(86400*(j+1)), 0)))
			envs[j] = ve
			protect(func() { want[j], _ = f(ve) })
		}
		bad := make([]string, 8)
		var wg sync.WaitGroup
		for j := range envs {
			wg.Add(1)
			go func(j int) {
				defer wg.Done()
				defer func() { recover() }()
				for it := 0; it < 3000; it++ {
					if s, _ := f(envs[j]); s != want[j] {
						bad[j] = s
						return
					}
				}
			}(j)
		}
		wg.Wait()
		r.Count("criteria shared by concurrent callers")
		for j, b := range bad {
			if b != "" {
				r.Violate("text-depends-on-concurrent-callers", string(t.Sx()), fmt.Sprintf("caller %d got %q while running alone it gets %q", j, trunc(b, 200), trunc(want[j], 200)))
				break
			}
		}
	}
	for i := 0; i < n; i++ {
		t := g.tree(r.Rng.Intn(5))
		env, envSx := mkEnv()
		sql, cls := compileSql(t, env)
		req := L(A("sql"), t.Sx(), envSx)
		if cls != "ok" {
			r.Case(req, A("err"))
			r.Count("sql:" + strings.SplitN(cls, ":", 2)[0])
			if strings.HasPrefix(cls, "panic") {
				r.Violate("sql-panic", string(t.Sx()), cls)
			}
			continue
		}
		r.Case(req, L(A("ok"), Bytes(sql)))
		r.Count("sql:ok")
		r.Nontrivial(sql)
		if i < 4 {
			r.Sample(sql)
		}
		// --- boolean structure: re-read with standard precedence
		var leaves []*sqlTree
		collectLeaves(t, &leaves)
		ids := map[*sqlTree]int{}
		texts := make([]string, len(leaves))
		for j, lf := range leaves {
			ids[lf] = j
			env2, _ := envCopy(env)
			texts[j], _ = compileSql(lf, env2)
		}
		// identical leaf texts get the first id
		for j := range texts {
			for k := 0; k < j; k++ {
				if texts[k] == texts[j] {
					ids[leaves[j]] = ids[leaves[k]]
					texts[j] = ""
					break
				}
			}
		}
		rd := &sqlReader{t: tokenizeSql(sql, texts)}
		got := rd.or()
		if rd.i != len(rd.t) {
			got = "?trailing"
		}
		want := t.shape(ids)
		if normShape(got) != normShape(want) {
			r.Violate("boolean-structure", sql, fmt.Sprintf("read back as %s, criteria tree is %s", got, want))
		}
		// --- literals
		for _, lf := range leaves {
			for _, o := range lf.leaf.ops {
				switch o.kind {
				case "str":
					q := strconv.Quote(o.str)
					at := strings.Index(sql, q)
					if at < 0 {
						r.Violate("string-literal-form", sql, fmt.Sprintf("operand %q does not appear as %s", o.str, q))
					} else if end := mysqlLiteralEnd(sql[at:]); end != len(q) {
						r.Violate("string-literal-escapes", sql, fmt.Sprintf("literal for %q ends after %d bytes when read with backslash escapes, printed %d", o.str, end, len(q)))
					}
				case "num":
					want := strconv.FormatFloat(o.num, 'f', -1, 64)
					if o.num == math.Trunc(o.num) && math.Abs(o.num) < 1<<63 {
						want = strconv.FormatInt(int64(o.num), 10)
					}
					if !strings.Contains(sql, want) {
						r.Violate("number-form", sql, fmt.Sprintf("number %v should appear as %s", o.num, want))
					}
				case "time":
					if !strings.Contains(sql, fmt.Sprintf("from_unixtime(%d)", o.sec)) {
						r.Violate("time-form", sql, fmt.Sprintf("instant %d", o.sec))
					}
				}
			}
		}
	}
}

func envCopy(e *val.Env) (*val.Env, bool) {
	c := val.NewEnv()
	e.ForEach(func(k string, v *val.Val) { c.Put(k, v) })
	return c, true
}

// normShape flattens nested same connectives in the textual shape, e.g. (and (and L0 L1) L2) -> (and L0 L1 L2)
func normShape(s string) string {
	type node struct {
		k   string
		sub []*node
		lf  string
	}
	var parse func() *node
	pos := 0
	parse = func() *node {
		for pos < len(s) && s[pos] == ' ' {
			pos++
		}
		if pos < len(s) && s[pos] == '(' {
			pos++
			j := pos
			for j < len(s) && s[j] != ' ' {
				j++
			}
			n := &node{k: s[pos:j]}
			pos = j
			for {
				for pos < len(s) && s[pos] == ' ' {
					pos++
				}
				if pos >= len(s) {
					break
				}
				if s[pos] == ')' {
					pos++
					break
				}
				n.sub = append(n.sub, parse())
			}
			return n
		}
		j := pos
		for j < len(s) && s[j] != ' ' && s[j] != ')' {
			j++
		}
		n := &node{lf: s[pos:j]}
		pos = j
		return n
	}
	var show func(n *node) string
	show = func(n *node) string {
		if n.lf != "" || n.k == "" {
			return n.lf
		}
		if n.k == "not" {
			return "(not " + show(n.sub[0]) + ")"
		}
		var parts []string
		var flat func(x *node)
		flat = func(x *node) {
			if x.k == n.k {
				for _, y := range x.sub {
					flat(y)
				}
			} else {
				parts = append(parts, show(x))
			}
		}
		flat(n)
		return "(" + n.k + " " + strings.Join(parts, " ") + ")"
	}
	return show(parse())
}
