package main

// Correspondence cases for evaluation: the request carries everything the model needs (registration history,
// environment types and values, oracle tables for timelib and regexp, the source text).

import (
	"regexp"
	"strconv"
	"strings"

	"github.com/goghcrow/yae/parser/token"
	"github.com/goghcrow/yae/timelib"
	"github.com/goghcrow/yae/val"
)

func venvSx(vars []envVar, vals map[string]*val.Val) Sx {
	xs := []Sx{}
	for _, v := range vars {
		if x, ok := vals[v.Name]; ok {
			xs = append(xs, L(Name(v.Name), ValSx(x)))
		}
	}
	return LS(xs)
}

// oraclesSx: timelib.Strtotime of every string / time literal of the source, and regexp.MatchString for every
// ordered pair of string literals and string variables when the source calls match.
func oraclesSx(src string, vals map[string]*val.Val) Sx {
	if builtinTable == nil {
		staticType("1", nil, false)
	}
	strs := map[string]bool{}
	toks, ok := implLex(builtinTable, src)
	if ok {
		for _, t := range toks {
			switch string(t.Kind) {
			case token.STR:
				if v, err := strconv.Unquote(t.Lexeme); err == nil {
					strs[v] = true
				}
			case token.TIME:
				strs[t.Lexeme[1:len(t.Lexeme)-1]] = true
			}
		}
	}
	ts := []Sx{A("strtotime")}
	for _, s := range sortedKeysB(strs) {
		ts = append(ts, L(Bytes(s), I64(timelib.Strtotime(s))))
	}
	rs := []Sx{A("regex")}
	if strings.Contains(src, "match") {
		all := map[string]bool{}
		for s := range strs {
			all[s] = true
		}
		for _, v := range vals {
			if v != nil && v.Type.Kind.String() == "str" {
				all[v.Str().V] = true
			}
		}
		keys := sortedKeysB(all)
		for _, p := range keys {
			for _, s := range keys {
				m, err := regexp.MatchString(p, s)
				res := A("F")
				if err != nil {
					res = A("E")
				} else if m {
					res = A("T")
				}
				rs = append(rs, L(Bytes(p), Bytes(s), res))
			}
		}
	}
	return L(LS(ts), LS(rs))
}

func sortedKeysB(m map[string]bool) []string {
	mm := map[string]int{}
	for k := range m {
		mm[k] = 1
	}
	return sortedKeys(mm)
}

var stdHistory, stdHistoryFns regHistory

func historyFor(withFns bool) regHistory {
	if stdHistory.name == "" {
		stdHistory = regHistory{"builtin", []interface{}{"builtin"}}
		// the facade registers user functions at once and the built-ins at the first compilation: user first
		items := []interface{}{}
		for _, f := range stdFns {
			items = append(items, f)
		}
		stdHistoryFns = regHistory{"user+builtin", append(items, "builtin")}
	}
	if withFns {
		return stdHistoryFns
	}
	return stdHistory
}

// emitEvalCases writes the correspondence cases of one program: the closure compiler and the interpreter against the
// reference evaluator (request evalsrc), the two VM loops against the VM model (request vmsrc).
func emitEvalCases(r *Run, c evalCase, vars []envVar, vals map[string]*val.Val, outs []outcome) {
	h := historyFor(c.withFns)
	common := []Sx{h.Sx(), tenvSx(vars), venvSx(vars, vals), oraclesSx(c.src, vals), Runes(c.src)}
	mk := func(tag string) Sx { return LS(append([]Sx{A(tag)}, common...)) }
	r.Case(mk("evalsrc"), outs[0].Sx())
	if outs[1].Sx() != outs[0].Sx() {
		r.Case(mk("evalsrc"), outs[1].Sx())
	}
	r.Case(mk("vmsrc"), outs[2].Sx())
	r.Case(mk("vmcsrc"), outs[3].Sx())
}
