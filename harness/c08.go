package main

// C08 — parsing honours precedence, associativity and fixity for any operator table; exact source spans.
// Correspondence: parser.NewParser(ops).Parse(tokens) (synthetic token sequences, exhaustively) and lex+parse of source
// strings against the Coq Pratt model, whole tree with every position.  Direct predicates: the accepted tree is
// well-formed for the table (wfp) and yields the token string; a non-associative operator is never chained;
// every node's recorded span covers exactly its first to its last token; redundant parentheses do not change the tree.

import (
	"fmt"
	"math"
	"strings"

	"github.com/goghcrow/yae/parser"
	"github.com/goghcrow/yae/parser/ast"
	"github.com/goghcrow/yae/parser/lexer"
	"github.com/goghcrow/yae/parser/oper"
	"github.com/goghcrow/yae/parser/pos"
	"github.com/goghcrow/yae/parser/token"
)

func init() { props["C08"] = runC08 }

// ---- operator table as the property sees it ----
type fixT int

const (
	fxL fixT = iota
	fxR
	fxN
)

type table struct {
	name      string
	ops       []oper.Operator
	sx        Sx
	prefixBP  map[string]float64
	infixBP   map[string]float64
	infixFix  map[string]fixT
	postfixBP map[string]float64 // postfix operators live in the infix table
}

func newTable(name string, ops []oper.Operator) *table {
	t := &table{name: name, ops: ops, sx: OpsSx(ops), prefixBP: map[string]float64{}, infixBP: map[string]float64{},
		infixFix: map[string]fixT{}, postfixBP: map[string]float64{}}
	sorted := oper.Sort(append([]oper.Operator{}, ops...))
	for _, o := range sorted {
		k := string(o.Kind)
		switch o.Fixity {
		case oper.PREFIX:
			t.prefixBP[k] = float64(o.BP)
		case oper.INFIX_L, oper.INFIX_R, oper.INFIX_N:
			delete(t.postfixBP, k)
			t.infixBP[k] = float64(o.BP)
			t.infixFix[k] = map[oper.Fixity]fixT{oper.INFIX_L: fxL, oper.INFIX_R: fxR, oper.INFIX_N: fxN}[o.Fixity]
		case oper.POSTFIX:
			delete(t.infixBP, k)
			t.postfixBP[k] = float64(o.BP)
		}
	}
	return t
}

const (
	bpCond   = 2.0
	bpCall   = 12.0
	bpMember = 13.0
)

// Tr: the reference tree (no positions)
type Tr struct {
	k    string // atom prefix bin post tern call member sub group list map obj
	op   string
	sub  []*Tr
	name string
	fn   []string // obj field names
}

func (t *Tr) String() string {
	switch t.k {
	case "atom":
		return "a"
	case "member":
		return fmt.Sprintf("(. %s %s)", t.sub[0], t.name)
	}
	xs := []string{}
	for _, s := range t.sub {
		xs = append(xs, s.String())
	}
	return "(" + t.k + t.op + strings.Join(t.fn, ",") + " " + strings.Join(xs, " ") + ")"
}

func (tb *table) rbpOf(op string) float64 {
	if tb.infixFix[op] == fxR {
		return tb.infixBP[op] - 1
	}
	return tb.infixBP[op]
}

func (tb *table) rom(t *Tr) float64 {
	switch t.k {
	case "prefix":
		return math.Min(tb.prefixBP[t.op], tb.rom(t.sub[0]))
	case "bin":
		return math.Min(tb.rbpOf(t.op), tb.rom(t.sub[1]))
	case "tern":
		return math.Min(bpCond-1, tb.rom(t.sub[2]))
	}
	return math.Inf(1)
}

func endsWithMember(t *Tr) bool {
	switch t.k {
	case "member":
		return true
	case "prefix":
		return endsWithMember(t.sub[0])
	case "bin":
		return endsWithMember(t.sub[1])
	case "tern":
		return endsWithMember(t.sub[2])
	}
	return false
}

// wfp: the declarative precedence predicate of DESIGN.md §5 C08. Returns "" or the name of the violated clause.
func (tb *table) wfp(rbp float64, t *Tr) string {
	all0 := func(xs []*Tr) string {
		for _, x := range xs {
			if r := tb.wfp(0, x); r != "" {
				return r
			}
		}
		return ""
	}
	attach := func(lbp float64, left *Tr) string {
		if !(lbp > rbp) {
			return "precedence"
		}
		if r := tb.wfp(rbp, left); r != "" {
			return r
		}
		if !(lbp <= tb.rom(left)) {
			return "precedence"
		}
		return ""
	}
	first := func(rs ...string) string {
		for _, r := range rs {
			if r != "" {
				return r
			}
		}
		return ""
	}
	switch t.k {
	case "atom":
		return ""
	case "prefix":
		return tb.wfp(tb.prefixBP[t.op], t.sub[0])
	case "bin":
		if r := first(attach(tb.infixBP[t.op], t.sub[0]), tb.wfp(tb.rbpOf(t.op), t.sub[1])); r != "" {
			return r
		}
		if tb.infixFix[t.op] == fxN {
			for _, c := range t.sub {
				if c.k == "bin" && c.op == t.op {
					return "nonassoc-chain"
				}
			}
		}
		return ""
	case "post":
		return attach(tb.postfixBP[t.op], t.sub[0])
	case "tern":
		return first(attach(bpCond, t.sub[0]), tb.wfp(0, t.sub[1]), tb.wfp(bpCond-1, t.sub[2]))
	case "call":
		f := t.sub[0]
		if f.k == "member" {
			return first(tb.wfp(rbp, f), all0(t.sub[1:]))
		}
		if endsWithMember(f) {
			return "precedence"
		}
		return first(attach(bpCall, f), all0(t.sub[1:]))
	case "member":
		return attach(bpMember, t.sub[0])
	case "sub":
		return first(attach(bpMember, t.sub[0]), tb.wfp(0, t.sub[1]))
	case "group":
		return tb.wfp(0, t.sub[0])
	case "list", "map", "obj":
		return all0(t.sub)
	}
	return "unknown-node"
}

// flatten: the canonical token string a tree yields (no trailing commas)
func flatten(t *Tr) []string {
	switch t.k {
	case "atom":
		return []string{t.name}
	case "prefix":
		return append([]string{t.op}, flatten(t.sub[0])...)
	case "bin":
		return append(append(flatten(t.sub[0]), t.op), flatten(t.sub[1])...)
	case "post":
		return append(flatten(t.sub[0]), t.op)
	case "tern":
		r := append(flatten(t.sub[0]), "?")
		r = append(r, flatten(t.sub[1])...)
		r = append(r, ":")
		return append(r, flatten(t.sub[2])...)
	case "call":
		r := append(flatten(t.sub[0]), "(")
		for i, a := range t.sub[1:] {
			if i > 0 {
				r = append(r, ",")
			}
			r = append(r, flatten(a)...)
		}
		return append(r, ")")
	case "member":
		return append(flatten(t.sub[0]), ".", t.name)
	case "sub":
		r := append(flatten(t.sub[0]), "[")
		r = append(r, flatten(t.sub[1])...)
		return append(r, "]")
	case "group":
		return append(append([]string{"("}, flatten(t.sub[0])...), ")")
	case "list":
		r := []string{"["}
		for i, a := range t.sub {
			if i > 0 {
				r = append(r, ",")
			}
			r = append(r, flatten(a)...)
		}
		return append(r, "]")
	case "map":
		if len(t.sub) == 0 {
			return []string{"[", ":", "]"}
		}
		r := []string{"["}
		for i := 0; i < len(t.sub); i += 2 {
			if i > 0 {
				r = append(r, ",")
			}
			r = append(r, flatten(t.sub[i])...)
			r = append(r, ":")
			r = append(r, flatten(t.sub[i+1])...)
		}
		return append(r, "]")
	case "obj":
		r := []string{"{"}
		for i, a := range t.sub {
			if i > 0 {
				r = append(r, ",")
			}
			r = append(r, t.fn[i], ":")
			r = append(r, flatten(a)...)
		}
		return append(r, "}")
	}
	panic(t.k)
}

func convTr(e ast.Expr) *Tr {
	switch x := e.(type) {
	case *ast.IdentExpr:
		return &Tr{k: "atom", name: x.Name}
	case *ast.NumExpr:
		return &Tr{k: "atom", name: x.Text}
	case *ast.StrExpr:
		return &Tr{k: "atom", name: x.Text}
	case *ast.TimeExpr:
		return &Tr{k: "atom", name: x.Text}
	case *ast.BoolExpr:
		return &Tr{k: "atom", name: x.Text}
	case *ast.UnaryExpr:
		if x.Prefix {
			return &Tr{k: "prefix", op: x.Name, sub: []*Tr{convTr(x.LHS)}}
		}
		return &Tr{k: "post", op: x.Name, sub: []*Tr{convTr(x.LHS)}}
	case *ast.BinaryExpr:
		return &Tr{k: "bin", op: x.Name, sub: []*Tr{convTr(x.LHS), convTr(x.RHS)}}
	case *ast.TenaryExpr:
		return &Tr{k: "tern", sub: []*Tr{convTr(x.Left), convTr(x.Mid), convTr(x.Right)}}
	case *ast.CallExpr:
		t := &Tr{k: "call", sub: []*Tr{convTr(x.Callee)}}
		for _, a := range x.Args {
			t.sub = append(t.sub, convTr(a))
		}
		return t
	case *ast.MemberExpr:
		return &Tr{k: "member", sub: []*Tr{convTr(x.Obj)}, name: x.Field.Name}
	case *ast.SubscriptExpr:
		return &Tr{k: "sub", sub: []*Tr{convTr(x.Var), convTr(x.Idx)}}
	case *ast.GroupExpr:
		return &Tr{k: "group", sub: []*Tr{convTr(x.SubExpr)}}
	case *ast.ListExpr:
		t := &Tr{k: "list"}
		for _, a := range x.Elems {
			t.sub = append(t.sub, convTr(a))
		}
		return t
	case *ast.MapExpr:
		t := &Tr{k: "map"}
		for _, p := range x.Pairs {
			t.sub = append(t.sub, convTr(p.Key), convTr(p.Val))
		}
		return t
	case *ast.ObjExpr:
		t := &Tr{k: "obj"}
		for _, f := range x.Fields {
			t.fn = append(t.fn, f.Name)
			t.sub = append(t.sub, convTr(f.Val))
		}
		return t
	}
	panic(fmt.Sprintf("%T", e))
}

// yields: does the tree yield exactly this token string, allowing one trailing comma in list/map/object literals?
// Decided by matching flatten(t) against seq while skipping a "," that directly precedes "]" or "}" in seq at a
// point where flatten has the closing bracket.
func yields(t *Tr, seq []string) bool {
	f := flatten(t)
	i, j := 0, 0
	for i < len(f) && j < len(seq) {
		if f[i] == seq[j] {
			i++
			j++
			continue
		}
		if seq[j] == "," && j+1 < len(seq) && (seq[j+1] == "]" || seq[j+1] == "}") && f[i] == seq[j+1] {
			j++
			continue
		}
		return false
	}
	return i == len(f) && j == len(seq)
}

// ---- span check: every node covers exactly first..last token of what it yields ----
type spanTok struct{ idx, end int }

// checkSpans returns the first node whose recorded span is not [first token idx, last token end).
func checkSpans(e ast.Expr, toks []*token.Token) string {
	// token index by start position
	byStart := map[int]*token.Token{}
	for _, t := range toks {
		byStart[t.Idx] = t
	}
	var bad string
	// a member name may be ANY token, also a bracket: such tokens are names, not brackets
	nameTok := map[int]bool{}
	walkExpr(e, func(n ast.Expr) {
		if m, ok := n.(*ast.MemberExpr); ok {
			nameTok[m.Field.Pos.Idx] = true
		}
	})
	var walk func(e ast.Expr) (int, int)
	note := func(e ast.Expr, lo, hi int) {
		p := e.Position()
		if bad == "" && (p.Idx != lo || p.IdxEnd != hi) {
			bad = fmt.Sprintf("%T `%s` recorded %d-%d, covers %d-%d", e, e, p.Idx, p.IdxEnd, lo, hi)
		}
		if bad == "" {
			if t, ok := byStart[lo]; ok && (p.Line != t.Line || p.Col != t.Col) {
				bad = fmt.Sprintf("%T `%s` line/col %d/%d, first token at %d/%d", e, e, p.Line, p.Col, t.Line, t.Col)
			}
		}
	}
	// closing bracket after position `from`: the recorded end must be the end of a token whose kind is the closer
	closerEnd := func(from int, closer string) int {
		depth := 0
		for _, t := range toks {
			if t.Idx < from || nameTok[t.Idx] {
				continue
			}
			switch string(t.Kind) {
			case "(", "[", "{":
				depth++
			case ")", "]", "}":
				if depth == 0 {
					if string(t.Kind) == closer {
						return t.IdxEnd
					}
					return -1
				}
				depth--
			}
		}
		return -1
	}
	openerStart := func(before int, opener string) int {
		depth := 0
		for i := len(toks) - 1; i >= 0; i-- {
			t := toks[i]
			if t.Idx >= before || nameTok[t.Idx] {
				continue
			}
			switch string(t.Kind) {
			case ")", "]", "}":
				depth++
			case "(", "[", "{":
				if depth == 0 {
					if string(t.Kind) == opener {
						return t.Idx
					}
					return -1
				}
				depth--
			}
		}
		return -1
	}
	walk = func(e ast.Expr) (int, int) {
		switch x := e.(type) {
		case *ast.IdentExpr, *ast.NumExpr, *ast.StrExpr, *ast.TimeExpr, *ast.BoolExpr:
			p := e.Position()
			if t, ok := byStart[p.Idx]; !ok || t.IdxEnd != p.IdxEnd {
				if bad == "" {
					bad = fmt.Sprintf("leaf `%s` span %d-%d is not a token", e, p.Idx, p.IdxEnd)
				}
			}
			return p.Idx, p.IdxEnd
		case *ast.UnaryExpr:
			lo, hi := walk(x.LHS)
			np := x.IdentExpr.Pos
			if x.Prefix {
				lo = np.Idx
			} else {
				hi = np.IdxEnd
			}
			note(e, lo, hi)
			return lo, hi
		case *ast.BinaryExpr:
			lo, _ := walk(x.LHS)
			_, hi := walk(x.RHS)
			note(e, lo, hi)
			return lo, hi
		case *ast.TenaryExpr:
			lo, _ := walk(x.Left)
			walk(x.Mid)
			_, hi := walk(x.Right)
			note(e, lo, hi)
			return lo, hi
		case *ast.GroupExpr:
			slo, shi := walk(x.SubExpr)
			lo, hi := openerStart(slo, "("), closerEnd(shi, ")")
			note(e, lo, hi)
			return lo, hi
		case *ast.CallExpr:
			lo, chi := walk(x.Callee)
			last := chi
			for _, a := range x.Args {
				_, last = walk(a)
			}
			// after the callee comes "(", then args, then ")"
			from := last
			if len(x.Args) == 0 {
				// skip the "(" itself
				for _, t := range toks {
					if t.Idx >= chi && string(t.Kind) == "(" && !nameTok[t.Idx] {
						from = t.IdxEnd
						break
					}
				}
			}
			hi := closerEnd(from, ")")
			note(e, lo, hi)
			return lo, hi
		case *ast.SubscriptExpr:
			lo, _ := walk(x.Var)
			_, ihi := walk(x.Idx)
			hi := closerEnd(ihi, "]")
			note(e, lo, hi)
			return lo, hi
		case *ast.MemberExpr:
			lo, _ := walk(x.Obj)
			hi := x.Field.Pos.IdxEnd
			note(e, lo, hi)
			return lo, hi
		case *ast.ListExpr, *ast.MapExpr, *ast.ObjExpr:
			p := e.Position()
			var kids []ast.Expr
			closer := "]"
			switch y := e.(type) {
			case *ast.ListExpr:
				kids = y.Elems
			case *ast.MapExpr:
				for _, pr := range y.Pairs {
					kids = append(kids, pr.Key, pr.Val)
				}
			case *ast.ObjExpr:
				closer = "}"
				for _, f := range y.Fields {
					kids = append(kids, f.Val)
				}
			}
			for _, k := range kids {
				walk(k)
			}
			// literal: recorded start must be an opening bracket token and the end its matching closer
			t, ok := byStart[p.Idx]
			opener := map[string]string{"]": "[", "}": "{"}[closer]
			if !ok || string(t.Kind) != opener || closerEnd(t.IdxEnd, closer) != p.IdxEnd {
				if bad == "" {
					bad = fmt.Sprintf("%T `%s` recorded %d-%d is not its bracket pair", e, e, p.Idx, p.IdxEnd)
				}
			} else if p.Line != t.Line || p.Col != t.Col {
				if bad == "" {
					bad = fmt.Sprintf("%T line/col", e)
				}
			}
			return p.Idx, p.IdxEnd
		}
		return 0, 0
	}
	walk(e)
	return bad
}

func eraseGroups(t *Tr) *Tr {
	if t.k == "group" {
		return eraseGroups(t.sub[0])
	}
	c := &Tr{k: t.k, op: t.op, name: t.name, fn: t.fn}
	for _, s := range t.sub {
		c.sub = append(c.sub, eraseGroups(s))
	}
	return c
}

// ---- running the implementation ----
func implParseToks(tb *table, toks []*token.Token) (e ast.Expr, ok bool) {
	defer func() {
		if r := recover(); r != nil {
			e, ok = nil, false
		}
	}()
	cp := make([]*token.Token, len(toks))
	for i, t := range toks {
		c := *t
		cp[i] = &c
	}
	return parser.NewParser(append([]oper.Operator{}, tb.ops...)).Parse(cp), true
}

func implLex(tb *table, src string) (toks []*token.Token, ok bool) {
	defer func() {
		if r := recover(); r != nil {
			toks, ok = nil, false
		}
	}()
	return lexer.NewLexer(append([]oper.Operator{}, tb.ops...)).Lex(src), true
}

func kindOfSym(s string) token.Kind {
	switch {
	case s == "a" || s == "b":
		return token.SYM
	case s == "1":
		return token.NUM
	}
	return token.Kind(s)
}

func c08Judge(r *Run, tb *table, what string, toks []*token.Token, e ast.Expr) {
	tr := convTr(e)
	seq := make([]string, len(toks))
	for i, t := range toks {
		seq[i] = t.Lexeme
	}
	if !yields(tr, seq) {
		r.Violate("yields", what, fmt.Sprintf("tree %s does not yield the token string", tr))
	}
	if c := tb.wfp(0, tr); c != "" {
		r.Violate("wfp:"+c, what, fmt.Sprintf("accepted tree %s violates the declared %s", tr, c))
	}
	if b := checkSpans(e, toks); b != "" {
		r.Violate("span", what, b)
	}
}

func c08Toks(r *Run, tb *table, seq []string) {
	toks := make([]*token.Token, len(seq))
	xs := make([]Sx, len(seq))
	for i, s := range seq {
		toks[i] = &token.Token{Kind: kindOfSym(s), Lexeme: s, Pos: pos.Pos{Idx: i, IdxEnd: i + 1, Col: i}}
		xs[i] = TokSx(toks[i])
	}
	e, ok := implParseToks(tb, toks)
	req := L(A("parsetoks"), tb.sx, LS(xs))
	if !ok {
		r.Case(req, A("err"))
		r.Count("toks:reject")
		return
	}
	r.Case(req, L(A("ok"), ExprSx(e)))
	r.Count("toks:accept")
	what := fmt.Sprintf("tokens %v table=%s", seq, tb.name)
	if len(seq) > 2 {
		r.Nontrivial(what)
	}
	c08Judge(r, tb, what, toks, e)
}

func c08Src(r *Run, tb *table, src string) (ast.Expr, bool) {
	toks, ok := implLex(tb, src)
	req := L(A("parse"), tb.sx, Runes(src))
	if !ok {
		r.Case(req, A("err"))
		r.Count("src:lexerr")
		return nil, false
	}
	e, ok := implParseToks(tb, toks)
	if !ok {
		r.Case(req, A("err"))
		r.Count("src:reject")
		return nil, false
	}
	r.Case(req, L(A("ok"), ExprSx(e)))
	r.Count("src:accept")
	what := fmt.Sprintf("%q table=%s", src, tb.name)
	r.Nontrivial(what)
	c08Judge(r, tb, what, toks, e)
	return e, true
}

// ---- expression generator (source text with minimal and with redundant parentheses) ----
type exprGen struct {
	r  *Run
	tb *table
}

func (g *exprGen) tree(d int) *Tr {
	rn := g.r.Rng
	if d == 0 || rn.Intn(4) == 0 {
		return &Tr{k: "atom", name: []string{"a", "b", "x1", "1", "2.5", "\"s\"", "true", "false", "é"}[rn.Intn(9)]}
	}
	keys := func(m map[string]float64) []string {
		ks := map[string]int{}
		for k := range m {
			ks[k] = 1
		}
		return sortedKeys(ks)
	}
	switch rn.Intn(12) {
	case 0:
		if ks := keys(g.tb.prefixBP); len(ks) > 0 {
			return &Tr{k: "prefix", op: ks[rn.Intn(len(ks))], sub: []*Tr{g.tree(d - 1)}}
		}
	case 1:
		if ks := keys(g.tb.postfixBP); len(ks) > 0 {
			return &Tr{k: "post", op: ks[rn.Intn(len(ks))], sub: []*Tr{g.tree(d - 1)}}
		}
	case 2, 3, 4, 5:
		if ks := keys(g.tb.infixBP); len(ks) > 0 {
			return &Tr{k: "bin", op: ks[rn.Intn(len(ks))], sub: []*Tr{g.tree(d - 1), g.tree(d - 1)}}
		}
	case 6:
		return &Tr{k: "tern", sub: []*Tr{g.tree(d - 1), g.tree(d - 1), g.tree(d - 1)}}
	case 7:
		t := &Tr{k: "call", sub: []*Tr{g.tree(d - 1)}}
		for i := rn.Intn(3); i > 0; i-- {
			t.sub = append(t.sub, g.tree(d-1))
		}
		if rn.Intn(5) == 0 { // longer argument lists (slice capacities 4, 8, 16 in the parser)
			for i := 1 + rn.Intn(8); i > 0; i-- {
				t.sub = append(t.sub, g.tree(0))
			}
		}
		return t
	case 8:
		return &Tr{k: "member", sub: []*Tr{g.tree(d - 1)}, name: []string{"f", "g", "len"}[rn.Intn(3)]}
	case 9:
		return &Tr{k: "sub", sub: []*Tr{g.tree(d - 1), g.tree(d - 1)}}
	case 10:
		t := &Tr{k: []string{"list", "map", "obj"}[rn.Intn(3)]}
		n := rn.Intn(3)
		for i := 0; i < n; i++ {
			switch t.k {
			case "list":
				t.sub = append(t.sub, g.tree(d-1))
			case "map":
				t.sub = append(t.sub, g.tree(d-1), g.tree(d-1))
			case "obj":
				t.fn = append(t.fn, []string{"p", "q", "r"}[i])
				t.sub = append(t.sub, g.tree(d-1))
			}
		}
		return t
	}
	return &Tr{k: "atom", name: "a"}
}

// parenthesize inserts exactly the groups the table requires (minimal), or additionally redundant ones.
func (g *exprGen) fix(rbp float64, t *Tr, redundant bool) *Tr {
	c := &Tr{k: t.k, op: t.op, name: t.name, fn: t.fn}
	wrap := func(x *Tr) *Tr { return &Tr{k: "group", sub: []*Tr{x}} }
	ctx := func(level float64, x *Tr) *Tr {
		y := g.fix(level, x, redundant)
		if g.tb.wfp(level, y) != "" {
			return wrap(g.fix(0, x, redundant))
		}
		return y
	}
	switch t.k {
	case "atom":
		return c
	case "prefix":
		c.sub = []*Tr{ctx(g.tb.prefixBP[t.op], t.sub[0])}
	case "bin":
		l := ctx(rbp, t.sub[0])
		if !(g.tb.infixBP[t.op] <= g.tb.rom(l)) || (g.tb.infixFix[t.op] == fxN && l.k == "bin" && l.op == t.op) {
			l = wrap(g.fix(0, t.sub[0], redundant))
		}
		rr := ctx(g.tb.rbpOf(t.op), t.sub[1])
		if g.tb.infixFix[t.op] == fxN && rr.k == "bin" && rr.op == t.op {
			rr = wrap(g.fix(0, t.sub[1], redundant))
		}
		c.sub = []*Tr{l, rr}
	case "post":
		l := ctx(rbp, t.sub[0])
		if !(g.tb.postfixBP[t.op] <= g.tb.rom(l)) {
			l = wrap(g.fix(0, t.sub[0], redundant))
		}
		c.sub = []*Tr{l}
	case "tern":
		l := ctx(rbp, t.sub[0])
		if !(bpCond <= g.tb.rom(l)) {
			l = wrap(g.fix(0, t.sub[0], redundant))
		}
		c.sub = []*Tr{l, g.fix(0, t.sub[1], redundant), ctx(bpCond-1, t.sub[2])}
	case "call":
		f := ctx(rbp, t.sub[0])
		if !(bpCall <= g.tb.rom(f)) || endsWithMember(f) && f.k != "member" {
			f = wrap(g.fix(0, t.sub[0], redundant))
		}
		c.sub = []*Tr{f}
		for _, a := range t.sub[1:] {
			c.sub = append(c.sub, g.fix(0, a, redundant))
		}
	case "member":
		l := ctx(rbp, t.sub[0])
		if !(bpMember <= g.tb.rom(l)) {
			l = wrap(g.fix(0, t.sub[0], redundant))
		}
		c.sub = []*Tr{l}
	case "sub":
		l := ctx(rbp, t.sub[0])
		if !(bpMember <= g.tb.rom(l)) {
			l = wrap(g.fix(0, t.sub[0], redundant))
		}
		c.sub = []*Tr{l, g.fix(0, t.sub[1], redundant)}
	default:
		for _, s := range t.sub {
			c.sub = append(c.sub, g.fix(0, s, redundant))
		}
	}
	// the node itself must be attachable at this level
	if g.tb.wfp(rbp, c) != "" {
		c2 := g.fix(0, t, redundant)
		return wrap(c2)
	}
	if redundant && g.r.Rng.Intn(3) == 0 {
		return wrap(c)
	}
	return c
}

func render(t *Tr) string {
	// tokens separated by single spaces except '.' and '?' which must not touch operator characters: spaces are safe
	return strings.Join(flatten(t), " ")
}

func runC08(r *Run) {
	builtin := newTable("builtin", append([]oper.Operator{}, oper.BuiltIn()...))
	custom := newTable("custom", []oper.Operator{
		{Kind: "-", BP: 10, Fixity: oper.PREFIX},
		{Kind: "~", BP: 2.5, Fixity: oper.PREFIX},
		{Kind: "-", BP: 7, Fixity: oper.INFIX_L},
		{Kind: "*", BP: 8, Fixity: oper.INFIX_L},
		{Kind: "^", BP: 9, Fixity: oper.INFIX_R},
		{Kind: "<", BP: 6, Fixity: oper.INFIX_N},
		{Kind: "!", BP: 11, Fixity: oper.POSTFIX},
		{Kind: "@", BP: 12.5, Fixity: oper.INFIX_L},
	})
	words := newTable("words", []oper.Operator{
		{Kind: "not", BP: 10, Fixity: oper.PREFIX}, {Kind: "and", BP: 4, Fixity: oper.INFIX_L},
		{Kind: "or", BP: 3, Fixity: oper.INFIX_L}, {Kind: "is", BP: 5.5, Fixity: oper.INFIX_N},
		{Kind: "=>", BP: 2.25, Fixity: oper.INFIX_R}, {Kind: "+", BP: 7, Fixity: oper.INFIX_L},
		{Kind: "+", BP: 7, Fixity: oper.INFIX_R}, // same name, two roles registered in turn: the later wins
		{Kind: "++", BP: 11, Fixity: oper.POSTFIX}, {Kind: "$", BP: 0.5, Fixity: oper.INFIX_L}, {Kind: "%%", BP: 1, Fixity: oper.INFIX_R},
	})
	// symbolic operators of three and four characters extending shorter ones that are registered EARLIER, with
	// identifier-like operators in between: the table sort has to put every longer spelling first
	long := newTable("long", []oper.Operator{
		{Kind: "<", BP: 6, Fixity: oper.INFIX_N}, {Kind: "and", BP: 4, Fixity: oper.INFIX_L}, {Kind: "<=", BP: 6, Fixity: oper.INFIX_N},
		{Kind: "=", BP: 2, Fixity: oper.INFIX_R}, {Kind: "*", BP: 8, Fixity: oper.INFIX_L}, {Kind: "not", BP: 10, Fixity: oper.PREFIX},
		{Kind: "**", BP: 9, Fixity: oper.INFIX_R}, {Kind: "<=>", BP: 6.5, Fixity: oper.INFIX_N}, {Kind: "xor", BP: 3, Fixity: oper.INFIX_L},
		{Kind: "<==>", BP: 2.5, Fixity: oper.INFIX_N}, {Kind: "&", BP: 5, Fixity: oper.INFIX_L}, {Kind: "&&", BP: 4.5, Fixity: oper.INFIX_L},
		{Kind: "&&&", BP: 3.5, Fixity: oper.INFIX_L}, {Kind: "+", BP: 7, Fixity: oper.INFIX_L}, {Kind: "+++", BP: 7.5, Fixity: oper.INFIX_L}, {Kind: "++", BP: 11, Fixity: oper.POSTFIX},
	})
	tables := []*table{builtin, custom, words, long}

	// corpus
	for _, c := range []string{"true == false == true || false", "a < a < a ? a : a", "1 + 2 * foo(3)", "a.b(c).d[e]", "[1,2,]", "[1:2,]", "{p:1,}", "f(1,)",
		"[[[[1:1]:1]:1]:1]", "-a^b", "a ? b : c ? d : e", "(a)", "((a))", "a.1", "a . + (1)", "[]", "[:]", "{}", "f()", "a[", "a.", "1.2.3", "\"\\/\"", "1e999", "0x7fffffffffffffff", "0x8000000000000000",
		"a\n+\n b", "x.f(1)(2)", "!a.b", "- - a", "a == (b == c)", "a < b == c < d", "[a, b: c]", "[a: b, c]"} {
		c08Src(r, builtin, c)
		r.Sample(fmt.Sprintf("%q", c))
	}
	for _, c := range []string{"a < a < a", "~ a . a ( )", "a @ a . a ( )", "~ a @ a", "a ^ a ^ a", "- a !", "a ! !", "~ a ? a : a", "a @ a ( a )", "a < ( a < a )"} {
		c08Src(r, custom, c)
	}

	// exhaustive token sequences (quick: a per-seed slice of length 5; thorough: all of length <= 5, sliced 6)
	alphabet := []string{"a", "-", "~", "*", "^", "<", "!", "@", "(", ")", "?", ":", ".", "[", "]", ","}
	alpha2 := []string{"a", "<", "?", ":", "(", ")", "{", "}", ","}
	full, sliced := 4, 5
	stride := 53
	if r.Tier == "thorough" {
		full, sliced, stride = 5, 6, 11
	}
	count := 0
	var rec func(tb *table, alpha []string, seq []string, depth, maxFull int)
	rec = func(tb *table, alpha []string, seq []string, depth, maxFull int) {
		if len(seq) > 0 {
			count++
			if len(seq) <= maxFull || (count+int(r.Seed))%stride == 0 {
				c08Toks(r, tb, seq)
			}
		}
		if depth == 0 {
			return
		}
		for _, s := range alpha {
			rec(tb, alpha, append(append([]string{}, seq...), s), depth-1, maxFull)
		}
	}
	rec(custom, alphabet, nil, sliced, full)
	rec(custom, alpha2, nil, sliced+2, full+2)
	r.Notes = append(r.Notes, fmt.Sprintf("token sequences over %d kinds: all of length <= %d, 1/%d of length %d; second alphabet of %d kinds to length %d", len(alphabet), full, stride, sliced, len(alpha2), sliced+2))

	// generated trees rendered with minimal and with redundant parentheses
	n := 1500
	if r.Tier == "thorough" {
		n = 40000
	}
	for i := 0; i < n; i++ {
		tb := tables[r.Rng.Intn(len(tables))]
		g := &exprGen{r, tb}
		t := g.tree(1 + r.Rng.Intn(4))
		min := g.fix(0, t, false)
		red := g.fix(0, t, true)
		sMin, sRed := render(min), render(red)
		e1, ok1 := c08Src(r, tb, sMin)
		e2, ok2 := c08Src(r, tb, sRed)
		if i < 4 {
			r.Sample(fmt.Sprintf("%q / %q table=%s", sMin, sRed, tb.name))
		}
		if !ok1 || !ok2 {
			r.Count("gen:rejected")
			r.Violate("wfp-tree-rejected", fmt.Sprintf("%q / %q table=%s", sMin, sRed, tb.name), "a correctly parenthesised rendering was rejected")
			continue
		}
		t1, t2 := eraseGroups(convTr(e1)), eraseGroups(convTr(e2))
		want := eraseGroups(min)
		if t1.String() != want.String() {
			r.Violate("required-parens", fmt.Sprintf("%q table=%s", sMin, tb.name), fmt.Sprintf("parsed as %s, written as %s", t1, want))
		}
		if t1.String() != t2.String() {
			r.Violate("redundant-parens", fmt.Sprintf("%q vs %q table=%s", sMin, sRed, tb.name), fmt.Sprintf("%s vs %s", t1, t2))
		}
		// token-level mutation of the minimal rendering: malformed stream
		if i%3 == 0 {
			fl := flatten(min)
			k := r.Rng.Intn(len(fl))
			var mut []string
			switch r.Rng.Intn(3) {
			case 0:
				mut = append(append([]string{}, fl[:k]...), fl[k+1:]...)
			case 1:
				mut = append(append(append([]string{}, fl[:k]...), fl[k]), fl[k:]...)
			default:
				mut = append([]string{}, fl...)
				mut[k] = []string{")", "(", ",", ":", "]", "[", "?", "."}[r.Rng.Intn(8)]
			}
			c08Src(r, tb, strings.Join(mut, " "))
		}
	}
}
