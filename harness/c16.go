package main

// C16 — optional values can only be consumed through a default (null safety).
// Direct predicates: every built-in applied to an optional argument where a concrete type is required is rejected at
// compile time, as are member / subscript access on an optional; get(optional, default) yields payload or default;
// accepted programs over host data with nil pointers / slices / maps never fail because of the absence.
// Correspondence: the same programs go through the checker and evaluator models (check / evalsrc requests).

import (
	"fmt"
	"strings"
	"time"

	yae "github.com/goghcrow/yae"
	"github.com/goghcrow/yae/fun"
	"github.com/goghcrow/yae/types"
)

func init() { props["C16"] = runC16 }

func runC16(r *Run) {
	quietRun = r
	vars := stdVars
	// an expression of each concrete type and the optional variable wrapping that type
	sample := map[string]string{"num": "x", "str": "s", "bool": "b", "time": "t0"}
	optOf := map[string]string{"num": "mb", "str": "nest.mb"}
	for _, f := range fun.BuiltIn() {
		ft := FromGo(f.Type)
		params := ft.Sub[:len(ft.Sub)-1]
		for i, p := range params {
			o, ok := optOf[p.K]
			if !ok {
				continue
			}
			args := make([]string, len(params))
			good := true
			for j, q := range params {
				switch {
				case j == i:
					args[j] = o
				case q.K == "var":
					args[j] = "x"
				default:
					s, ok := sample[q.K]
					if !ok {
						good = false
					}
					args[j] = s
				}
			}
			if !good {
				continue
			}
			name := ft.Name
			var src string
			if strings.ContainsAny(name[:1], "+-*/%^<>=!&|") {
				if len(args) == 2 {
					src = "(" + args[0] + ") " + name + " (" + args[1] + ")"
				} else {
					src = name + "(" + args[0] + ")"
				}
			} else {
				src = name + "(" + strings.Join(args, ", ") + ")"
			}
			st, ok := staticType(src, vars, false)
			r.Count("optional-argument-program")
			r.Nontrivial(src)
			if ok {
				r.Violate("optional-accepted-where-payload-required", fmt.Sprintf("%q", src), fmt.Sprintf("accepted at type %s", st))
			}
			judgeBackendsQuiet(evalCase{src, false}, vars) // correspondence cases
		}
	}
	for _, src := range []string{`mb.p`, `mo.p`, `mb[0]`, `lm[0] + 1`, `nest.mb + "a"`, `mb + 1`, `-mb`, `!mb`, `if(mb, 1, 2)`, `mb ? 1 : 2`, `[1, mb]`, `[mb: 1]`, `mo.p + 1`,
		`len(mb)`, `max(mb, 1)`, `xs[mb]`, `m[nest.mb]`, `mb == 5`, `mb == mz`, `get(xs, mb, 0)`, `strtotime(nest.mb)`, `match(nest.mb, "a")`} {
		st, ok := staticType(src, vars, false)
		r.Count("optional-misuse-program")
		r.Nontrivial(src)
		r.Sample(src)
		if ok {
			r.Violate("optional-accepted-where-payload-required", fmt.Sprintf("%q", src), fmt.Sprintf("accepted at type %s", st))
		}
		judgeBackendsQuiet(evalCase{src, false}, vars)
	}
	// the eliminator
	for _, c := range [][2]string{{`get(mb, 0)`, "5"}, {`get(mz, 7)`, "7"}, {`get(mo, {p: 1}).p`, "9"}, {`get(nest.mb, "d")`, `"d"`}, {`get(lm[0], 3) + get(lm[1], 4)`, "5"},
		{`get(get([mb], 5, mz), 1)`, "1"}, {`get(if(b, mb, mz), 0) + 1`, "6"}, {`string(mz)`, `"Nothing()"`}, {`[mb, mz] == [mb, mz]`, "true"}, {`len([mz])`, "1"}} {
		outs, acc := judgeBackendsQuiet(evalCase{c[0], false}, vars)
		r.Count("eliminator-program")
		r.Nontrivial(c[0])
		if !acc {
			r.Violate("get-with-default-rejected", fmt.Sprintf("%q", c[0]), "rejected at compile time")
			continue
		}
		for i, o := range outs {
			if o.cls != "value" || o.v.String() != c[1] {
				r.Violate("get-with-default-wrong", fmt.Sprintf("%q on %s", c[0], backends[i]), fmt.Sprintf("%s, expected %s", brief(o), c[1]))
			}
		}
	}
	// host data with nil pointers / slices / maps
	type inner struct {
		P float64 `yae:"p"`
	}
	type host struct {
		Pt  *inner             `yae:"pt,maybe"`
		Np  *inner             `yae:"np,maybe"`
		Sl  []float64          `yae:"sl,maybe"`
		Nsl []float64          `yae:"nsl,maybe"`
		Mp  map[string]float64 `yae:"mp,maybe"`
		Nmp map[string]float64 `yae:"nmp,maybe"`
		X   float64            `yae:"x"`
	}
	h := host{Pt: &inner{2}, Sl: []float64{1}, Mp: map[string]float64{"a": 1}, X: 1}
	progs := []string{`get(pt, {p: 0}).p + get(np, {p: 10}).p`, `len(get(sl, [])) + len(get(nsl, [9, 9]))`, `get(get(mp, ["z": 0]), "a", 5) + get(get(nmp, ["z": 7]), "z", 5)`,
		`string(np) + string(pt)`, `[np, pt]`, `{a: nsl}.a`, `get({a: nsl}.a, [1])[0]`, `if(x > 0, get(np, {p: 1}), {p: 2}).p`, `np.p`, `nsl[0]`, `nmp["a"]`, `len(nsl)`, `np == pt`}
	n := 1
	if r.Tier == "thorough" {
		n = 20
	}
	for k := 0; k < n; k++ {
		for _, src := range progs {
			var cls, msg string
			pan, pmsg := protect(func() {
				v, err := yae.Eval(src, h)
				if err != nil {
					cls, msg = "error", err.Error()
				} else {
					cls, msg = "value", v.String()
				}
			})
			if pan {
				cls, msg = "panic", pmsg
			}
			r.Count("host-nil:" + cls)
			r.Nontrivial("host:" + src)
			if cls == "panic" || (cls == "error" && (strings.Contains(msg, "nil") || strings.Contains(msg, "invalid memory"))) {
				r.Violate("absence-causes-failure", fmt.Sprintf("%q over host data with nil parts", src), cls+": "+firstLine(msg))
			}
		}
	}
	// optional host fields of every nil-able kind, absent and present: get(field, default) is the way to consume them, it
	// works for both, and an expression compiled against one instance runs on every other instance of the same Go type
	type item struct {
		Name  string `yae:"name"`
		Score *int   `yae:"score"`
	}
	type host2 struct {
		Dl    *time.Time     `yae:"dl,maybe"`
		Tm    time.Time      `yae:"tm"`
		Pf    *float64       `yae:"pf,maybe"`
		Ps    *string        `yae:"ps,maybe"`
		Pp    **float64      `yae:"pp,maybe"`
		Ts    []*time.Time   `yae:"ts"`
		Retry int            `yae:"retry"`
		Any   map[string]int `yae:"any,maybe"`
	}
	tm := time.Unix(1577934245, 0).UTC()
	f1, s1 := 2.5, "s"
	pf1 := &f1
	full := host2{Dl: &tm, Tm: tm, Pf: &f1, Ps: &s1, Pp: &pf1, Ts: []*time.Time{&tm}, Retry: 3, Any: map[string]int{"a": 1}}
	empty := host2{Tm: tm, Ts: []*time.Time{}, Retry: 4}
	for _, c := range []struct{ src, onFull, onEmpty string }{
		{`get(dl, tm) == tm`, "true", "true"}, {`get(pf, 7)`, "2.5", "7"}, {`get(ps, "d")`, `"s"`, `"d"`}, {`get(pp, 1) + retry`, "5.5", "5"}, {`get(get(any, ["z": 9]), "a", 0)`, "1", "0"},
		{`len(ts) + retry`, "4", "4"}, {`get(pf, 0) + get(pf, 0)`, "5", "0"}, {`retry`, "3", "4"}, {`string(get(dl, tm)) == string(tm)`, "true", "true"},
	} {
		for _, comp := range []host2{full, empty} {
			for _, run := range []host2{full, empty} {
				want := c.onFull
				if run.Dl == nil {
					want = c.onEmpty
				}
				var got string
				pan, pmsg := protect(func() {
					cl, err := yae.NewExpr().Compile(c.src, comp)
					if err != nil {
						got = "compile-error: " + firstLine(err.Error())
						return
					}
					v, err := cl(run)
					if err != nil {
						got = "error: " + firstLine(err.Error())
						return
					}
					got = v.String()
				})
				if pan {
					got = "panic: " + firstLine(pmsg)
				}
				r.Count("host-optional programs")
				r.Nontrivial("host2:" + c.src)
				if got != want {
					r.Violate("optional-host-field-not-consumable", fmt.Sprintf("%q compiled against the %s instance, run on the %s instance", c.src, map[bool]string{true: "empty", false: "full"}[comp.Dl == nil], map[bool]string{true: "empty", false: "full"}[run.Dl == nil]),
						fmt.Sprintf("got %s, expected %s", got, want))
				}
			}
		}
	}
	// a list whose elements disagree about an UNTAGGED nil-able field: the data is inconsistent (C15 says it must be
	// refused); whatever conversion does, an absent score must never be consumed by arithmetic without get
	sc := func(i int) *int { return &i }
	for _, items := range [][]item{{{"a", sc(90)}, {"b", nil}, {"c", sc(70)}}, {{"a", nil}, {"b", sc(1)}}, {{"a", sc(1)}, {"b", sc(2)}}} {
		hv := map[string]interface{}{"items": items}
		for idx := range items {
			src := fmt.Sprintf("items[%d].score + 1", idx)
			var got string
			protect(func() {
				v, err := yae.Eval(src, hv)
				if err != nil {
					got = "error"
				} else {
					got = "value " + v.String()
				}
			})
			r.Count("host-mixed-nil programs")
			if items[idx].Score == nil && strings.HasPrefix(got, "value") {
				r.Violate("absent-optional-consumed-without-get", fmt.Sprintf("%q over items=%v", src, len(items)), "an absent score took part in arithmetic: "+got)
			}
		}
	}
	// the same through a MAP of structs; the entry that types the map depends on Go's map iteration order, so repeat
	for rep := 0; rep < 40; rep++ {
		stock := map[string]item{}
		stock["a"] = item{"a", sc(5)}
		stock["b"] = item{"b", nil}
		stock["c"] = item{"c", sc(7)}
		hv := map[string]interface{}{"stock": stock}
		for _, src := range []string{`stock["b"].score + 1`, `stock["b"].score == 0`, `stock["b"].score > stock["c"].score`, `max(stock["b"].score, 5)`} {
			var got string
			protect(func() {
				v, err := yae.Eval(src, hv)
				if err != nil {
					got = "error"
				} else {
					got = "value " + v.String()
				}
			})
			r.Count("host-mixed-nil programs")
			if strings.HasPrefix(got, "value") {
				r.Violate("absent-optional-consumed-without-get", fmt.Sprintf("%q over a map of structs with scores set / nil / set", src), "an absent score took part in a computation: "+got)
			}
		}
	}
	// an optional hidden inside a MAP's value type: maps that disagree about it meet in a list, or at compile / run time
	{
		uni := func(p *int) map[string]item { return map[string]item{"a": {"a", p}} }
		for _, c := range []struct {
			hv  interface{}
			src string
		}{
			{map[string]interface{}{"ms": []map[string]item{uni(sc(7)), uni(nil)}}, `ms[1]["a"].score + 1`},
			{map[string]interface{}{"ms": []map[string]item{uni(nil), uni(sc(7))}}, `ms[0]["a"].score * 2`},
			{map[string]interface{}{"mm": map[string]map[string]item{"x": uni(sc(1)), "y": uni(nil)}}, `mm["y"]["a"].score + 1`},
		} {
			for rep := 0; rep < 10; rep++ {
				var got string
				protect(func() {
					v, err := yae.Eval(c.src, c.hv)
					if err != nil {
						got = "error"
					} else {
						got = "value " + v.String()
					}
				})
				r.Count("host-mixed-nil programs")
				if strings.HasPrefix(got, "value") {
					r.Violate("absent-optional-consumed-without-get", fmt.Sprintf("%q over maps of structs that disagree about an absent score", c.src), "an absent score took part in a computation: "+got)
					break
				}
			}
		}
		// compiled against a value with the score set, run on a value of the same Go type with the score absent
		type shelf struct {
			Stock map[string]item `yae:"stock"`
		}
		full2, hole := shelf{uni(sc(7))}, shelf{uni(nil)}
		for _, src := range []string{`stock["a"].score + 1`, `stock["a"].score == 0`} {
			var got string
			protect(func() {
				cl, err := yae.NewExpr().Compile(src, full2)
				if err != nil {
					got = "compile-error"
					return
				}
				v, err := cl(hole)
				if err != nil {
					got = "error"
				} else {
					got = "value " + v.String()
				}
			})
			r.Count("host-mixed-nil programs")
			if strings.HasPrefix(got, "value") {
				r.Violate("absent-optional-consumed-without-get", fmt.Sprintf("%q compiled against a shelf with the score set, run on one with the score absent", src), got)
			}
		}
	}
	_ = types.Num
}
