package main

// C16 — optional values can only be consumed through a default (null safety).
// Direct predicates: every built-in applied to an optional argument where a concrete type is required is rejected at
// compile time, as are member / subscript access on an optional; get(optional, default) yields payload or default;
// accepted programs over host data with nil pointers / slices / maps never fail because of the absence.
// Correspondence: the same programs go through the checker and evaluator models (check / evalsrc requests).

import (
	"fmt"
	"strings"

	yae "github.com/goghcrow/yae"
	"github.com/goghcrow/yae/fun"
	"github.com/goghcrow/yae/types"
)

func init() { props["C16"] = runC16 }

func runC16(r *Run) {
	quietRun = r
	vars := stdVars
	// an expression of each concrete type and the optional variable wrapping that type
	sample := map[string]string{"num": "x", "str": "s", "bool": "b", "time": "t0"}
	optOf := map[string]string{"num": "mb", "str": "nest.mb"}
	for _, f := range fun.BuiltIn() {
		ft := FromGo(f.Type)
		params := ft.Sub[:len(ft.Sub)-1]
		for i, p := range params {
			o, ok := optOf[p.K]
			if !ok {
				continue
			}
			args := make([]string, len(params))
			good := true
			for j, q := range params {
				switch {
				case j == i:
					args[j] = o
				case q.K == "var":
					args[j] = "x"
				default:
					s, ok := sample[q.K]
					if !ok {
						good = false
					}
					args[j] = s
				}
			}
			if !good {
				continue
			}
			name := ft.Name
			var src string
			if strings.ContainsAny(name[:1], "+-*/%^<>=!&|") {
				if len(args) == 2 {
					src = "(" + args[0] + ") " + name + " (" + args[1] + ")"
				} else {
					src = name + "(" + args[0] + ")"
				}
			} else {
				src = name + "(" + strings.Join(args, ", ") + ")"
			}
			st, ok := staticType(src, vars, false)
			r.Count("optional-argument-program")
			r.Nontrivial(src)
			if ok {
				r.Violate("optional-accepted-where-payload-required", fmt.Sprintf("%q", src), fmt.Sprintf("accepted at type %s", st))
			}
			judgeBackendsQuiet(evalCase{src, false}, vars) // correspondence cases
		}
	}
	for _, src := range []string{`mb.p`, `mo.p`, `mb[0]`, `lm[0] + 1`, `nest.mb + "a"`, `mb + 1`, `-mb`, `!mb`, `if(mb, 1, 2)`, `mb ? 1 : 2`, `[1, mb]`, `[mb: 1]`, `mo.p + 1`,
		`len(mb)`, `max(mb, 1)`, `xs[mb]`, `m[nest.mb]`, `mb == 5`, `mb == mz`, `get(xs, mb, 0)`, `strtotime(nest.mb)`, `match(nest.mb, "a")`} {
		st, ok := staticType(src, vars, false)
		r.Count("optional-misuse-program")
		r.Nontrivial(src)
		r.Sample(src)
		if ok {
			r.Violate("optional-accepted-where-payload-required", fmt.Sprintf("%q", src), fmt.Sprintf("accepted at type %s", st))
		}
		judgeBackendsQuiet(evalCase{src, false}, vars)
	}
	// the eliminator
	for _, c := range [][2]string{{`get(mb, 0)`, "5"}, {`get(mz, 7)`, "7"}, {`get(mo, {p: 1}).p`, "9"}, {`get(nest.mb, "d")`, `"d"`}, {`get(lm[0], 3) + get(lm[1], 4)`, "5"},
		{`get(get([mb], 5, mz), 1)`, "1"}, {`get(if(b, mb, mz), 0) + 1`, "6"}, {`string(mz)`, `"Nothing()"`}, {`[mb, mz] == [mb, mz]`, "true"}, {`len([mz])`, "1"}} {
		outs, acc := judgeBackendsQuiet(evalCase{c[0], false}, vars)
		r.Count("eliminator-program")
		r.Nontrivial(c[0])
		if !acc {
			r.Violate("get-with-default-rejected", fmt.Sprintf("%q", c[0]), "rejected at compile time")
			continue
		}
		for i, o := range outs {
			if o.cls != "value" || o.v.String() != c[1] {
				r.Violate("get-with-default-wrong", fmt.Sprintf("%q on %s", c[0], backends[i]), fmt.Sprintf("%s, expected %s", brief(o), c[1]))
			}
		}
	}
	// host data with nil pointers / slices / maps
	type inner struct {
		P float64 `yae:"p"`
	}
	type host struct {
		Pt  *inner             `yae:"pt,maybe"`
		Np  *inner             `yae:"np,maybe"`
		Sl  []float64          `yae:"sl,maybe"`
		Nsl []float64          `yae:"nsl,maybe"`
		Mp  map[string]float64 `yae:"mp,maybe"`
		Nmp map[string]float64 `yae:"nmp,maybe"`
		X   float64            `yae:"x"`
	}
	h := host{Pt: &inner{2}, Sl: []float64{1}, Mp: map[string]float64{"a": 1}, X: 1}
	progs := []string{`get(pt, {p: 0}).p + get(np, {p: 10}).p`, `len(get(sl, [])) + len(get(nsl, [9, 9]))`, `get(get(mp, ["z": 0]), "a", 5) + get(get(nmp, ["z": 7]), "z", 5)`,
		`string(np) + string(pt)`, `[np, pt]`, `{a: nsl}.a`, `get({a: nsl}.a, [1])[0]`, `if(x > 0, get(np, {p: 1}), {p: 2}).p`, `np.p`, `nsl[0]`, `nmp["a"]`, `len(nsl)`, `np == pt`}
	n := 1
	if r.Tier == "thorough" {
		n = 20
	}
	for k := 0; k < n; k++ {
		for _, src := range progs {
			var cls, msg string
			pan, pmsg := protect(func() {
				v, err := yae.Eval(src, h)
				if err != nil {
					cls, msg = "error", err.Error()
				} else {
					cls, msg = "value", v.String()
				}
			})
			if pan {
				cls, msg = "panic", pmsg
			}
			r.Count("host-nil:" + cls)
			r.Nontrivial("host:" + src)
			if cls == "panic" || (cls == "error" && (strings.Contains(msg, "nil") || strings.Contains(msg, "invalid memory"))) {
				r.Violate("absence-causes-failure", fmt.Sprintf("%q over host data with nil parts", src), cls+": "+firstLine(msg))
			}
		}
	}
	_ = types.Num
}
