package main

// C03 — all execution back ends are observationally equivalent (also carries the direct predicates of C01, C02, C06,
// which are evaluated on the same runs: see c01.go).

import (
	"fmt"
	yae "github.com/goghcrow/yae"
	"github.com/goghcrow/yae/val"
	"strings"
	"time"

	"github.com/goghcrow/yae/types"
)

func init() { props["C03"] = runC03 }

type evalCase struct {
	src     string
	withFns bool
}

// judgeBackends runs one program on the four back ends and applies the property's predicate:
// equal values or all fail alike, same host-call trace; the VM may refuse at compile time for capacity.
func judgeBackends(r *Run, c evalCase, vars []envVar) (outs []outcome, accepted bool) {
	return judgeBackendsWith(r, c, vars, stdValues())
}

func judgeBackendsWith(r *Run, c evalCase, vars []envVar, vals map[string]*val.Val) (outs []outcome, accepted bool) {
	outs = make([]outcome, len(backends))
	for i, b := range backends {
		outs[i] = runOn(b, c.src, vars, vals, c.withFns)
	}
	emitEvalCases(r, c, vars, vals, outs)
	ref := outs[0]
	if ref.cls == "compile-error" || ref.cls == "compile-panic" {
		r.Count("prog:" + ref.cls)
		for i, o := range outs {
			if o.cls != ref.cls {
				r.Violate("backend-accept-differs", fmt.Sprintf("%q", c.src), fmt.Sprintf("%s: %s, %s: %s", backends[0], ref.cls, backends[i], o.cls))
			}
		}
		return outs, false
	}
	r.Count("prog:" + ref.cls)
	for i, o := range outs[1:] {
		if o.cls == "refused:overflow" {
			r.Count("vm-refused")
			continue
		}
		if !obsEqual(ref, o) {
			r.Violate(c03Class(c.src, ref, o, backends[i+1]), fmt.Sprintf("%q", c.src),
				fmt.Sprintf("%s: %s  vs  %s: %s", backends[0], brief(ref), backends[i+1], brief(o)))
		}
	}
	return outs, true
}

func brief(o outcome) string {
	s := string(o.Sx())
	if len(s) > 300 {
		s = s[:300] + "..."
	}
	if o.msg != "" {
		s += " [" + firstLine(o.msg) + "]"
	}
	return s
}

func c03Class(src string, a, b outcome, bk string) string {
	switch {
	case b.cls == "fault:limit":
		return "callthread-exec-limit"
	case b.cls == "fault:nil" && bk != "closure":
		return "vm-" + b.cls
	}
	return "backends-differ"
}

func runC03(r *Run) {
	vars := stdVars
	_ = types.Num
	corpus := []evalCase{
		{`["a":1,"a":2]["a"]`, false}, {`[1:"x", 1:"y"][1]`, false}, {`[{a:1,b:"x"},{b:"y",a:2}][1].a`, false}, {`[o2, o][0].p`, false}, {`[o, o2][1].p + 1`, false},
		{`get([1,2],-1,0)`, false}, {`[1,2][5]`, false}, {`[1,2][-1]`, false}, {`5 % 0`, false}, {`5 % 0.5`, false}, {`match("[", "a")`, false}, {`m["nope"]`, false},
		{`if(isset(m,"zz"), m["zz"], 0)`, false}, {`b || m["zz"] > 0`, false}, {`f && [1][3] > 0`, false}, {`union([1,2,2],[2,3])`, false}, {`string(["a":1,"b":2,"c":3,"d":4])`, false},
		{`[xs, xs]`, false}, {`{c:1,a:2,b:3}`, false}, {`10000000000000000000 == 2e19`, false}, {`[10000000000000000000: 1, 2e19: 2]`, false}, {`lazyif(b, tr(1), tr(2))`, true},
		{`both(trb(f), trb(b))`, true}, {`lazyif(trb(b), lazyif(trb(f), tr(1), tr(2)), tr(3))`, true}, {`[tr(1), tr(2)][tr(0)]`, true}, {`{p: tr(1), q: trs("a")}.p`, true},
		{`[trs("k"): tr(1), trs("j"): tr(2)]`, true}, {`boom(1) + tr(2)`, true}, {`tr(1) + boom(2)`, true}, {`if(b, 1, boom(2))`, true}, {`ident(ident(o2)).p`, true}, {`area({h: 2, w: 3})`, true},
		{`pick([], 1)`, true}, {`max([]) + min([])`, false}, {`len("héllo") + len(xs) + len(m)`, false}, {`get(mb, 0) + get(mz, 7)`, false}, {`-0 == 0`, false}, {`0.1 + 0.2 == 0.3`, false},
		{`lazyif(b, lazyif(b, tr(x), tr(y)), tr(3)) + 100`, true}, {`[lazyif(b, lazyif(b, tr(10), tr(20)), tr(30)), tr(7)]`, true}, {`lazyif(b, lazyif(b, x, y) + 1, 3) + 100`, true},
		{`lazyif(b, lazyif(f, tr(x), tr(y)) * 2, tr(3)) - 50`, true}, {`both(both(trb(b), trb(b)), trb(f)) || trb(b)`, true}, {`if(both(b, both(b, trb(b))), tr(1), tr(2)) + tr(3)`, true},
		{`lazyif(both(b, b), lazyif(both(b, f), 1, 2), 3) * 10 + lazyif(f, 1, lazyif(b, 5, 6))`, true}, {`[tr(1), tr(2)][tr(3) - 3]`, true}, {`[[1]][3][[2][7]]`, false},
		{`[0, 0.0000000005]`, false}, {`(1.0000000001 - 1) * 1000000000000`, false}, {`["a": 0.5, "b": 0.5000000002]`, false}, {`string(2.0000000004) + "/" + string(2)`, false},
		{`1 > 2 || (0 + 3e-10) * 1e10 > 1`, false}, {`if(x < 1, 2.5000000001, 2.5) * 4`, false}, {`max(0, 1e-300) * 1e300`, false}, {`[1, 1.0000000001, 1]`, false}, {`(x - x) + 1e-10 * 1e10 + 0`, false},
		{`0.30000000000000004 - 0.3`, false}, {`[0.1 + 0.2, 0.3, 0.30000000000000004]`, false}, {`{a: 1, b: 1.0000000002}.b * 1e10`, false}, {`"a" + "a" + string(1) + string(1.0000000001)`, false},
		{`y - floor(y)`, false}, {`abs(y) + y`, false}, {`round(y) + y`, false}, {`[y, ceil(y), y]`, false}, {`abs(o.p - 10) + o.p`, false}, {`ceil(y) - y + floor(y)`, false},
		{`lazyif(b, tr(1) + lazyif(b, tr(2), tr(3)), tr(4))`, true}, {`lazyif(b, [tr(1), lazyif(b, tr(2), tr(9)), tr(3)], [])`, true}, {`both(b, f == both(b, f))`, true},
		{`lazyif(b, inc(lazyif(f, 1, 2)) + lazyif(b, 3, 4), 0) * 2`, true}, {`tr(1) + lazyif(b, tr(2) + lazyif(b, tr(3) + lazyif(b, tr(4), 0), 0), 0)`, true},
		{`1e-10 == 0`, false}, {`2 ^ 0.5`, false}, {`round(-2.5)`, false}, {`t0 - t1`, false}, {`t0 == strtotime("2020-01-02 03:04:05")`, false}, {`'2020-01-02 03:04:05' == t0`, false},
	}
	for _, c := range corpus {
		judgeBackends(r, c, vars)
		r.Sample(c.src)
	}
	// host times denoting the same instants in other locations (time.Time carries a location and possibly a monotonic
	// reading; == on the struct is not equality of instants). Only comparisons: renderings of such values are outside the
	// model (DESIGN.md section 8).
	{
		zvars := append(append([]envVar{}, vars...), envVar{"tz0", ttime()}, envVar{"tz1", ttime()})
		zvals := stdValues()
		zvals["tz0"] = val.Time(t0v.In(time.FixedZone("X", 3600)))
		zvals["tz1"] = val.Time(t1v.UTC())
		names := []string{"t0", "tz0", "t1", "tz1"}
		for _, a := range names {
			for _, b := range names {
				for _, op := range []string{"==", "!=", "<", "<=", ">", ">="} {
					for _, tpl := range []string{"%s %s %s", "if(%s %s %s, 1, 2)", "(%s %s %s) || f"} {
						judgeBackendsWith(r, evalCase{fmt.Sprintf(tpl, a, op, b), false}, zvars, zvals)
					}
				}
				for _, tpl := range []string{"[%s] == [%s]", "[%s] != [%s]", `["k": %s] == ["k": %s]`, "get([%s], 0, %s) == t0", "{a: %s} == {a: %s}", "get(mz, 1) + if(%s == %s, 1, 2)"} {
					judgeBackendsWith(r, evalCase{fmt.Sprintf(tpl, a, b), false}, zvars, zvals)
				}
				r.Count("host-times-other-zone pairs")
			}
		}
	}
	judgeReinvocations(r, vars)
	judgeDynamicCalls(r)
	judgeLazyLibrary(r)
	// short-circuit forms with literal operands next to tracing and failing calls (peephole territory)
	for _, l := range []string{`tr(1) > 0`, `trb(b)`, `m["zz"] > 0`, `boom(1) > 0`, `[trb(f)][0]`} {
		for _, tpl := range []string{"%s && false", "%s && true", "%s || true", "%s || false", "false && %s", "true || %s", "if(%s, true, true)", "if(%s, false, false)", "if(%s, 1, 1)",
			"[tr(1), if(%s, false, false), tr(3)]", "!(%s)", "!(%s) && false", "(%s) == true", "if(true, %s, false)", "not(%s) or true",
			"if(!!(%s), tr(1), tr(2))", "!!(%s) && tr(5) > 0", "!!(%s) || tr(5) > 0", "!!!(%s) ? tr(1) : tr(2)", "if(!(!(%s)), tr(1), tr(2))", "if(!(%s), tr(1), tr(2))", "!!!!(%s) && trb(b)",
			"if(!!(%s), 1, boom(2))", "!(%s) || !!(%s)", "!(!(%s) && !(%s))",
			"%s && f", "%s || b", "%s && b", "%s || f", "[tr(7), %s && f, tr(8)]", "if(%s || b, tr(1), tr(2))", "(%s && f) || (%s || b)", "%s && o.p > 100", "%s || xs[0] > 0",
			"!(%s || !(%s))", "!(%s && !(%s))", "!if(%s, b, !b)", "!if(%s, !b, !f)", "if(!(%s || !b), tr(1), tr(2))", "[!(%s || !b), b] == [f, b]", "!(!(%s) || !(%s)) && !(b && !f)"} {
			n := strings.Count(tpl, "%s")
			args := make([]interface{}, n)
			for i := range args {
				args[i] = l
			}
			judgeBackends(r, evalCase{fmt.Sprintf(tpl, args...), true}, vars)
		}
	}
	{
		var ks []int
		for k := 0; k <= 44; k++ {
			ks = append(ks, k)
		}
		ks = append(ks, 84, 85, 86, 127, 128, 170, 255, 256, 257)
		for _, src := range poolSweep(ks, sweepTails[:10]) {
			judgeBackends(r, evalCase{src, false}, vars)
			r.Count("pool-sweep programs")
		}
	}
	n := 1200
	if r.Tier == "thorough" {
		n = 60000
	}
	for i := 0; i < n; i++ {
		g := &progGen{r: r, vars: vars, fns: stdFns, useFns: r.Rng.Intn(2) == 0, trace: r.Rng.Intn(3) == 0}
		src := g.Gen(g.randType(1), 1+r.Rng.Intn(4))
		_, acc := judgeBackends(r, evalCase{src, g.useFns}, vars)
		if acc {
			r.Nontrivial(src)
			if i%2 == 0 {
				reinvokeGenerated(r, evalCase{src, g.useFns}, vars)
			}
		}
		if i < 3 {
			r.Sample(src)
		}
	}
}

// reinvokeGenerated: a generated program compiled ONCE per back end and invoked on three environments in turn (the
// standard one, another one, the standard one again): every invocation must equal a fresh compilation run on that
// environment. Catches state kept in a Callable between invocations (caches, pooled buffers, memoised thunks) for
// program shapes nobody thought of listing.
var altVals map[string]*val.Val

func reinvokeGenerated(r *Run, c evalCase, vars []envVar) {
	if altVals == nil {
		altVals = stdValues()
		altVals["x"], altVals["y"], altVals["z"], altVals["b"], altVals["f"], altVals["s"], altVals["e"] = val.Num(-4), val.Num(0.5), val.Num(2), val.False, val.True, val.Str("zz"), val.Str("q")
		altVals["xs"] = mkList(types.Num, val.Num(5), val.Num(-1.5))
		altVals["ss"] = mkList(types.Str, val.Str("z"))
		altVals["m"] = mkMap(types.Str, types.Num, val.Str("k"), val.Num(9), val.Str("zz"), val.Num(1))
		altVals["mb"], altVals["mz"] = val.Nothing(types.Num), val.Just(types.Num, val.Num(8))
	}
	seq := []map[string]*val.Val{stdValues(), altVals, stdValues()}
	for _, be := range backends {
		tl := &traceLog{}
		var cl yae.Callable
		var cerr error
		if pan, _ := protect(func() { cl, cerr = newExpr(be, tl, c.withFns).Compile(c.src, typeEnvOf(vars)) }); pan || cerr != nil {
			continue
		}
		for k, vals := range seq {
			var got outcome
			tl.ev = nil
			var v *val.Val
			var err error
			mark(fmt.Sprintf("invocation #%d of one Callable for generated %q on back end %s", k+1, c.src, be))
			pan, msg := protect(func() { v, err = cl(valEnvOf(vals)) })
			got.trace = tl.ev
			switch {
			case pan:
				got.cls = classify(msg)
			case err != nil:
				got.cls = classify(err.Error())
			default:
				got.cls, got.v = "value", v
			}
			want := runOn(be, c.src, vars, vals, c.withFns)
			r.Count("re-invocation cases (generated programs)")
			if !obsEqual(got, want) {
				r.Violate("reinvocation-differs-from-fresh-compilation", fmt.Sprintf("%q on %s, invocation #%d of one Callable", c.src, be, k+1), fmt.Sprintf("got %s, a fresh compilation gives %s", brief(got), brief(want)))
				return
			}
		}
	}
}

// judgeDynamicCalls: function VALUES bound in the environment, called through list / map / conditional selection; one
// compiled expression per back end is invoked on a sequence of environments that select different callees. Direct
// predicate only (function-typed variables are outside the model's environments): every invocation equals a fresh
// compilation on that environment, and all back ends agree.
func judgeDynamicCalls(r *Run) {
	ft := types.Fun("f", []*types.Type{types.Num}, types.Num)
	mkEnvs := func(tl *traceLog, b bool, x float64, k string) (*types.Env, *val.Env) {
		te, ve := types.NewEnv(), val.NewEnv()
		te.Put("fi", ft)
		te.Put("fd", ft)
		te.Put("b", types.Bool)
		te.Put("x", types.Num)
		te.Put("k", types.Str)
		ve.Put("fi", val.Fun(ft, func(a ...*val.Val) *val.Val { tl.add("fi", a...); return val.Num(a[0].Num().V + 1) }))
		ve.Put("fd", val.Fun(ft, func(a ...*val.Val) *val.Val { tl.add("fd", a...); return val.Num(a[0].Num().V - 1) }))
		ve.Put("b", val.Bool(b))
		ve.Put("x", val.Num(x))
		ve.Put("k", val.Str(k))
		return te, ve
	}
	type inp struct {
		b bool
		x float64
		k string
	}
	seq := []inp{{true, 10, "a"}, {false, 10, "b"}, {true, 3, "a"}, {false, 3, "b"}}
	obs := func(tl *traceLog, cl yae.Callable, ve *val.Env) string {
		tl.ev = nil
		var v *val.Val
		var err error
		pan, msg := protect(func() { v, err = cl(ve) })
		switch {
		case pan:
			return "panic " + classify(msg)
		case err != nil:
			return "error " + classify(err.Error())
		}
		return string(L(ValSx(v), LS(tl.ev)))
	}
	for _, src := range []string{`[fi, fd][if(b, 0, 1)](x)`, `if(b, fi, fd)(x) + 1`, `["a": fi, "b": fd][k](x)`, `[fi, fd][if(b, 0, 1)](x) + [fi, fd][if(b, 1, 0)](x) * 100`, `fi(fd(x))`, `[fd][0](fi(x))`} {
		var first []string
		for bi, be := range backends {
			tl := &traceLog{}
			te, _ := mkEnvs(tl, true, 0, "a")
			var cl yae.Callable
			var cerr error
			if pan, _ := protect(func() { cl, cerr = newExpr(be, tl, false).Compile(src, te) }); pan || cerr != nil {
				r.Count("dynamic-call:not-compiled")
				continue
			}
			var got []string
			for k, in := range seq {
				_, ve := mkEnvs(tl, in.b, in.x, in.k)
				mark(fmt.Sprintf("dynamic call %q on %s, invocation #%d", src, be, k+1))
				g := obs(tl, cl, ve)
				got = append(got, g)
				tl2 := &traceLog{}
				te2, ve2 := mkEnvs(tl2, in.b, in.x, in.k)
				var cl2 yae.Callable
				protect(func() { cl2, _ = newExpr(be, tl2, false).Compile(src, te2) })
				if cl2 != nil {
					if w := obs(tl2, cl2, ve2); w != g {
						r.Violate("reinvocation-differs-from-fresh-compilation", fmt.Sprintf("%q on %s, invocation #%d of one Callable (function values in the environment)", src, be, k+1), fmt.Sprintf("got %s, a fresh compilation gives %s", g, w))
					}
				}
				r.Count("dynamic-call invocations")
			}
			if bi == 0 {
				first = got
			} else if first != nil && strings.Join(first, "|") != strings.Join(got, "|") {
				r.Violate("backends-differ", fmt.Sprintf("%q (function values in the environment)", src), fmt.Sprintf("%s: %v vs %s: %v", backends[0], first, be, got))
			}
		}
	}
}

// judgeReinvocations: one compiled expression per back end invoked on a sequence of environments: every invocation
// must give what a fresh compilation gives on that environment (value, failure class, host-call trace), on every back
// end — thunk bodies, constant pools and VM state are shared by the invocations of one Callable.
func judgeReinvocations(r *Run, vars []envVar) {
	alt := stdValues()
	alt["x"], alt["y"], alt["b"], alt["f"], alt["s"] = val.Num(-4), val.Num(0.5), val.False, val.True, val.Str("zz")
	seq := []map[string]*val.Val{stdValues(), alt, stdValues(), alt}
	for _, src := range []string{`lazyif(b, x, y) + 1`, `lazyif(x > 0, s, e)`, `both(b, x > 0)`, `lazyif(b, tr(x), tr(y))`, `lazyif(f, 1, lazyif(b, x, y))`, `[lazyif(b, s, e), trs(s)]`,
		`lazyif(b, lazyif(b, tr(x), tr(y)), tr(3)) + 100`, `if(b, x, y) + tr(x)`, `b && x > 0 || tr(y) > 0`, `x + y * 2`, `[x: s, y: e]`, `abs(y) + y`, `y - floor(y)`, `{p: x, q: s}.p + o.p`,
		`ident(x) + inc(y)`, `pick([x], s)`, `get(mb, x) + len(xs)`} {
		for bi, be := range backends {
			tl := &traceLog{}
			var cl yae.Callable
			var cerr error
			if pan, _ := protect(func() { cl, cerr = newExpr(be, tl, true).Compile(src, typeEnvOf(vars)) }); pan || cerr != nil {
				continue
			}
			for k, vals := range seq {
				var got outcome
				tl.ev = nil
				var v *val.Val
				var err error
				mark(fmt.Sprintf("invocation #%d of one Callable for %q on back end %s", k+1, src, be))
				pan, msg := protect(func() { v, err = cl(valEnvOf(vals)) })
				got.trace = tl.ev
				switch {
				case pan:
					got.cls = classify(msg)
				case err != nil:
					got.cls = classify(err.Error())
				default:
					got.cls, got.v = "value", v
				}
				want := runOn(be, src, vars, vals, true)
				r.Count("re-invocation cases")
				if !obsEqual(got, want) {
					r.Violate("reinvocation-differs-from-fresh-compilation", fmt.Sprintf("%q on %s, invocation #%d of one Callable", src, be, k+1), fmt.Sprintf("got %s, a fresh compilation gives %s", brief(got), brief(want)))
				}
				if bi == 0 || bi == 2 {
					tag := map[string]string{"closure": "evalsrc", "vm-switch": "vmsrc"}[be]
					hs := historyFor(true)
					r.Case(L(A(tag), hs.Sx(), tenvSx(vars), venvSx(vars, vals), oraclesSx(src, vals), Runes(src)), got.Sx())
				}
			}
		}
	}
}

// judgeLazyLibrary: user-registered LAZY functions that force their arguments zero, one or several times and in an
// order other than the written one, with traced and stateful host functions inside the arguments. Direct predicate only
// (these functions are outside the model's fixed library): every back end must return the same value / failure and
// invoke the host functions with the same arguments in the same order — an argument forced twice is evaluated twice
// everywhere (no back end caches thunks).
func judgeLazyLibrary(r *Run) {
	num, boolT := types.Num, types.Bool
	reg := func(e *yae.Expr, tl *traceLog, ctr *float64) {
		lazy := func(name string, ps []*types.Type, ret *types.Type, f val.IFun) {
			e.RegisterFun(val.LazyFun(types.Fun(name, ps, ret), f))
		}
		force := func(v *val.Val) *val.Val { return v.Fun().Call() }
		lazy("nz", []*types.Type{num, num}, num, func(a ...*val.Val) *val.Val {
			tl.add("nz")
			if force(a[0]).Num().V != 0 {
				return force(a[0])
			}
			return force(a[1])
		})
		lazy("dbl", []*types.Type{num}, num, func(a ...*val.Val) *val.Val {
			tl.add("dbl")
			return val.Num(force(a[0]).Num().V + force(a[0]).Num().V)
		})
		lazy("rev", []*types.Type{num, num}, num, func(a ...*val.Val) *val.Val {
			tl.add("rev")
			y := force(a[1]).Num().V
			x := force(a[0]).Num().V
			return val.Num(x*10 + y)
		})
		lazy("thrice", []*types.Type{boolT, num}, num, func(a ...*val.Val) *val.Val {
			tl.add("thrice")
			s := 0.0
			for i := 0; i < 3 && force(a[0]).Bool().V; i++ {
				s += force(a[1]).Num().V
			}
			return val.Num(s)
		})
		lazy("never", []*types.Type{num, num}, num, func(a ...*val.Val) *val.Val { tl.add("never"); return force(a[1]) })
		e.RegisterFun(val.Fun(types.Fun("next", []*types.Type{}, num), func(a ...*val.Val) *val.Val {
			*ctr++
			tl.add("next", val.Num(*ctr))
			return val.Num(*ctr)
		}))
	}
	srcs := []string{`nz(tr(x), tr(y))`, `nz(tr(0), tr(y))`, `dbl(tr(x))`, `dbl(next())`, `nz(next(), 7) + next()`, `rev(tr(1), tr(2))`, `rev(next(), next())`,
		`thrice(trb(b), tr(x))`, `thrice(b, next())`, `never(tr(1), tr(2))`, `never(boom(1), tr(2))`, `dbl(dbl(tr(x)))`, `dbl(nz(tr(x), tr(y)))`, `nz(dbl(next()), 0) * 100 + next()`,
		`dbl(lazyif(trb(b), tr(1), tr(2)))`, `lazyif(trb(b), dbl(tr(x)), tr(y))`, `dbl(if(b, next(), 0))`, `dbl(b && trb(b) ? tr(x) : tr(y))`, `[dbl(next()), next(), dbl(next())]`,
		`rev(dbl(next()), dbl(next()))`, `thrice(next() < 3, next())`, `dbl(xs[tr(0)])`, `dbl(xs[tr(9)])`, `nz(tr(x), boom(1))`, `dbl(tr(x)) == dbl(tr(x))`, `{p: dbl(next()), q: next()}.q`}
	for _, src := range srcs {
		var first string
		for bi, be := range backends {
			tl := &traceLog{}
			ctr := 0.0
			e := newExpr(be, tl, true)
			reg(e, tl, &ctr)
			var cl yae.Callable
			var cerr error
			if pan, _ := protect(func() { cl, cerr = e.Compile(src, typeEnvOf(stdVars)) }); pan || cerr != nil {
				r.Count("lazy-library:not-compiled")
				if bi == 0 {
					break
				}
				r.Violate("backends-differ", fmt.Sprintf("%q (user lazy functions forcing arguments repeatedly)", src), fmt.Sprintf("%s does not compile it, %s does", be, backends[0]))
				continue
			}
			var got []string
			for k := 0; k < 2; k++ { // two invocations of the one Callable
				tl.ev = nil
				var v *val.Val
				var err error
				mark(fmt.Sprintf("lazy library %q on %s, invocation #%d", src, be, k+1))
				pan, msg := protect(func() { v, err = cl(valEnvOf(stdValues())) })
				switch {
				case pan:
					got = append(got, "panic "+classify(msg))
				case err != nil:
					got = append(got, "error "+classify(err.Error())+" "+string(LS(tl.ev)))
				default:
					got = append(got, string(L(ValSx(v), LS(tl.ev))))
				}
				r.Count("lazy-library invocations")
			}
			g := strings.Join(got, " | ")
			if bi == 0 {
				first = g
			} else if first != g {
				r.Violate("backends-differ", fmt.Sprintf("%q (user lazy functions forcing arguments repeatedly)", src), fmt.Sprintf("%s: %s vs %s: %s", backends[0], trunc(first, 400), be, trunc(g, 400)))
			}
		}
	}
}
