package main

// C13 — evaluation is deterministic, side-effect free and leaves its inputs reusable.
// Direct predicates: every operation of a compile / invoke history over a pool of engines, environment objects and
// compiled callables gives what the same operation gives on fresh objects; repeated evaluation and rendering give the
// same text; nothing is written to standard output except by print; host values are not modified.

import (
	"fmt"
	"io"
	"os"
	"strings"

	yae "github.com/goghcrow/yae"
	"github.com/goghcrow/yae/conv"
	"github.com/goghcrow/yae/types"
	"github.com/goghcrow/yae/val"
)

func init() { props["C13"] = runC13 }

// captureStdout runs f with os.Stdout redirected and returns what was written.
func captureStdout(f func()) string {
	old := os.Stdout
	rd, wr, err := os.Pipe()
	if err != nil {
		f()
		return ""
	}
	os.Stdout = wr
	done := make(chan string)
	go func() {
		b, _ := io.ReadAll(rd)
		done <- string(b)
	}()
	func() {
		defer func() {
			os.Stdout = old
			wr.Close()
		}()
		f()
	}()
	return <-done
}

type histOut struct {
	cls string
	txt string
}

func (h histOut) String() string { return h.cls + " " + h.txt }

func outOf(v *val.Val, err error, pan bool, msg string) histOut {
	switch {
	case pan:
		return histOut{"panic", firstLine(msg)}
	case err != nil:
		c := classify(err.Error())
		if !strings.HasPrefix(c, "fail:") {
			c = "error"
		}
		return histOut{c, ""}
	}
	return histOut{"value", string(TySx(v.Type)) + " " + v.String() + " " + string(ValSx(v))}
}

func runC13(r *Run) {
	vars := stdVars
	// ---- stdout and repetition ----
	n := 400
	if r.Tier == "thorough" {
		n = 20000
	}
	corpus := []string{`union([1],[2])`, `string(["a":1,"b":2,"c":3,"d":4,"e":5])`, `["a":1,"b":2,"c":3,"d":4,"e":5]`, `[xs, xs]`, `string([m, m])`, `{c:1,a:2,b:3}`,
		`intersect(xs, xs)`, `diff(xs, [1])`, `print(1)`, `string(mn)`, `[mn, mn]`, `string(nest)`, `string([1.5: "a", 2: "b", 10: "c"])`, `[true: 1, false: 2]`,
		`string([1: "a", 2: "b", z / z: "n", 3: "c"])`, `[1: "a", 2: "b", 0 / 0: "n", 3: "c", 10: "d"]`, `len(union([[0 / 0: 1, 1: 2, 2: 3]], [[0 / 0: 1, 1: 2, 2: 3]]))`, `string([2: 1, 10: 2, 1e19: 3, -(1): 4, 0.5: 5])`,
		`[z / z: 1, 1 / z: 2, -(1) / z: 3, 0: 4]`, `string(["b": [2: 1, 10: 2], "a": [10: 2, 2: 1]])`, `[[z / z: 1, 5: 2, 7: 3], [7: 3, 5: 2, z / z: 1]]`}
	progs := append([]string{}, corpus...)
	for i := 0; i < n; i++ {
		g := &progGen{r: r, vars: vars, noFail: true}
		t := []*T{tmap(tstr(), tnum()), tstr(), tlist(tmap(tnum(), tstr())), g.randType(2)}[g.rn(4)]
		progs = append(progs, g.Gen(t, 1+g.rn(3)))
	}
	for i, src := range progs {
		if i < len(corpus) {
			r.Sample(src)
		}
		var first string
		reps := 12
		differs := false
		var outText string
		for k := 0; k < reps; k++ {
			var o outcome
			outText = captureStdout(func() { o = runOn(backends[k%len(backends)], src, vars, stdValues(), false) })
			if o.cls == "compile-error" {
				break
			}
			txt := string(o.Sx())
			if o.cls == "value" {
				txt += " " + o.v.String()
			}
			if k == 0 {
				first = txt
				r.Nontrivial(src)
			} else if txt != first {
				differs = true
			}
			if outText != "" && !strings.Contains(src, "print(") {
				r.Violate("writes-to-stdout", fmt.Sprintf("%q", src), fmt.Sprintf("wrote %q", firstLine(outText)))
				break
			}
		}
		if differs {
			r.Violate("nondeterministic", fmt.Sprintf("%q", src), "repeated evaluation gives different results or renderings")
		}
		if strings.Contains(first, "@0x") || strings.Contains(first, "recursive-val") {
			r.Violate("address-in-rendering", fmt.Sprintf("%q", src), first)
		}
	}

	// ---- histories over pools of objects ----
	// engines (one per back end, with the user library), three persistent type-environment objects, three persistent
	// value-environment objects with DIFFERENT contents, compiled callables kept and invoked repeatedly in any order;
	// every compile / invoke must give what the same operation gives on fresh objects (class, value, host-call trace),
	// and every invocation is also a correspondence case against the model evaluated on (source, that environment).
	h := 120
	if r.Tier == "thorough" {
		h = 6000
	}
	fixed := []string{`x + y`, `len(xs) + o.p`, `m["k"]`, `m["zz"]`, `if(b, s, e)`, `[o, o2][1].q`, `get(mz, 9)`, `nope + 1`, `xs[7]`, `string(m)`, `x +`, `5 % z`,
		`[s: x]`, `len([s: x, "z": 0])`, `isset([s: x], "a")`, `string([s: x])`, `[x: s, y: e]`, `[xs, es]`, `{a: xs, b: s}`, `[s, e, s]`, `union(xs, es)`, `[o.q: o.p]`,
		`lazyif(b, x, y) + 1`, `lazyif(x > 0, s, e)`, `both(b, x > 0)`, `lazyif(b, tr(x), tr(y))`, `lazyif(f, 1, lazyif(b, x, y))`, `[lazyif(b, s, e), trs(s)]`,
		`abs(y)`, `y - floor(y)`, `round(y) + y`, `ceil(y) * 2 + y`, `[y, abs(y), y]`, `floor(m["k"]) + m["k"]`, `abs(o.p) + o.p`, `ceil(xs[0]) + xs[0]`, `round(mn[1] == "one" ? y : x) + y`, `-y + abs(y)`,
		`tr(x) + tr(y)`, `if(b, tr(x), tr(y))`, `[trs(s): tr(x)]`, `get(mb, x)`, `xs[x]`, `ss[y + 2.5]`, `m[s]`, `string(nest)`, `[mb, mz]`, `[t0: x]`}
	emitted := 0
	for i := 0; i < h; i++ {
		srcs := append([]string{}, fixed...)
		for k := 0; k < 12; k++ {
			g := &progGen{r: r, vars: vars, fns: stdFns, useFns: true, trace: k%2 == 0}
			srcs = append(srcs, g.Gen(g.randType(2), 1+g.rn(3)))
		}
		vg := &vgen{r: r}
		sets := []map[string]*val.Val{stdValues(), stdValues(), stdValues()}
		for _, v := range vars { // set 1 and 2: other contents of the same types
			switch v.Ty.K {
			case "num", "str", "bool", "list", "map":
				sets[1][v.Name] = vg.gen(v.Ty, 2)
				if r.Rng.Intn(2) == 0 {
					sets[2][v.Name] = vg.gen(v.Ty, 1)
				}
			}
		}
		tls := make([]*traceLog, len(backends))
		engines := make([]*yae.Expr, len(backends))
		for bi, be := range backends {
			tls[bi] = &traceLog{}
			engines[bi] = newExpr(be, tls[bi], true)
		}
		tenvs := []*types.Env{typeEnvOf(vars), typeEnvOf(vars), typeEnvOf(vars)}
		venvs := []*val.Env{valEnvOf(sets[0]), valEnvOf(sets[1]), valEnvOf(sets[2])}
		snap := func() string {
			var b strings.Builder
			for k := range sets {
				b.WriteString(string(venvSx(vars, sets[k])))
			}
			return b.String()
		}
		before := snap()
		var callables []yae.Callable
		var csrc []string
		var cback []int
		steps := 6 + r.Rng.Intn(14)
		var hist []string
		for s := 0; s < steps; s++ {
			if len(callables) == 0 || r.Rng.Intn(3) == 0 {
				ei, ti, si := r.Rng.Intn(len(engines)), r.Rng.Intn(3), r.Rng.Intn(len(srcs))
				hist = append(hist, fmt.Sprintf("compile(%s, %q, tenv%d)", backends[ei], srcs[si], ti))
				var c yae.Callable
				var err error
				pan, msg := protect(func() { c, err = engines[ei].Compile(srcs[si], tenvs[ti]) })
				var berr error
				bpan, _ := protect(func() { _, berr = newExpr(backends[ei], &traceLog{}, true).Compile(srcs[si], typeEnvOf(vars)) })
				got := fmt.Sprint(pan, err != nil)
				want := fmt.Sprint(bpan, berr != nil)
				if got != want {
					k := "history:compile-differs-from-fresh"
					if strings.Contains(fmt.Sprint(err, msg), "env.parent") {
						k = "history:type-env-object-not-reusable"
					}
					r.Violate(k, strings.Join(hist, "; "), fmt.Sprintf("got (panic,error)=%s %v %s, fresh engine gives %s", got, err, firstLine(msg), want))
					break
				}
				if !pan && err == nil {
					callables = append(callables, c)
					csrc = append(csrc, srcs[si])
					cback = append(cback, ei)
				}
			} else {
				ci, vi := r.Rng.Intn(len(callables)), r.Rng.Intn(3)
				if r.Rng.Intn(3) == 0 {
					ci = len(callables) - 1 // favour re-invoking the same callable
				}
				be := cback[ci]
				hist = append(hist, fmt.Sprintf("invoke(%s %q, venv%d)", backends[be], csrc[ci], vi))
				var v *val.Val
				var err error
				tls[be].ev = nil
				pan, msg := protect(func() { v, err = callables[ci](venvs[vi]) })
				var got outcome
				got.trace = tls[be].ev
				switch {
				case pan:
					got.cls = classify(msg)
				case err != nil:
					got.cls = classify(err.Error())
				default:
					got.cls, got.v = "value", v
				}
				want := runOn(backends[be], csrc[ci], vars, sets[vi], true)
				gs, ws := string(got.Sx()), string(want.Sx())
				if got.cls == "value" && want.cls == "value" {
					gs += " " + string(TySx(got.v.Type)) + " " + got.v.String() // structural type: Type.String() prints an address for a type that reuses a node
					ws += " " + string(TySx(want.v.Type)) + " " + want.v.String()
				}
				if gs != ws {
					k := "history:invoke-differs-from-fresh"
					if strings.Contains(fmt.Sprint(err, msg), "env.parent") {
						k = "history:value-env-object-not-reusable"
					}
					r.Violate(k, strings.Join(hist, "; "), fmt.Sprintf("got %s, fresh objects give %s", gs, ws))
					break
				}
				if emitted < 40*h && !strings.HasPrefix(got.cls, "unexpected") {
					emitted++
					hs := historyFor(true)
					tag := map[string]string{"closure": "evalsrc", "interp": "evalsrc", "vm-switch": "vmsrc", "vm-call": "vmcsrc"}[backends[be]]
					r.Case(L(A(tag), hs.Sx(), tenvSx(vars), venvSx(vars, sets[vi]), oraclesSx(csrc[ci], sets[vi]), Runes(csrc[ci])), got.Sx())
				}
			}
		}
		if after := snap(); after != before {
			r.Violate("environment-values-modified", strings.Join(hist, "; "), "the values bound in the environment objects differ after the history (evaluation wrote into its input)")
		}
		r.Nontrivial(strings.Join(hist, ";"))
		if i < 2 {
			r.Sample(strings.Join(hist, "; "))
		}
	}

	// ---- results fed back as inputs: a value returned by one evaluation is bound in the environment of the next ones;
	// later evaluations must neither change it nor differ from evaluations over an independent copy of it ----
	{
		var deepCopy func(v *val.Val) *val.Val
		deepCopy = func(v *val.Val) *val.Val {
			switch v.Type.Kind {
			case types.KList:
				vs := make([]*val.Val, len(v.List().V))
				for i, e := range v.List().V {
					vs[i] = deepCopy(e)
				}
				return mkList(v.Type.List().El, vs...)
			case types.KNum:
				return val.Num(v.Num().V)
			case types.KStr:
				return val.Str(v.Str().V)
			}
			return v
		}
		lvars := []envVar{{"xs", tlist(tnum())}, {"ys", tlist(tnum())}, {"x", tnum()}}
		evalOn := func(be, src string, xs, ys *val.Val) (*val.Val, string) {
			var v *val.Val
			var err error
			mark(fmt.Sprintf("fed-back result: %q on %s", src, be))
			pan, msg := protect(func() {
				cl, cerr := newExpr(be, &traceLog{}, false).Compile(src, typeEnvOf(lvars))
				if cerr != nil {
					err = cerr
					return
				}
				ve := val.NewEnv()
				ve.Put("xs", xs)
				ve.Put("ys", ys)
				ve.Put("x", val.Num(7))
				v, err = cl(ve)
			})
			switch {
			case pan:
				return nil, "panic " + firstLine(msg)
			case err != nil:
				return nil, "error"
			}
			return v, v.String()
		}
		firsts := []string{`union(xs, [9])`, `union(xs, ys)`, `diff(xs, [2])`, `intersect(xs, ys)`, `union(union(xs, [5]), [6])`, `get([xs], 0, ys)`, `[x, x + 1]`, `union([x], xs)`}
		seconds := []string{`[union(xs, [100]), union(xs, [200])]`, `string([union(xs, [8]), xs, union(xs, [9])])`, `[union(xs, [x]), diff(xs, [x]), intersect(xs, xs)]`, `union(xs, [100])`, `union(xs, [200, 300])`, `len(union(xs, ys)) + len(xs)`}
		for _, be := range backends {
			for _, p1 := range firsts {
				x0 := mkList(types.Num, val.Num(1), val.Num(2), val.Num(3), val.Num(4))
				y0 := mkList(types.Num, val.Num(3), val.Num(50))
				r1, s1 := evalOn(be, p1, x0, y0)
				if r1 == nil || r1.Type.Kind != types.KList {
					continue
				}
				var kept []*val.Val
				var keptS []string
				for _, p2 := range seconds {
					got, gs := evalOn(be, p2, r1, y0)
					_, ws := evalOn(be, p2, deepCopy(r1), deepCopy(y0))
					r.Count("fed-back result evaluations")
					if gs != ws {
						r.Violate("result-depends-on-value-identity", fmt.Sprintf("%q on %s with xs := the result of %q", p2, be, p1), fmt.Sprintf("got %s, over an independent copy of the same list %s", gs, ws))
					}
					if got != nil {
						kept, keptS = append(kept, got), append(keptS, gs)
					}
					if now := r1.String(); now != s1 {
						r.Violate("earlier-result-changed-by-later-evaluation", fmt.Sprintf("result of %q on %s after evaluating %q over it", p1, be, p2), fmt.Sprintf("was %s, now %s", s1, now))
						s1 = now
					}
					for i, k := range kept {
						if now := k.String(); now != keptS[i] {
							r.Violate("earlier-result-changed-by-later-evaluation", fmt.Sprintf("a result obtained on %s with xs := the result of %q, after evaluating %q", be, p1, p2), fmt.Sprintf("was %s, now %s", keptS[i], now))
							keptS[i] = now
						}
					}
				}
			}
		}
	}

	// ---- host values are not modified ----
	type inner struct {
		P float64 `yae:"p"`
		L []int   `yae:"l"`
	}
	type host struct {
		X  int                `yae:"x"`
		Xs []float64          `yae:"xs"`
		M  map[string]float64 `yae:"m"`
		In inner              `yae:"in"`
		Pt *inner             `yae:"pt,maybe"`
	}
	for i := 0; i < 60; i++ {
		hv := host{X: i, Xs: []float64{3, 1, 2}, M: map[string]float64{"a": 1, "b": 2}, In: inner{1, []int{1, 2}}, Pt: &inner{2, []int{3}}}
		before := fmt.Sprintf("%#v %v", hv, *hv.Pt)
		for _, src := range []string{`union(xs, xs)`, `xs[0] + m["a"] + in.p + get(pt, in).p`, `diff(xs, [1])`, `string(m)`, `[xs, in.l]`} {
			protect(func() { yae.Eval(src, hv) })
			protect(func() { conv.ValOf(hv) })
		}
		if after := fmt.Sprintf("%#v %v", hv, *hv.Pt); after != before {
			r.Violate("host-value-modified", before, after)
		}
	}
}
