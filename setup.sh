#!/bin/sh
# Build the framework from files on disk only (offline): Coq development, extracted driver, Go harness.
set -e
cd "$(dirname "$0")"
export GOFLAGS=-mod=mod GOPROXY=off GOSUMDB=off GOTOOLCHAIN=local
mkdir -p .work evidence
export GOCACHE="$PWD/.work/gocache"
(cd coq && ulimit -v 12000000 && coq_makefile -f _CoqProject -o Makefile >/dev/null && timeout 3000 make -k -j16 COQC="timeout 1200 coqc" >/dev/null 2>../.work/coq-build.log || true)
(cd driver && ./build.sh)
cp /repo/go.sum harness/go.sum 2>/dev/null || true
(cd harness && go build -tags verif -o ../.work/yaeh .)
echo setup done
