#!/bin/bash
# run_seed.sh <seed-dir-name> <Cxx>... : apply /verif/seeded/<name>/patch.diff to /repo, run the listed checks, undo.
set -u
N=$1; shift
P=/verif/seeded/$N/patch.diff
[ -z "$(git -C /repo status --porcelain)" ] || { echo "/repo not clean"; exit 2; }
git -C /repo apply $P || exit 2
mkdir -p /verif/.work/seedruns
for c in "$@"; do
  ( cd /verif && timeout 3600 ./check $c ) > /verif/.work/seedruns/$N.$c.out 2>&1; rc=$?
  echo "seed=$N check=$c exit=$rc :: $(grep -E '^VIOLATION' /verif/.work/seedruns/$N.$c.out | head -1) :: $(tail -1 /verif/.work/seedruns/$N.$c.out)"
  [ -f /verif/evidence/replay/$c.json ] && cp /verif/evidence/replay/$c.json /verif/.work/seedruns/$N.$c.replay.json
done
git -C /repo checkout -- . ; git -C /repo status --porcelain
