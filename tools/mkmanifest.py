#!/usr/bin/env python3
"""Regenerates MANIFEST.json from the table below (single source of truth for what is claimed)."""
import json, os
ROOT = os.path.dirname(os.path.dirname(os.path.abspath(__file__)))

# id -> (technique, level text, level note, design ref)
CLAIMED = {
 "C17": ("Coq proof over a transcription of types/{equals,unify}.go + differential correspondence (extracted model vs implementation)",
         "Theorems in coq/Props/C17.v: type equality is an equivalence on well-formed types and coincides with equality of normal forms; matching a pattern against a variable-free type is sound and complete for the structural instantiation relation (with the empty-container rule); for variables on BOTH sides (C17_unify_sound) a successful unification keeps the substitution acyclic, keeps every old binding and makes the two types equal wherever the substitution can be applied (C17_unappliable_witness: it cannot always be applied, a known finding). The model is tied to the code by running both on ~10^5 generated type pairs per run (all results and substitutions equal) and the property's own predicates are evaluated on the implementation.",
         "Trusted: Coq kernel, extraction (ExtrOcamlBasic), OCaml driver, Go harness; types are modelled as trees: the harness also builds implementation types with shared nodes (graphs) for the same tree and compares. Two-sided pairs are screened in a child process first (a cyclic binding makes the implementation recurse for ever).",
         "DESIGN.md §5 C17"),
 "C09": ("Coq proof over a transcription of parser/lexer + exhaustive/random differential correspondence",
         "Theorems in coq/Props/C09.v: the token list partitions the input (source order, no overlap, gaps are white space, idx/end/line/col reproduce the lexeme), longest registered symbolic operator, whole-word keywords and true/false, '.'/'?' never split, literal forms are single tokens, failure only where no rule matches; rule order and pattern texts pinned to the source by a regenerated table lemma. Tied to the code by all strings up to length 4 (quick) / 5 (thorough) over four mixed alphabets and operator sets plus random fragment strings, every token field compared.",
         "Trusted: Coq kernel, extraction, driver, harness; Go's regexp engine is replaced by hand-written matchers for the ten fixed patterns (tied by the exhaustive sweep and the pinned pattern texts); unicode letter/space tables are generated from the Go toolchain in use.",
         "DESIGN.md §5 C09"),
 "C08": ("Coq proof over a transcription of parser/{parser,factory,grammar}.go + differential correspondence on token sequences and source strings",
         "Theorems in coq/Props/C08.v about the Pratt parser model (for any operator table): see the file; the model is tied to the code by comparing whole trees with every recorded position on exhaustive token sequences and generated source strings; the property's own predicates (well-formedness of the accepted tree for the table, yields, non-associativity, exact spans, redundant parentheses) are evaluated on the implementation.",
         "Trusted: Coq kernel, extraction, driver, harness; binding powers are float32 in the code and exact eighths in the model (generated tables stay below 2^20 where both agree).",
         "DESIGN.md §5 C08"),
 "C10": ("Coq proof over a transcription of trans/desugar.go + differential correspondence on parsed trees + paired evaluation",
         "Theorems in coq/Props/C10.v: core forms only after desugaring; the exact call each sugar form becomes (receiver first, source order, debug column kept); commutation with position erasure; idempotence on trees without a member callee and its refutation in general (known finding). Tied to the code by comparing Desugar's output on generated parsed trees node by node; the harness also checks non-mutation of the input and evaluates sugared/explicit pairs through Eval.",
         "Trusted: Coq kernel, extraction, driver, harness. 'The original tree is left untouched' is vacuous in a pure model: checked on the implementation only (supporting evidence).",
         "DESIGN.md §5 C10"),
 "C05": ("Coq proof over a transcription of types/typecheck.go + env.go + overload.go; differential correspondence incl. every annotation; independent reference checker as direct predicate",
         "Theorems in coq/Props/C05.v relate the checker model to the declarative typing relation (see file). The model is tied to the code by comparing accept/reject, the inferred type and every annotation the back ends rely on (literal types, resolved overload key and index, instantiated callee type, member index) on type-directed programs and their type-breaking mutants under five registration histories.",
         "Trusted: Coq kernel, extraction, driver, harness. User environments with their own function tables (types.Env chains deeper than facade's) are not modelled.",
         "DESIGN.md §5 C05"),
 "C18": ("Coq proof over a transcription of val/{equals,string,map}.go, fun/stringify.go and the parts of strconv/utf8/time they use; differential correspondence on generated value pairs",
         "Theorems in coq/Props/C18.v (generic in the float arithmetic, with the numeric facts they need stated as hypotheses): equality reflexive and symmetric, strconv.Quote injective, == <=> same map key for primitives, equal values render alike, rendering canonical under permutation of fields and entries, distinct numbers never collide. Tied to the code by comparing String(), Key(), Equals and the string() conversion on thousands of generated pairs (numbers across 2^53 and 2^63, every escape class, nested containers with permuted field and insertion order); the property's own predicate (== vs rendering vs key vs union/intersect/diff membership) is evaluated on the implementation.",
         "Trusted: Coq kernel, extraction, driver (hardware doubles, shortest float printing by round-trip search), harness. Function values (compared and rendered by address) and times with a monotonic reading or a non-UTC location are outside the model (host times in other locations are checked on the implementation only: known finding); NaN is outside the property's premise (not self-equal by IEEE).",
         "DESIGN.md §5 C18"),
 "C03": ("Coq proof relating the bytecode compiler + VM model to the reference evaluator; differential correspondence of all four back ends (values, failure classes, host-call traces) and of the emitted bytes",
         "coq/Model/Eval.v is the reference semantics and the model of the closure compiler and the AST interpreter; coq/Model/VM.v transcribes vm/compiler.go and both dispatch loops at byte level. Theorems in coq/Props/C03.v relate them. Every run compares, per generated program and back end, the outcome class, the canonical value and the ordered host-call trace of the implementation with the model, and applies the property's predicate (all back ends agree or the VM refused for capacity) directly.",
         "Trusted: Coq kernel, extraction, driver (numeric instance), harness. Oracles: timelib, regexp (tables shipped per case), math.Pow (ported), hardware doubles. The call-threaded loop's instruction limit and the dynamic call of a lazy function value are known findings.",
         "DESIGN.md §5 C03"),
 "C11": ("Coq proof about the bytecode compiler model and a verified bytecode verifier; byte-for-byte correspondence of emitted code and constant pool",
         "coq/Model/VM.v:compile transcribes vm/compiler.go + intrinsic.go at byte level (opcode numbering and intrinsic tables regenerated from the source on every run); theorems in coq/Props/C11.v. Every run compares the implementation's emitted bytes and constant pool (main code and every thunk body) with the model's, and runs an independent structural verifier on the implementation's bytes (decoding, operand kinds and ranges, forward jumps on instruction boundaries, single stack depth per pc, depth one at RETURN).",
         "Trusted: Coq kernel, extraction, driver, harness, the -tags verif hook that exposes code and pool.",
         "DESIGN.md §5 C11"),
 "C01": ("Coq proof of type preservation over the checker + evaluator models; direct deep dynamic-type check of every result on all back ends",
         "Theorems in coq/Props/C01.v. Every run evaluates generated well-typed programs (objects with permuted field order in literals and in host data) on the four back ends, walks each result through its exported fields and compares its deep dynamic type with the type the checker inferred; the evaluator and VM models are tied to the code by the C03 correspondence cases emitted in the same run.",
         "Trusted: as C03. Memory safety after a wrong static type is represented by the model's Fault outcomes, not by modelling Go's memory.",
         "DESIGN.md §5 C01"),
 "C02": ("Coq proof of progress over the evaluator / VM models; boundary sweeps of indices, moduli, patterns, wide and deep literals on all back ends",
         "Theorems in coq/Props/C02.v. Every run checks on the implementation that accepted programs end in a value or a documented failure class (index, key, modulo by zero, regexp, host failure), that programs built from total operations never fail, and emits correspondence cases (failure class compared with the model's).",
         "Trusted: as C03. Known finding: the call-threaded loop's 1024-instruction limit.",
         "DESIGN.md §5 C02"),
 "C06": ("Coq proof about the trace semantics of lazy and strict operands; poisoned-branch and tracing-call programs on all back ends",
         "Theorems in coq/Props/C06.v over the event-trace semantics. Every run places failing sub-expressions in unselected operand positions of if / ?: / && / || / user lazy functions (they must not run) and tracing calls in strict positions (once each, source order), on four back ends, and emits correspondence cases whose observable includes the ordered host-call trace.",
         "Trusted: as C03.",
         "DESIGN.md §5 C06"),
 "C16": ("Coq proof over the typing relation and the regenerated built-in table; generated programs applying every built-in to an optional argument",
         "Theorems in coq/Props/C16.v: get(maybe[a], a) is the only built-in signature with an optional parameter (finite check over the table regenerated from fun.BuiltIn()); an optional argument is only accepted by a type-variable or optional parameter pattern (no coercion); member and subscript access on an optional are ill-typed; get yields payload or default. Every run applies every built-in with a concrete parameter to an optional argument (must be rejected at compile time), evaluates the eliminator on present / absent payloads on four back ends, and evaluates programs over host data with nil pointers, slices and maps.",
         "Trusted: Coq kernel, extraction, driver, harness.",
         "DESIGN.md §5 C16"),
 "C20": ("Coq proof over a transcription of ext/sql/compile.go + fun.go specialised to criteria trees; differential correspondence on generated criteria and environments",
         "Theorems in coq/Props/C20.v: the WHERE text is the printer's token list; read back with standard SQL precedence it has the criteria tree's boolean structure up to associativity; a string operand is strconv.Quote's text, which scanned with backslash escapes ends exactly at its last character; scalar forms. Every run prints generated criteria trees (depth <= 4, all connective nestings, BETWEEN / IN / LIKE / IS NULL, strings with quotes, backslashes, control and non-ASCII bytes, numbers across 2^63, names bound and unbound in the environment) through ext.CompileToSql and compares the text with the model's, re-reads it with a precedence reader and checks every literal.",
         "Trusted: Coq kernel, extraction, driver, harness. SQL dialect assumed for the literal scan: MySQL default mode (backslash escapes). Ill-typed criteria (which CompileToSql refuses by panicking at construction) are outside the model.",
         "DESIGN.md §5 C20"),
 "C04": ("Coq characterisation lemmas for the reference built-in semantics; exhaustive boundary-operand correspondence of every built-in on four back ends",
         "coq/Model/Builtins.v + Eval.v are the reference semantics; theorems in coq/Props/C04.v characterise it declaratively (set operations, get / isset, tolerance comparison laws, rune counting, radix literals; every row of the regenerated built-in table is modelled). Every run applies every built-in to all combinations of boundary operands (tolerance edges, -0, 2^53+1, 2^63, +-Inf, NaN, non-ASCII and escaped strings, duplicate-laden lists, maps with colliding keys, optionals, instants) through four back ends and compares each value with the model's; numeric and string literal forms are decoded on both sides.",
         "Trusted: Coq kernel, extraction, driver (hardware doubles; ports of math.Pow for integral and +-0.5 exponents, Min / Max; shortest float printing), harness. Oracles not modelled: math.Pow with other fractional exponents (Go's Exp / Log), regexp and timelib (tables shipped per case).",
         "DESIGN.md §5 C04"),
 "C19": ("Coq proof over a transcription of the debug closure wrapper, debug/record.go and debug/render.go; differential correspondence of outcome, record entries and report text",
         "Theorems in coq/Props/C19.v: debug evaluation is transparent; what each term kind records and when; the recorder keeps values and order, moves columns only right and never lets two entries share a column; the report's first line is the source; recorded single-line values appear at their column. Every run evaluates generated single-line programs (ASCII and non-ASCII identifiers and strings, multi-line values, unevaluated lazy branches, failing programs) in debug mode and compares the outcome, every recorded (value, column) entry in order and the whole report text with the model's, and checks the property's predicates on the implementation's own output.",
         "Trusted: Coq kernel, extraction, driver, harness, the -tags verif hook exposing a record's entries.",
         "DESIGN.md §5 C19"),
 "C12": ("Coq proof over an API model whose recover placement is read from the source; differential correspondence of the whole pipeline on arbitrary strings; per-input time budget",
         "Theorems in coq/Props/C12.v: with the recover placement regenerated from facade.go / conv (table lemma), Compile, the Callable and Eval return a value or an error, never an escaped panic; the front end never runs out of the model's fuel; tokens are bounded by the input length. Every run feeds random runes, lexical-fragment strings, token mutations of valid programs, bracket / operator / method-chain nests (first in a child process with a time limit) and hostile host values (cyclic in several ways, first in a child process) to Eval, Compile, the Callable and Debug (no panic may cross, budget 400 ms growing quadratically beyond 200 runes) and compares Compile + invoke with the API model on every string.",
         "PARTIAL: wall-clock promptness and Go stack exhaustion are run-time behaviour the model cannot exhibit (watched by the harness budget only). Trusted: Coq kernel, extraction, driver, harness, translator's recover-site scan.",
         "DESIGN.md §5 C12"),
 "C13": ("Coq proof over a history model (engines, environment objects, compiled expressions); histories, repetition, stdout capture and host-value comparison on the implementation",
         "Theorems in coq/Props/C13.v: Inherit leaves its receiver usable; no operation of any history changes an environment object or an existing compiled expression; invocation and compilation results are local to their own inputs; initialisation is idempotent; only print writes to standard output; rendering and string() do not depend on map entry order. Every run replays random compile / invoke histories over shared engines and environment objects against fresh-object baselines, repeats map-bearing programs across back ends, captures standard output, and compares host values before and after.",
         "PARTIAL: non-modification of host values and absence of addresses in renderings hold by construction in a pure model; they are checked on the implementation only (supporting evidence). Trusted: Coq kernel, extraction, driver, harness.",
         "DESIGN.md §5 C13"),
 "C14": ("Coq proof of the shared-state protocol for every schedule + closed-world inventory regenerated from the source; Go race detector under a stress harness as the search for a failing schedule",
         "Theorems in coq/Props/C14.v: the inventory of package-level mutable state written outside init equals the modelled set (table lemma over a source scan); no two public operations have conflicting unsynchronised accesses; under every schedule the atomic type-variable counter hands out distinct numbers (the pre-repair plain counter is refuted by a 4-step schedule); a compilation's inferred type does not depend on where the counter stands. Every run builds harness/cmd/racer with -race and runs goroutines that compile on separate engines, on one initialised engine, and invoke shared compiled expressions of all three back ends (user lazy functions with nested thunks, conversions of composites to text, set operations) on distinct and on shared environment objects, comparing each outcome with the sequential one.",
         "PARTIAL: the Go memory model, the scheduler and races in code outside the inventory are run-time behaviour the model cannot exhibit; the race detector only sees the schedules that happen. Trusted: Coq kernel, harness, translator's shared-state scan, Go race detector.",
         "DESIGN.md §5 C14"),
 "C15": ("Coq proof over a model of conv/{val,type,typeenv,valenv}.go with reflection described by (gty, gv); differential correspondence on Go values built by reflection",
         "Theorems in coq/Props/C15.v: a converted value is deeply well typed; its type is the type TypeOf reports; for interface-free Go types whose nil-able parts are non-nil or declared optional the type depends only on the Go type; nil at top level, unsupported kinds, heterogeneous sequences and nesting beyond the depth limit are errors; scalars and sequence order are carried over. Every run builds Go values by reflection from generated shape descriptors (nested structs with tags and optional markers, pointers, slices, arrays, maps with primitive keys, interface-typed containers, times; pairs of values of one Go type) and compares ValOf, TypeOf, TypeEnvOf and ValEnvOf with the model, walks every converted value for deep well-typedness and checks type stability across values of one Go type.",
         "Trusted: Coq kernel, extraction, driver, harness; reflect itself is represented by the descriptor pair (a trusted description of reflection); reflect.MapKeys order is an oracle (maps whose conversion depends on it are generated with at most one entry). Known finding: integer map keys beyond 2^53 collide.",
         "DESIGN.md §5 C15"),
 "C07": ("Coq proof over the Callable model (envCheck then run) and the conversion model; differential correspondence on pairs of compile-time / run-time host environments",
         "Theorems in coq/Props/C07.v: a missing or differently typed name gives an error with an empty trace; equal types (extra names allowed, object field order free) are accepted and evaluate; every value of one interface-free Go struct type is accepted by an expression compiled against another value of it. Every run compiles against one reflection-built struct and invokes with the same value, another value of the Go type, an equally shaped Go type with permuted and renamed fields, type-changing / name-dropping / extra-name mutations and nil pointers, with tracing functions showing whether anything was evaluated, and compares outcome and trace with the model.",
         "Trusted: as C15 and C03.",
         "DESIGN.md §5 C07"),
}
NOT_YET = "machinery for this property is not built yet (work in progress in this repository; see DESIGN.md §5)"

props = [json.loads(l) for l in open(os.path.join(ROOT, "properties.jsonl"))]
checks, na = [], []
for p in props:
    pid = p["id"]
    if pid in CLAIMED:
        tech, text, note, ref = CLAIMED[pid]
        checks.append({
            "property_id": pid,
            "quick_cmd": "./check %s --tier quick" % pid,
            "thorough_cmd": "./check %s --tier thorough" % pid,
            "evidence_file": "/verif/evidence/%s.json" % pid,
            "replay_cmd_template": "./check %s --replay {path}" % pid,
            "engine": "coq-model+correspondence",
            "level_claimed": {"category": "proof", "text": text, "design_ref": ref},
            "level_note": note,
            "technique": tech,
        })
    else:
        na.append({"property_id": pid, "reason": NOT_YET})

hooks_commits = []
try:
    import subprocess
    out = subprocess.run(["git", "-C", "/repo", "log", "--format=%H %s"], capture_output=True, text=True).stdout
    hooks_commits = [l.split()[0] for l in out.splitlines() if "verif hook" in l]
except Exception:
    pass

m = {
 "version": 1,
 "setup_cmd": "./setup.sh",
 "hooks": {
   "guard": "verif",
   "enable": "go build -tags verif (harness/go.mod replaces github.com/goghcrow/yae by /repo); hook files are add-only *_verif_hooks.go / verif_hooks.go with //go:build verif",
   "baseline_off_cmd": "cd /repo && go test -vet=off -count=1 ./...",
   "source_commits": hooks_commits,
   "add_only": True,
 },
 "engines": [
   {"name": "coq-model+correspondence", "path": "/verif/check",
    "serves_properties": sorted(CLAIMED),
    "kind_free_text": "Coq 8.16.1 model of the Go code (coq/Model), theorems per property (coq/Props), extracted to OCaml (driver/) and diffed against the implementation on generated cases by a Go harness (harness/); see DESIGN.md"},
 ],
 "checks": checks,
 "not_applicable": na,
 "notes": "Every check rebuilds from /repo's working tree: translator -> Generated.v -> make (coq) -> extraction -> driver; go build -tags verif of the harness. Findings on the unchanged tree are listed in KNOWN_FINDINGS.",
}
json.dump(m, open(os.path.join(ROOT, "MANIFEST.json"), "w"), indent=1)
print("claimed:", sorted(CLAIMED), "not yet:", [x["property_id"] for x in na])
