#!/usr/bin/env python3
"""seed_results.py <seedplan.out>... : write seeded/RESULTS.md from the lines tools/run_seed.sh prints and the saved replay files."""
import json, os, re, sys
rows = []
for f in sys.argv[1:]:
    for line in open(f):
        m = re.match(r"seed=(\S+) check=(\S+) exit=(\d+) :: (.*?) :: (.*)", line.strip())
        if not m:
            continue
        seed, chk, ex, vio, last = m.groups()
        mm = re.search(r"proof_ok=(\w+) cases=(\d+) mismatches=(\d+) direct_violations=(\d+)", last)
        proof, cases, mism, direct = mm.groups() if mm else ("?", "?", "?", "?")
        kinds = ""
        rp = "/verif/.work/seedruns/%s.%s.replay.json" % (seed, chk)
        if ex == "1" and os.path.exists(rp):
            try:
                d = json.load(open(rp))
                ks = []
                for v in d.get("violations", []):
                    if v["kind"] not in ks:
                        ks.append(v["kind"])
                if not ks:
                    ks = ["(" + b[0] + ")" for b in d.get("no_longer_checks", [])]
                kinds = ", ".join(ks[:4])
            except Exception as e:
                kinds = "?"
        how = "missed" if ex == "0" else ("failing input" if "no-failing-input-found" not in vio else "tie broken, no failing input")
        rows = [x for x in rows if not (x[0] == seed and x[1] == chk)]   # a later run of the same pair replaces the earlier one
        rows.append((seed, chk, how, direct, mism, proof, kinds))
meta = {}
for d in sorted(os.listdir("/verif/seeded")):
    p = "/verif/seeded/%s/meta.json" % d
    if os.path.exists(p):
        meta[d] = json.load(open(p))
out = ["# Seeded changes: which checks catch which", "",
       "Each change was produced by a fresh sub-agent that saw only the property text (seeded/PROMPT.txt), confirmed by `tools/confirm_seed.sh`,",
       "then applied to /repo (`git -C /repo apply`), the listed quick checks run (`tools/run_seed.sh`), and undone (`git -C /repo checkout -- .`).",
       "`failing input` = exit 1 with a replay naming a concrete input on which the property's own predicate fails; `tie broken` = exit 1, `no-failing-input-found`",
       "(correspondence / table lemma broke, the replay lists the differing cases); `missed` = exit 0.", "",
       "| seed | targets | change | check | result | direct violations | model/impl mismatches | violation kinds |", "|---|---|---|---|---|---|---|---|"]
rows.sort(key=lambda x: (x[0], x[1] != meta.get(x[0], {}).get("property"), x[1]))
for seed, chk, how, direct, mism, proof, kinds in rows:
    m = meta.get(seed, {})
    out.append("| %s | %s | %s | %s | **%s** | %s | %s | %s |" % (seed, m.get("property", "?"), m.get("change", "?").replace("|", "\\|")[:160], chk, how, direct, mism, kinds.replace("|", "\\|")))
tot = {}
for seed, chk, how, *_ in rows:
    if meta.get(seed, {}).get("property") == chk:
        tot[how] = tot.get(how, 0) + 1
out += ["", "Target-property checks: " + ", ".join("%s: %d" % kv for kv in sorted(tot.items())), ""]
open("/verif/seeded/RESULTS.md", "w").write("\n".join(out))
print("\n".join(out[-3:]))
