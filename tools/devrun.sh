#!/bin/bash
# devrun.sh <Cxx> [tier] [patch.diff]: development aid — run one harness + extracted model against a scratch worktree of
# /repo's HEAD (optionally with a patch applied) without touching /repo. Not a registered check.
set -u
P=$1; TIER=${2:-quick}; PATCH=${3:-}
export GOFLAGS=-mod=mod GOPROXY=off GOSUMDB=off GOTOOLCHAIN=local
W=/tmp/dev-wt-$$; H=/tmp/dev-h-$$; O=/tmp/dev-o-$$
git -C /repo worktree add -q --detach $W HEAD || exit 2
[ -n "$PATCH" ] && git -C $W apply $PATCH
mkdir -p $H $O; cp -r /verif/harness/. $H/; sed -i "s#=> /repo#=> $W#" $H/go.mod; cp $W/go.sum $H/go.sum 2>/dev/null
( cd $H && go build -tags verif -o $O/yaeh . ) || { echo BUILD-FAILED; }
( cd /verif && $O/yaeh $P $O ${DEV_SEED:-1} $TIER ) | tail -3
python3 - $O <<'PY'
import sys,subprocess,json
o=sys.argv[1]
lines=[l for l in open(o+'/cases.txt').read().split('\n') if l]
from concurrent.futures import ThreadPoolExecutor
N=12; per=max(1,(len(lines)+N-1)//N)
chunks=[lines[i:i+per] for i in range(0,len(lines),per)]
def run(ch):
    inp='\n'.join('\t'.join(l.split('\t')[:2]) for l in ch)+'\n'
    o=subprocess.run(['/verif/driver/driver'],input=inp,capture_output=True,text=True).stdout.split('\n')
    return o[:len(ch)]+['']*(len(ch)-len(o))
with ThreadPoolExecutor(N) as ex: out=[m for o in ex.map(run,chunks) for m in o]
mm=0
for l,m in zip(lines,out):
    cid,req,impl=l.split('\t'); mod=m.split('\t')[1] if '\t' in m else '<missing>'
    if impl!=mod:
        mm+=1
        if mm<=3: print('MISMATCH',req[:600],'\n  impl:',impl[:400],'\n  model:',mod[:400])
rep=json.load(open(o+'/report.json'))
print('cases',len(lines),'mismatches',mm,'violations',rep.get('violation_counts'))
for v in (rep.get('violations') or [])[:4]: print('  V',v['kind'],str(v['input'])[:300],'|',str(v['detail'])[:300])
PY
git -C /repo worktree remove --force $W; rm -rf $W $H $O
