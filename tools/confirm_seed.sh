#!/bin/bash
# confirm_seed.sh <ID> [outdir] : confirm a seeded change in a fresh scratch worktree of /repo.
#   without the patch: demo passes; with it: library builds, unedited suite passes, demo fails.
set -u
ID=$1; OUT=${2:-/tmp/seed-$ID-out}; W=/tmp/conf-$ID; D=/tmp/conf-$ID-demo
export GOFLAGS=-mod=mod GOPROXY=off GOSUMDB=off GOTOOLCHAIN=local
rm -rf $D; git -C /repo worktree remove --force $W 2>/dev/null; rm -rf $W
git -C /repo worktree add -q --detach $W HEAD || exit 2
cp -r $OUT/demo $D
grep -rl "/tmp/seed-$ID" $D | xargs -r sed -i "s#/tmp/seed-$ID\b#$W#g"
[ -f $W/go.sum ] && cp $W/go.sum $D/go.sum
rundemo() { ( cd $D; if ls *_test.go >/dev/null 2>&1; then timeout 900 go test -count=1 ./... ; else timeout 900 go run . ; fi ) > $D/out.$1 2>&1; echo $?; }
R0=$(rundemo without)
git -C $W apply $OUT/patch.diff; AP=$?
( cd $W && go build ./... ) > $D/build.log 2>&1; B=$?
( cd $W && timeout 1800 go test -vet=off -count=1 ./... ) > $D/suite.log 2>&1; S=$?
R1=$(rundemo with)
echo "seed=$ID apply=$AP build=$B suite=$S demo_without=$R0 demo_with=$R1 files=$(git -C $W diff --stat | tail -1)"
tail -5 $D/out.with | sed 's/^/    with> /'
git -C /repo worktree remove --force $W; rm -rf $W
if [ $AP = 0 ] && [ $B = 0 ] && [ $S = 0 ] && [ $R0 = 0 ] && [ $R1 != 0 ]; then echo CONFIRMED; exit 0; else echo NOT-CONFIRMED; exit 1; fi
