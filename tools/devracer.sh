#!/bin/bash
# devracer.sh [patch.diff] [goroutines] [iters]: run harness/cmd/racer (-race) against a scratch worktree of /repo's HEAD
set -u
PATCH=${1:-}; G=${2:-16}; IT=${3:-400}
export GOFLAGS=-mod=mod GOPROXY=off GOSUMDB=off GOTOOLCHAIN=local
W=/tmp/dev-wt-$$; H=/tmp/dev-h-$$
git -C /repo worktree add -q --detach $W HEAD || exit 2
[ -n "$PATCH" ] && git -C $W apply $PATCH
mkdir -p $H; cp -r /verif/harness/. $H/; sed -i "s#=> /repo#=> $W#" $H/go.mod; cp $W/go.sum $H/go.sum 2>/dev/null
( cd $H && go build -race -tags verif -o $H/racer ./cmd/racer ) || echo BUILD-FAILED
( cd $H && GORACE="halt_on_error=0 exitcode=66 history_size=3" TZ=UTC timeout 600 ./racer $G $IT 1 > $H/out.txt 2> $H/err.txt; echo "exit=$? races=$(grep -c 'WARNING: DATA RACE' $H/err.txt) fatal=$(grep -c '^fatal error' $H/err.txt)"; tail -3 $H/out.txt | cut -c1-300; grep -A3 "WARNING: DATA RACE" $H/err.txt | grep -E "^\s+/tmp" | head -3 )
git -C /repo worktree remove --force $W; rm -rf $W $H
