#!/bin/sh
# extract the model and build the driver (run after `make -C ../coq`)
set -e
cd "$(dirname "$0")"
coqc -Q ../coq Yae Extract.v > extract.log 2>&1 || { cat extract.log; exit 1; }
rm -f model.mli
ocamlfind ocamlopt -O2 -w -a -package str model.ml main.ml -o driver 2>/dev/null || ocamlfind ocamlopt -w -a model.ml main.ml -o driver
