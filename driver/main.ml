(* Generic driver: every line "id<TAB>request" is parsed into the extracted [sexp], handed to the extracted
   [dispatch], and the answer printed as "id<TAB>response".  No model logic lives here. *)
open Model
type ostring = Stdlib.String.t

let ascii_of_char (c : char) : ascii =
  let n = Char.code c in
  let b i = (n lsr i) land 1 = 1 in
  Ascii (b 0, b 1, b 2, b 3, b 4, b 5, b 6, b 7)

let char_of_ascii (a : ascii) : char =
  match a with
  | Ascii (b0, b1, b2, b3, b4, b5, b6, b7) ->
    let v b i = if b then 1 lsl i else 0 in
    Char.chr (v b0 0 + v b1 1 + v b2 2 + v b3 3 + v b4 4 + v b5 5 + v b6 6 + v b7 7)

let coq_string_of (s : ostring) : Model.string =
  let r = ref EmptyString in
  for i = String.length s - 1 downto 0 do r := String (ascii_of_char s.[i], !r) done;
  !r

let rec buf_coq_string (b : Buffer.t) (s : Model.string) : unit =
  match s with
  | EmptyString -> ()
  | String (a, r) -> Buffer.add_char b (char_of_ascii a); buf_coq_string b r

(* tokens: '(' ')' and atoms (maximal runs of other non-blank characters) *)
let parse (s : ostring) : sexp =
  let n = String.length s in
  let pos = ref 0 in
  let rec skip () = if !pos < n && (s.[!pos] = ' ') then (incr pos; skip ()) in
  let rec item () : sexp =
    skip ();
    if !pos >= n then failwith "eof";
    if s.[!pos] = '(' then begin
      incr pos;
      let acc = ref [] in
      let rec loop () =
        skip ();
        if !pos >= n then failwith "unclosed";
        if s.[!pos] = ')' then incr pos else (acc := item () :: !acc; loop ()) in
      loop ();
      L (List.rev !acc)
    end else begin
      let st = !pos in
      while !pos < n && s.[!pos] <> ' ' && s.[!pos] <> '(' && s.[!pos] <> ')' do incr pos done;
      A (coq_string_of (String.sub s st (!pos - st)))
    end in
  item ()

let rec print (b : Buffer.t) (x : sexp) : unit =
  match x with
  | A a -> buf_coq_string b a
  | L l ->
    Buffer.add_char b '(';
    List.iteri (fun i y -> if i > 0 then Buffer.add_char b ' '; print b y) l;
    Buffer.add_char b ')'

(* ---------- numeric instance: OCaml's hardware doubles (the same IEEE binary64 arithmetic as Go's float64) ---------- *)

let rec int64_of_pos (p : positive) : int64 =
  match p with
  | XH -> 1L
  | XO q -> Int64.shift_left (int64_of_pos q) 1
  | XI q -> Int64.logor (Int64.shift_left (int64_of_pos q) 1) 1L

let int64_of_n (n : n) : int64 = match n with N0 -> 0L | Npos p -> int64_of_pos p   (* as unsigned 64 bits *)

let rec pos_of_int64 (i : int64) : positive =   (* i <> 0, read as unsigned *)
  if i = 1L then XH
  else
    let rest = pos_of_int64 (Int64.shift_right_logical i 1) in
    if Int64.logand i 1L = 1L then XI rest else XO rest

let n_of_int64 (i : int64) : n = if i = 0L then N0 else Npos (pos_of_int64 i)

let z_of_int64 (i : int64) : z =
  if i = 0L then Z0
  else if i > 0L then Zpos (pos_of_int64 i)
  else if i = Int64.min_int then Zneg (pos_of_int64 i)           (* 2^63 read as unsigned *)
  else Zneg (pos_of_int64 (Int64.neg i))

let int64_of_z (z : z) : int64 =
  match z with Z0 -> 0L | Zpos p -> int64_of_pos p | Zneg p -> Int64.neg (int64_of_pos p)

let canon_nan = 0x7ff8000000000001L
let fl (n : n) : float = Int64.float_of_bits (int64_of_n n)
let bits (f : float) : n = if f <> f then n_of_int64 canon_nan else n_of_int64 (Int64.bits_of_float f)

(* Go: int64(f) on amd64 (CVTTSD2SQ): NaN and out-of-range give the "integer indefinite" value -2^63 *)
let go_int64 (f : float) : int64 =
  if f <> f || f >= 9223372036854775808.0 || f < -9223372036854775808.0 then Int64.min_int else Int64.of_float f

(* port of Go's math.Pow (pure Go on amd64); Exp/Log are only reached for fractional exponents other than +-0.5 *)
let is_odd_int (y : float) : bool =
  if Float.abs y >= 9007199254740992.0 then false
  else let yi, yf = Float.modf y |> fun (f, i) -> (i, f) in yf = 0.0 && Int64.logand (Int64.of_float yi) 1L = 1L

let rec go_pow (x : float) (y : float) : float =
  let is_inf v s = (s >= 0 && v = Float.infinity) || (s <= 0 && v = Float.neg_infinity) in
  if y = 0.0 || x = 1.0 then 1.0
  else if y = 1.0 then x
  else if x <> x || y <> y then Float.nan
  else if x = 0.0 then begin
    if y < 0.0 then (if Float.sign_bit x && is_odd_int y then Float.copy_sign Float.infinity x else Float.infinity)
    else (if Float.sign_bit x && is_odd_int y then x else 0.0)
  end
  else if is_inf y 0 then begin
    if x = -1.0 then 1.0
    else if (Float.abs x < 1.0) = is_inf y 1 then 0.0 else Float.infinity
  end
  else if is_inf x 0 then begin
    if is_inf x (-1) then go_pow (1.0 /. x) (-. y)
    else if y < 0.0 then 0.0 else Float.infinity
  end
  else if y = 0.5 then Float.sqrt x
  else if y = -0.5 then 1.0 /. Float.sqrt x
  else begin
    let yf0, yi0 = Float.modf (Float.abs y) in
    let yi = ref yi0 and yf = ref yf0 in
    if !yf <> 0.0 && x < 0.0 then Float.nan
    else if !yi >= 9223372036854775808.0 then begin
      if x = -1.0 then 1.0
      else if (Float.abs x < 1.0) = (y > 0.0) then 0.0 else Float.infinity
    end else begin
      let a1 = ref 1.0 and ae = ref 0 in
      if !yf <> 0.0 then begin
        if !yf > 0.5 then (yf := !yf -. 1.0; yi := !yi +. 1.0);
        a1 := Float.exp (!yf *. Float.log x)
      end;
      let x1f, xe0 = Float.frexp x in
      let x1 = ref x1f and xe = ref xe0 in
      let i = ref (Int64.of_float !yi) in
      (try
         while !i <> 0L do
           if !xe < -4096 || 4096 < !xe then (ae := !ae + !xe; raise Exit);
           if Int64.logand !i 1L = 1L then (a1 := !a1 *. !x1; ae := !ae + !xe);
           x1 := !x1 *. !x1;
           xe := !xe lsl 1;
           if !x1 < 0.5 then (x1 := !x1 +. !x1; xe := !xe - 1);
           i := Int64.shift_right !i 1
         done
       with Exit -> ());
      if y < 0.0 then (a1 := 1.0 /. !a1; ae := - !ae);
      Float.ldexp !a1 !ae
    end
  end

(* strconv.FormatFloat(v, 'f', -1, 64): the shortest digit string that reads back as v, in positional notation *)
let fmt_shortest (v : float) : ostring =
  if v <> v then "NaN"
  else if v = Float.infinity then "+Inf"
  else if v = Float.neg_infinity then "-Inf"
  else if v = 0.0 then (if Float.sign_bit v then "-0" else "0")
  else begin
    let neg = v < 0.0 in
    let a = Float.abs v in
    let rec find p = if p > 17 then Printf.sprintf "%.17e" a else
        let s = Printf.sprintf "%.*e" (p - 1) a in
        if float_of_string s = a then s else find (p + 1) in
    let s = find 1 in
    let epos = Stdlib.String.index s 'e' in
    let mant = Stdlib.String.sub s 0 epos in
    let ex = int_of_string (Stdlib.String.sub s (epos + 1) (Stdlib.String.length s - epos - 1)) in
    let digits = Buffer.create 20 in
    Stdlib.String.iter (fun c -> if c <> '.' then Buffer.add_char digits c) mant;
    let d = Buffer.contents digits in
    (* strip trailing zeros *)
    let n = ref (Stdlib.String.length d) in
    while !n > 1 && d.[!n - 1] = '0' do decr n done;
    let d = Stdlib.String.sub d 0 !n in
    let nd = Stdlib.String.length d in
    let body =
      if ex >= nd - 1 then d ^ Stdlib.String.make (ex - (nd - 1)) '0'
      else if ex >= 0 then Stdlib.String.sub d 0 (ex + 1) ^ "." ^ Stdlib.String.sub d (ex + 1) (nd - ex - 1)
      else "0." ^ Stdlib.String.make (- ex - 1) '0' ^ d in
    (if neg then "-" else "") ^ body
  end

let rec list_of_string (s : ostring) : n list =
  List.init (Stdlib.String.length s) (fun i -> n_of_int64 (Int64.of_int (Char.code s.[i])))

let ops : numops = {
  fadd = (fun a b -> bits (fl a +. fl b));
  fsub = (fun a b -> bits (fl a -. fl b));
  fmul = (fun a b -> bits (fl a *. fl b));
  fdiv = (fun a b -> bits (fl a /. fl b));
  fpow = (fun a b -> bits (go_pow (fl a) (fl b)));
  (* Go's math.Min / math.Max: an infinity of the right sign wins even over NaN; -0 < +0 *)
  fmin = (fun a b -> let x = fl a and y = fl b in
           bits (if x = Float.neg_infinity || y = Float.neg_infinity then Float.neg_infinity
                 else if x <> x || y <> y then Float.nan
                 else if x = 0.0 && x = y then (if Float.sign_bit x then x else y)
                 else if x < y then x else y));
  fmax = (fun a b -> let x = fl a and y = fl b in
           bits (if x = Float.infinity || y = Float.infinity then Float.infinity
                 else if x <> x || y <> y then Float.nan
                 else if x = 0.0 && x = y then (if Float.sign_bit x then y else x)
                 else if x > y then x else y));
  fneg = (fun a -> bits (-. (fl a)));
  fabs = (fun a -> bits (Float.abs (fl a)));
  ffloor = (fun a -> bits (Float.floor (fl a)));
  fceil = (fun a -> bits (Float.ceil (fl a)));
  fround = (fun a -> bits (Float.round (fl a)));
  flt = (fun a b -> fl a < fl b);
  fle = (fun a b -> fl a <= fl b);
  is_int = (fun a -> let v = fl a in v = Float.trunc v && Float.abs v < 9223372036854775808.0);
  to_i64 = (fun a -> z_of_int64 (go_int64 (fl a)));
  (* float64(int64) for the int64 range; float64(uint64) above it (exact split into two 32-bit halves, one rounding) *)
  of_Z = (fun z ->
      match z with
      | Zpos p when (let u = int64_of_pos p in u < 0L) ->
        let u = int64_of_pos p in
        let hi = Int64.to_float (Int64.shift_right_logical u 32) and lo = Int64.to_float (Int64.logand u 0xFFFFFFFFL) in
        bits (hi *. 4294967296.0 +. lo)
      | _ -> bits (Int64.to_float (int64_of_z z)));
  of_dec = (fun digits e10 ->
      let b = Buffer.create 32 in
      List.iter (fun c -> Buffer.add_char b (Char.chr (Int64.to_int (int64_of_n c)))) digits;
      let e = match e10 with
        | Z0 -> 0
        | Zpos _ | Zneg _ ->
          (* clamp: beyond +-100000 the result is 0 or overflow anyway *)
          let rec small (p : positive) (acc : int) (w : int) = if acc > 1000000 then acc else
              match p with XH -> acc + w | XO q -> small q acc (w * 2) | XI q -> small q (acc + w) (w * 2) in
          (match e10 with Zpos p -> min 100000 (small p 0 1) | Zneg p -> - (min 100000 (small p 0 1)) | Z0 -> 0) in
      bits (float_of_string (Buffer.contents b ^ "e" ^ string_of_int e)));
  fmt_float = (fun a -> list_of_string (fmt_shortest (fl a)));
  eps = bits 1e-9;
}

let () =
  let b = Buffer.create 65536 in
  (try
     while true do
       let line = input_line stdin in
       match String.index_opt line '\t' with
       | None -> ()
       | Some i ->
         let id = String.sub line 0 i in
         let req = String.sub line (i + 1) (String.length line - i - 1) in
         Buffer.clear b;
         (try print b (dispatch ops (parse req)) with
          | Stack_overflow -> Buffer.clear b; Buffer.add_string b "driver-stack-overflow"
          | Failure m -> Buffer.clear b; Buffer.add_string b ("driver-parse-error:" ^ m));
         print_string id; print_char '\t'; print_string (Buffer.contents b); print_char '\n'
     done
   with End_of_file -> ());
  flush stdout
