(* Generic driver: every line "id<TAB>request" is parsed into the extracted [sexp], handed to the extracted
   [dispatch], and the answer printed as "id<TAB>response".  No model logic lives here. *)
open Model
type ostring = Stdlib.String.t

let ascii_of_char (c : char) : ascii =
  let n = Char.code c in
  let b i = (n lsr i) land 1 = 1 in
  Ascii (b 0, b 1, b 2, b 3, b 4, b 5, b 6, b 7)

let char_of_ascii (a : ascii) : char =
  match a with
  | Ascii (b0, b1, b2, b3, b4, b5, b6, b7) ->
    let v b i = if b then 1 lsl i else 0 in
    Char.chr (v b0 0 + v b1 1 + v b2 2 + v b3 3 + v b4 4 + v b5 5 + v b6 6 + v b7 7)

let coq_string_of (s : ostring) : Model.string =
  let r = ref EmptyString in
  for i = String.length s - 1 downto 0 do r := String (ascii_of_char s.[i], !r) done;
  !r

let rec buf_coq_string (b : Buffer.t) (s : Model.string) : unit =
  match s with
  | EmptyString -> ()
  | String (a, r) -> Buffer.add_char b (char_of_ascii a); buf_coq_string b r

(* tokens: '(' ')' and atoms (maximal runs of other non-blank characters) *)
let parse (s : ostring) : sexp =
  let n = String.length s in
  let pos = ref 0 in
  let rec skip () = if !pos < n && (s.[!pos] = ' ') then (incr pos; skip ()) in
  let rec item () : sexp =
    skip ();
    if !pos >= n then failwith "eof";
    if s.[!pos] = '(' then begin
      incr pos;
      let acc = ref [] in
      let rec loop () =
        skip ();
        if !pos >= n then failwith "unclosed";
        if s.[!pos] = ')' then incr pos else (acc := item () :: !acc; loop ()) in
      loop ();
      L (List.rev !acc)
    end else begin
      let st = !pos in
      while !pos < n && s.[!pos] <> ' ' && s.[!pos] <> '(' && s.[!pos] <> ')' do incr pos done;
      A (coq_string_of (String.sub s st (!pos - st)))
    end in
  item ()

let rec print (b : Buffer.t) (x : sexp) : unit =
  match x with
  | A a -> buf_coq_string b a
  | L l ->
    Buffer.add_char b '(';
    List.iteri (fun i y -> if i > 0 then Buffer.add_char b ' '; print b y) l;
    Buffer.add_char b ')'

let () =
  let b = Buffer.create 65536 in
  (try
     while true do
       let line = input_line stdin in
       match String.index_opt line '\t' with
       | None -> ()
       | Some i ->
         let id = String.sub line 0 i in
         let req = String.sub line (i + 1) (String.length line - i - 1) in
         Buffer.clear b;
         (try print b (dispatch (parse req)) with
          | Stack_overflow -> Buffer.clear b; Buffer.add_string b "driver-stack-overflow"
          | Failure m -> Buffer.clear b; Buffer.add_string b ("driver-parse-error:" ^ m));
         print_string id; print_char '\t'; print_string (Buffer.contents b); print_char '\n'
     done
   with End_of_file -> ());
  flush stdout
