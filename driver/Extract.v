(* Extraction of the executable model.  Only ExtrOcamlBasic's directives (bool, option, unit, list, prod, sumbool,
   sumor to OCaml's own types); N, Z, positive, nat, ascii, string stay the extracted inductives. *)
From Coq Require Extraction ExtrOcamlBasic.
From Yae Require Import Model.Dispatch.
Extraction Language OCaml.
Set Extraction Output Directory ".".
Extraction "model.ml" Dispatch.dispatch.
