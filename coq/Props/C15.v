(* C15 — host data converts faithfully and its type depends only on its Go shape.  Statements only.
   reflect is represented by the description (gty, gv) of Model/Conv.v (a trusted description of reflection). *)
From Coq Require Import List String Bool NArith ZArith.
From Yae Require Import Base.Sexp Model.Ty Model.Unify Model.Num Model.Lexer Model.Val Model.Render Model.ValSpec Model.Conv Model.ConvSpec Proofs.C15Proofs.
Import ListNotations.

(* converting a Go value yields a well-formed value: every component has the type its container declares, no absent
   component, distinct map keys *)
Theorem C15_wf : forall ops t v x, ValOf ops t v = Some x -> val_ok x = true /\ fun_free x = true.
Proof. exact C15Proofs.valof_wf. Qed.
Print Assumptions C15_wf.

(* ... whose type equals the type reported for that same Go value *)
Theorem C15_type_agrees : forall ops t v x T,
  ValOf ops t v = Some x -> TypeOf ops t v = Some T -> T = val_type x.
Proof. exact C15Proofs.type_agrees. Qed.
Print Assumptions C15_type_agrees.

(* for Go values of one static type without interface-typed parts whose nil-able parts are non-nil or declared optional,
   the resulting type is the static one: the same for every value, so an expression compiled against one sample accepts
   every other value of that type (C07) *)
Theorem C15_shape_only : forall ops t v x T,
  iface_free t = true -> shape_stable conv_fuel t v false = true ->
  ValOf ops t v = Some x -> type_of conv_fuel t 0 = Some T ->
  ty_eqb (val_type x) T = true.
Proof. exact C15Proofs.shape_only. Qed.
Print Assumptions C15_shape_only.

(* unsupported or inconsistent data is reported as an error: nil at top level, unsupported kinds, lists whose elements
   convert to different types *)
Theorem C15_errors : forall ops t,
  ValOf ops t HNil = None /\ ValOf ops GOther HOther = None /\
  (forall e a b xa xb, val_of ops (conv_fuel - 1) e a 1 = Some xa -> val_of ops (conv_fuel - 1) e b 1 = Some xb ->
                       ty_eqb (val_type xa) (val_type xb) = false -> ValOf ops (GSlice e) (HSeq [a; b]) = None).
Proof. exact C15Proofs.errors. Qed.
Print Assumptions C15_errors.

(* nesting beyond the depth limit is an error *)
Theorem C15_depth_limit : forall ops f t v lv, (maxLevel < lv)%nat -> val_of ops f t v lv = None.
Proof. exact C15Proofs.depth_limit. Qed.
Print Assumptions C15_depth_limit.

(* contents: numbers as doubles, strings, booleans, instants are carried over unchanged *)
Theorem C15_scalars : forall ops z n b s bits sec ns,
  ValOf ops GInt (HInt z) = Some (VNum (of_Z ops z)) /\ ValOf ops GUint (HUint n) = Some (VNum (of_Z ops (Z.of_N n))) /\
  ValOf ops GBool (HBool b) = Some (VBool b) /\ ValOf ops GString (HString s) = Some (VStr s) /\
  ValOf ops GFloat (HFloat bits) = Some (VNum bits) /\ ValOf ops GTime (HTime sec ns) = Some (VTime sec ns).
Proof. exact C15Proofs.scalars. Qed.
Print Assumptions C15_scalars.

(* sequence order is kept *)
Theorem C15_seq_order : forall ops e vs xs t,
  ValOf ops (GSlice e) (HSeq vs) = Some (VList t xs) -> vs <> [] ->
  Forall2 (fun v x => val_of ops (conv_fuel - 1) e v 1 = Some x) vs xs.
Proof. exact C15Proofs.seq_order. Qed.
Print Assumptions C15_seq_order.
