(* C20 — generated SQL keeps the criteria's boolean structure and quotes literals safely.  Statements only. *)
From Coq Require Import List String Bool NArith ZArith.
From Yae Require Import Base.Sexp Model.Ty Model.Num Model.Lexer Model.Val Model.Render Model.Eval Model.Sql Model.SqlSpec Proofs.C20Proofs.
Import ListNotations.
Local Open Scope list_scope.

(* the WHERE text is exactly the printer's token list with single spaces (none inside parentheses) *)
Theorem C20_tokens : forall ops rho c outer,
  sql_text ops rho c outer = render_toks ops rho (sql_toks c outer).
Proof. exact C20Proofs.text_is_tokens. Qed.
Print Assumptions C20_tokens.

(* read with standard SQL precedence (condition, then NOT, then AND, then OR) the text combines the same conditions with
   the same connectives in the same nesting as the criteria tree, up to the associativity of AND and of OR *)
Theorem C20_roundtrip : forall c outer,
  exists c', read (sql_toks c outer) = Some c' /\ flat c' = flat c.
Proof. exact C20Proofs.roundtrip. Qed.
Print Assumptions C20_roundtrip.

(* every string operand is emitted as strconv.Quote's text: one double-quoted literal which, scanned with backslash
   escapes, ends exactly at its last character: no character of the operand can end the literal early *)
Theorem C20_quote_safe : forall s, exists body,
  quote s = 34%N :: body /\ lit_end body 1 = Some (List.length (quote s)).
Proof. exact C20Proofs.quote_safe. Qed.
Print Assumptions C20_quote_safe.

Theorem C20_string_operand : forall ops rho s, operand_text ops rho (PStr s) = Some (quote s).
Proof. exact C20Proofs.string_operand. Qed.
Print Assumptions C20_string_operand.

(* booleans appear as 1 / 0, instants as from_unixtime(seconds), numbers through the value printer (C18: exact and
   injective beyond the int64 range since the IsInt repair); names bound in the environment are substituted by their
   values, column names are back-quoted otherwise *)
Theorem C20_scalars : forall ops rho b sec n,
  operand_text ops rho (PBool b) = Some (if b then bytes_of_string "1" else bytes_of_string "0") /\
  operand_text ops rho (PTime sec) = Some (bytes_of_string "from_unixtime(" ++ fmt_Z sec ++ bytes_of_string ")") /\
  operand_text ops rho (PNum n) = Some (fmt_num ops n).
Proof. exact C20Proofs.scalars. Qed.
Print Assumptions C20_scalars.

Theorem C20_names : forall ops rho n,
  (forall v, assoc n rho = Some v -> name_text ops rho n = fmt_val ops v) /\
  (assoc n rho = None -> name_text ops rho n = Some ([96%N] ++ bytes_of_string n ++ [96%N])).
Proof. exact C20Proofs.names. Qed.
Print Assumptions C20_names.

Example C20_example :
  let c := CAnd (COr (CLeaf (KIsNull "a")) (CNot (CAnd (CLeaf (KIsNull "b")) (CLeaf (KIsNull "c"))))) (CLeaf (KIsNull "d")) in
  sql_toks c 0 = [TLp; TLeaf (KIsNull "a"); TOr; TNot; TLp; TLeaf (KIsNull "b"); TAnd; TLeaf (KIsNull "c"); TRp; TRp; TAnd; TLeaf (KIsNull "d")]
  /\ read (sql_toks c 0) = Some c.
Proof. vm_compute. split; reflexivity. Qed.
