(* C01 — run-time values always have the statically inferred type (preservation).  Statements only.
   About the reference evaluator (= model of the closure compiler and the interpreter); C03 transfers it to the VM.
   Generic in the float arithmetic and in the timelib / regexp oracles: no fact about them is needed. *)
From Coq Require Import List String Bool NArith ZArith.
From Yae Require Import Base.Sexp Model.Ty Gen.Generated Model.Unify Model.Num Model.Lexer Model.Literal Model.Cst Model.Desugar
  Model.Pratt Model.Check Model.CheckSpec Model.Val Model.Render Model.ValSpec Model.Builtins Model.Eval Model.EvalSpec Proofs.C01Proofs.
Import ListNotations.
Local Open Scope string_scope.

Section C01.
Variable ops : numops.
Variable orc : oracles.

(* whenever an expression is accepted with inferred type T and evaluated in a conforming environment, any value it
   produces has type T, and every component has the type its container declares, with no absent component
   (has_vtype: deep, object fields matched BY NAME against T, whatever order literals or host data list them in) *)
Theorem C01_preservation : forall fe G rho fuel fresh e a T f t v,
  (fe = builtin_fenv \/ fe = fenv_std) ->
  tenv_ok G = true -> env_ok G rho -> fresh_ok fe fresh ->
  check fe G fuel fresh e = COk (a, T) ->
  eval ops orc fe rho f a = (t, OVal v) ->
  has_vtype v T = true /\ fun_free v = true.
Proof. exact (C01Proofs.preservation ops orc). Qed.

(* the tables themselves are well formed (regenerated from fun.BuiltIn() on every run) *)
Theorem C01_tables_ok : fenv_ok builtin_fenv = true /\ fenv_ok fenv_std = true.
Proof. exact C01Proofs.tables_ok. Qed.
End C01.

Print Assumptions C01_preservation.
Print Assumptions C01_tables_ok.
