(* C18 — equality, map-key identity, set membership and rendering agree.  Statements only.
   Numbers are abstract (Model/Num.v): each theorem names the facts about the arithmetic it uses; the harness validates
   them on the implementation's float64 (harness/c18.go) and the driver instantiates them with hardware doubles. *)
From Coq Require Import List String Bool NArith ZArith Permutation.
From Yae Require Import Base.Sexp Model.Ty Gen.Generated Model.Num Model.Lexer Model.Val Model.Render Model.ValSpec Proofs.C18Proofs.
Import ListNotations.

Section C18.
Variable ops : numops.

(* the comparison tolerance is reflexive and symmetric on the numbers at hand *)
Definition num_refl (l : list N) : Prop := forall b, In b l -> num_eq ops b b = true.
Definition num_sym : Prop := forall a b, num_eq ops a b = num_eq ops b a.
(* "numeric parts are either identical or differ by more than the tolerance", and distinct numbers print differently:
   on the numbers at hand, tolerance-equality coincides with equality of the printed form *)
Definition num_separated (l1 l2 : list N) : Prop :=
  forall a b, In a l1 -> In b l2 -> (num_eq ops a b = true <-> fmt_num ops a = fmt_num ops b).

(* equality is reflexive and symmetric *)
Theorem C18_refl : forall v, val_ok v = true -> fun_free v = true -> num_refl (nums_of v) -> val_eqb ops v v = true.
Proof. exact (C18Proofs.eq_refl ops). Qed.

(* funs_wf: every function value inside carries a well-formed type (function values are outside the property's
   quantifier; they are compared by address in the code) *)
Theorem C18_sym : forall x y, val_ok x = true -> val_ok y = true -> funs_wf x = true -> funs_wf y = true -> num_sym ->
  val_eqb ops x y = val_eqb ops y x.
Proof. exact (C18Proofs.eq_sym_partial ops). Qed.

(* strconv.Quote is injective: distinct strings never share a rendering or a map key *)
Theorem C18_quote_injective : forall a b, quote a = quote b -> a = b.
Proof. exact C18Proofs.quote_injective. Qed.

(* primitives: equal under == exactly when they select the same map entry and render alike *)
Theorem C18_eq_key : forall x y kx ky,
  is_primitive (val_type x) = true -> ty_eqb (val_type x) (val_type y) = true ->
  num_separated (nums_of x) (nums_of y) ->
  times_separated x y = true ->     (* for two instants: equal printed form implies the same instant *)
  key_of ops x = ([], OVal kx) -> key_of ops y = ([], OVal ky) ->
  (val_eqb ops x y = true <-> kx = ky).
Proof. exact (C18Proofs.eq_key_partial ops). Qed.

Theorem C18_eq_key_notime : forall x y kx ky,
  is_primitive (val_type x) = true -> ty_eqb (val_type x) (val_type y) = true ->
  num_separated (nums_of x) (nums_of y) -> val_type x <> TTime ->
  key_of ops x = ([], OVal kx) -> key_of ops y = ([], OVal ky) ->
  (val_eqb ops x y = true <-> kx = ky).
Proof. exact (C18Proofs.eq_key_notime ops). Qed.

(* equal values render to the same text ... *)
Theorem C18_eq_render : forall x y,
  val_ok x = true -> val_ok y = true -> fun_free x = true ->
  maybe_fn_free x = true ->      (* no function type inside the type of an optional (its text shows function names) *)
  num_separated (nums_of x) (nums_of y) ->
  val_eqb ops x y = true -> render ops x = render ops y.
Proof. exact (C18Proofs.eq_render_partial ops). Qed.

(* ... and rendering is canonical: it does not depend on the order in which object fields or map entries were supplied *)
Theorem C18_canonical : forall x y,
  val_ok x = true -> val_ok y = true -> maybe_fn_free x = true -> same_contents x y -> render ops x = render ops y.
Proof. exact (C18Proofs.render_canonical_partial ops). Qed.

(* distinct numbers - however large - never render alike or collide as map keys, given that the two printers
   (integers, shortest floats) are injective and never produce each other's output *)
Theorem C18_big_distinct : forall a b,
  (forall x y, is_int ops x = true -> is_int ops y = true -> to_i64 ops x = to_i64 ops y -> num_eq ops x y = true) ->
  (forall x y, is_int ops x = false -> is_int ops y = false -> fmt_float ops x = fmt_float ops y -> x = y) ->
  (forall x y, is_int ops x = true -> is_int ops y = false -> fmt_Z (to_i64 ops x) <> fmt_float ops y) ->
  num_refl [a; b] ->
  fmt_num ops a = fmt_num ops b -> num_eq ops a b = true.
Proof. exact (C18Proofs.big_distinct ops). Qed.
End C18.

Print Assumptions C18_refl.
Print Assumptions C18_sym.
Print Assumptions C18_quote_injective.
Print Assumptions C18_eq_key.
Print Assumptions C18_eq_key_notime.
Print Assumptions C18_eq_render.
Print Assumptions C18_canonical.
Print Assumptions C18_big_distinct.
