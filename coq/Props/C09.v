(* C09 — tokens partition the input with exact positions and longest-match operators.  Statements only. *)
From Coq Require Import List String Bool NArith.
From Yae Require Import Base.Sexp Gen.Generated Model.Lexer Model.LexSpec Proofs.Tables Proofs.C09Proofs.
Import ListNotations.
Open Scope N_scope.

(* the model's rule list is the one in the source: order and pattern texts of newLexicon (regenerated on every run) *)
Theorem C09_rules_pinned : Generated.lexer_rules = Tables.modelled_lexer_rules.
Proof. exact Tables.lexer_rules_pinned. Qed.
Print Assumptions C09_rules_pinned.

(* tokens appear in source order, do not overlap, are separated only by white space, and idx / end / line / col
   reproduce exactly the token's text *)
Theorem C09_partition : forall ops src ts,
  ops_wf ops = true -> lex ops src = Some ts -> tokens_ok (mkCur 0 0 0) src ts.
Proof. exact C09Proofs.partition. Qed.
Print Assumptions C09_partition.

(* ... where the cursor counts what the property says: runes, newlines, runes since the last newline *)
Theorem C09_cursor : forall l,
  move_over (mkCur 0 0 0) l = mkCur (N.of_nat (len l)) (count_nl l) (since_nl l 0).
Proof. exact C09Proofs.cursor_meaning. Qed.
Print Assumptions C09_cursor.

(* among registered symbolic operators the longest one that matches is chosen *)
Theorem C09_longest : forall ops s k n k',
  ops_wf ops = true -> no_punct_start ops = true ->
  first_match (lexicon ops) s = Some (k, n) ->
  mem_op k ops = true -> is_ident_op k = false ->
  mem_op k' ops = true -> is_ident_op k' = false -> (byte_len k < byte_len k')%nat ->
  strip_prefix k' s = None.
Proof. exact C09Proofs.longest. Qed.
Print Assumptions C09_longest.

(* identifier-like operators and the literals true / false are recognised only as whole words *)
Theorem C09_whole_word : forall ops s k n,
  ops_wf ops = true ->
  first_match (lexicon ops) s = Some (k, n) ->
  is_ident_op k = true -> (mem_op k ops = true \/ k = K_TRUE \/ k = K_FALSE) ->
  n = len k /\ match skipn n s with c :: _ => is_id_char c = false | [] => True end.
Proof. exact C09Proofs.whole_word. Qed.
Print Assumptions C09_whole_word.

(* the built-in '.' and '?' are never split out of a longer operator *)
Theorem C09_prim : forall ops s k n,
  ops_wf ops = true -> mem_op [46] ops = false -> mem_op [63] ops = false ->
  first_match (lexicon ops) s = Some (k, n) -> (k = [46] \/ k = [63]) ->
  n = 1%nat /\ match skipn 1 s with c :: _ => is_oper_char c = false | [] => True end.
Proof. exact C09Proofs.prim_not_split. Qed.
Print Assumptions C09_prim.

(* literal forms are read as a single token (decimal integers, raw strings, time literals) *)
Theorem C09_literal_int : forall ops l rest,
  ops_wf ops = true -> dec_int l = true ->
  match rest with c :: _ => is_digit c = false /\ c <> 46 /\ c <> 101 /\ c <> 69 /\ c <> 98 /\ c <> 120 /\ c <> 111 | [] => True end ->
  first_match (lexicon ops) (l ++ rest) = Some (K_NUM, len l).
Proof. exact C09Proofs.literal_int. Qed.
Print Assumptions C09_literal_int.

Theorem C09_literal_raw : forall ops l rest,
  ops_wf ops = true -> raw_string l -> first_match (lexicon ops) (l ++ rest) = Some (K_STR, len l).
Proof. exact C09Proofs.literal_raw. Qed.
Print Assumptions C09_literal_raw.

Theorem C09_literal_time : forall ops l rest,
  ops_wf ops = true -> time_lit l -> first_match (lexicon ops) (l ++ rest) = Some (K_TIME, len l).
Proof. exact C09Proofs.literal_time. Qed.
Print Assumptions C09_literal_time.

(* anything else is a syntax error: the lexer fails only where no rule matches a non-space rune (never for lack of fuel) *)
Theorem C09_total : forall ops src,
  ops_wf ops = true -> lex ops src = None ->
  exists pre rest, src = (pre ++ rest)%list /\ rest <> [] /\
    match rest with c :: _ => is_space c = false | [] => False end /\ first_match (lexicon ops) rest = None.
Proof. exact C09Proofs.total. Qed.
Print Assumptions C09_total.

Example C09_example :
  exists ts, lex (map fst (map fst builtin_ops)) (runes "a <= 1.5e3 and true") = Some ts /\ len ts = 5%nat /\
             ops_wf (map fst (map fst builtin_ops)) = true /\ no_punct_start (map fst (map fst builtin_ops)) = true.
Proof. vm_compute. eexists; repeat split. Qed.
