(* C02 — accepted programs fail only through documented partial operations (progress).  Statements only. *)
From Coq Require Import List String Bool NArith ZArith.
From Yae Require Import Base.Sexp Model.Ty Gen.Generated Model.Unify Model.Num Model.Lexer Model.Literal Model.Cst Model.Desugar
  Model.Pratt Model.Check Model.CheckSpec Model.Val Model.Render Model.ValSpec Model.Builtins Model.Eval Model.EvalSpec Proofs.C02Proofs.
Import ListNotations.
Local Open Scope string_scope.

Section C02.
Variable ops : numops.
Variable orc : oracles.

(* an accepted expression evaluated in a conforming environment yields a value or one of the documented failures
   (list index outside the list, missing map key, modulo by zero, invalid regular expression, failure raised by a host
   function): never an internal fault (mis-typed access, nil, unreachable branch); running out of fuel is the only
   other outcome of the MODEL, and enough fuel excludes it (next theorem) *)
Theorem C02_progress : forall fe G rho fuel fresh e a T f t k,
  (fe = builtin_fenv \/ fe = fenv_std) ->
  tenv_ok G = true -> env_ok G rho -> fresh_ok fe fresh ->
  check fe G fuel fresh e = COk (a, T) ->
  eval ops orc fe rho f a = (t, OFault k) -> k = XFuel.
Proof. exact (C02Proofs.progress ops orc). Qed.

(* evaluation terminates: some amount of fuel (the depth of the tree plus one) always suffices *)
Theorem C02_terminates : forall fe rho a,
  exists f0, forall f, (f0 <= f)%nat -> forall t, eval ops orc fe rho f a <> (t, OFault XFuel).
Proof. exact (C02Proofs.terminates ops orc). Qed.

(* total library functions never fail: get with a default (list, map, optional), isset, max / min of any list *)
Theorem C02_total_builtins : forall b args,
  In b [BGetList; BGetMap; BGetMaybe; BIsset; BMaxList; BMinList; BLenList; BLenMap; BLenStr; BString; BUnion; BIntersect; BDiff] ->
  forall k t, bsem ops orc b args <> (t, OFail k).
Proof. exact (C02Proofs.total_builtins ops orc). Qed.

(* the failures are exactly where the semantics is undefined: subscript of a list fails iff the truncated index is outside
   [0, length), of a map iff the key is absent, % iff the truncated divisor is zero *)
Theorem C02_mod_fails_iff : forall x y,
  (exists t, bsem ops orc BMod [VNum x; VNum y] = (t, OFail FModZero)) <-> to_i64 ops y = 0%Z.
Proof. exact (C02Proofs.mod_fails_iff ops orc). Qed.
End C02.

Print Assumptions C02_progress.
Print Assumptions C02_terminates.
Print Assumptions C02_total_builtins.
Print Assumptions C02_mod_fails_iff.
