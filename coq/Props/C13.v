(* C13 — evaluation is deterministic, side-effect free and leaves its inputs reusable.  Statements only.
   In a pure model "does not modify the host values" and "no addresses in renderings" hold by construction; those
   clauses are checked on the implementation by the harness (supporting evidence).  What is proved is the logic:
   environment objects are never changed by compile / invoke, every operation of a history gives what it gives on its
   own, only print writes to standard output, rendering does not depend on map iteration order. *)
From Coq Require Import List String Bool NArith ZArith Permutation.
From Yae Require Import Base.Sexp Model.Ty Gen.Generated Model.Unify Model.Num Model.Lexer Model.Literal Model.Cst Model.Check Model.Val Model.Render
  Model.ValSpec Model.Builtins Model.Eval Model.VM Model.Api Model.History Proofs.C13Proofs.
Import ListNotations.

(* Inherit returns a new object and leaves its receiver usable *)
Theorem C13_inherit_pure : forall X (e : envobj X) p e',
  inherit e p = Some e' -> eo_ctx e' = eo_ctx e /\ eo_parent e = None /\ inherit e p = Some e'.
Proof. exact C13Proofs.inherit_pure. Qed.
Print Assumptions C13_inherit_pure.

(* no operation of any history changes an environment object or an existing compiled expression *)
Theorem C13_inputs_unchanged : forall ops orc s hs,
  let s' := fst (hrun ops orc s hs) in
  h_tenvs s' = h_tenvs s /\ h_venvs s' = h_venvs s /\
  exists more, h_compiled s' = (h_compiled s ++ more)%list.
Proof. exact C13Proofs.inputs_unchanged. Qed.
Print Assumptions C13_inputs_unchanged.

(* an invocation's result depends only on the compiled expression and the contents of the environment object: the same
   invocation gives the same result wherever it occurs in a history *)
Theorem C13_invoke_stable : forall ops orc s hs k j,
  (k < len (h_compiled s))%nat ->
  snd (hstep ops orc (fst (hrun ops orc s hs)) (HInvoke k j)) = snd (hstep ops orc s (HInvoke k j)).
Proof. exact C13Proofs.invoke_stable. Qed.
Print Assumptions C13_invoke_stable.

(* a compilation's result depends only on the engine's own registration history (and whether it has been initialised),
   the source and the contents of the environment object *)
Theorem C13_compile_local : forall ops orc s1 s2 i j src,
  nth_error (h_engines s1) i = nth_error (h_engines s2) i ->
  option_map (@eo_ctx ty) (nth_error (h_tenvs s1) j) = option_map (@eo_ctx ty) (nth_error (h_tenvs s2) j) ->
  option_map (@eo_parent ty) (nth_error (h_tenvs s1) j) = option_map (@eo_parent ty) (nth_error (h_tenvs s2) j) ->
  snd (hstep ops orc s1 (HCompile i src j)) = snd (hstep ops orc s2 (HCompile i src j)).
Proof. exact C13Proofs.compile_local. Qed.
Print Assumptions C13_compile_local.

(* initialisation is idempotent: compiling again on an initialised engine does not change its tables *)
Theorem C13_init_idempotent : forall e, engine_init (engine_init e) = engine_init e.
Proof. exact C13Proofs.init_idempotent. Qed.
Print Assumptions C13_init_idempotent.

(* evaluation writes nothing to standard output except through print *)
Theorem C13_stdout_only_print : forall ops orc b args t o,
  b <> BPrint -> bsem ops orc b args = (t, o) -> forall s, ~ In (EvStdout s) t.
Proof. exact C13Proofs.stdout_only_print. Qed.
Print Assumptions C13_stdout_only_print.

(* rendering and string() do not depend on the order in which a map's entries are held *)
Theorem C13_render_perm : forall ops t kvs kvs',
  Permutation kvs kvs' -> nodup_keys (map fst kvs) = true ->
  render ops (VMap t kvs) = render ops (VMap t kvs') /\ stringify ops (VMap t kvs) = stringify ops (VMap t kvs').
Proof. exact C13Proofs.render_perm. Qed.
Print Assumptions C13_render_perm.
