(* C19 — debug evaluation reports the same result and the true intermediate values.  Statements only. *)
From Coq Require Import List String Bool NArith ZArith.
From Yae Require Import Base.Sexp Model.Ty Gen.Generated Model.Num Model.Lexer Model.Literal Model.Cst Model.Check
  Model.Val Model.Render Model.Builtins Model.Eval Model.Debug Proofs.C19Proofs.
Import ListNotations.
Local Open Scope list_scope.

(* debug evaluation returns the same value or failure, with the same host-call trace, as normal evaluation *)
Theorem C19_transparent : forall ops orc fe rho f a t r o,
  deval ops orc fe rho f a = (t, r, o) -> eval ops orc fe rho f a = (t, o).
Proof. exact C19Proofs.transparent. Qed.
Print Assumptions C19_transparent.

(* what is recorded: only identifier, call, subscript and member terms record, each exactly when it has produced a value,
   after its sub-terms (completion order), at its own column + 1; literals and unevaluated lazy operands record nothing *)
Theorem C19_record_literals : forall ops orc fe rho f a t r o,
  (match a with AStr _ | ANum _ _ | ATime _ | ABool _ => True | _ => False end) ->
  deval ops orc fe rho (S f) a = (t, r, o) -> r = [].
Proof. exact C19Proofs.record_literals. Qed.
Print Assumptions C19_record_literals.

Theorem C19_record_ident : forall ops orc fe rho f col name v,
  assoc name rho = Some v ->
  deval ops orc fe rho (S f) (AIdent col name) = ([], [(v, (col + 1)%Z)], OVal v).
Proof. exact C19Proofs.record_ident. Qed.
Print Assumptions C19_record_ident.

(* a member / subscript / call term records its own value last, after everything its sub-terms recorded *)
Theorem C19_record_last : forall ops orc fe rho f a t r v col,
  (match a with
   | AIdent c _ | ACall c _ _ _ _ _ | ASub c _ _ _ | AMember c _ _ _ _ => c = col
   | _ => False end) ->
  deval ops orc fe rho f a = (t, r, OVal v) -> exists r0, r = r0 ++ [(v, (col + 1)%Z)].
Proof. exact C19Proofs.record_last. Qed.
Print Assumptions C19_record_last.

(* a term that does not produce a value records nothing for itself: the record only holds values that were computed *)
Theorem C19_record_if_unselected : forall ops orc fe rho f col key idx fty callee c a b tc rc,
  (exists sg, lookup_fn fe key idx = Some sg /\ sig_is_builtin sg = true /\ s_lazy sg = true /\
              classify (s_name sg) (s_params sg) = Some BIf) -> key <> ""%string ->
  deval ops orc fe rho f c = (tc, rc, OVal (VBool true)) ->
  forall t r o, deval ops orc fe rho (S f) (ACall col key idx fty callee [c; a; b]) = (t, r, o) ->
  exists ta ra oa, deval ops orc fe rho f a = (ta, ra, oa) /\ t = tc ++ ta /\
    r = rc ++ ra ++ (match oa with OVal v => [(v, (col + 1)%Z)] | _ => [] end).
Proof. exact C19Proofs.record_if_unselected. Qed.
Print Assumptions C19_record_if_unselected.

(* the recorder: values and their order are kept; columns only move right; no two entries share a column *)
Theorem C19_rec_all : forall raw,
  map fst (rec_all raw) = map fst raw /\
  Forall2 (fun e e' => (snd e <= snd e')%Z) raw (rec_all raw) /\
  NoDup (map snd (rec_all raw)) /\
  (NoDup (map snd raw) -> rec_all raw = raw).
Proof. exact C19Proofs.rec_all_spec. Qed.
Print Assumptions C19_rec_all.

(* rendering never fails (it is a total function) and keeps the source as its first line *)
Theorem C19_first_line : forall ops src vs,
  ~ In 10%N src -> exists rest, report ops src vs = src ++ 10%N :: rest.
Proof. exact C19Proofs.first_line. Qed.
Print Assumptions C19_first_line.

(* every recorded value is shown: a value whose text is a single line appears, starting at its column, on some line
   below the source *)
Theorem C19_every_value : forall ops src vs v col,
  ~ In 10%N src -> NoDup (map snd vs) -> In (v, col) vs -> (1 <= col)%Z ->
  let txt := runes_of_bytes (render ops v) in
  ~ In 10%N txt -> ~ In 13%N txt -> txt <> [] ->
  exists before line after,
    report ops src vs = before ++ 10%N :: line ++ after /\
    (after = [] \/ hd 0%N after = 10%N) /\ ~ In 10%N line /\
    firstn (len txt) (skipn (Z.to_nat col - 1) line) = txt.
Proof. exact C19Proofs.every_value. Qed.
Print Assumptions C19_every_value.
