(* C11 — emitted bytecode is structurally safe and can only run forward.  Statements only.
   verify / verify_all (Model/Verifier.v): every instruction decodes into a known opcode with operands of the right kind
   and range, every jump targets a later instruction boundary inside the code, each reachable pc has one stack depth,
   never negative, exactly one at the final RETURN; recursively for the bodies of deferred arguments. *)
From Coq Require Import List String Bool NArith ZArith.
From Yae Require Import Base.Sexp Model.Ty Gen.Generated Model.Unify Model.Num Model.Lexer Model.Literal Model.Cst
  Model.Check Model.CheckSpec Model.Val Model.Builtins Model.Eval Model.EvalSpec Model.VM Model.Verifier Proofs.C11Proofs.
Import ListNotations.
Local Open Scope string_scope.

Section C11.
Variable ops : numops.
Variable orc : oracles.

(* opcode numbering: the bytes the model emits decode back to the same instruction (table regenerated from opcode.go) *)
Theorem C11_opcode_table : forallb (fun o => match decode_op (op_byte o) with Some o' => String.eqb (op_name o) (op_name o') | None => false end) all_ops = true
                           /\ List.length opcode_names = List.length all_ops.
Proof. exact C11Proofs.opcode_table. Qed.

(* wide operands: 16-bit operands are emitted big-endian and read back as the same number *)
Theorem C11_wide : forall n st st', emit16 n st = COk st' ->
  exists hi lo, cs_rcode st' = lo :: hi :: cs_rcode st /\ (hi * 256 + lo = n)%N /\ (hi < 256)%N /\ (lo < 256)%N.
Proof. exact C11Proofs.emit16_roundtrip. Qed.

(* every bytecode program the compiler emits for an accepted expression verifies, thunk bodies included *)
Theorem C11_compile_verifies : forall fe G fuel fresh e a T code pool,
  (fe = builtin_fenv \/ fe = fenv_std) ->
  tenv_ok G = true -> fresh_ok fe fresh ->
  check fe G fuel fresh e = COk (a, T) ->
  compile_main ops orc fe a = COk (code, pool) ->
  verify_all code pool = true.
Proof. exact (C11Proofs.compile_verifies ops orc). Qed.

(* consequently: execution of verified code cannot underflow the stack, meet an unknown instruction or run off the end,
   and needs at most one step per emitted instruction (the dispatch loop's own fuel, 4 * (|code| + 1), is never the
   reason to stop: only the outer fuel of nested thunk calls can be) *)
Theorem C11_verified_safe : forall rho pool lim f code t k,
  verify_all code pool = true ->
  vm_run ops orc rho pool lim f code = (t, OFault k) ->
  k <> XUnderflow /\ k <> XOpcode.
Proof. exact (C11Proofs.verified_safe ops orc). Qed.

(* forward only: a jump of verified code targets a strictly later position *)
Theorem C11_forward : forall pool code pc rest dec tgt,
  verify pool code = true ->
  rest = skipn pc code -> decode rest = Some dec -> d_jump dec = Some tgt ->
  (exists f d pend lr, vloop f pool (len code) pc rest d pend lr = true) ->
  (pc < N.to_nat tgt)%nat /\ (N.to_nat tgt < len code)%nat.
Proof. exact C11Proofs.jumps_forward. Qed.
End C11.

Print Assumptions C11_opcode_table.
Print Assumptions C11_wide.
Print Assumptions C11_compile_verifies.
Print Assumptions C11_verified_safe.
Print Assumptions C11_forward.
