(* C17 — unification and type equality are sound.  Statements only; proofs live in Proofs/C17Proofs.v. *)
From Coq Require Import List String Bool.
From Yae Require Import Base.Sexp Model.Ty Model.Unify Model.TySpec Model.TySpec2 Proofs.C17Proofs Proofs.C17TwoSided.
Import ListNotations.

(* Type equality is an equivalence relation on well-formed types (distinct field names, keyable map keys) ... *)
Theorem C17_eq_refl : forall t, wf_ty t = true -> ty_eqb t t = true.
Proof. exact C17Proofs.eq_refl. Qed.
Print Assumptions C17_eq_refl.

Theorem C17_eq_sym : forall x y, wf_ty x = true -> wf_ty y = true -> ty_eqb x y = ty_eqb y x.
Proof. exact C17Proofs.eq_sym. Qed.
Print Assumptions C17_eq_sym.

Theorem C17_eq_trans : forall x y z, wf_ty x = true -> wf_ty y = true -> wf_ty z = true ->
  ty_eqb x y = true -> ty_eqb y z = true -> ty_eqb x z = true.
Proof. exact C17Proofs.eq_trans. Qed.
Print Assumptions C17_eq_trans.

(* ... that holds exactly for structurally identical types, object fields compared by name
   (norm sorts the fields by name and erases function names, which calls are resolved by before types are compared) *)
Theorem C17_eq_structural : forall x y, wf_ty x = true -> wf_ty y = true ->
  (ty_eqb x y = true <-> norm x = norm y).
Proof. exact C17Proofs.eq_structural. Qed.
Print Assumptions C17_eq_structural.

(* Matching a pattern against a variable-free type (how the checker instantiates polymorphic signatures):
   success yields an instantiation ... *)
Theorem C17_match_sound : forall fa f x y m r m',
  pat_ok x = true -> pat_ok y = true -> wf_ty x = true -> wf_ty y = true ->
  slot_free y = true -> ground_subst m = true ->
  forallb (fun kv => wf_ty (snd kv)) m = true ->      (* bindings are well-formed types, as types.Obj/Map enforce *)
  unify fa f x y m = Ok (r, m') ->
  ground_subst m' = true /\ extends m m' /\ no_self_binding m' /\ inst m' x y = true.
Proof. exact C17Proofs.match_sound_partial. Qed.
Print Assumptions C17_match_sound.

(* ... and it succeeds exactly when one exists (given enough fuel: the model's bound on Go's recursion) *)
Theorem C17_match_complete : forall fa f x y m,
  pat_ok x = true -> pat_ok y = true -> wf_ty x = true -> wf_ty y = true ->
  slot_free y = true -> ground_subst m = true ->
  ty_size x + ty_size y < fa -> ty_size x + ty_size y < f ->
  (exists s, ground_subst s = true /\ forallb (fun kv => wf_ty (snd kv)) s = true /\ extends m s /\ inst s x y = true) ->
  exists r m', unify fa f x y m = Ok (r, m').
Proof. exact C17Proofs.match_complete_partial. Qed.
Print Assumptions C17_match_complete.

(* the empty-container element type unifies only where the rules allow it: a variable already bound to a
   non-bottom type does not accept bottom, and bottom on the left accepts nothing but bottom *)
Theorem C17_bot_left : forall fa f y m r m',
  slot_free y = true -> unify fa (S f) TBot y m = Ok (r, m') -> y = TBot.
Proof. exact C17Proofs.bot_left. Qed.
Print Assumptions C17_bot_left.

(* Variables on BOTH sides ("whenever unification of two types succeeds, applying the resulting substitution to both makes
   them equal and no variable is bound to a type containing itself or to two different types"): the substitution stays
   acyclic, old bindings are kept, and wherever it can be applied to both types the results are equal. *)
Theorem C17_unify_sound : forall fa f x y m r m',
  two_ok x = true -> two_ok y = true -> binds_ok m = true -> acyclic m ->
  unify fa f x y m = Ok (r, m') ->
  acyclic m' /\ binds_ok m' = true /\ extends m m' /\ unifies m' x y.
Proof. exact C17TwoSided.unify_sound_two_sided. Qed.
Print Assumptions C17_unify_sound.

(* "wherever it can be applied" is a real restriction (known finding, KNOWN_FINDINGS: unify-binds-map-key-variable-to-
   unkeyable-type): two-sided unification can bind a variable that occurs in map-key position to a composite type, and
   the result then cannot be applied (types.Map panics on a key that is not keyable) *)
Example C17_unappliable_witness :
  let x := TTuple [TVar "a"; TMap (TVar "a") (TVar "a")] in
  let y := TTuple [TMap (TVar "b") TNum; TMap (TVar "a") (TVar "a")] in
  two_ok x = true /\ two_ok y = true /\
  exists r m', unify 100 100 x y [] = Ok (r, m') /\ apply_subst 100 m' x = Panic.
Proof.
  cbv zeta. split; [vm_compute; reflexivity|]. split; [vm_compute; reflexivity|].
  do 2 eexists. split; [vm_compute; reflexivity | vm_compute; reflexivity].
Qed.

(* non-vacuity: the hypotheses are satisfiable and the functions compute *)
Example C17_example :
  let p := TTuple [TList (TVar "a"); TObj [("x", TVar "a"); ("y", TVar "b")]; TMap (TVar "k") (TList (TVar "c"))] in
  let g := TTuple [TList TNum; TObj [("y", TStr); ("x", TNum)]; TMap TBot TBot] in
  pat_ok p = true /\ wf_ty p = true /\ slot_free g = true /\
  exists r m', unify 100 100 p g [] = Ok (r, m') /\ inst m' p g = true.
Proof. vm_compute. repeat split; eauto. Qed.
