(* C05 — the type checker accepts exactly the well-typed programs and infers their type.  Statements only. *)
From Coq Require Import List String Bool NArith ZArith.
From Yae Require Import Base.Sexp Model.Ty Gen.Generated Model.Unify Model.TySpec Model.Lexer Model.Literal Model.Cst
  Model.Desugar Model.Pratt Model.Check Model.CheckSpec Proofs.C05Proofs.
Import ListNotations.
Local Open Scope string_scope.

(* the built-in table (regenerated from fun.BuiltIn() on every run) satisfies the table hypotheses *)
Theorem C05_builtin_table_ok : fenv_ok builtin_fenv = true.
Proof. exact C05Proofs.builtin_table_ok. Qed.
Print Assumptions C05_builtin_table_ok.

(* compilation succeeds only for well-typed expressions, and the inferred type is the one the rules assign *)
Theorem C05_sound : forall fe G fuel fresh e a T,
  fenv_ok fe = true -> tenv_ok G = true -> fresh_ok fe fresh ->
  check fe G fuel fresh e = COk (a, T) -> has_type fe G e T.
Proof. exact C05Proofs.check_sound. Qed.
Print Assumptions C05_sound.

(* every well-typed expression is accepted (given enough fuel for the unifier: the model's bound on Go's recursion),
   with the type the rules assign, up to the order of object fields *)
Theorem C05_complete : forall fe G fresh e T',
  fenv_ok fe = true -> tenv_ok G = true -> fresh_ok fe fresh ->
  has_type fe G e T' ->
  exists fuel0, forall fuel, (fuel0 <= fuel)%nat ->
    exists a T, check fe G fuel fresh e = COk (a, T) /\ ty_eqb T T' = true.
Proof. exact C05Proofs.check_complete. Qed.
Print Assumptions C05_complete.

(* ill-typed expressions are rejected at compile time *)
Theorem C05_ill_typed_rejected : forall fe G fuel fresh e,
  fenv_ok fe = true -> tenv_ok G = true -> fresh_ok fe fresh ->
  (forall T, ~ has_type fe G e T) -> forall a T, check fe G fuel fresh e <> COk (a, T).
Proof. exact C05Proofs.ill_typed_rejected. Qed.
Print Assumptions C05_ill_typed_rejected.

(* the inferred type is variable-free and well formed *)
Theorem C05_inferred_ok : forall fe G fuel fresh e a T,
  fenv_ok fe = true -> tenv_ok G = true -> fresh_ok fe fresh ->
  check fe G fuel fresh e = COk (a, T) -> slot_free T = true /\ wf_ty T = true.
Proof. exact C05Proofs.inferred_ok. Qed.
Print Assumptions C05_inferred_ok.

(* registration: the last monomorphic registration with an equal key wins; polymorphic ones keep registration order *)
Theorem C05_register_mono : forall fe sg,
  slot_free (sig_ty sg) = true ->
  assoc (mono_key (s_name sg) (s_params sg)) (f_mono (register fe sg)) = Some sg /\ f_poly (register fe sg) = f_poly fe.
Proof. exact C05Proofs.register_mono. Qed.
Print Assumptions C05_register_mono.

Theorem C05_register_poly : forall fe sg,
  slot_free (sig_ty sg) = false ->
  exists old, (assoc (poly_key (s_name sg) (List.length (s_params sg))) (f_poly fe) = Some old \/
               (assoc (poly_key (s_name sg) (List.length (s_params sg))) (f_poly fe) = None /\ old = [])) /\
  assoc (poly_key (s_name sg) (List.length (s_params sg))) (f_poly (register fe sg)) = Some (old ++ [sg])%list /\
  f_mono (register fe sg) = f_mono fe.
Proof. exact C05Proofs.register_poly. Qed.
Print Assumptions C05_register_poly.

(* non-vacuity: a program with a literal list, an object, a member, a subscript, an overloaded operator and a
   polymorphic call type-checks against the built-in table *)
Example C05_example :
  let G := [("xs", TList TNum); ("o", TObj [("p", TNum); ("q", TStr)])] in
  let ops := map (fun x => mkOp (fst (fst x)) (snd (fst x)) (snd x)) builtin_ops in
  tenv_ok G = true /\
  exists e d a, parse_source ops (runes "get(xs, 0, o.p) + [1, 2][0] + len([{a: 1}])") = POk e /\
                desugar e = Some d /\ check builtin_fenv G 200 1000000000 d = COk (a, TNum).
Proof.
  cbv zeta. split; [vm_compute; reflexivity|].
  do 3 eexists. split; [vm_compute; reflexivity|]. split; [vm_compute; reflexivity|]. vm_compute; reflexivity.
Qed.
