(* C16 — optional values can only be consumed through a default (null safety).  Statements only. *)
From Coq Require Import List String Bool NArith ZArith.
From Yae Require Import Base.Sexp Model.Ty Gen.Generated Model.Unify Model.TySpec Model.Num Model.Lexer Model.Literal Model.Cst
  Model.Check Model.CheckSpec Model.Val Model.Builtins Model.Eval Model.EvalSpec Proofs.C16Proofs.
Import ListNotations.
Local Open Scope string_scope.

Fixpoint mentions_maybe (t : ty) : bool :=
  match t with
  | TMaybe _ => true
  | TList e => mentions_maybe e
  | TMap k v => mentions_maybe k || mentions_maybe v
  | TTuple l => existsb mentions_maybe l
  | TObj fs => existsb (fun f => mentions_maybe (snd f)) fs
  | TFun _ ps r => existsb mentions_maybe ps || mentions_maybe r
  | _ => false
  end.

(* over the built-in table (regenerated from fun.BuiltIn()): the only signature with an optional among its parameters is
   get(maybe[a], a) *)
Theorem C16_sole_eliminator :
  forallb (fun row => let '(n, ps, r, lz) := row in
                      negb (existsb mentions_maybe ps) || (String.eqb n "get" && String.eqb (shapes ps) "yv"))
          builtin_sigs = true.
Proof. exact C16Proofs.sole_eliminator. Qed.
Print Assumptions C16_sole_eliminator.

(* no coercion: an argument of optional type is only accepted by a parameter that is a type variable or itself an
   optional pattern — never where a concrete underlying type is required *)
Theorem C16_no_coercion : forall s params ret args rt i U p,
  instantiates s params ret args rt ->
  nth_error args i = Some (TMaybe U) -> nth_error params i = Some p ->
  (exists n, p = TVar n) \/ (exists q, p = TMaybe q).
Proof. exact C16Proofs.no_coercion. Qed.
Print Assumptions C16_no_coercion.

(* field and index access do not accept an optional: every such program is ill-typed, hence rejected at compile time (C05) *)
Theorem C16_member_rejected : forall fe G fresh p col o fname fpos U T,
  fenv_ok fe = true -> tenv_ok G = true -> fresh_ok fe fresh ->
  has_type fe G o (TMaybe U) -> ~ has_type fe G (EMember p col o fname fpos) T.
Proof. exact C16Proofs.member_rejected. Qed.
Print Assumptions C16_member_rejected.

Theorem C16_subscript_rejected : forall fe G fresh p col o i U T,
  fenv_ok fe = true -> tenv_ok G = true -> fresh_ok fe fresh ->
  has_type fe G o (TMaybe U) -> ~ has_type fe G (ESub p col o i) T.
Proof. exact C16Proofs.subscript_rejected. Qed.
Print Assumptions C16_subscript_rejected.

(* the only way to use it: get(optional, default) yields the payload when present and the default otherwise *)
Theorem C16_get : forall ops orc t v d,
  bsem ops orc BGetMaybe [VMaybe t (Some v); d] = ret v /\ bsem ops orc BGetMaybe [VMaybe t None; d] = ret d.
Proof. exact C16Proofs.get_maybe. Qed.
Print Assumptions C16_get.
