(* C07 — a compiled expression never runs on an environment of mismatching types.  Statements only.
   Model/Api.v: the Callable = envCheck then run (under the Callable's recover). *)
From Coq Require Import List String Bool NArith ZArith Permutation.
From Yae Require Import Base.Sexp Model.Ty Gen.Generated Model.Unify Model.Num Model.Lexer Model.Cst Model.Check Model.Val Model.Render Model.ValSpec
  Model.Builtins Model.Eval Model.VM Model.Api Model.Conv Model.ConvSpec Proofs.C07Proofs.
Import ListNotations.

(* a name known at compile time that is missing at run time, or bound to a value of a different type: an error, and
   nothing is evaluated (empty trace: no host function was called, nothing printed) *)
Theorem C07_reject : forall ops orc te code pool rho n t,
  In (n, t) te ->
  (assoc n rho = None \/ exists v, assoc n rho = Some v /\ ty_eqb t (val_type v) = false) ->
  api_call ops orc te code pool rho = (AErr, []).
Proof. exact C07Proofs.reject. Qed.
Print Assumptions C07_reject.

(* every compile-time name bound with an equal type (extra names allowed): accepted, and the expression is evaluated *)
Theorem C07_accept : forall ops orc te code pool rho,
  (forall n t, In (n, t) te -> exists v, assoc n rho = Some v /\ ty_eqb t (val_type v) = true) ->
  api_call ops orc te code pool rho =
    (let '(t, o) := vm_run ops orc rho pool None 5000 code in
     (guarded "facade.go:makeCallable.func defers e.backStrace" (match o with OVal v => Some v | _ => None end), t)).
Proof. exact C07Proofs.accept. Qed.
Print Assumptions C07_accept.

(* "equal types" ignores the order of object fields: host data of a differently declared but equally shaped Go struct
   (fields permuted) is accepted *)
Theorem C07_field_order : forall fs fs',
  Permutation fs fs' -> wf_ty (TObj fs) = true -> ty_eqb (TObj fs) (TObj fs') = true.
Proof. exact C07Proofs.field_order. Qed.
Print Assumptions C07_field_order.

(* an expression compiled against one sample of a Go struct type accepts every other value of that type
   (no interface-typed parts; nil-able parts non-nil or declared optional) *)
Theorem C07_same_go_type : forall ops t v1 v2 te rho,
  iface_free t = true -> shape_stable conv_fuel t v1 false = true -> shape_stable conv_fuel t v2 false = true ->
  (match t with GStruct _ => True | _ => False end) ->
  TypeEnvOf ops t v1 = Some te -> ValEnvOf ops t v2 = Some rho ->
  env_check te rho = true.
Proof. exact C07Proofs.same_go_type. Qed.
Print Assumptions C07_same_go_type.
