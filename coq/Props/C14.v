(* C14 — compiled expressions and independent engines are safe for concurrent use.  Statements only.
   PARTIAL by nature: what is proved is the protocol each operation follows on the inventoried shared state, for every
   schedule.  The Go memory model, the scheduler and races in code paths outside the inventory are run-time behaviour
   the model cannot exhibit: the race detector under a stress harness (harness/cmd/racer) searches for those. *)
From Coq Require Import List String Bool NArith ZArith.
From Yae Require Import Base.Sexp Model.Ty Gen.Generated Model.Unify Model.Lexer Model.Cst Model.Check Model.CheckSpec Model.Conc
  Proofs.Tables Proofs.C14Proofs.
Import ListNotations.

(* closed world: the package-level mutable state written outside init is exactly the modelled set
   (regenerated from the source on every run; a new global or a changed write site breaks this) *)
Theorem C14_inventory : Generated.shared_state = Conc.modelled_shared_state.
Proof. exact Tables.shared_state_inventory. Qed.
Print Assumptions C14_inventory.

(* no two concurrent public operations have conflicting unsynchronised accesses: compilations on separate (or
   initialised) engines, invocations of one compiled expression, and any mix of them *)
Theorem C14_race_free :
  race_free compile_accesses compile_accesses = true /\
  race_free compile_accesses invoke_accesses = true /\
  race_free invoke_accesses invoke_accesses = true.
Proof. exact C14Proofs.race_free_ops. Qed.
Print Assumptions C14_race_free.

(* the fresh-name counter: under every schedule all numbers drawn are distinct (and above the starting value) *)
Theorem C14_fresh_unique : forall sched n,
  NoDup (map snd (run_atomic sched n)) /\ Forall (fun x => (n < snd x)%Z) (run_atomic sched n).
Proof. exact C14Proofs.fresh_unique. Qed.
Print Assumptions C14_fresh_unique.

(* ... which the counter as it stood before the repair (n++ as a plain read and write) did not guarantee: a three-step
   schedule hands the same number to two compilations.  FIXED in /repo (KNOWN_FINDINGS: C14 counter). *)
Theorem C14_plain_counter_refuted : exists sched,
  let out := run_plain sched 0 [] [] in ~ NoDup (map snd out).
Proof. exact C14Proofs.plain_counter_refuted. Qed.
Print Assumptions C14_plain_counter_refuted.

(* every compilation has the outcome it has when run alone: the inferred type does not depend on where the counter
   stands, as long as the drawn names are fresh for the signatures involved *)
Theorem C14_outcome : forall fe G fuel fresh1 fresh2 e a1 T1 a2 T2,
  fenv_ok fe = true -> tenv_ok G = true -> fresh_ok fe fresh1 -> fresh_ok fe fresh2 ->
  check fe G fuel fresh1 e = COk (a1, T1) -> check fe G fuel fresh2 e = COk (a2, T2) -> ty_eqb T1 T2 = true.
Proof. exact C14Proofs.outcome_independent. Qed.
Print Assumptions C14_outcome.
