(* C06 — lazy operands run only when selected; strict operands run once, left to right.  Statements only.
   All statements are about the event-trace semantics Model/Eval.v, which the correspondence check ties to the closure
   compiler and the interpreter (and C03 to the VM): host-function invocations are the events. *)
From Coq Require Import List String Bool NArith ZArith.
From Yae Require Import Base.Sexp Model.Ty Gen.Generated Model.Num Model.Lexer Model.Literal Model.Cst Model.Check
  Model.Val Model.Render Model.Builtins Model.Eval Model.EvalSpec Proofs.C06Proofs.
Import ListNotations.
Local Open Scope string_scope.
Local Open Scope list_scope.

Section C06.
Variable ops : numops.
Variable orc : oracles.
Variable fe : fenv.
Variable rho : venv.

Notation ev := (eval ops orc fe rho).

(* a static call resolved to the built-in conditional / conjunction / disjunction *)
Definition resolves_to (key : string) (idx : Z) (b : bfun) : Prop :=
  exists sg, lookup_fn fe key idx = Some sg /\ sig_is_builtin sg = true /\ s_lazy sg = true /\
             classify (s_name sg) (s_params sg) = Some b.

(* if(c, a, b): the condition runs once, then only the selected operand; the other contributes no event and no failure *)
Theorem C06_if : forall f col key idx fty callee c a b tc cv,
  resolves_to key idx BIf -> key <> "" ->
  ev f c = (tc, OVal (VBool cv)) ->
  ev (S f) (ACall col key idx fty callee [c; a; b]) =
    (let '(t, o) := ev f (if cv then a else b) in (tc ++ t, o)).
Proof. exact (C06Proofs.eval_if ops orc fe rho). Qed.

(* a failing or diverging condition is the outcome of the whole conditional *)
Theorem C06_if_cond_fails : forall f col key idx fty callee c a b tc o,
  resolves_to key idx BIf -> key <> "" ->
  ev f c = (tc, o) -> (forall v, o <> OVal v) ->
  exists o', ev (S f) (ACall col key idx fty callee [c; a; b]) = (tc, o') /\ (forall v, o' <> OVal v).
Proof. exact (C06Proofs.eval_if_cond_fails ops orc fe rho). Qed.

(* a && b: b runs only when a is true;  a || b: b runs only when a is false *)
Theorem C06_and : forall f col key idx fty callee a b ta av,
  resolves_to key idx BAnd -> key <> "" ->
  ev f a = (ta, OVal (VBool av)) ->
  ev (S f) (ACall col key idx fty callee [a; b]) =
    (if av then (let '(t, o) := ev f b in
                 (ta ++ t, match o with OVal (VBool bv) => OVal (VBool bv) | OVal _ => OFault XTypeConf | x => x end))
     else (ta, OVal (VBool false))).
Proof. exact (C06Proofs.eval_and ops orc fe rho). Qed.

Theorem C06_or : forall f col key idx fty callee a b ta av,
  resolves_to key idx BOr -> key <> "" ->
  ev f a = (ta, OVal (VBool av)) ->
  ev (S f) (ACall col key idx fty callee [a; b]) =
    (if av then (ta, OVal (VBool true))
     else (let '(t, o) := ev f b in
           (ta ++ t, match o with OVal (VBool bv) => OVal (VBool bv) | OVal _ => OFault XTypeConf | x => x end))).
Proof. exact (C06Proofs.eval_or ops orc fe rho). Qed.

(* strict operands: call arguments, list elements, map entries (key then value), object fields are evaluated once each,
   in source order: the trace is the concatenation of the operands' traces up to the first one that does not yield a
   value, whose outcome is the outcome of the whole *)
Fixpoint seq_traces (ms : list (M val)) : list event * option (outcome val) :=
  match ms with
  | [] => ([], None)
  | (t, OVal _) :: r => let '(t', o) := seq_traces r in (t ++ t', o)
  | (t, o) :: _ => (t, Some o)
  end.

Theorem C06_list_order : forall f t es,
  es <> [] ->
  let '(tr, stop) := seq_traces (map (ev f) es) in
  tr_of (ev (S f) (AList t es)) = tr /\
  match stop with
  | Some o => (forall v, out_of (ev (S f) (AList t es)) <> OVal v) /\ is_fault (out_of (ev (S f) (AList t es))) = is_fault o
  | None => exists vs, out_of (ev (S f) (AList t es)) = OVal (VList t vs) /\ Forall2 (fun e v => out_of (ev f e) = OVal v) es vs
  end.
Proof. exact (C06Proofs.eval_list_order ops orc fe rho). Qed.

Theorem C06_obj_order : forall f t fs,
  fs <> [] ->
  let '(tr, stop) := seq_traces (map (fun nf => ev f (snd nf)) fs) in
  tr_of (ev (S f) (AObj t fs)) = tr /\
  match stop with
  | Some o => (forall v, out_of (ev (S f) (AObj t fs)) <> OVal v)
  | None => exists vs, out_of (ev (S f) (AObj t fs)) = OVal (VObj t vs) /\ Forall2 (fun nf v => out_of (ev f (snd nf)) = OVal v) fs vs
  end.
Proof. exact (C06Proofs.eval_obj_order ops orc fe rho). Qed.

(* arguments of a strict call: all of them, left to right, before the function runs *)
Theorem C06_strict_call_order : forall f col key idx fty callee args sg,
  key <> "" -> lookup_fn fe key idx = Some sg -> s_lazy sg = false ->
  let '(tr, stop) := seq_traces (map (ev f) args) in
  match stop with
  | Some o => tr_of (ev (S f) (ACall col key idx fty callee args)) = tr /\
              (forall v, out_of (ev (S f) (ACall col key idx fty callee args)) <> OVal v)
  | None => exists vs, Forall2 (fun e v => out_of (ev f e) = OVal v) args vs /\
              ev (S f) (ACall col key idx fty callee args) =
              (let '(t, o) := apply_strict ops orc sg vs in (tr ++ t, o))
  end.
Proof. exact (C06Proofs.eval_strict_call_order ops orc fe rho). Qed.

(* a user-registered lazy function receives thunks: each call of a thunk contributes exactly one copy of its operand's
   trace (shown for the library's lazyif, whose body calls the condition thunk and then one branch thunk) *)
Theorem C06_user_lazy : forall f col key idx fty callee c a b sg tc cv,
  key <> "" -> lookup_fn fe key idx = Some sg -> s_lazy sg = true -> sig_is_builtin sg = false -> s_name sg = "lazyif" ->
  ev f c = (tc, OVal (VBool cv)) ->
  ev (S f) (ACall col key idx fty callee [c; a; b]) =
    (let '(t, o) := ev f (if cv then a else b) in (EvHost "lazyif" [] :: tc ++ t, o)).
Proof. exact (C06Proofs.eval_user_lazy ops orc fe rho). Qed.
End C06.

Print Assumptions C06_if.
Print Assumptions C06_if_cond_fails.
Print Assumptions C06_and.
Print Assumptions C06_or.
Print Assumptions C06_list_order.
Print Assumptions C06_obj_order.
Print Assumptions C06_strict_call_order.
Print Assumptions C06_user_lazy.
