(* C10 — syntactic sugar means exactly the call it stands for.  Statements only. *)
From Coq Require Import List String Bool NArith ZArith.
From Yae Require Import Base.Sexp Model.Lexer Model.Cst Model.Desugar Model.DesugarSpec Proofs.C10Proofs.
Import ListNotations.

(* after desugaring a tree contains only core forms *)
Theorem C10_core_only : forall e d, desugar e = Some d -> core_only d = true.
Proof. exact C10Proofs.desugar_core. Qed.
Print Assumptions C10_core_only.

(* x op y, op x, c ? a : b, o.f(args), (e) become exactly op(x,y), op(x), if(c,a,b), f(o,args...), e:
   receiver first, arguments in source order, the operator's column kept for debugging *)
Theorem C10_shape_binary : forall p n np fx l r l' r',
  desugar l = Some l' -> desugar r = Some r' ->
  desugar (EBinary p n np fx l r) = Some (ECall p (p_col np) (EIdent np n) [l'; r']).
Proof. exact C10Proofs.shape_binary. Qed.
Print Assumptions C10_shape_binary.

Theorem C10_shape_unary : forall p n np x pre x',
  desugar x = Some x' -> desugar (EUnary p n np x pre) = Some (ECall p (p_col np) (EIdent np n) [x']).
Proof. exact C10Proofs.shape_unary. Qed.
Print Assumptions C10_shape_unary.

Theorem C10_shape_ternary : forall p np c a b c' a' b',
  desugar c = Some c' -> desugar a = Some a' -> desugar b = Some b' ->
  desugar (ETernary p [63%N] np c a b) = Some (ECall p (p_col np) (EIdent np IF_NAME) [c'; a'; b']).
Proof. exact C10Proofs.shape_ternary. Qed.
Print Assumptions C10_shape_ternary.

Theorem C10_shape_method : forall p col pm cm o f fp args o' args',
  desugar o = Some o' -> mapM desugar args = Some args' ->
  desugar (ECall p col (EMember pm cm o f fp) args) = Some (ECall p col (EIdent fp f) (o' :: args')).
Proof. exact C10Proofs.shape_method. Qed.
Print Assumptions C10_shape_method.

Theorem C10_shape_group : forall p e, desugar (EGroup p e) = desugar e.
Proof. exact C10Proofs.shape_group. Qed.
Print Assumptions C10_shape_group.

(* desugaring depends on positions only through the positions it copies: erasing commutes *)
Theorem C10_erase_commutes : forall e d, desugar e = Some d -> desugar (erase e) = Some (erase d).
Proof. exact C10Proofs.erase_commutes. Qed.
Print Assumptions C10_erase_commutes.

(* desugaring again changes nothing -- for trees without a member node used as callee ... *)
Theorem C10_idempotent_partial : forall d, core_only d = true -> no_member_callee d = true -> desugar d = Some d.
Proof. exact C10Proofs.idempotent_partial. Qed.
Print Assumptions C10_idempotent_partial.

(* ... and is refuted in general: (o.f)(1) desugars to the call of the field value o.f, which a second pass turns
   into the method call f(o, 1).  KNOWN FINDING (KNOWN_FINDINGS: not-idempotent-member-callee). *)
Theorem C10_idempotent_refuted : exists e d d2,
  desugar e = Some d /\ desugar d = Some d2 /\ d2 <> d.
Proof. exact C10Proofs.idempotent_refuted. Qed.
Print Assumptions C10_idempotent_refuted.
