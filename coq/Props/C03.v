(* C03 — all execution back ends are observationally equivalent.  Statements only.
   Model/Eval.v is the reference semantics and the model of the closure compiler and of the AST interpreter (tied to both
   by the correspondence check); Model/VM.v is the bytecode compiler and the two dispatch loops at byte level. *)
From Coq Require Import List String Bool NArith ZArith.
From Yae Require Import Base.Sexp Model.Ty Gen.Generated Model.Unify Model.Num Model.Lexer Model.Literal Model.Cst
  Model.Check Model.CheckSpec Model.Val Model.Render Model.ValSpec Model.Builtins Model.Eval Model.EvalSpec Model.VM Proofs.C03Proofs.
Import ListNotations.
Local Open Scope string_scope.

Section C03.
Variable ops : numops.
Variable orc : oracles.

(* each intrinsic opcode computes what the built-in it replaces computes, and each jump scheme stands for the lazy
   built-in it replaces (finite check over the regenerated tables of vm/intrinsic.go) *)
Theorem C03_intrinsics_agree :
  forallb (fun row => let '(name, ps, opn) := row in
             match find (fun o => String.eqb (op_name o) opn) all_ops, classify name ps with
             | Some o, Some b => match intrinsic_sem o with
                                 | Some (b', k) => bfun_beq b b' && Nat.eqb k (List.length ps)
                                 | None => false end
             | _, _ => false
             end) intrinsics_cbv = true /\
  forallb (fun row => match classify (fst row) (snd row) with
                      | Some BIf | Some BAnd | Some BOr | Some BNot => true
                      | _ => false end) intrinsics_cbn = true.
Proof. exact C03Proofs.intrinsics_agree. Qed.

(* the bytecode VM computes what the reference evaluator computes: same value or same documented failure, and the same
   ordered trace of host-function invocations.  (An internal fault of the reference evaluator is excluded: C02 shows it
   does not happen for accepted programs.) *)
Theorem C03_vm_correct : forall fe G rho fuel fresh e a T code pool f t o,
  (fe = builtin_fenv \/ fe = fenv_std) ->
  tenv_ok G = true -> env_ok G rho -> fresh_ok fe fresh ->
  check fe G fuel fresh e = COk (a, T) ->
  compile_main ops orc fe a = COk (code, pool) ->
  eval ops orc fe rho f a = (t, o) -> is_fault o = false ->
  exists g0, forall g, (g0 <= g)%nat -> vm_run ops orc rho pool None g code = (t, o).
Proof. exact (C03Proofs.vm_correct ops orc). Qed.

(* the only way the VM differs is a compile-time refusal for capacity *)
Theorem C03_only_refusal : forall fe a,
  compile_main ops orc fe a = CErr \/ compile_main ops orc fe a = CFuel \/ exists code pool, compile_main ops orc fe a = COk (code, pool).
Proof. exact (C03Proofs.only_refusal ops orc). Qed.

(* the call-threaded loop runs the same handlers: it agrees with the switch loop whenever it does not hit its
   per-invocation instruction limit (KNOWN FINDING: the limit itself, KNOWN_FINDINGS callthread-exec-limit) *)
Theorem C03_callthread : forall rho pool lim g code t o,
  vm_run ops orc rho pool (Some lim) g code = (t, o) -> o <> OFault XLimit ->
  vm_run ops orc rho pool None g code = (t, o).
Proof. exact (C03Proofs.callthread_agrees ops orc). Qed.
End C03.

Print Assumptions C03_intrinsics_agree.
Print Assumptions C03_vm_correct.
Print Assumptions C03_only_refusal.
Print Assumptions C03_callthread.
