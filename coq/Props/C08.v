(* C08 — parsing honours precedence, associativity and fixity for any operator table.  Statements only. *)
From Coq Require Import List String Bool NArith ZArith Sorted.
From Yae Require Import Base.Sexp Model.Lexer Model.Literal Model.Cst Model.Pratt Model.PrattSpec Proofs.C08Proofs.
Import ListNotations.
Local Open Scope Z_scope.

(* operator tokens carry their own name as lexeme (what the lexer produces: kind = lexeme = the operator text) *)
Definition op_lexemes (ts : list token) : Prop :=
  Forall (fun t => existsb (list_eqb (t_kind t)) fixed_kinds = true \/ t_lexeme t = t_kind t) ts.

(* the parser is total: the fuel of the model always suffices *)
Theorem C08_no_fuel : forall ops ts, table_ok ops = true -> parse_tokens ops ts <> PFuel.
Proof. exact C08Proofs.no_fuel_table_ok. Qed.
Print Assumptions C08_no_fuel.

(* an accepted tree yields exactly the token string it was parsed from, and every node records the source span that
   exactly covers its tokens (first token's idx/line/col, last token's end) *)
Theorem C08_yields : forall ops ts e,
  table_ok ops = true -> no_eof ts = true ->
  parse_tokens ops ts = POk e -> yields (new_grammar ops) e ts.
Proof. exact C08Proofs.parse_yields. Qed.
Print Assumptions C08_yields.

Theorem C08_spans : forall g e ts,
  yields g e ts -> ts <> [] /\ expr_pos e = span (tok_pos (hd eof_tok ts)) (tok_pos (last ts eof_tok)).
Proof. exact C08Proofs.yields_span. Qed.
Print Assumptions C08_spans.

(* an operator declared non-associative is never chained with itself without parentheses *)
Theorem C08_nonassoc : forall ops ts e,
  parse_tokens ops ts = POk e -> no_nonassoc_chain e = true.
Proof. exact C08Proofs.parse_nonassoc. Qed.
Print Assumptions C08_nonassoc.

(* the accepted tree is the one the declarations dictate ... *)
Theorem C08_sound : forall ops ts e,
  table_ok ops = true -> no_eof ts = true -> op_lexemes ts ->
  parse_tokens ops ts = POk e -> wfp (new_grammar ops) 0 e = true.
Proof. exact C08Proofs.parse_wfp. Qed.
Print Assumptions C08_sound.

(* ... and every such tree is accepted: the parser returns exactly the well-formed tree yielding the token string;
   anything else is a syntax error *)
(* tokens come in source order (what the lexer produces, C09_partition): pos.Range asserts it *)
Definition idx_sorted (ts : list token) : Prop := StronglySorted (fun a b => (t_idx a <= t_idx b)%N) ts.

Theorem C08_complete : forall ops ts e,
  table_ok ops = true -> no_eof ts = true -> op_lexemes ts -> idx_sorted ts ->
  yields (new_grammar ops) e ts -> wfp (new_grammar ops) 0 e = true ->
  parse_tokens ops ts = POk e.
Proof. exact C08Proofs.parse_complete_partial. Qed.
Print Assumptions C08_complete.

Theorem C08_unique : forall ops ts e1 e2,
  table_ok ops = true -> no_eof ts = true -> op_lexemes ts ->
  yields (new_grammar ops) e1 ts -> wfp (new_grammar ops) 0 e1 = true ->
  yields (new_grammar ops) e2 ts -> wfp (new_grammar ops) 0 e2 = true -> e1 = e2.
Proof. exact C08Proofs.wfp_unique. Qed.
Print Assumptions C08_unique.

(* parentheses: a parenthesised term is closed (well-formed at every level, nothing left open on its right), so
   wrapping a sub-term never changes how its context is parsed *)
Theorem C08_group_closed : forall g p x rbp,
  wfp g 0 x = true -> wfp g rbp (EGroup p x) = true /\ rom g (EGroup p x) = None.
Proof. exact C08Proofs.group_closed. Qed.
Print Assumptions C08_group_closed.

Example C08_example :
  let ops := [mkOp [45%N] 80 1%N; mkOp [45%N] 56 3%N; mkOp [42%N] 64 3%N; mkOp [60%N] 48 2%N] in
  table_ok ops = true /\
  exists e, parse_source ops (runes "a - -b * (c < d)") = POk e /\ wfp (new_grammar ops) 0 e = true /\
            parse_source ops (runes "a < b < c") = PErr.
Proof. vm_compute. split; [reflexivity|]. eexists; repeat split. Qed.
