(* C12 — the public API is total: a value or an error, promptly, for every input.  Statements only.
   PARTIAL by nature: "promptly" (wall-clock time) and Go-runtime stack exhaustion are run-time behaviour the model cannot
   exhibit; the harness watches a per-input time budget.  What is proved: no panic crosses the API boundary (given the
   recover placement read from the source), and every stage of the model terminates. *)
From Coq Require Import List String Bool NArith ZArith.
From Yae Require Import Base.Sexp Model.Ty Gen.Generated Model.Unify Model.Num Model.Lexer Model.LexSpec Model.Literal Model.Cst Model.Pratt
  Model.PrattSpec Model.Desugar Model.Check Model.Val Model.Builtins Model.Eval Model.VM Model.Api Proofs.Tables Proofs.C12Proofs.
Import ListNotations.

(* the recover placement the model assumes is the one in the source (regenerated on every run) *)
Theorem C12_recover_sites : Generated.recover_sites = Api.modelled_recover_sites.
Proof. exact Tables.recover_sites_pinned. Qed.
Print Assumptions C12_recover_sites.

(* Compile, the returned Callable and Eval return a value or an error: never a panic *)
Theorem C12_no_escape : forall ops orc fe te rho src code pool,
  api_compile ops orc fe te src <> Escaped /\
  fst (api_call ops orc te code pool rho) <> Escaped /\
  api_eval ops orc fe te rho src <> Escaped.
Proof. exact C12Proofs.no_escape. Qed.
Print Assumptions C12_no_escape.

(* without the recover in the Callable (the code before the repair) run-time failures escaped *)
Theorem C12_callable_recover_needed : forall X (r : option X),
  r = None -> (if existsb (String.eqb "facade.go:makeCallable.func defers e.backStrace") [] then @AErr X else Escaped) = Escaped.
Proof. exact C12Proofs.callable_recover_needed. Qed.
Print Assumptions C12_callable_recover_needed.

(* every stage terminates: lexing and parsing never run out of their fuel (C09_total, C08_no_fuel) *)
Theorem C12_front_end_total : forall ops src,
  table_ok ops = true -> ops_wf (map o_kind ops) = true -> parse_source ops src <> PFuel.
Proof. exact C12Proofs.front_end_total. Qed.
Print Assumptions C12_front_end_total.

(* cost: the lexer produces at most one token per rune and the parser consumes every token at most once per nesting level
   it is read at — stated as: the number of tokens is bounded by the input length *)
Theorem C12_tokens_bounded : forall ops src ts, ops_wf ops = true -> lex ops src = Some ts -> (len ts <= len src)%nat.
Proof. exact C12Proofs.tokens_bounded. Qed.
Print Assumptions C12_tokens_bounded.
