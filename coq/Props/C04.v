(* C04 — operators and built-in functions compute their documented results.  Statements only.
   Model/Builtins.v + Model/Eval.v are the reference semantics the implementation is compared with on every run; the
   lemmas below characterise that reference declaratively, so that it is a specification and not a second
   implementation.  Generic in the float arithmetic (numeric facts appear as named hypotheses). *)
From Coq Require Import List String Bool NArith ZArith.
From Yae Require Import Base.Sexp Model.Ty Gen.Generated Model.Num Model.Lexer Model.Literal Model.Cst Model.Check
  Model.Val Model.Render Model.ValSpec Model.Builtins Model.Eval Model.EvalSpec Proofs.C04Proofs.
Import ListNotations.
Local Open Scope list_scope.

Section C04.
Variable ops : numops.
Variable orc : oracles.

(* every row of the built-in table (regenerated from fun.BuiltIn()) has a modelled semantics *)
Theorem C04_all_modelled :
  forallb (fun row => let '(n, ps, r, lz) := row in match classify n ps with Some _ => true | None => false end) builtin_sigs = true.
Proof. exact C04Proofs.all_modelled. Qed.

(* same element = same rendering (C18 relates this to ==) *)
Definition same_elem (a b : val) : Prop := render ops a = render ops b.

(* union / intersect / diff: order-preserving, de-duplicating set operations keyed by the canonical rendering *)
Theorem C04_union_spec : forall x y,
  let u := set_union ops x y in
  NoDup (map (render ops) u) /\
  (forall v, In v u -> In v x \/ In v y) /\
  (forall v, In v x \/ In v y -> exists w, In w u /\ same_elem v w) /\
  (* elements of x first, in their order of first occurrence *)
  (exists ux uy, u = ux ++ uy /\ (forall v, In v ux -> In v x) /\ (forall v, In v uy -> In v y /\ forall w, In w x -> ~ same_elem v w)).
Proof. exact (C04Proofs.union_spec ops). Qed.

Theorem C04_intersect_spec : forall x y,
  let u := set_intersect ops x y in
  NoDup (map (render ops) u) /\
  (forall v, In v u -> In v y /\ exists w, In w x /\ same_elem v w) /\
  (forall v w, In v x -> In w y -> same_elem v w -> exists z, In z u /\ same_elem v z).
Proof. exact (C04Proofs.intersect_spec ops). Qed.

Theorem C04_diff_spec : forall x y,
  let u := set_diff ops x y in
  NoDup (map (render ops) u) /\
  (forall v, In v u -> In v x /\ forall w, In w y -> ~ same_elem v w) /\
  (forall v, In v x -> (forall w, In w y -> ~ same_elem v w) -> exists z, In z u /\ same_elem v z).
Proof. exact (C04Proofs.diff_spec ops). Qed.

(* get with a default on lists: the element at the truncated index when it lies in [0, length), the default otherwise *)
Theorem C04_get_list_spec : forall t vs i d,
  bsem ops orc BGetList [VList t vs; VNum i; d] =
  ret (let k := to_i64 ops i in
       if (Z.leb 0 k && Z.ltb k (Z.of_nat (len vs)))%bool then nth (Z.to_nat k) vs d else d).
Proof. exact (C04Proofs.get_list_spec ops orc). Qed.

(* get / isset on maps: by key identity *)
Theorem C04_get_map_spec : forall t kvs k d kk,
  key_of ops k = ([], OVal kk) ->
  bsem ops orc BGetMap [VMap t kvs; k; d] = ret (match kget kk kvs with Some v => v | None => d end) /\
  bsem ops orc BIsset [VMap t kvs; k] = ret (VBool (match kget kk kvs with Some _ => true | None => false end)).
Proof. exact (C04Proofs.get_map_spec ops orc). Qed.

(* tolerance-based comparison: == is |x - y| < eps; < and > exclude tolerance-equal operands; <= and >= include them *)
Theorem C04_cmp_laws : forall x y,
  num_ne ops x y = fle ops (eps ops) (fabs ops (fsub ops x y)) /\
  num_lt ops x y = (flt ops x y && num_ne ops x y)%bool /\
  num_gt ops x y = (flt ops y x && num_ne ops x y)%bool /\
  num_le ops x y = (fle ops x y || num_eq ops x y)%bool /\
  num_ge ops x y = (fle ops y x || num_eq ops x y)%bool.
Proof. exact (C04Proofs.cmp_laws ops). Qed.

(* given the order facts of IEEE comparison on non-NaN operands, exactly one of <, ==, > holds *)
Theorem C04_trichotomy : forall x y,
  (* facts about the arithmetic at x, y (validated on the implementation) *)
  (flt ops x y = true -> flt ops y x = false) ->
  (flt ops x y = false -> flt ops y x = false -> num_eq ops x y = true) ->
  (num_eq ops x y = negb (num_ne ops x y)) ->
  (num_lt ops x y = true /\ num_eq ops x y = false /\ num_gt ops x y = false) \/
  (num_lt ops x y = false /\ num_eq ops x y = true /\ num_gt ops x y = false) \/
  (num_lt ops x y = false /\ num_eq ops x y = false /\ num_gt ops x y = true).
Proof. exact (C04Proofs.trichotomy ops). Qed.

(* len of a string counts runes: for the UTF-8 encoding of valid code points it is their number *)
Theorem C04_len_runes : forall rs,
  Forall (fun c => (c < 1114112)%N /\ ~ (55296 <= c <= 57343)%N) rs ->
  rune_count (flat_map utf8_encode rs) = N.of_nat (len rs).
Proof. exact C04Proofs.len_runes. Qed.

(* 0x / 0b / 0o literals denote the integer their digits spell *)
Theorem C04_radix_value : forall base ds d,
  radix_val base (ds ++ [d]) = (radix_val base ds * base + hex_val d)%N.
Proof. exact C04Proofs.radix_value. Qed.
End C04.

Print Assumptions C04_all_modelled.
Print Assumptions C04_union_spec.
Print Assumptions C04_intersect_spec.
Print Assumptions C04_diff_spec.
Print Assumptions C04_get_list_spec.
Print Assumptions C04_get_map_spec.
Print Assumptions C04_cmp_laws.
Print Assumptions C04_trichotomy.
Print Assumptions C04_len_runes.
Print Assumptions C04_radix_value.
