(* Wire format shared by the Go harness, the extracted OCaml driver and in-Coq evaluation.
   Everything that decodes a case or encodes an observable is Gallina, so the OCaml driver only
   tokenises text into [sexp] and prints [sexp] back. *)
From Coq Require Import List String Ascii NArith ZArith Bool DecimalString.
Import ListNotations.
Open Scope string_scope.

Inductive sexp := A (s : string) | L (l : list sexp).

(* ---- decimal numbers ---- *)
Definition digit_of_ascii (c : ascii) : option N :=
  let n := N_of_ascii c in
  if andb (N.leb 48 n) (N.leb n 57) then Some (n - 48)%N else None.

Fixpoint N_of_string_aux (s : string) (acc : N) : option N :=
  match s with
  | EmptyString => Some acc
  | String c s' =>
    match digit_of_ascii c with
    | Some d => N_of_string_aux s' (acc * 10 + d)%N
    | None => None
    end
  end.

Definition N_of_string (s : string) : option N :=
  match s with EmptyString => None | _ => N_of_string_aux s 0%N end.

Definition string_of_N (n : N) : string := NilZero.string_of_uint (N.to_uint n).

Definition Z_of_string (s : string) : option Z :=
  match s with
  | String "-" s' => option_map (fun n => Z.opp (Z.of_N n)) (N_of_string s')
  | _ => option_map Z.of_N (N_of_string s)
  end.

Definition string_of_Z (z : Z) : string :=
  match z with
  | Z0 => "0"
  | Zpos p => string_of_N (Npos p)
  | Zneg p => String "-" (string_of_N (Npos p))
  end.

Definition eN (n : N) : sexp := A (string_of_N n).
Definition eZ (z : Z) : sexp := A (string_of_Z z).
Definition enat (n : nat) : sexp := eN (N.of_nat n).
Definition eB (b : bool) : sexp := A (if b then "T" else "F").

Definition dN (s : sexp) : option N := match s with A a => N_of_string a | _ => None end.
Definition dZ (s : sexp) : option Z := match s with A a => Z_of_string a | _ => None end.
Definition dnat (s : sexp) : option nat := option_map N.to_nat (dN s).
Definition dB (s : sexp) : option bool :=
  match s with A "T" => Some true | A "F" => Some false | _ => None end.
Definition dS (s : sexp) : option string := match s with A a => Some a | _ => None end.

(* strings travel as lists of code points / bytes: (97 98 99) *)
Definition dNs (s : sexp) : option (list N) :=
  match s with
  | L l => fold_right (fun x acc => match dN x, acc with Some n, Some r => Some (n :: r) | _, _ => None end) (Some []) l
  | _ => None
  end.
Definition eNs (l : list N) : sexp := L (map eN l).

(* names (identifiers, field names, operator names) travel as atoms "n:" ++ hex so that any text is a legal atom *)
Definition hex_digit (n : N) : ascii :=
  ascii_of_N (if N.ltb n 10 then 48 + n else 87 + n)%N.
Definition unhex_digit (c : ascii) : option N :=
  let n := N_of_ascii c in
  if andb (N.leb 48 n) (N.leb n 57) then Some (n - 48)%N
  else if andb (N.leb 97 n) (N.leb n 102) then Some (n - 87)%N else None.

Fixpoint hex_of_string (s : string) : string :=
  match s with
  | EmptyString => EmptyString
  | String c s' => let n := N_of_ascii c in
      String (hex_digit (N.div n 16)) (String (hex_digit (N.modulo n 16)) (hex_of_string s'))
  end.

Fixpoint string_of_hex (s : string) : option string :=
  match s with
  | EmptyString => Some EmptyString
  | String a (String b s') =>
    match unhex_digit a, unhex_digit b, string_of_hex s' with
    | Some x, Some y, Some r => Some (String (ascii_of_N (x * 16 + y)) r)
    | _, _, _ => None
    end
  | _ => None
  end.

Definition eName (s : string) : sexp := A (String "x" (hex_of_string s)).
Definition dName (s : sexp) : option string :=
  match s with A (String "x" h) => string_of_hex h | _ => None end.

Definition bind {X Y} (o : option X) (f : X -> option Y) : option Y :=
  match o with Some x => f x | None => None end.
Notation "'do' x <- o ; k" := (bind o (fun x => k)) (at level 200, x pattern, o at level 100, k at level 200).

Definition mapM {X Y} (f : X -> option Y) : list X -> option (list Y) :=
  fix go (l : list X) : option (list Y) :=
  match l with
  | [] => Some []
  | x :: r => do y <- f x; do ys <- go r; Some (y :: ys)
  end.

Definition tag_is (s : sexp) (t : string) : bool :=
  match s with A a => String.eqb a t | _ => false end.

Definition eOpt {X} (f : X -> sexp) (o : option X) : sexp :=
  match o with Some x => L [A "some"; f x] | None => A "none" end.

(* insertion sort of association lists by key (canonical order for maps on the wire) *)
Fixpoint insert_kv {X} (k : string) (x : X) (l : list (string * X)) : list (string * X) :=
  match l with
  | [] => [(k, x)]
  | (k', x') :: r => if String.leb k k' then (k, x) :: l else (k', x') :: insert_kv k x r
  end.
Definition sort_kv {X} (l : list (string * X)) : list (string * X) :=
  fold_right (fun kv acc => insert_kv (fst kv) (snd kv) acc) [] l.
