(* Declarative vocabulary for C09. *)
From Coq Require Import List String Ascii Bool NArith.
From Yae Require Import Base.Sexp Gen.Generated Model.Lexer.
Import ListNotations.
Open Scope N_scope.

Definition move_over (c : cursor) (l : list N) : cursor := fold_left move l c.

(* [tokens_ok c s ts]: starting with the cursor at [c] in front of the remaining input [s], the tokens [ts] appear in
   source order, do not overlap, are separated (and followed) only by white space, each token is non-empty, its
   lexeme is exactly the input between idx and end, and its line / col are those of its first rune. *)
Inductive tokens_ok : cursor -> list N -> list token -> Prop :=
| tok_nil : forall c s, forallb is_space s = true -> tokens_ok c s []
| tok_cons : forall c s ws t rest ts,
    s = (ws ++ t_lexeme t ++ rest)%list ->
    forallb is_space ws = true ->
    t_lexeme t <> [] ->
    t_idx t = c_idx (move_over c ws) ->
    t_line t = c_line (move_over c ws) ->
    t_col t = c_col (move_over c ws) ->
    t_end t = t_idx t + N.of_nat (len (t_lexeme t)) ->
    tokens_ok (move_over c (ws ++ t_lexeme t)%list) rest ts ->
    tokens_ok c s (t :: ts).

(* the cursor is what the property says it is: idx = runes consumed, line = newlines seen, col = runes since the last one *)
Definition count_nl (l : list N) : N := N.of_nat (len (filter (N.eqb 10) l)).
Fixpoint since_nl (l : list N) (acc : N) : N :=
  match l with
  | [] => acc
  | c :: r => since_nl r (if N.eqb c 10 then 0 else acc + 1)
  end.

(* operator tables the documentation allows: identifier-like names, or names made of operator characters only *)
Definition op_wf (k : list N) : bool := negb (list_eqb k []) && (is_ident_op k || forallb is_oper_char k).
Definition ops_wf (ops : list (list N)) : bool := forallb op_wf ops.

Definition fixed_punct : list N := [58; 44; 40; 41; 91; 93; 123; 125].
Definition no_punct_start (ops : list (list N)) : bool :=
  forallb (fun k => match k with c :: _ => negb (existsb (N.eqb c) fixed_punct) | [] => true end) ops.

Definition mem_op (k : list N) (ops : list (list N)) : bool := existsb (list_eqb k) ops.

(* literal languages, written independently of the matchers *)
Definition dec_int (l : list N) : bool :=
  match l with
  | [c] => is_digit c
  | c :: r => (N.leb 49 c && N.leb c 57) && forallb is_digit r
  | [] => false
  end.
Definition raw_string (l : list N) : Prop := exists body, l = (96 :: body ++ [96])%list /\ forallb (fun c => negb (N.eqb c 96)) body = true.
Definition time_lit (l : list N) : Prop :=
  exists body, l = (39 :: body ++ [39])%list /\ forallb (fun c => negb (N.eqb c 96 || N.eqb c 34 || N.eqb c 39)) body = true.
