(* Literal decoding: parser/ast/factory.go (Str: strconv.Unquote must succeed; Num: parseNum must succeed) and
   parser/ast/literal.go.  The token texts are the ones the lexer produces (Model/Lexer.v), so only those shapes occur. *)
From Coq Require Import List String Ascii Bool NArith ZArith.
From Yae Require Import Base.Sexp Model.Lexer.
Import ListNotations.
Open Scope N_scope.

(* UTF-8 encoding of a rune (Go: string(rune); invalid runes and surrogates become U+FFFD) *)
Definition utf8_encode (c : N) : list N :=
  let c := if (N.leb 55296 c && N.leb c 57343) || N.ltb 1114111 c then 65533 else c in
  if N.ltb c 128 then [c]
  else if N.ltb c 2048 then [192 + c / 64; 128 + c mod 64]
  else if N.ltb c 65536 then [224 + c / 4096; 128 + (c / 64) mod 64; 128 + c mod 64]
  else [240 + c / 262144; 128 + (c / 4096) mod 64; 128 + (c / 64) mod 64; 128 + c mod 64].

Definition hex_val (c : N) : N :=
  if is_digit c then c - 48 else if N.leb 97 c then c - 87 else c - 55.

(* strconv.Unquote of a double-quoted token body (after the opening quote); result: UTF-8 bytes.
   Rejected: a raw newline, the escape \/ (the lexer accepts it, Go does not), \u of a surrogate. *)
Fixpoint unquote_dq (l : list N) : option (list N) :=
  match l with
  | [] => None
  | c :: r =>
      if N.eqb c 34 then match r with [] => Some [] | _ => None end
      else if N.eqb c 10 then None
      else if N.eqb c 92 then
        match r with
        | e :: r' =>
            let simple (b : N) := option_map (cons b) (unquote_dq r') in
            if N.eqb e 34 then simple 34 else if N.eqb e 92 then simple 92
            else if N.eqb e 116 then simple 9 else if N.eqb e 114 then simple 13
            else if N.eqb e 110 then simple 10 else if N.eqb e 98 then simple 8
            else if N.eqb e 102 then simple 12
            else if N.eqb e 117 then
              match r' with
              | h1 :: h2 :: h3 :: h4 :: r4 =>
                  let v := hex_val h1 * 4096 + hex_val h2 * 256 + hex_val h3 * 16 + hex_val h4 in
                  if N.leb 55296 v && N.leb v 57343 then None
                  else option_map (app (utf8_encode v)) (unquote_dq r4)
              | _ => None
              end
            else None
        | [] => None
        end
      else option_map (app (utf8_encode c)) (unquote_dq r)
  end.

(* text of a STR token -> value bytes *)
Definition str_value (text : list N) : option (list N) :=
  match text with
  | q :: r =>
      if N.eqb q 34 then unquote_dq r
      else if N.eqb q 96 then
        (* raw string: drop the closing back quote and every carriage return *)
        Some (flat_map utf8_encode (filter (fun c => negb (N.eqb c 13)) (removelast r)))
      else None
  | [] => None
  end.

(* ---- numbers: validity (value conversion lives in Model/Num.v) ---- *)
Fixpoint digits_val (l : list N) (acc : N) : N :=
  match l with [] => acc | c :: r => digits_val r (acc * 10 + (c - 48)) end.

(* split a decimal NUM token into (integer digits, fraction digits, exponent), None when the shape is not a Go float
   literal (several fraction groups "1.2.3" or several exponents "1e5e6") *)
Definition split_decimal (t : list N) : option (list N * list N * Z) :=
  let '(_, rest0) := span is_digit t in
  let ip := firstn (len t - len rest0) t in
  let '(fp, rest1) :=
    match rest0 with
    | c :: r => if N.eqb c 46 then let '(n, r') := span is_digit r in (firstn n r, r') else ([], rest0)
    | [] => ([], [])
    end in
  match rest1 with
  | [] => Some (ip, fp, 0%Z)
  | c :: r =>
      if N.eqb c 101 || N.eqb c 69 then
        let '(neg, r1) := match r with
                          | s :: r' => if N.eqb s 45 then (true, r') else if N.eqb s 43 then (false, r') else (false, r)
                          | [] => (false, r)
                          end in
        let '(n, r2) := span is_digit r1 in
        match r2 with
        | [] => if Nat.eqb n 0 then None else
                  let e := Z.of_N (digits_val r1 0) in Some (ip, fp, if neg then Z.opp e else e)
        | _ => None
        end
      else None
  end.

(* does mant * 10^e10 round to +Inf in binary64 (>= 2^1024 - 2^970, the midpoint above MaxFloat64) ? *)
Definition overflow_threshold : Z := (2 ^ 1024 - 2 ^ 970)%Z.
Definition dec_overflows (mant : N) (e10 : Z) : bool :=
  if N.eqb mant 0 then false else
  let d := Z.of_nat (len (list_ascii_of_string (string_of_N mant))) in
  if Z.ltb 311 (d + e10) then true
  else if Z.ltb (d + e10) 300 then false
  else if Z.leb 0 e10 then Z.leb overflow_threshold (Z.of_N mant * 10 ^ e10)
  else Z.leb (overflow_threshold * 10 ^ (- e10)) (Z.of_N mant).

Definition radix_val (base : N) (l : list N) : N :=
  fold_left (fun acc c => acc * base + hex_val c) l 0.

Inductive numlit :=
| NDec (mant : N) (digits : list N) (e10 : Z)       (* mant * 10^e10; digits = the decimal digits of mant as written *)
| NInt (v : N).                    (* 0x / 0b / 0o integer *)

(* ast.Num / parseNum: None = "invalid num literal" *)
Definition num_parse (t : list N) : option numlit :=
  match t with
  | z :: x :: r =>
      if N.eqb z 48 && (N.eqb x 120 || N.eqb x 98 || N.eqb x 111) then
        let base := if N.eqb x 120 then 16 else if N.eqb x 98 then 2 else 8 in
        let v := radix_val base r in
        if N.leb v 9223372036854775807 then Some (NInt v) else None      (* strconv.ParseInt(.., 64) range *)
      else
        match split_decimal t with
        | Some (ip, fp, e) =>
            let mant := digits_val (ip ++ fp) 0 in
            let e10 := (e - Z.of_nat (len fp))%Z in
            if dec_overflows mant e10 then None else Some (NDec mant (ip ++ fp) e10)
        | None => None
        end
  | _ =>
      match split_decimal t with
      | Some (ip, fp, e) =>
          let mant := digits_val (ip ++ fp) 0 in
          let e10 := (e - Z.of_nat (len fp))%Z in
          if dec_overflows mant e10 then None else Some (NDec mant (ip ++ fp) e10)
      | None => None
      end
  end.
