(* Vocabulary for C15 / C07. *)
From Coq Require Import List String Ascii Bool NArith ZArith.
From Yae Require Import Base.Sexp Model.Ty Model.Unify Model.Num Model.Lexer Model.Val Model.Render Model.ValSpec Model.Conv.
Import ListNotations.
Local Open Scope string_scope.

(* no interface-typed (or unsupported) part anywhere in the Go type *)
Fixpoint iface_free (t : gty) : bool :=
  match t with
  | GIface | GOther => false
  | GPtr e | GSlice e | GArray e => iface_free e
  | GMap k v => iface_free k && iface_free v
  | GStruct fs => forallb (fun f => iface_free (snd f)) fs
  | _ => true
  end.

(* the value inhabits the Go type, and every nil-able part is non-nil or is a struct field declared optional *)
Fixpoint shape_stable (fuel : nat) (t : gty) (v : gv) (declared_optional : bool) : bool :=
  match fuel with
  | O => false
  | S f =>
    match t, v with
    | _, HNil => declared_optional && match t with GPtr _ | GSlice _ | GMap _ _ => true | _ => false end
    | GBool, HBool _ | GInt, HInt _ | GUint, HUint _ | GFloat, HFloat _ | GString, HString _ | GTime, HTime _ _ => true
    | GPtr e, HPtr x => shape_stable f e x false
    | (GSlice e | GArray e), HSeq vs => forallb (fun x => shape_stable f e x false) vs
    | GMap k e, HMap kvs => forallb (fun kx => shape_stable f k (fst kx) false && shape_stable f e (snd kx) false) kvs
    | GStruct fs, HStruct vs =>
        Nat.eqb (len fs) (len vs) &&
        forallb (fun fx => let '(gn, tag, ft) := fst fx in shape_stable f ft (snd fx) (snd (parse_tag gn tag))) (combine fs vs)
    | _, _ => false
    end
  end.
