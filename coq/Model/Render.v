(* Rendering, map keys and equality of values: /repo/val/string.go, val/map.go (Key), val/equals.go, fun/stringify.go,
   util/fmt.go, plus the parts of Go's strconv / utf8 / time they rely on (Quote, DecodeRune, Time.String in UTC). *)
From Coq Require Import List String Ascii Bool NArith ZArith.
From Yae Require Import Base.Sexp Model.Ty Gen.Generated Model.Num Model.Lexer Model.Literal Model.Val.
Import ListNotations.
Local Open Scope N_scope.
Local Open Scope list_scope.

Definition bytes_of_string (s : string) : list N := map N_of_ascii (list_ascii_of_string s).
Definition str_of_bytes (l : list N) : string := string_of_list_ascii (map ascii_of_N l).
Notation "'B' s" := (bytes_of_string s) (at level 9, s at level 0, only parsing).

(* ---- utf8.DecodeRune: (rune, width); invalid input -> (U+FFFD, 1) ---- *)
Definition cont (b : N) : bool := N.leb 128 b && N.leb b 191.
Definition utf8_decode (l : list N) : N * nat :=
  match l with
  | [] => (65533, 1%nat)
  | b0 :: r =>
      if N.ltb b0 128 then (b0, 1%nat)
      else if N.leb 194 b0 && N.leb b0 223 then
        match r with
        | b1 :: _ => if cont b1 then ((b0 - 192) * 64 + (b1 - 128), 2%nat) else (65533, 1%nat)
        | _ => (65533, 1%nat)
        end
      else if N.leb 224 b0 && N.leb b0 239 then
        match r with
        | b1 :: b2 :: _ =>
            let lo := if N.eqb b0 224 then 160 else 128 in
            let hi := if N.eqb b0 237 then 159 else 191 in
            if N.leb lo b1 && N.leb b1 hi && cont b2
            then ((b0 - 224) * 4096 + (b1 - 128) * 64 + (b2 - 128), 3%nat) else (65533, 1%nat)
        | _ => (65533, 1%nat)
        end
      else if N.leb 240 b0 && N.leb b0 244 then
        match r with
        | b1 :: b2 :: b3 :: _ =>
            let lo := if N.eqb b0 240 then 144 else 128 in
            let hi := if N.eqb b0 244 then 143 else 191 in
            if N.leb lo b1 && N.leb b1 hi && cont b2 && cont b3
            then ((b0 - 240) * 262144 + (b1 - 128) * 4096 + (b2 - 128) * 64 + (b3 - 128), 4%nat) else (65533, 1%nat)
        | _ => (65533, 1%nat)
        end
      else (65533, 1%nat)
  end.

(* decode a whole byte string: list of (rune, width, first byte) *)
Fixpoint decode_all (fuel : nat) (l : list N) : list (N * nat * N) :=
  match fuel, l with
  | S f, b0 :: _ => let '(r, w) := utf8_decode l in (r, w, b0) :: decode_all f (skipn w l)
  | _, _ => []
  end.
Definition runes_of (l : list N) : list (N * nat * N) := decode_all (len l) l.

(* utf8.RuneCountInString *)
Definition rune_count (l : list N) : N := N.of_nat (len (runes_of l)).

(* ---- strconv.Quote ---- *)
Definition is_print (c : N) : bool := in_ranges c print_ranges.
Definition hexd (n : N) : N := if N.ltb n 10 then 48 + n else 87 + n.
Definition hex2 (n : N) : list N := [hexd (n / 16); hexd (n mod 16)].
Definition hex4 (n : N) : list N := hex2 (n / 256) ++ hex2 (n mod 256).
Definition hex8 (n : N) : list N := hex4 (n / 65536) ++ hex4 (n mod 65536).

Definition escape_rune (r : N) : list N :=
  if N.eqb r 34 || N.eqb r 92 then [92; r]
  else if is_print r then utf8_encode r
  else if N.eqb r 7 then [92; 97] else if N.eqb r 8 then [92; 98] else if N.eqb r 12 then [92; 102]
  else if N.eqb r 10 then [92; 110] else if N.eqb r 13 then [92; 114] else if N.eqb r 9 then [92; 116]
  else if N.eqb r 11 then [92; 118]
  else if N.ltb r 32 || N.eqb r 127 then [92; 120] ++ hex2 r
  else if N.ltb r 65536 then [92; 117] ++ hex4 r
  else [92; 85] ++ hex8 r.

Definition quote (s : list N) : list N :=
  34 :: flat_map (fun x => let '(r, w, b0) := x in
                           if Nat.eqb w 1 && N.eqb r 65533 then [92; 120] ++ hex2 b0 else escape_rune r) (runes_of s) ++ [34].

(* ---- integers and times ---- *)
Definition fmt_Z (z : Z) : list N := bytes_of_string (string_of_Z z).

Definition pad_left (n : nat) (l : list N) : list N := repeat 48 (n - len l) ++ l.
Definition pad2 (z : Z) : list N := pad_left 2 (fmt_Z z).

(* days since 1970-01-01 -> (year, month, day), proleptic Gregorian (Hinnant's civil_from_days) *)
Definition civil_from_days (z : Z) : Z * Z * Z :=
  let z := (z + 719468)%Z in
  let era := ((if Z.leb 0 z then z else z - 146096) / 146097)%Z in
  let doe := (z - era * 146097)%Z in
  let yoe := ((doe - doe / 1460 + doe / 36524 - doe / 146096) / 365)%Z in
  let y := (yoe + era * 400)%Z in
  let doy := (doe - (365 * yoe + yoe / 4 - yoe / 100))%Z in
  let mp := ((5 * doy + 2) / 153)%Z in
  let d := (doy - (153 * mp + 2) / 5 + 1)%Z in
  let m := (if Z.ltb mp 10 then mp + 3 else mp - 9)%Z in
  ((if Z.leb m 2 then y + 1 else y)%Z, m, d).

Fixpoint strip_zeros_rev (l : list N) : list N :=
  match l with 48 :: r => strip_zeros_rev r | _ => l end.

(* time.Time.String() for a time without monotonic reading, location UTC:
   "2006-01-02 15:04:05.999999999 -0700 MST" *)
Definition fmt_time (sec nsec : Z) : list N :=
  let days := (sec / 86400)%Z in
  let rem := (sec mod 86400)%Z in
  let '(y, m, d) := civil_from_days days in
  let frac := if Z.eqb nsec 0 then []
              else 46 :: rev (strip_zeros_rev (rev (pad_left 9 (fmt_Z nsec)))) in
  pad_left 4 (fmt_Z y) ++ [45] ++ pad2 m ++ [45] ++ pad2 d ++ [32] ++
  pad2 (rem / 3600) ++ [58] ++ pad2 ((rem mod 3600) / 60) ++ [58] ++ pad2 (rem mod 60) ++ frac ++ B" +0000 UTC".

(* ---- sorting by text (Go: sort on strings = bytewise) ---- *)
Fixpoint bytes_leb (a b : list N) : bool :=
  match a, b with
  | [], _ => true
  | _ :: _, [] => false
  | x :: r, y :: s => if N.ltb x y then true else if N.ltb y x then false else bytes_leb r s
  end.
Fixpoint insert_by {X} (key : X -> list N) (x : X) (l : list X) : list X :=
  match l with
  | [] => [x]
  | y :: r => if bytes_leb (key x) (key y) then x :: l else y :: insert_by key x r
  end.
Definition sort_by {X} (key : X -> list N) (l : list X) : list X := fold_right (insert_by key) [] l.

Fixpoint join_bytes (sep : list N) (l : list (list N)) : list N :=
  match l with
  | [] => []
  | [a] => a
  | a :: r => a ++ sep ++ join_bytes sep r
  end.

Section R.
  Variable ops : numops.

  Definition fmt_num (b : N) : list N := if is_int ops b then fmt_Z (to_i64 ops b) else fmt_float ops b.

  (* val/map.go: Key (text part) *)
  Definition key_of (v : val) : M (list N) :=
    match v with
    | VBool b => ret (if b then B"true" else B"false")
    | VNum b => ret (fmt_num b)
    | VStr s => ret (quote s)
    | VTime s n => ret (quote (fmt_time s n))
    | _ => fault XOther          (* panic: invalid map key type *)
    end.

  Definition ty_bytes (t : ty) : list N := bytes_of_string (ty_str t).

  (* object fields in name order: indices into vs *)
  Definition field_values (t : ty) (vs : list val) : list (string * val) :=
    match t with TObj fs => combine (map fst fs) vs | _ => [] end.

  (* val/string.go: String *)
  Fixpoint render (v : val) : list N :=
    match v with
    | VNum b => fmt_num b
    | VBool b => if b then B"true" else B"false"
    | VStr s => quote s
    | VTime s n => fmt_time s n
    | VList _ vs => [91] ++ join_bytes B", " (map render vs) ++ [93]
    | VMap _ kvs =>
        match kvs with
        | [] => B"[:]"
        | _ => [91] ++ join_bytes B", "
                 (map (fun kr => fst kr ++ B": " ++ snd kr)
                    (sort_by fst (map (fun kv => (fst kv, render (snd kv))) kvs))) ++ [93]
        end
    | VObj t vs =>
        let named := match t with TObj fs => combine (map fst fs) (map render vs) | _ => [] end in
        [123] ++ join_bytes B", "
          (map (fun nr => bytes_of_string (fst nr) ++ B": " ++ snd nr)
             (sort_by (fun nr => bytes_of_string (fst nr)) named)) ++ [125]
    | VMaybe t o =>
        let et := match t with TMaybe e => ty_bytes (canon e) | _ => [] end in
        match o with
        | None => B"Nothing#" ++ et ++ B"()"
        | Some x => B"Just#" ++ et ++ [40] ++ render x ++ [41]
        end
    | VFun t _ _ => ty_bytes t ++ B"#<address>"
    end.

  (* fun/stringify.go: the string() built-in *)
  Fixpoint stringify (v : val) : list N :=
    match v with
    | VNum b => fmt_num b
    | VBool b => if b then B"true" else B"false"
    | VStr s => s
    | VTime s n => fmt_time s n
    | VList _ vs => [91] ++ join_bytes B", " (map stringify vs) ++ [93]
    | VMap _ kvs =>
        match kvs with
        | [] => B"[:]"
        | _ => [91] ++ join_bytes B", "
                 (map (fun kr => fst kr ++ B": " ++ snd kr)
                    (sort_by fst (map (fun kv => (fst kv, stringify (snd kv))) kvs))) ++ [93]
        end
    | VObj t vs =>
        let named := match t with TObj fs => combine (map fst fs) (map stringify vs) | _ => [] end in
        [123] ++ join_bytes B", "
          (map (fun nr => bytes_of_string (fst nr) ++ B": " ++ snd nr)
             (sort_by (fun nr => bytes_of_string (fst nr)) named)) ++ [125]
    | VMaybe _ o => match o with None => B"Nothing()" | Some x => B"Just(" ++ stringify x ++ [41] end
    | VFun _ _ _ => B"#fun"
    end.

  (* val/equals.go: Equals *)
  Fixpoint val_eqb (x y : val) {struct x} : bool :=
    ty_eqb (val_type x) (val_type y) &&
    match x, y with
    | VNum a, VNum b => num_eq ops a b
    | VBool a, VBool b => Bool.eqb a b
    | VStr a, VStr b => list_eqb a b
    | VTime s1 n1, VTime s2 n2 => Z.eqb s1 s2 && Z.eqb n1 n2
    | VList _ xs, VList _ ys =>
        (fix go (xs ys : list val) {struct xs} : bool :=
           match xs, ys with
           | [], [] => true
           | a :: r, b :: s => val_eqb a b && go r s
           | _, _ => false
           end) xs ys
    | VMap _ kx, VMap _ ky =>
        Nat.eqb (len kx) (len ky) &&
        (fix go (kx : list (list N * val)) : bool :=
           match kx with
           | [] => true
           | (k, a) :: r => match kget k ky with Some b => val_eqb a b | None => false end && go r
           end) kx
    | VObj tx xs, VObj ty_ ys =>
        Nat.eqb (len xs) (len ys) &&
        match tx, ty_ with
        | TObj fx, TObj fy =>
            (fix go (fx : list (string * ty)) (xs : list val) {struct xs} : bool :=
               match fx, xs with
               | (n, _) :: fr, a :: r =>
                   match index_of n fy with
                   | Some i => match nth_error ys i with Some b => val_eqb a b | None => false end
                   | None => false
                   end && go fr r
               | _, [] => true
               | [], _ :: _ => false
               end) fx xs
        | _, _ => false
        end
    | VMaybe _ a, VMaybe _ b =>
        match a, b with
        | None, None => true
        | Some p, Some q => val_eqb p q
        | _, _ => false
        end
    | VFun _ n1 _, VFun _ n2 _ => String.eqb n1 n2
    | _, _ => false
    end.
End R.
