(* Declarative vocabulary for the two-sided clause of C17: "whenever unification of two types succeeds, applying the
   resulting substitution to both makes them equal and no variable is bound to a type containing itself or to two
   different types".  Go's substitution is triangular: a binding may mention other bound variables, and applySubst
   chases them; a variable bound to itself counts as unbound (types/unify.go: applySubst).  Nothing here transcribes
   Go code. *)
From Coq Require Import List String Ascii Bool NArith.
From Yae Require Import Base.Sexp Model.Ty Model.Unify Model.TySpec.
Import ListNotations.
Open Scope string_scope.

(* no variable is bound, directly or through other bindings, to a type containing itself *)
Definition acyclic (m : subst) : Prop :=
  exists rank : string -> nat,
    forall a t b, assoc a m = Some t -> is_var_named t a = false -> occurs b t = true -> rank b < rank a.

(* wherever the substitution can be applied to both types, the results are equal *)
Definition unifies (m : subst) (x y : ty) : Prop :=
  forall fuel ax ay, apply_subst fuel m x = Ok ax -> apply_subst fuel m y = Ok ay -> ty_eqb ax ay = true.

(* the types the clause ranges over: argument tuples outermost only, no function types, no top / bottom
   (the empty-container leniency is the subject of C17_bot_left) *)
Definition two_ok (t : ty) : bool := pat_ok t && negb (has_top t) && negb (has_bot t) && wf_ty t.

Definition binds_ok (m : subst) : bool :=
  forallb (fun kv => simple (snd kv) && negb (has_top (snd kv)) && negb (has_bot (snd kv)) && wf_ty (snd kv)) m.
