(* Reference semantics of checked expressions, with an event trace.  It is at the same time the model of the closure
   compiler (/repo/closure/compiler.go) and of the AST interpreter (/repo/interp/interp.go): both are direct
   recursive evaluators with the same case analysis (the closure compiler merely stages it); the correspondence check
   runs both against this function.  The bytecode VM is modelled separately (Model/VM.v). *)
From Coq Require Import List String Ascii Bool NArith ZArith.
From Yae Require Import Base.Sexp Model.Ty Gen.Generated Model.Num Model.Lexer Model.Literal Model.Cst Model.Check
  Model.Val Model.Render Model.Builtins.
Import ListNotations.
Local Open Scope string_scope.

Definition venv := list (string * val).

(* object field by name through the value's own type (val.ObjVal.Get) *)
Definition obj_get (t : ty) (vs : list val) (name : string) : option val :=
  match t with
  | TObj fs => match index_of name fs with Some i => nth_error vs i | None => None end
  | _ => None
  end.

(* val.ObjVal.Load(idx, name): the static position is a hint, the name decides *)
Definition obj_load (t : ty) (vs : list val) (idx : nat) (name : string) : option val :=
  match t with
  | TObj fs =>
      match nth_error fs idx with
      | Some (n, _) => if String.eqb n name then nth_error vs idx else obj_get t vs name
      | None => obj_get t vs name
      end
  | _ => None
  end.

Section Eval.
  Variable ops : numops.
  Variable orc : oracles.
  Variable fe : fenv.          (* run-time function table, registered in lock step with the checker's *)
  Variable rho : venv.

  Definition lit_num (n : numlit) : N :=
    match n with
    | NDec _ digits e10 => of_dec ops digits e10
    | NInt v => of_Z ops (Z.of_N v)
    end.

  (* the text between the quotes of a time literal, as bytes *)
  Definition time_inner (text : list N) : list N := flat_map utf8_encode (removelast (tl text)).

  (* ---- the fixed library of host-registered functions used by the harness (same functions on the Go side) ---- *)
  Definition host_strict (name : string) (args : list val) : M val :=
    if name =? "inc" then
      let^ _ := emit (EvHost name args) in
      match args with [a] => let^ x := as_num a in ret (VNum (fadd ops x (of_Z ops 1))) | _ => fault XOther end
    else if name =? "area" then
      let^ _ := emit (EvHost name []) in
      match args with
      | [VObj t vs] =>
          match obj_get t vs "w", obj_get t vs "h" with
          | Some w, Some h => let^ x := as_num w in let^ y := as_num h in ret (VNum (fmul ops x y))
          | _, _ => fault XNil
          end
      | _ => fault XTypeConf
      end
    else if name =? "ident" then
      let^ _ := emit (EvHost name args) in match args with [a] => ret a | _ => fault XOther end
    else if name =? "pick" then
      let^ _ := emit (EvHost name args) in match args with [_; b] => ret b | _ => fault XOther end
    else if (name =? "tr") || (name =? "trs") || (name =? "trb") then
      let^ _ := emit (EvHost name args) in match args with [a] => ret a | _ => fault XOther end
    else if name =? "boom" then
      let^ _ := emit (EvHost name args) in fail FHost
    else fault XOther.

  Definition host_lazy (name : string) (ths : list (unit -> M val)) : M val :=
    if name =? "lazyif" then
      let^ _ := emit (EvHost name []) in
      match ths with
      | [c; a; b] => let^ cv := c tt in let^ cb := as_bool cv in if cb then a tt else b tt
      | _ => fault XOther
      end
    else if name =? "both" then
      let^ _ := emit (EvHost name []) in
      match ths with
      | [a; b] => let^ av := a tt in let^ ab := as_bool av in
                  if ab then (let^ bv := b tt in let^ bb := as_bool bv in ret (VBool bb)) else ret (VBool false)
      | _ => fault XOther
      end
    else fault XOther.

  (* calling a function value with thunks (lazy) or values (strict) *)
  Definition apply_lazy (sg : fsig) (ths : list (unit -> M val)) : M val :=
    match classify (s_name sg) (s_params sg) with
    | Some BIf =>
        match ths with
        | [c; a; b] => let^ cv := c tt in let^ cb := as_bool cv in if cb then a tt else b tt
        | _ => fault XOther
        end
    | Some BAnd =>
        match ths with
        | [a; b] => let^ av := a tt in let^ ab := as_bool av in
                    if ab then (let^ bv := b tt in let^ bb := as_bool bv in ret (VBool bb)) else ret (VBool false)
        | _ => fault XOther
        end
    | Some BOr =>
        match ths with
        | [a; b] => let^ av := a tt in let^ ab := as_bool av in
                    if ab then ret (VBool true) else (let^ bv := b tt in let^ bb := as_bool bv in ret (VBool bb))
        | _ => fault XOther
        end
    | _ => host_lazy (s_name sg) ths
    end.

  (* is this signature one of the built-ins (same name, parameters and result as a row of the generated table)? *)
  Definition sig_is_builtin (sg : fsig) : bool :=
    existsb (fun x => let '(n, ps, r, lz) := x in
                      String.eqb n (s_name sg) && Bool.eqb lz (s_lazy sg) &&
                      ty_eqb (TFun "" ps r) (TFun "" (s_params sg) (s_ret sg))) builtin_sigs.

  Definition apply_strict (sg : fsig) (args : list val) : M val :=
    if sig_is_builtin sg then
      match classify (s_name sg) (s_params sg) with
      | Some b => bsem ops orc b args
      | None => fault XOther
      end
    else host_strict (s_name sg) args.

  (* resolution of a static call: the overload the checker recorded *)
  Definition lookup_fn (key : string) (idx : Z) : option fsig :=
    if Z.ltb idx 0 then assoc key (f_mono fe)
    else match assoc key (f_poly fe) with Some l => nth_error l (Z.to_nat idx) | None => None end.

  Fixpoint eval (fuel : nat) (a : aexpr) {struct fuel} : M val :=
    match fuel with
    | O => fault XFuel
    | S f =>
      let call (sg : fsig) (args : list aexpr) : M val :=
        if s_lazy sg then
          (if sig_is_builtin sg then apply_lazy sg else host_lazy (s_name sg)) (map (fun x (_ : unit) => eval f x) args)
        else let^ vs := mmapM (eval f) args in apply_strict sg vs in
      match a with
      | AStr v => ret (VStr v)
      | ANum _ n => ret (VNum (lit_num n))
      | ATime t => ret (VTime (o_strtotime orc (time_inner t)) 0)
      | ABool b => ret (VBool b)
      | AList t es =>
          match es with
          | [] => ret (VList (TList TBot) [])
          | _ => let^ vs := mmapM (eval f) es in ret (VList t vs)
          end
      | AMap t kvs =>
          match kvs with
          | [] => ret (VMap (TMap TBot TBot) [])
          | _ =>
              let^ entries :=
                (fix go (kvs : list (aexpr * aexpr)) (acc : list (list N * val)) : M (list (list N * val)) :=
                   match kvs with
                   | [] => ret acc
                   | (k, v) :: r =>
                       let^ kv := eval f k in let^ kk := key_of ops kv in
                       let^ vv := eval f v in go r (kput kk vv acc)
                   end) kvs [] in
              ret (VMap t entries)
          end
      | AObj t fs =>
          match fs with
          | [] => ret (VObj (TObj []) [])
          | _ => let^ vs := mmapM (fun nf => eval f (snd nf)) fs in ret (VObj t vs)
          end
      | AIdent _ name => match assoc name rho with Some v => ret v | None => fault XOther end
      | ACall _ key idx _ callee args =>
          if String.eqb key "" then
            (* dynamic dispatch: the callee is a function value *)
            let^ fv := eval f callee in
            match fv with
            | VFun (TFun n ps r) name lz => call (mkSig name ps r lz) args
            | _ => fault XTypeConf
            end
          else
            match lookup_fn key idx with
            | Some sg => call sg args
            | None => fault XOther
            end
      | ASub _ _ v i =>
          let^ x := eval f v in
          match x with
          | VList _ vs =>
              let^ iv := eval f i in let^ n := as_num iv in
              let idx := to_i64 ops n in
              if Z.ltb idx 0 || Z.leb (Z.of_nat (len vs)) idx then fail FIndex
              else match nth_error vs (Z.to_nat idx) with Some e => ret e | None => fail FIndex end
          | VMap _ kvs =>
              let^ kv := eval f i in let^ kk := key_of ops kv in
              match kget kk kvs with Some e => ret e | None => fail FKey end
          | _ => fault XUnreachable
          end
      | AMember _ _ idx o name =>
          let^ ov := eval f o in
          match ov with
          | VObj t vs => match obj_load t vs idx name with Some e => ret e | None => fault XNil end
          | _ => fault XTypeConf
          end
      end
    end.
End Eval.
