(* The built-in library: /repo/fun/*.go.  A built-in is identified by its name and parameter shapes
   ([classify]); Proofs/Tables.v shows that every entry of the regenerated table Generated.builtin_sigs is classified.
   Strict built-ins are [bsem]; the lazy ones (if, &&, ||) are handled by the evaluator because they call thunks. *)
From Coq Require Import List String Ascii Bool NArith ZArith.
From Yae Require Import Base.Sexp Model.Ty Gen.Generated Model.Num Model.Lexer Model.Literal Model.Val Model.Render.
Import ListNotations.
Local Open Scope string_scope.

Inductive bfun :=
| BAbs | BAddNum1 | BAddNum | BAddStr | BCeil | BDiff | BDiv | BEqBool | BEqList | BEqMap | BEqNum | BEqStr | BEqTime
| BExp | BFloor | BGetList | BGetMap | BGetMaybe | BGeNum | BGeTime | BGtNum | BGtTime | BIf | BIntersect | BIsset
| BLenList | BLenMap | BLenStr | BLeNum | BLeTime | BAnd | BNot | BOr | BLtNum | BLtTime | BMatch | BMaxList | BMaxNum
| BMinList | BMinNum | BMod | BMul | BNeBool | BNeList | BNeMap | BNeNum | BNeStr | BNeTime | BPrint | BRound | BString
| BStrtotime | BSubNum1 | BSubNum | BSubTime | BUnion.

Scheme Equality for bfun.

Definition shape (t : ty) : string :=
  match t with
  | TNum => "n" | TStr => "s" | TBool => "b" | TTime => "t" | TVar _ => "v"
  | TList _ => "l" | TMap _ _ => "m" | TMaybe _ => "y" | TObj _ => "o" | TFun _ _ _ => "f" | _ => "?"
  end.
Definition shapes (ps : list ty) : string := fold_right (fun t a => shape t ++ a) "" ps.

Definition classify (name : string) (ps : list ty) : option bfun :=
  let k := name ++ ":" ++ shapes ps in
  let tbl := [
    ("abs:n", BAbs); ("+:n", BAddNum1); ("+:nn", BAddNum); ("+:ss", BAddStr); ("ceil:n", BCeil); ("diff:ll", BDiff);
    ("/:nn", BDiv); ("==:bb", BEqBool); ("==:ll", BEqList); ("==:mm", BEqMap); ("==:nn", BEqNum); ("==:ss", BEqStr);
    ("==:tt", BEqTime); ("^:nn", BExp); ("floor:n", BFloor); ("get:lnv", BGetList); ("get:mvv", BGetMap);
    ("get:yv", BGetMaybe); (">=:nn", BGeNum); (">=:tt", BGeTime); (">:nn", BGtNum); (">:tt", BGtTime); ("if:bvv", BIf);
    ("intersect:ll", BIntersect); ("isset:mv", BIsset); ("len:l", BLenList); ("len:m", BLenMap); ("len:s", BLenStr);
    ("<=:nn", BLeNum); ("<=:tt", BLeTime); ("&&:bb", BAnd); ("and:bb", BAnd); ("!:b", BNot); ("not:b", BNot);
    ("||:bb", BOr); ("or:bb", BOr); ("<:nn", BLtNum); ("<:tt", BLtTime); ("match:ss", BMatch); ("max:l", BMaxList);
    ("max:nn", BMaxNum); ("min:l", BMinList); ("min:nn", BMinNum); ("%:nn", BMod); ("*:nn", BMul); ("!=:bb", BNeBool);
    ("!=:ll", BNeList); ("!=:mm", BNeMap); ("!=:nn", BNeNum); ("!=:ss", BNeStr); ("!=:tt", BNeTime); ("print:v", BPrint);
    ("round:n", BRound); ("string:v", BString); ("strtotime:s", BStrtotime); ("-:n", BSubNum1); ("-:nn", BSubNum);
    ("-:tt", BSubTime); ("union:ll", BUnion)] in
  assoc k tbl.

Definition is_lazy_builtin (b : bfun) : bool := match b with BIf | BAnd | BOr => true | _ => false end.

(* oracles: what the model does not compute itself (tables shipped with each request by the harness) *)
Record oracles := mkOracles {
  o_strtotime : list N -> Z;                          (* timelib.Strtotime: text -> unix seconds *)
  o_regex : list N -> list N -> option bool           (* regexp.MatchString pattern s; None = pattern does not compile *)
}.

Section Sem.
  Variable ops : numops.
  Variable orc : oracles.

  Definition vnum (b : N) : val := VNum b.
  Definition of_nat_num (n : nat) : val := VNum (of_Z ops (Z.of_nat n)).

  (* time.Time.Sub(..).Seconds(): nanosecond difference saturating at the int64 range *)
  Definition time_sub (s1 n1 s2 n2 : Z) : N :=
    let d := ((s1 - s2) * 1000000000 + (n1 - n2))%Z in
    let d := Z.max (- 9223372036854775808) (Z.min 9223372036854775807 d) in
    let sec := Z.quot d 1000000000 in
    let ns := Z.rem d 1000000000 in
    fadd ops (of_Z ops sec) (fdiv ops (of_Z ops ns) (of_Z ops 1000000000)).

  Definition time_lt (s1 n1 s2 n2 : Z) : bool := Z.ltb s1 s2 || (Z.eqb s1 s2 && Z.ltb n1 n2).
  Definition time_eq (s1 n1 s2 n2 : Z) : bool := Z.eqb s1 s2 && Z.eqb n1 n2.

  (* fun/list.go: valSetOf -- distinct elements keyed by their rendering, first occurrence kept *)
  Fixpoint valset (vs : list val) (seen : list (list N)) : list (list N * val) :=
    match vs with
    | [] => []
    | v :: r => let h := render ops v in
                if existsb (list_eqb h) seen then valset r seen else (h, v) :: valset r (h :: seen)
    end.
  Definition set_union (x y : list val) : list val :=
    let sx := valset x [] in let sy := valset y [] in
    map snd sx ++ map snd (filter (fun kv => negb (existsb (fun kx => list_eqb (fst kx) (fst kv)) sx)) sy).
  Definition set_intersect (x y : list val) : list val :=
    let sx := valset x [] in let sy := valset y [] in
    flat_map (fun kx => match kget (fst kx) sy with Some v => [v] | None => [] end) sx.
  Definition set_diff (x y : list val) : list val :=
    let sx := valset x [] in let sy := valset y [] in
    map snd (filter (fun kx => negb (existsb (fun ky => list_eqb (fst ky) (fst kx)) sy)) sx).

  Definition num2 (args : list val) (f : N -> N -> val) : M val :=
    match args with [a; b] => let^ x := as_num a in let^ y := as_num b in ret (f x y) | _ => fault XOther end.
  Definition num1 (args : list val) (f : N -> val) : M val :=
    match args with [a] => let^ x := as_num a in ret (f x) | _ => fault XOther end.
  Definition time2 (args : list val) (f : Z -> Z -> Z -> Z -> val) : M val :=
    match args with
    | [a; b] => let^ (s1, n1) := as_time a in let^ (s2, n2) := as_time b in ret (f s1 n1 s2 n2)
    | _ => fault XOther
    end.
  Definition any2 (args : list val) (f : val -> val -> val) : M val :=
    match args with [a; b] => ret (f a b) | _ => fault XOther end.

  (* math.Max folded over a list, 0 for the empty list *)
  Definition fold_num (f : N -> N -> N) (vs : list val) : M val :=
    match vs with
    | [] => ret (VNum (of_Z ops 0))
    | v0 :: r =>
        let^ x0 := as_num v0 in
        let^ res := (fix go (r : list val) (acc : N) : M N :=
                       match r with
                       | [] => ret acc
                       | v :: r' => let^ x := as_num v in go r' (f acc x)
                       end) r x0 in
        ret (VNum res)
    end.

  (* strict built-ins; [print]'s output is an event *)
  Definition bsem (b : bfun) (args : list val) : M val :=
    match b with
    | BAbs => num1 args (fun x => VNum (fabs ops x))
    | BCeil => num1 args (fun x => VNum (fceil ops x))
    | BFloor => num1 args (fun x => VNum (ffloor ops x))
    | BRound => num1 args (fun x => VNum (fround ops x))
    | BAddNum1 => match args with [a] => ret a | _ => fault XOther end
    | BSubNum1 => num1 args (fun x => VNum (fneg ops x))
    | BAddNum => num2 args (fun x y => VNum (fadd ops x y))
    | BSubNum => num2 args (fun x y => VNum (fsub ops x y))
    | BMul => num2 args (fun x y => VNum (fmul ops x y))
    | BDiv => num2 args (fun x y => VNum (fdiv ops x y))
    | BExp => num2 args (fun x y => VNum (fpow ops x y))
    | BMaxNum => num2 args (fun x y => VNum (fmax ops x y))
    | BMinNum => num2 args (fun x y => VNum (fmin ops x y))
    | BMod =>
        match args with
        | [a; b] =>
            let^ x := as_num a in let^ y := as_num b in
            let yi := to_i64 ops y in
            if Z.eqb yi 0 then fail FModZero
            else ret (VNum (of_Z ops (Z.rem (to_i64 ops x) yi)))
        | _ => fault XOther
        end
    | BAddStr => match args with [a; b] => let^ x := as_str a in let^ y := as_str b in ret (VStr (x ++ y)) | _ => fault XOther end
    | BLenStr => match args with [a] => let^ x := as_str a in ret (VNum (of_Z ops (Z.of_N (rune_count x)))) | _ => fault XOther end
    | BLenList => match args with [a] => let^ x := as_list a in ret (of_nat_num (len x)) | _ => fault XOther end
    | BLenMap => match args with [a] => let^ x := as_map a in ret (of_nat_num (len x)) | _ => fault XOther end
    | BEqNum => num2 args (fun x y => VBool (num_eq ops x y))
    | BNeNum => num2 args (fun x y => VBool (num_ne ops x y))
    | BLtNum => num2 args (fun x y => VBool (num_lt ops x y))
    | BLeNum => num2 args (fun x y => VBool (num_le ops x y))
    | BGtNum => num2 args (fun x y => VBool (num_gt ops x y))
    | BGeNum => num2 args (fun x y => VBool (num_ge ops x y))
    | BEqBool => match args with [a; b] => let^ x := as_bool a in let^ y := as_bool b in ret (VBool (Bool.eqb x y)) | _ => fault XOther end
    | BNeBool => match args with [a; b] => let^ x := as_bool a in let^ y := as_bool b in ret (VBool (negb (Bool.eqb x y))) | _ => fault XOther end
    | BEqStr => match args with [a; b] => let^ x := as_str a in let^ y := as_str b in ret (VBool (list_eqb x y)) | _ => fault XOther end
    | BNeStr => match args with [a; b] => let^ x := as_str a in let^ y := as_str b in ret (VBool (negb (list_eqb x y))) | _ => fault XOther end
    | BEqTime => time2 args (fun s1 n1 s2 n2 => VBool (time_eq s1 n1 s2 n2))
    | BNeTime => time2 args (fun s1 n1 s2 n2 => VBool (negb (time_eq s1 n1 s2 n2)))
    | BLtTime => time2 args (fun s1 n1 s2 n2 => VBool (time_lt s1 n1 s2 n2))
    | BLeTime => time2 args (fun s1 n1 s2 n2 => VBool (time_lt s1 n1 s2 n2 || time_eq s1 n1 s2 n2))
    | BGtTime => time2 args (fun s1 n1 s2 n2 => VBool (time_lt s2 n2 s1 n1))
    | BGeTime => time2 args (fun s1 n1 s2 n2 => VBool (time_lt s2 n2 s1 n1 || time_eq s1 n1 s2 n2))
    | BSubTime => time2 args (fun s1 n1 s2 n2 => VNum (time_sub s1 n1 s2 n2))
    | BEqList | BEqMap => any2 args (fun a b => VBool (val_eqb ops a b))
    | BNeList | BNeMap => any2 args (fun a b => VBool (negb (val_eqb ops a b)))
    | BNot => match args with [a] => let^ x := as_bool a in ret (VBool (negb x)) | _ => fault XOther end
    | BMaxList => match args with [a] => let^ vs := as_list a in fold_num (fmax ops) vs | _ => fault XOther end
    | BMinList => match args with [a] => let^ vs := as_list a in fold_num (fmin ops) vs | _ => fault XOther end
    | BGetList =>
        match args with
        | [l; i; d] =>
            let^ vs := as_list l in let^ x := as_num i in
            let idx := to_i64 ops x in
            if Z.ltb idx 0 || Z.leb (Z.of_nat (len vs)) idx then ret d
            else match nth_error vs (Z.to_nat idx) with Some v => ret v | None => ret d end
        | _ => fault XOther
        end
    | BGetMap =>
        match args with
        | [m; k; d] => let^ kvs := as_map m in let^ kk := key_of ops k in
                       match kget kk kvs with Some v => ret v | None => ret d end
        | _ => fault XOther
        end
    | BGetMaybe =>
        match args with
        | [VMaybe _ o; d] => match o with Some v => ret v | None => ret d end
        | [_; _] => fault XTypeConf
        | _ => fault XOther
        end
    | BIsset =>
        match args with
        | [m; k] => let^ kvs := as_map m in let^ kk := key_of ops k in
                    ret (VBool (match kget kk kvs with Some _ => true | None => false end))
        | _ => fault XOther
        end
    | BUnion | BIntersect | BDiff =>
        match args with
        | [a; b2] =>
            let^ x := as_list a in let^ y := as_list b2 in
            let res := match b with BUnion => set_union x y | BIntersect => set_intersect x y | _ => set_diff x y end in
            ret (VList (val_type a) res)
        | _ => fault XOther
        end
    | BString => match args with [a] => ret (VStr (stringify ops a)) | _ => fault XOther end
    | BPrint => match args with [a] => let^ _ := emit (EvStdout (render ops a ++ [10%N])) in ret a | _ => fault XOther end
    | BStrtotime => match args with [a] => let^ s := as_str a in ret (VTime (o_strtotime orc s) 0) | _ => fault XOther end
    | BMatch =>
        match args with
        | [p; s] => let^ pp := as_str p in let^ ss := as_str s in
                    match o_regex orc pp ss with Some r => ret (VBool r) | None => fail FRegex end
        | _ => fault XOther
        end
    | BIf | BAnd | BOr => fault XOther   (* lazy: see Eval *)
    end.
End Sem.
