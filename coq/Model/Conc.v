(* C14 — the part of concurrency that is logic: the shared mutable state of the library and the protocol each operation
   follows on it.  Threads are sequences of atomic shared-variable actions; a schedule is any interleaving.
   The inventory of shared state is regenerated from the source (Generated.shared_state, pinned in Proofs/Tables.v). *)
From Coq Require Import List String Bool NArith ZArith.
Import ListNotations.
Local Open Scope string_scope.

(* the inventory this model covers: every package-level variable (or variable captured by a package-level closure)
   written outside init, with how it is written *)
Definition modelled_shared_state : list string := [
  "parser/ast.newNode#n plain-update";
  "parser/lexer.builtInOpers sorted-in-place in newLexicon";
  "timelib.tzCache element-write in parse_tzfile under tcCacheMut";
  "types.TyVar#n atomic-update"].

Inductive svar := TyVarCounter | TzCache | BuiltInOpers | DotNodeCounter.
Definition svar_eqb (a b : svar) : bool :=
  match a, b with
  | TyVarCounter, TyVarCounter | TzCache, TzCache | BuiltInOpers, BuiltInOpers | DotNodeCounter, DotNodeCounter => true
  | _, _ => false
  end.

Inductive access :=
| Read (v : svar)                 (* plain read *)
| Write (v : svar)                (* plain write *)
| AtomicRMW (v : svar)            (* sync/atomic read-modify-write *)
| LockedRead (l : string) (v : svar) | LockedWrite (l : string) (v : svar).

Definition var_of (a : access) : svar :=
  match a with Read v | Write v | AtomicRMW v | LockedRead _ v | LockedWrite _ v => v end.
Definition is_write (a : access) : bool :=
  match a with Write _ | AtomicRMW _ | LockedWrite _ _ => true | _ => false end.

(* two accesses by different threads race when they touch the same variable, one of them writes, and they are not
   ordered by synchronisation: both atomic, or both under the same lock *)
Definition synchronised (a b : access) : bool :=
  match a, b with
  | AtomicRMW _, AtomicRMW _ => true
  | (LockedRead l _ | LockedWrite l _), (LockedRead m _ | LockedWrite m _) => String.eqb l m
  | _, _ => false
  end.
Definition races (a b : access) : bool :=
  svar_eqb (var_of a) (var_of b) && (is_write a || is_write b) && negb (synchronised a b).

(* what the public operations do to shared state.
   Compile (on its own engine, or on an engine whose first compilation is over): lexing builds a lexicon, which sorts the
   already sorted package-level table of built-in punctuation operators in place (reads only: insertion sort of a sorted
   slice performs no swap); type checking draws fresh type variables; time literals go through the timelib zone cache.
   Invoke: strtotime through the zone cache. *)
Definition compile_accesses : list access :=
  [Read BuiltInOpers; AtomicRMW TyVarCounter; LockedRead "tcCacheMut" TzCache; LockedWrite "tcCacheMut" TzCache].
Definition invoke_accesses : list access :=
  [LockedRead "tcCacheMut" TzCache; LockedWrite "tcCacheMut" TzCache].

Definition race_free (xs ys : list access) : bool :=
  forallb (fun a => forallb (fun b => negb (races a b)) ys) xs.

(* ---- the fresh-name counter ---- *)
(* threads draw numbers; a schedule says which thread moves next; an atomic draw returns the incremented counter *)
Fixpoint run_atomic (sched : list nat) (n : Z) : list (nat * Z) :=
  match sched with
  | [] => []
  | t :: r => (t, (n + 1)%Z) :: run_atomic r (n + 1)%Z
  end.

(* the counter as it was before the repair: n++ is a read followed by a write; a thread holds what it read *)
Inductive step := RdStep (t : nat) | WrStep (t : nat).
Fixpoint run_plain (sched : list step) (n : Z) (held : list (nat * Z)) (out : list (nat * Z)) : list (nat * Z) :=
  match sched with
  | [] => out
  | RdStep t :: r => run_plain r n ((t, n) :: held) out
  | WrStep t :: r =>
      match find (fun x => Nat.eqb (fst x) t) held with
      | Some (_, v) => run_plain r (v + 1)%Z (filter (fun x => negb (Nat.eqb (fst x) t)) held) (out ++ [(t, (v + 1)%Z)])
      | None => run_plain r n held out
      end
  end.
