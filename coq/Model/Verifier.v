(* A bytecode verifier for the VM of Model/VM.v (C11): an abstract interpretation over the byte-level instruction set.
   It is not a transcription of Go code; the harness runs the same check on the implementation's emitted bytes. *)
From Coq Require Import List String Ascii Bool NArith ZArith.
From Yae Require Import Base.Sexp Model.Ty Gen.Generated Model.Num Model.Lexer Model.Check Model.Val Model.Builtins Model.Eval Model.VM.
Import ListNotations.

(* operand layout of an instruction: 'c' 16-bit constant index, 'm' 16-bit size / index, 'j' 16-bit jump target, 'b' 8-bit count *)
Inductive operand := Oc | Om | Oj | Ob.

Definition operands (o : opcode) : list operand :=
  match o with
  | OP_CONST | OP_LOAD | OP_NEW_OBJ => [Oc]
  | OP_OBJ_LOAD => [Om; Oc]
  | OP_NEW_LIST | OP_NEW_MAP => [Oc; Om]
  | OP_CALL_BY_VALUE | OP_CALL_BY_NEED => [Oc; Ob]
  | OP_DYNAMIC_CALL => [Ob]
  | OP_IF_TRUE | OP_JUMP => [Oj]
  | _ => []
  end.

Record decoded := mkDec { d_op : opcode; d_const : option N; d_med : option N; d_jump : option N; d_b : option N; d_size : nat }.

(* decode one instruction at the head of [rest] *)
Definition decode (rest : list N) : option decoded :=
  match rest with
  | [] => None
  | b :: r =>
      match decode_op b with
      | None => None
      | Some o =>
          (fix go (ops : list operand) (r : list N) (acc : decoded) : option decoded :=
             match ops with
             | [] => Some acc
             | Ob :: more =>
                 match r with
                 | x :: r' => go more r' (mkDec (d_op acc) (d_const acc) (d_med acc) (d_jump acc) (Some x) (S (d_size acc)))
                 | [] => None
                 end
             | k :: more =>
                 match r with
                 | hi :: lo :: r' =>
                     let v := (hi * 256 + lo)%N in
                     let acc' := match k with
                                 | Oc => mkDec (d_op acc) (Some v) (d_med acc) (d_jump acc) (d_b acc) (S (S (d_size acc)))
                                 | Om => mkDec (d_op acc) (d_const acc) (Some v) (d_jump acc) (d_b acc) (S (S (d_size acc)))
                                 | _ => mkDec (d_op acc) (d_const acc) (d_med acc) (Some v) (d_b acc) (S (S (d_size acc)))
                                 end in
                     go more r' acc'
                 | _ => None
                 end
             end) (operands o) r (mkDec o None None None None 1)
      end
  end.

(* stack effect (pops, pushes) of a decoded instruction given the pool; None = ill-formed operand *)
Definition effect (pool : list const) (d : decoded) : option (nat * nat) :=
  let cst := match d_const d with Some i => nth_error pool (N.to_nat i) | None => None end in
  match d_op d with
  | OP_NOP | OP_ADD_NUM => Some (0, 0)%nat
  | OP_RETURN => Some (1, 0)%nat
  | OP_CONST => match cst with Some (CVal _) | Some (CThunk _ _) => Some (0, 1)%nat | _ => None end
  | OP_LOAD => match cst with Some (CName _) => Some (0, 1)%nat | _ => None end
  | OP_OBJ_LOAD => match cst, d_med d with Some (CName _), Some _ => Some (1, 1)%nat | _, _ => None end
  | OP_NEW_LIST => match cst, d_med d with Some (CType (TList _)), Some n => Some (N.to_nat n, 1%nat) | _, _ => None end
  | OP_NEW_MAP => match cst, d_med d with Some (CType (TMap _ _)), Some n => Some ((2 * N.to_nat n)%nat, 1%nat) | _, _ => None end
  | OP_NEW_OBJ => match cst with Some (CType (TObj fs)) => Some (len fs, 1%nat) | _ => None end
  | OP_CALL_BY_VALUE =>
      match cst, d_b d with
      | Some (CFun sg), Some n => if Nat.eqb (len (s_params sg)) (N.to_nat n) && negb (s_lazy sg) then Some (N.to_nat n, 1%nat) else None
      | _, _ => None
      end
  | OP_CALL_BY_NEED =>
      match cst, d_b d with
      | Some (CFun sg), Some n => if Nat.eqb (len (s_params sg)) (N.to_nat n) && s_lazy sg then Some (N.to_nat n, 1%nat) else None
      | _, _ => None
      end
  | OP_DYNAMIC_CALL => match d_b d with Some n => Some (S (N.to_nat n), 1%nat) | None => None end
  | OP_IF_TRUE => Some (1, 0)%nat
  | OP_JUMP => Some (0, 0)%nat
  | OP_SUB_NUM | OP_ABS_NUM | OP_CEIL_NUM | OP_FLOOR_NUM | OP_ROUND_NUM | OP_LEN_STR | OP_LEN_LIST | OP_LEN_MAP
  | OP_STRTOTIME_STR | OP_LOGICAL_NOT => Some (1, 1)%nat
  | _ => Some (2, 1)%nat      (* binary intrinsics, LIST_LOAD, MAP_LOAD, GET_MAYBE *)
  end.

Fixpoint pend_get (pc : nat) (l : list (nat * nat)) : option nat :=
  match l with [] => None | (p, d) :: r => if Nat.eqb p pc then Some d else pend_get pc r end.
Definition pend_del (pc : nat) (l : list (nat * nat)) : list (nat * nat) := filter (fun x => negb (Nat.eqb (fst x) pc)) l.

(* one left-to-right pass (jumps only go forward): [d] = depth on fall-through, [pend] = depths promised to jump targets.
   Accepts iff every instruction decodes, operands are well formed, every reachable pc has exactly one depth, no pop below
   zero, jump targets are later instruction boundaries inside the code, RETURN is met at depth one and ends the code. *)
Fixpoint vloop (fuel : nat) (pool : list const) (codelen pc : nat) (rest : list N) (d : option nat)
               (pend : list (nat * nat)) (last_ret : bool) : bool :=
  match fuel with
  | O => false
  | S f =>
    match rest with
    | [] => last_ret && match pend with [] => true | _ => false end
    | _ =>
      let here := match d, pend_get pc pend with
                  | Some a, Some b => if Nat.eqb a b then Some a else None
                  | Some a, None => Some a
                  | None, Some b => Some b
                  | None, None => None
                  end in
      (* two promises for the same pc must agree *)
      let agree := forallb (fun x => if Nat.eqb (fst x) pc then match here with Some h => Nat.eqb (snd x) h | None => false end else true) pend in
      match here, decode rest with
      | Some depth, Some dec =>
          match effect pool dec with
          | None => false
          | Some (pops, pushes) =>
              agree && Nat.leb pops depth &&
              let nd := (depth - pops + pushes)%nat in
              let pend1 := pend_del pc pend in
              let next_pc := (pc + d_size dec)%nat in
              let next_rest := skipn (d_size dec) rest in
              match d_op dec with
              | OP_RETURN => Nat.eqb depth 1 && vloop f pool codelen next_pc next_rest None pend1 true
              | OP_JUMP =>
                  match d_jump dec with
                  | Some t => Nat.ltb pc (N.to_nat t) && Nat.ltb (N.to_nat t) codelen &&
                              vloop f pool codelen next_pc next_rest None ((N.to_nat t, nd) :: pend1) false
                  | None => false
                  end
              | OP_IF_TRUE =>
                  match d_jump dec with
                  | Some t => Nat.ltb pc (N.to_nat t) && Nat.ltb (N.to_nat t) codelen &&
                              vloop f pool codelen next_pc next_rest (Some nd) ((N.to_nat t, nd) :: pend1) false
                  | None => false
                  end
              | _ => vloop f pool codelen next_pc next_rest (Some nd) pend1 false
              end
          end
      | _, _ => false
      end
    end
  end.

Definition verify (pool : list const) (code : list N) : bool :=
  vloop (S (len code)) pool (len code) 0 code (Some 0%nat) [] false.

(* the main code object and every thunk body in the pool *)
Definition verify_all (code : list N) (pool : list const) : bool :=
  verify pool code && forallb (fun c => match c with CThunk body _ => verify pool body | _ => true end) pool.

(* number of instructions of a code object (None if it does not decode) *)
Fixpoint instr_count (fuel : nat) (rest : list N) : option nat :=
  match fuel with
  | O => None
  | S f => match rest with
           | [] => Some 0%nat
           | _ => match decode rest with
                  | Some dec => option_map S (instr_count f (skipn (d_size dec) rest))
                  | None => None
                  end
           end
  end.
