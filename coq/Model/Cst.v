(* Parse trees: /repo/parser/ast/ast.go + cst.go (sugar nodes), with the positions the parser records.
   The fields the type checker attaches later live in Model/Check.v's annotated tree. *)
From Coq Require Import List String Ascii Bool NArith ZArith.
From Yae Require Import Base.Sexp Model.Lexer.
Import ListNotations.
Local Open Scope string_scope.

Record pos := mkPos { p_idx : Z; p_end : Z; p_col : Z; p_line : Z }.
Definition pos_unknown : pos := mkPos (-1) (-1) (-1) (-1).
Definition tok_pos (t : token) : pos :=
  mkPos (Z.of_N (t_idx t)) (Z.of_N (t_end t)) (Z.of_N (t_col t)) (Z.of_N (t_line t)).

Inductive expr :=
| EStr (p : pos) (text : list N)
| ENum (p : pos) (text : list N)
| ETime (p : pos) (text : list N)
| EBool (p : pos) (b : bool)
| EList (p : pos) (es : list expr)
| EMap (p : pos) (kvs : list (expr * expr))
| EObj (p : pos) (fs : list (list N * expr))
| EIdent (p : pos) (name : list N)
| ECall (p : pos) (col : Z) (callee : expr) (args : list expr)
| ESub (p : pos) (col : Z) (v idx : expr)
| EMember (p : pos) (col : Z) (obj : expr) (fname : list N) (fpos : pos)
(* sugar: removed by desugar *)
| EUnary (p : pos) (name : list N) (npos : pos) (operand : expr) (prefix : bool)
| EBinary (p : pos) (name : list N) (npos : pos) (fixity : N) (l r : expr)
| ETernary (p : pos) (name : list N) (npos : pos) (l m r : expr)
| EGroup (p : pos) (e : expr).

Definition expr_pos (e : expr) : pos :=
  match e with
  | EStr p _ | ENum p _ | ETime p _ | EBool p _ | EList p _ | EMap p _ | EObj p _ | EIdent p _
  | ECall p _ _ _ | ESub p _ _ _ | EMember p _ _ _ _ | EUnary p _ _ _ _ | EBinary p _ _ _ _ _
  | ETernary p _ _ _ _ _ | EGroup p _ => p
  end.

(* ---- wire ---- *)
Definition enc_pos (p : pos) : sexp := L [eZ (p_idx p); eZ (p_end p); eZ (p_col p); eZ (p_line p)].

Fixpoint enc_expr (e : expr) : sexp :=
  match e with
  | EStr p t => L [A "str"; enc_pos p; eNs t]
  | ENum p t => L [A "num"; enc_pos p; eNs t]
  | ETime p t => L [A "time"; enc_pos p; eNs t]
  | EBool p b => L [A "bool"; enc_pos p; eB b]
  | EList p es => L [A "list"; enc_pos p; L (map enc_expr es)]
  | EMap p kvs => L [A "map"; enc_pos p; L (map (fun kv => L [enc_expr (fst kv); enc_expr (snd kv)]) kvs)]
  | EObj p fs => L [A "obj"; enc_pos p; L (map (fun f => L [eNs (fst f); enc_expr (snd f)]) fs)]
  | EIdent p n => L [A "id"; enc_pos p; eNs n]
  | ECall p c f args => L [A "call"; enc_pos p; eZ c; enc_expr f; L (map enc_expr args)]
  | ESub p c v i => L [A "sub"; enc_pos p; eZ c; enc_expr v; enc_expr i]
  | EMember p c o n np => L [A "member"; enc_pos p; eZ c; enc_expr o; eNs n; enc_pos np]
  | EUnary p n np x pre => L [A "unary"; enc_pos p; eNs n; enc_pos np; enc_expr x; eB pre]
  | EBinary p n np fx l r => L [A "binary"; enc_pos p; eNs n; enc_pos np; eN fx; enc_expr l; enc_expr r]
  | ETernary p n np l m r => L [A "ternary"; enc_pos p; eNs n; enc_pos np; enc_expr l; enc_expr m; enc_expr r]
  | EGroup p x => L [A "group"; enc_pos p; enc_expr x]
  end.

Definition dec_pos (s : sexp) : option pos :=
  match s with
  | L [a; b; c; d] => do a' <- dZ a; do b' <- dZ b; do c' <- dZ c; do d' <- dZ d; Some (mkPos a' b' c' d')
  | _ => None
  end.

Fixpoint dec_expr (s : sexp) : option expr :=
  match s with
  | L (A tag :: p :: args) =>
      do p' <- dec_pos p;
      if tag =? "str" then match args with [t] => option_map (EStr p') (dNs t) | _ => None end
      else if tag =? "num" then match args with [t] => option_map (ENum p') (dNs t) | _ => None end
      else if tag =? "time" then match args with [t] => option_map (ETime p') (dNs t) | _ => None end
      else if tag =? "bool" then match args with [b] => option_map (EBool p') (dB b) | _ => None end
      else if tag =? "id" then match args with [n] => option_map (EIdent p') (dNs n) | _ => None end
      else if tag =? "list" then match args with [L es] => option_map (EList p') (mapM dec_expr es) | _ => None end
      else if tag =? "map" then
        match args with
        | [L kvs] => option_map (EMap p') (mapM (fun kv => match kv with
                                                          | L [k; v] => do k' <- dec_expr k; do v' <- dec_expr v; Some (k', v')
                                                          | _ => None end) kvs)
        | _ => None end
      else if tag =? "obj" then
        match args with
        | [L fs] => option_map (EObj p') (mapM (fun f => match f with
                                                        | L [n; v] => do n' <- dNs n; do v' <- dec_expr v; Some (n', v')
                                                        | _ => None end) fs)
        | _ => None end
      else if tag =? "call" then
        match args with
        | [c; f; L az] => do c' <- dZ c; do f' <- dec_expr f; do az' <- mapM dec_expr az; Some (ECall p' c' f' az')
        | _ => None end
      else if tag =? "sub" then
        match args with
        | [c; v; i] => do c' <- dZ c; do v' <- dec_expr v; do i' <- dec_expr i; Some (ESub p' c' v' i')
        | _ => None end
      else if tag =? "member" then
        match args with
        | [c; o; n; np] => do c' <- dZ c; do o' <- dec_expr o; do n' <- dNs n; do np' <- dec_pos np; Some (EMember p' c' o' n' np')
        | _ => None end
      else if tag =? "unary" then
        match args with
        | [n; np; x; pre] => do n' <- dNs n; do np' <- dec_pos np; do x' <- dec_expr x; do pre' <- dB pre; Some (EUnary p' n' np' x' pre')
        | _ => None end
      else if tag =? "binary" then
        match args with
        | [n; np; fx; l; r] => do n' <- dNs n; do np' <- dec_pos np; do fx' <- dN fx; do l' <- dec_expr l; do r' <- dec_expr r;
                               Some (EBinary p' n' np' fx' l' r')
        | _ => None end
      else if tag =? "ternary" then
        match args with
        | [n; np; l; m; r] => do n' <- dNs n; do np' <- dec_pos np; do l' <- dec_expr l; do m' <- dec_expr m; do r' <- dec_expr r;
                              Some (ETernary p' n' np' l' m' r')
        | _ => None end
      else if tag =? "group" then match args with [x] => option_map (EGroup p') (dec_expr x) | _ => None end
      else None
  | _ => None
  end.
