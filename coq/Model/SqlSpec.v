(* Reading the WHERE text back with standard SQL precedence (C20): conditions are units; NOT binds tighter than AND,
   AND tighter than OR; parentheses group.  Not a transcription of Go code. *)
From Coq Require Import List String Ascii Bool NArith ZArith.
From Yae Require Import Base.Sexp Model.Ty Model.Num Model.Lexer Model.Val Model.Render Model.Eval Model.Sql.
Import ListNotations.
Local Open Scope list_scope.

Inductive stok := TLeaf (c : cond) | TAnd | TOr | TNot | TLp | TRp.

(* the printer's output as tokens: same recursion as Sql.sql_text *)
Fixpoint sql_toks (c : crit) (outer : N) : list stok :=
  let paren (own : N) (t : list stok) := if N.ltb own outer then [TLp] ++ t ++ [TRp] else t in
  match c with
  | CLeaf k => [TLeaf k]
  | CAnd a b => paren P_AND (sql_toks a P_AND ++ [TAnd] ++ sql_toks b P_AND)
  | COr a b => paren P_OR (sql_toks a P_OR ++ [TOr] ++ sql_toks b P_OR)
  | CNot a => paren P_NOT ([TNot] ++ sql_toks a P_NOT)
  end.

Section Text.
  Variable ops : numops.
  Variable rho : venv.

  (* text of a token list with the printer's spacing: single spaces between tokens, none inside parentheses *)
  Definition tok_text (t : stok) : option (list N) :=
    match t with
    | TLeaf k => cond_text ops rho k
    | TAnd => Some B"AND" | TOr => Some B"OR" | TNot => Some B"NOT" | TLp => Some B"(" | TRp => Some B")"
    end.
  Definition is_lp (t : stok) : bool := match t with TLp => true | _ => false end.
  Definition is_rp (t : stok) : bool := match t with TRp => true | _ => false end.
  Fixpoint render_toks (ts : list stok) : option (list N) :=
    match ts with
    | [] => Some []
    | [t] => tok_text t
    | t :: ((u :: _) as r) =>
        do a <- tok_text t; do b <- render_toks r;
        Some (if is_lp t || is_rp u then a ++ b else a ++ [32%N] ++ b)
    end.
End Text.

(* ---- the reader: recursive descent, OR < AND < NOT < atom ---- *)
Fixpoint read_or (fuel : nat) (ts : list stok) : option (crit * list stok) :=
  match fuel with
  | O => None
  | S f =>
    let read_atom (ts : list stok) : option (crit * list stok) :=
      match ts with
      | TLeaf k :: r => Some (CLeaf k, r)
      | TLp :: r => match read_or f r with
                    | Some (c, TRp :: r') => Some (c, r')
                    | _ => None
                    end
      | _ => None
      end in
    let read_not := fix rn (n : nat) (ts : list stok) : option (crit * list stok) :=
      match n with
      | O => None
      | S m => match ts with
               | TNot :: r => match rn m r with Some (c, r') => Some (CNot c, r') | None => None end
               | _ => read_atom ts
               end
      end in
    let read_and := fix ra (n : nat) (acc : crit) (ts : list stok) : option (crit * list stok) :=
      match n with
      | O => None
      | S m => match ts with
               | TAnd :: r => match read_not (S (List.length r)) r with
                              | Some (c, r') => ra m (CAnd acc c) r'
                              | None => None end
               | _ => Some (acc, ts)
               end
      end in
    let and_expr (ts : list stok) : option (crit * list stok) :=
      match read_not (S (List.length ts)) ts with
      | Some (c, r) => read_and (S (List.length r)) c r
      | None => None
      end in
    match and_expr ts with
    | Some (c, r) =>
        (fix ro (n : nat) (acc : crit) (ts : list stok) : option (crit * list stok) :=
           match n with
           | O => None
           | S m => match ts with
                    | TOr :: r => match and_expr r with
                                  | Some (c, r') => ro m (COr acc c) r'
                                  | None => None end
                    | _ => Some (acc, ts)
                    end
           end) (S (List.length r)) c r
    | None => None
    end
  end.

Definition read (ts : list stok) : option crit :=
  match read_or (S (List.length ts)) ts with Some (c, []) => Some c | _ => None end.

(* boolean structure up to associativity of AND and of OR: n-ary flattening *)
Inductive btree := BLeaf (c : cond) | BAnd (l : list btree) | BOr (l : list btree) | BNot (b : btree).
Fixpoint flat (c : crit) : btree :=
  match c with
  | CLeaf k => BLeaf k
  | CNot a => BNot (flat a)
  | CAnd a b =>
      let l := match flat a with BAnd x => x | t => [t] end in
      let r := match flat b with BAnd x => x | t => [t] end in BAnd (l ++ r)
  | COr a b =>
      let l := match flat a with BOr x => x | t => [t] end in
      let r := match flat b with BOr x => x | t => [t] end in BOr (l ++ r)
  end.

(* scanning a double-quoted SQL literal with backslash escapes (MySQL default mode): position just after the closing quote *)
Fixpoint lit_end (l : list N) (pos : nat) : option nat :=
  match l with
  | [] => None
  | c :: r =>
      if N.eqb c 92 then match r with _ :: r' => lit_end r' (S (S pos)) | [] => None end
      else if N.eqb c 34 then Some (S pos)
      else lit_end r (S pos)
  end.
