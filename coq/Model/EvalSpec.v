(* Vocabulary for C01 / C02 / C06 about evaluation. *)
From Coq Require Import List String Ascii Bool NArith ZArith.
From Yae Require Import Base.Sexp Model.Ty Gen.Generated Model.Num Model.Lexer Model.Literal Model.Cst Model.Check
  Model.CheckSpec Model.Val Model.Render Model.ValSpec Model.Builtins Model.Eval.
Import ListNotations.
Local Open Scope string_scope.

(* the run-time environment conforms to the compile-time one (facade.envCheck + conversion: every name bound to a
   well-formed value of an equal type; extra names allowed) *)
Definition env_ok (G : tenv) (rho : venv) : Prop :=
  forall n t, assoc n G = Some t -> exists v, assoc n rho = Some v /\ has_vtype v t = true /\ fun_free v = true.

(* user-registered (non built-in) functions of the table: the fixed library of Model/Eval.v *)
Definition user_sigs : list fsig :=
  [ mkSig "inc" [TNum] TNum false;
    mkSig "area" [TObj [("w", TNum); ("h", TNum)]] TNum false;
    mkSig "ident" [TVar "A"] (TVar "A") false;
    mkSig "pick" [TList TNum; TVar "A"] (TVar "A") false;
    mkSig "pick" [TList (TVar "A"); TVar "B"] (TVar "B") false;
    mkSig "lazyif" [TBool; TVar "A"; TVar "A"] (TVar "A") true;
    mkSig "both" [TBool; TBool] TBool true;
    mkSig "tr" [TNum] TNum false; mkSig "trs" [TStr] TStr false; mkSig "trb" [TBool] TBool false;
    mkSig "boom" [TNum] TNum false ].

(* the tables the harness builds: built-ins, or the library followed by the built-ins (the facade registers user
   functions at once and the built-ins at the first compilation) *)
Definition fenv_std : fenv := fold_left register (user_sigs ++ map sig_of_tuple builtin_sigs) fenv_empty.

Definition is_fault {X} (o : outcome X) : bool := match o with OFault _ => true | _ => false end.
Definition is_fuel_fault {X} (o : outcome X) : bool := match o with OFault XFuel => true | _ => false end.

(* trace of a computation / its outcome *)
Definition tr_of {X} (m : M X) : list event := fst m.
Definition out_of {X} (m : M X) : outcome X := snd m.
