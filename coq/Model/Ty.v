(* Types of the expression language: transcription of /repo/types/type.go, kind.go, equals.go, typecheck.go:slotFree,
   string.go.  Pointers/aliasing are not modelled: a type is a tree. *)
From Coq Require Import List String Ascii Bool NArith.
From Yae Require Import Base.Sexp.
Import ListNotations.
Open Scope string_scope.

Inductive ty :=
| TTop | TBot
| TVar (n : string)
| TNum | TStr | TBool | TTime
| TTuple (l : list ty)
| TList (e : ty)
| TMap (k v : ty)
| TObj (fs : list (string * ty))
| TFun (name : string) (ps : list ty) (r : ty)
| TMaybe (e : ty).

(* types/kind.go *)
Definition is_primitive (t : ty) : bool :=
  match t with TNum | TStr | TBool | TTime => true | _ => false end.
Definition is_composite (t : ty) : bool :=
  match t with TTuple _ | TList _ | TMap _ _ | TObj _ | TFun _ _ _ | TMaybe _ => true | _ => false end.
Definition is_var (t : ty) : bool := match t with TVar _ => true | _ => false end.

(* ObjTy.GetField: lookup through the Index map (first and only occurrence: types.Obj refuses duplicates) *)
Fixpoint assoc {X} (n : string) (l : list (string * X)) : option X :=
  match l with
  | [] => None
  | (m, x) :: r => if String.eqb n m then Some x else assoc n r
  end.

(* position of a field, ObjTy.Index *)
Fixpoint index_of {X} (n : string) (l : list (string * X)) : option nat :=
  match l with
  | [] => None
  | (m, _) :: r => if String.eqb n m then Some 0 else option_map S (index_of n r)
  end.

(* types/equals.go: Equals.  Objects: equal length and every field of the LEFT found by name on the right.
   Function names are not compared. *)
Fixpoint ty_eqb (x y : ty) {struct x} : bool :=
  match x, y with
  | TTop, TTop | TBot, TBot | TNum, TNum | TStr, TStr | TBool, TBool | TTime, TTime => true
  | TVar a, TVar b => String.eqb a b
  | TMap k1 v1, TMap k2 v2 => ty_eqb k1 k2 && ty_eqb v1 v2
  | TTuple l1, TTuple l2 =>
      (fix go (l1 l2 : list ty) {struct l1} : bool :=
         match l1, l2 with
         | [], [] => true
         | a :: r1, b :: r2 => ty_eqb a b && go r1 r2
         | _, _ => false
         end) l1 l2
  | TList a, TList b => ty_eqb a b
  | TObj f1, TObj f2 =>
      Nat.eqb (List.length f1) (List.length f2) &&
      (fix go (f1 : list (string * ty)) : bool :=
         match f1 with
         | [] => true
         | (n, t) :: r => match assoc n f2 with Some t' => ty_eqb t t' | None => false end && go r
         end) f1
  | TFun _ p1 r1, TFun _ p2 r2 =>
      (fix go (l1 l2 : list ty) {struct l1} : bool :=
         match l1, l2 with
         | [], [] => true
         | a :: r1, b :: r2 => ty_eqb a b && go r1 r2
         | _, _ => false
         end) p1 p2 && ty_eqb r1 r2
  | TMaybe a, TMaybe b => ty_eqb a b
  | _, _ => false
  end.

(* typecheck.go: slotFree *)
Fixpoint slot_free (t : ty) : bool :=
  match t with
  | TVar _ => false
  | TList e | TMaybe e => slot_free e
  | TMap k v => slot_free k && slot_free v
  | TTuple l => forallb slot_free l
  | TObj fs => forallb (fun f => slot_free (snd f)) fs
  | TFun _ ps r => forallb slot_free ps && slot_free r
  | _ => true
  end.

(* factory.go: keyable, and the constructor-time assertions (Map key keyable, Obj field names distinct) *)
Definition keyable (t : ty) : bool := is_primitive t || is_var t || match t with TBot => true | _ => false end.

Fixpoint nodupb (l : list string) : bool :=
  match l with
  | [] => true
  | a :: r => negb (existsb (String.eqb a) r) && nodupb r
  end.

Fixpoint wf_ty (t : ty) : bool :=
  match t with
  | TList e | TMaybe e => wf_ty e
  | TMap k v => keyable k && wf_ty k && wf_ty v
  | TTuple l => forallb wf_ty l
  | TObj fs => nodupb (map fst fs) && forallb (fun f => wf_ty (snd f)) fs
  | TFun _ ps r => forallb wf_ty ps && wf_ty r
  | _ => true
  end.

(* size, used as fuel bound *)
Fixpoint ty_size (t : ty) : nat :=
  match t with
  | TList e | TMaybe e => S (ty_size e)
  | TMap k v => S (ty_size k + ty_size v)
  | TTuple l => S (fold_right (fun x a => ty_size x + a) 0 l)
  | TObj fs => S (fold_right (fun f a => ty_size (snd f) + a) 0 fs)
  | TFun _ ps r => S (fold_right (fun x a => ty_size x + a) 0 ps + ty_size r)
  | _ => 1
  end.

(* types/string.go, as text (used by the mono overload key and by rendering of optionals) *)
Fixpoint join (sep : string) (l : list string) : string :=
  match l with
  | [] => ""
  | [a] => a
  | a :: r => a ++ sep ++ join sep r
  end.

Definition str3 (a b c : N) : string :=
  String (ascii_of_N a) (String (ascii_of_N b) (String (ascii_of_N c) EmptyString)).
Definition utf8_top := str3 226 138 164.   (* U+22A4 *)
Definition utf8_bot := str3 226 138 165.   (* U+22A5 *)

Fixpoint ty_str (t : ty) : string :=
  match t with
  | TNum => "num" | TStr => "str" | TBool => "bool" | TTime => "time"
  | TTuple l => "(" ++ join ", " (map ty_str l) ++ ")"
  | TList e => "list[" ++ ty_str e ++ "]"
  | TMap k v => "map[" ++ ty_str k ++ ", " ++ ty_str v ++ "]"
  | TObj fs => "{" ++ join ", " (map (fun f => fst f ++ ": " ++ ty_str (snd f)) fs) ++ "}"
  | TFun n ps r => "func " ++ n ++ "(" ++ join ", " (map ty_str ps) ++ ") " ++ ty_str r
  | TMaybe e => "maybe[" ++ ty_str e ++ "]"
  | TVar n => "'" ++ n
  | TTop => utf8_top
  | TBot => utf8_bot
  end.

(* types/overload.go: canonical -- object fields sorted by name (function names kept) *)
Fixpoint canon (t : ty) : ty :=
  match t with
  | TList e => TList (canon e)
  | TMaybe e => TMaybe (canon e)
  | TMap k v => TMap (canon k) (canon v)
  | TTuple l => TTuple (map canon l)
  | TObj fs => TObj (sort_kv (map (fun f => (fst f, canon (snd f))) fs))
  | TFun n ps r => TFun n (map canon ps) (canon r)
  | _ => t
  end.

(* ---- wire ---- *)
Fixpoint enc_ty (t : ty) : sexp :=
  match t with
  | TTop => A "top" | TBot => A "bot" | TNum => A "num" | TStr => A "str" | TBool => A "bool" | TTime => A "time"
  | TVar n => L [A "var"; eName n]
  | TTuple l => L (A "tuple" :: map enc_ty l)
  | TList e => L [A "list"; enc_ty e]
  | TMap k v => L [A "map"; enc_ty k; enc_ty v]
  | TObj fs => L (A "obj" :: map (fun f => L [eName (fst f); enc_ty (snd f)]) fs)
  | TFun n ps r => L [A "fun"; eName n; L (map enc_ty ps); enc_ty r]
  | TMaybe e => L [A "maybe"; enc_ty e]
  end.

Fixpoint dec_ty (s : sexp) : option ty :=
  match s with
  | A a =>
      if a =? "top" then Some TTop else if a =? "bot" then Some TBot else if a =? "num" then Some TNum
      else if a =? "str" then Some TStr else if a =? "bool" then Some TBool else if a =? "time" then Some TTime
      else None
  | L (A tag :: args) =>
      if tag =? "var" then match args with [n] => option_map TVar (dName n) | _ => None end
      else if tag =? "tuple" then option_map TTuple (mapM dec_ty args)
      else if tag =? "list" then match args with [e] => option_map TList (dec_ty e) | _ => None end
      else if tag =? "maybe" then match args with [e] => option_map TMaybe (dec_ty e) | _ => None end
      else if tag =? "map" then
        match args with [k; v] => do k' <- dec_ty k; do v' <- dec_ty v; Some (TMap k' v') | _ => None end
      else if tag =? "obj" then
        option_map TObj (mapM (fun f => match f with
                                        | L [n; t] => do n' <- dName n; do t' <- dec_ty t; Some (n', t')
                                        | _ => None end) args)
      else if tag =? "fun" then
        match args with
        | [n; L ps; r] => do n' <- dName n; do ps' <- mapM dec_ty ps; do r' <- dec_ty r; Some (TFun n' ps' r')
        | _ => None
        end
      else None
  | _ => None
  end.
