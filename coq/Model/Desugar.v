(* Transcription of /repo/trans/desugar.go. *)
From Coq Require Import List String Ascii Bool NArith ZArith.
From Yae Require Import Base.Sexp Model.Lexer Model.Cst.
Import ListNotations.

Definition IF_NAME : list N := runes "if".

(* None = util.Unreachable (a ternary node whose operator is not '?') *)
Fixpoint desugar (e : expr) : option expr :=
  match e with
  | EStr _ _ | ENum _ _ | EBool _ _ | ETime _ _ | EIdent _ _ => Some e
  | EList p es => option_map (EList p) (mapM desugar es)
  | EMap p kvs => option_map (EMap p) (mapM (fun kv => do k <- desugar (fst kv); do v <- desugar (snd kv); Some (k, v)) kvs)
  | EObj p fs => option_map (EObj p) (mapM (fun f => do v <- desugar (snd f); Some (fst f, v)) fs)
  | EUnary p name npos x _ =>
      do x' <- desugar x; Some (ECall p (p_col npos) (EIdent npos name) [x'])
  | EBinary p name npos _ l r =>
      do l' <- desugar l; do r' <- desugar r; Some (ECall p (p_col npos) (EIdent npos name) [l'; r'])
  | ETernary p name npos l m r =>
      if list_eqb name [63%N] then
        do l' <- desugar l; do m' <- desugar m; do r' <- desugar r;
        Some (ECall p (p_col npos) (EIdent npos IF_NAME) [l'; m'; r'])
      else None
  | ECall p col callee args =>
      match callee with
      | EMember _ _ obj fname fpos =>
          do o' <- desugar obj; do args' <- mapM desugar args;
          Some (ECall p col (EIdent fpos fname) (o' :: args'))
      | _ =>
          do args' <- mapM desugar args; do c' <- desugar callee; Some (ECall p col c' args')
      end
  | ESub p col v i => do v' <- desugar v; do i' <- desugar i; Some (ESub p col v' i')
  | EMember p col o n np => do o' <- desugar o; Some (EMember p col o' n np)
  | EGroup _ x => desugar x
  end.

(* core forms only *)
Fixpoint core_only (e : expr) : bool :=
  match e with
  | EStr _ _ | ENum _ _ | EBool _ _ | ETime _ _ | EIdent _ _ => true
  | EList _ es => forallb core_only es
  | EMap _ kvs => forallb (fun kv => core_only (fst kv) && core_only (snd kv)) kvs
  | EObj _ fs => forallb (fun f => core_only (snd f)) fs
  | ECall _ _ c args => core_only c && forallb core_only args
  | ESub _ _ v i => core_only v && core_only i
  | EMember _ _ o _ _ => core_only o
  | EUnary _ _ _ _ _ | EBinary _ _ _ _ _ _ | ETernary _ _ _ _ _ _ | EGroup _ _ => false
  end.
