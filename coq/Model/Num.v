(* Numbers are IEEE binary64 values represented by their bit pattern (an N below 2^64).  The arithmetic itself is a
   record of functions: theorems are generic in it (and state as hypotheses the few facts they need); for execution the
   OCaml driver supplies the hardware operations (same IEEE arithmetic as Go's float64), see driver/main.ml. *)
From Coq Require Import List NArith ZArith Bool.
Import ListNotations.

Record numops := mkNumOps {
  fadd : N -> N -> N; fsub : N -> N -> N; fmul : N -> N -> N; fdiv : N -> N -> N;
  fpow : N -> N -> N;              (* math.Pow *)
  fmin : N -> N -> N; fmax : N -> N -> N;   (* math.Min / math.Max *)
  fneg : N -> N; fabs : N -> N; ffloor : N -> N; fceil : N -> N; fround : N -> N;   (* math.Round: half away from zero *)
  flt : N -> N -> bool; fle : N -> N -> bool;    (* IEEE < and <= (false on NaN) *)
  is_int : N -> bool;              (* val.NumVal.IsInt: v == trunc(v) and |v| < 2^63 *)
  to_i64 : N -> Z;                 (* Go int64(v) on amd64: truncation; NaN / out of range -> -2^63 *)
  of_Z : Z -> N;                   (* float64(int64): nearest, ties to even *)
  of_dec : list N -> Z -> N;       (* decimal digits (ASCII) * 10^e10, correctly rounded: strconv.ParseFloat *)
  fmt_float : N -> list N;         (* strconv.FormatFloat(v, 'f', -1, 64), bytes *)
  eps : N                          (* bit pattern of val.epsilon = 1e-9 *)
}.

Section Cmp.
  Variable ops : numops.
  (* val/num.go *)
  Definition num_eq (x y : N) : bool := flt ops (fabs ops (fsub ops x y)) (eps ops).
  Definition num_ne (x y : N) : bool := fle ops (eps ops) (fabs ops (fsub ops x y)).     (* math.Abs(x-y) >= epsilon *)
  Definition num_lt (x y : N) : bool := flt ops x y && num_ne x y.
  Definition num_le (x y : N) : bool := fle ops x y || num_eq x y.
  Definition num_gt (x y : N) : bool := flt ops y x && num_ne x y.
  Definition num_ge (x y : N) : bool := fle ops y x || num_eq x y.
End Cmp.
