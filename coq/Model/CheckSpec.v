(* Declarative typing rules for C05 / C16, in the property's words.  Not a transcription of Go code. *)
From Coq Require Import List String Ascii Bool NArith ZArith.
From Yae Require Import Base.Sexp Model.Ty Gen.Generated Model.Unify Model.TySpec Model.Lexer Model.Literal Model.Cst Model.Check.
Import ListNotations.
Local Open Scope string_scope.

(* plain substitution application (no fuel: one pass, bindings are variable-free) *)
Fixpoint subst_ty (s : subst) (t : ty) : ty :=
  match t with
  | TVar n => match assoc n s with Some u => u | None => t end
  | TList e => TList (subst_ty s e)
  | TMaybe e => TMaybe (subst_ty s e)
  | TMap k v => TMap (subst_ty s k) (subst_ty s v)
  | TTuple l => TTuple (map (subst_ty s) l)
  | TObj fs => TObj (map (fun f => (fst f, subst_ty s (snd f))) fs)
  | TFun n ps r => TFun n (map (subst_ty s) ps) (subst_ty s r)
  | _ => t
  end.

Fixpoint vars_of (t : ty) : list string :=
  match t with
  | TVar n => [n]
  | TList e | TMaybe e => vars_of e
  | TMap k v => vars_of k ++ vars_of v
  | TTuple l => flat_map vars_of l
  | TObj fs => flat_map (fun f => vars_of (snd f)) fs
  | TFun _ ps r => flat_map vars_of ps ++ vars_of r
  | _ => []
  end%list.

Fixpoint tys_eqb (a b : list ty) : bool :=
  match a, b with
  | [], [] => true
  | x :: r, y :: s => ty_eqb x y && tys_eqb r s
  | _, _ => false
  end.

(* "parameters can be instantiated to the argument types with a fully concrete result": the instantiation binds
   exactly the variables of the parameters, makes every parameter equal to its argument, and leaves no variable in
   the result *)
Definition instantiates (s : subst) (params : list ty) (ret : ty) (args : list ty) (rt : ty) : Prop :=
  (forall n, In n (map fst s) -> In n (flat_map vars_of params)) /\
  ground_subst s = true /\ forallb (fun kv => wf_ty (snd kv)) s = true /\
  tys_eqb (map (subst_ty s) params) args = true /\
  rt = subst_ty s ret /\ slot_free rt = true.

Definition applicable (sg : fsig) (args : list ty) : Prop :=
  exists s rt, instantiates s (s_params sg) (s_ret sg) args rt.

(* the monomorphic overload selected for (name, args): the LAST registered one with equal parameter types;
   here through the key table as registration builds it *)
Definition mono_selected (fe : fenv) (name : string) (args : list ty) : option fsig :=
  assoc (mono_key name args) (f_mono fe).

(* the first registered polymorphic overload (same name and arity) that is applicable *)
Inductive first_applicable : list fsig -> list ty -> fsig -> Prop :=
| fa_here : forall sg rest args, applicable sg args -> first_applicable (sg :: rest) args sg
| fa_later : forall sg rest args sg', ~ applicable sg args -> first_applicable rest args sg' ->
    first_applicable (sg :: rest) args sg'.

Section Typing.
  Variable fe : fenv.
  Variable G : tenv.

  Inductive has_type : expr -> ty -> Prop :=
  | T_str : forall p t v, str_value t = Some v -> has_type (EStr p t) TStr
  | T_num : forall p t n, num_parse t = Some n -> has_type (ENum p t) TNum
  | T_time : forall p t, has_type (ETime p t) TTime
  | T_bool : forall p b, has_type (EBool p b) TBool
  (* homogeneous lists; the empty list has the empty-container element type *)
  | T_list_nil : forall p, has_type (EList p []) (TList TBot)
  | T_list : forall p e0 rest t0,
      has_type e0 t0 ->
      Forall (fun e => exists t, has_type e t /\ ty_eqb t0 t = true) rest ->
      has_type (EList p (e0 :: rest)) (TList t0)
  (* homogeneous maps with primitive keys *)
  | T_map_nil : forall p, has_type (EMap p []) (TMap TBot TBot)
  | T_map : forall p k0 v0 rest kt vt,
      has_type k0 kt -> is_primitive kt = true -> has_type v0 vt ->
      Forall (fun kv => exists t1 t2, has_type (fst kv) t1 /\ ty_eqb kt t1 = true /\
                                      has_type (snd kv) t2 /\ ty_eqb vt t2 = true) rest ->
      has_type (EMap p ((k0, v0) :: rest)) (TMap kt vt)
  (* objects with distinct fields *)
  | T_obj : forall p fs ts,
      Forall2 (fun f t => has_type (snd f) t) fs ts ->
      nodupb (map (fun f => rstr (fst f)) fs) = true ->
      has_type (EObj p fs) (TObj (combine (map (fun f => rstr (fst f)) fs) ts))
  | T_ident : forall p n t,
      reserved (rstr n) = false -> assoc (rstr n) G = Some t -> has_type (EIdent p n) t
  (* calls: an exactly matching monomorphic overload first ... *)
  | T_call_mono : forall p col pn n args argtys sg,
      Forall2 has_type args argtys ->
      mono_selected fe (rstr n) argtys = Some sg ->
      tys_eqb (s_params sg) argtys = true ->
      has_type (ECall p col (EIdent pn n) args) (s_ret sg)
  (* ... otherwise the first registered polymorphic overload whose parameters can be instantiated to the argument
     types with a fully concrete result *)
  | T_call_poly : forall p col pn n args argtys sigs sg s rt,
      Forall2 has_type args argtys ->
      mono_selected fe (rstr n) argtys = None ->
      assoc (poly_key (rstr n) (List.length argtys)) (f_poly fe) = Some sigs ->
      first_applicable sigs argtys sg ->
      instantiates s (s_params sg) (s_ret sg) argtys rt ->
      has_type (ECall p col (EIdent pn n) args) rt
  (* subscripts only on lists by number and on maps by their key type *)
  | T_sub_list : forall p col v i el it,
      has_type v (TList el) -> has_type i it -> ty_eqb it TNum = true -> has_type (ESub p col v i) el
  | T_sub_map : forall p col v i kt vt it,
      has_type v (TMap kt vt) -> has_type i it -> ty_eqb it kt = true -> has_type (ESub p col v i) vt
  (* field access only on objects that have the field *)
  | T_member : forall p col o fname fpos fs t,
      has_type o (TObj fs) -> assoc (rstr fname) fs = Some t -> has_type (EMember p col o fname fpos) t.
End Typing.

(* environments and tables the theorems are about: variable-free, well-formed, no function types *)
Definition ty_ok (t : ty) : bool := slot_free t && wf_ty t && simple t.
Definition tenv_ok (G : tenv) : bool := forallb (fun kv => ty_ok (snd kv)) G.
Definition sig_ok (sg : fsig) : bool :=
  forallb (fun t => wf_ty t && simple t) (s_params sg) && wf_ty (s_ret sg) && simple (s_ret sg).
(* a map type whose key is a type variable does not occur in the type (instantiating it could build an ill-formed map) *)
Fixpoint no_var_key (t : ty) : bool :=
  match t with
  | TMap k v => negb (is_var k) && no_var_key k && no_var_key v
  | TList e | TMaybe e => no_var_key e
  | TTuple l => forallb no_var_key l
  | TObj fs => forallb (fun f => no_var_key (snd f)) fs
  | TFun _ ps r => forallb no_var_key ps && no_var_key r
  | _ => true
  end.

(* monomorphic entries are variable-free (how RegisterFun files them); polymorphic results have no variable map key *)
Definition fenv_ok (fe : fenv) : bool :=
  forallb (fun ks => sig_ok (snd ks) && slot_free (sig_ty (snd ks))) (f_mono fe) &&
  forallb (fun ks => forallb (fun sg => sig_ok sg && no_var_key (s_ret sg)) (snd ks)) (f_poly fe).

(* the names types.TyVar would generate for the pseudo function of inferFun do not occur in any signature *)
Definition fresh_ok (fe : fenv) (fresh : N) : Prop :=
  forall k sigs sg n i, assoc k (f_poly fe) = Some sigs -> In sg sigs ->
    In n (flat_map vars_of (s_ret sg :: s_params sg)) ->
    n <> ("s" ++ string_of_N (fresh + i)) /\ n <> ("t" ++ string_of_N (fresh + i)).
