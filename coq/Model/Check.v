(* Transcription of /repo/types/typecheck.go (Check, resolveOverloadedFun), types/env.go (function tables),
   types/overload.go (overload keys).  The checker annotates the tree (literal types, resolved overload, member index):
   the annotated tree [aexpr] is what the back ends run.  Any util.Assert failure / panic is [CErr]. *)
From Coq Require Import List String Ascii Bool NArith ZArith.
From Yae Require Import Base.Sexp Model.Ty Gen.Generated Model.Unify Model.Lexer Model.Literal Model.Cst.
Import ListNotations.
Local Open Scope string_scope.

(* identifiers are runes in the tree and Go strings (UTF-8 bytes) in types and environments *)
Definition rstr (l : list N) : string :=
  string_of_list_ascii (map ascii_of_N (flat_map utf8_encode l)).

Record fsig := mkSig { s_name : string; s_params : list ty; s_ret : ty; s_lazy : bool }.
Definition sig_ty (s : fsig) : ty := TFun (s_name s) (s_params s) (s_ret s).

Definition u_lambda : string := String (ascii_of_N 206) (String (ascii_of_N 187) EmptyString).     (* U+03BB *)
Definition u_forall : string := str3 226 136 128.                                                 (* U+2200 *)

(* types/overload.go: OverLoaded *)
Definition mono_key (name : string) (params : list ty) : string :=
  u_lambda ++ " " ++ name ++ " " ++ ty_str (canon (TTuple params)).
Definition poly_key (name : string) (n : nat) : string :=
  u_forall ++ "." ++ u_lambda ++ " " ++ name ++ " " ++ string_of_N (N.of_nat n).

Record fenv := mkFenv { f_mono : list (string * fsig); f_poly : list (string * list fsig) }.
Definition fenv_empty := mkFenv [] [].

Fixpoint sput {X} (k : string) (x : X) (l : list (string * X)) : list (string * X) :=
  match l with
  | [] => [(k, x)]
  | (k', x') :: r => if String.eqb k k' then (k, x) :: r else (k', x') :: sput k x r
  end.

(* types/env.go: RegisterFun *)
Definition register (fe : fenv) (s : fsig) : fenv :=
  if slot_free (sig_ty s) then mkFenv (sput (mono_key (s_name s) (s_params s)) s (f_mono fe)) (f_poly fe)
  else
    let k := poly_key (s_name s) (List.length (s_params s)) in
    let old := match assoc k (f_poly fe) with Some l => l | None => [] end in
    mkFenv (f_mono fe) (sput k (old ++ [s])%list (f_poly fe)).

Definition sig_of_tuple (x : string * list ty * ty * bool) : fsig :=
  let '(n, ps, r, lz) := x in mkSig n ps r lz.

Definition builtin_fenv : fenv := fold_left register (map sig_of_tuple builtin_sigs) fenv_empty.

(* ---- annotated tree ---- *)
Inductive aexpr :=
| AStr (v : list N)                                   (* decoded value, UTF-8 bytes *)
| ANum (text : list N) (n : numlit)
| ATime (text : list N)
| ABool (b : bool)
| AList (t : ty) (es : list aexpr)
| AMap (t : ty) (kvs : list (aexpr * aexpr))
| AObj (t : ty) (fs : list (string * aexpr))
| AIdent (col : Z) (name : string)
| ACall (col : Z) (resolved : string) (index : Z) (fty : ty) (callee : aexpr) (args : list aexpr)
| ASub (col : Z) (vty : ty) (v i : aexpr)
| AMember (col : Z) (oty : ty) (idx : nat) (o : aexpr) (fname : string).

Inductive cres (X : Type) := COk (x : X) | CErr | CFuel.
Arguments COk {X}. Arguments CErr {X}. Arguments CFuel {X}.
Definition cbind {X Y} (r : cres X) (f : X -> cres Y) : cres Y :=
  match r with COk x => f x | CErr => CErr | CFuel => CFuel end.
Notation "'let+' x := r 'in' k" := (cbind r (fun x => k)) (at level 200, x pattern, r at level 100, k at level 200).

Definition cmapM {X Y} (f : X -> cres Y) : list X -> cres (list Y) :=
  fix go l := match l with
              | [] => COk []
              | x :: r => let+ y := f x in let+ ys := go r in COk (y :: ys)
              end.

Definition of_res {X} (r : res X) : cres (option X) :=
  match r with Ok x => COk (Some x) | Fail => COk None | Panic => CErr | Fuel => CFuel end.

Definition reserved (name : string) : bool := existsb (String.eqb name) reserved_words.

Definition tenv := list (string * ty).

Definition type_assert (a b : ty) : cres unit := if ty_eqb a b then COk tt else CErr.

Section Check.
  Variable fe : fenv.
  Variable G : tenv.
  Variable fuel : nat.          (* for the unifier *)
  Variable fresh : N.           (* where types.TyVar's counter stands; see Unify.infer_fun *)

  (* inferFun as a checker step: None = this overload does not apply *)
  Definition try_infer (s : fsig) (args : list ty) : cres (option (list ty * ty)) :=
    of_res (infer_fun fuel fuel fresh (s_name s) (s_params s) (s_ret s) args).

  (* arityAssert + typeAssert of every parameter against its argument *)
  Fixpoint params_match (ps args : list ty) : bool :=
    match ps, args with
    | [], [] => true
    | p :: r, a :: s => ty_eqb p a && params_match r s
    | _, _ => false
    end.

  (* resolveOverloadedFun: Some (key, index (-1 for mono), instantiated parameter types, result type) *)
  Definition resolve (name : string) (args : list ty) : cres (string * Z * list ty * ty) :=
    let mk := mono_key name args in
    match assoc mk (f_mono fe) with
    | Some s => COk (mk, (-1)%Z, s_params s, s_ret s)
    | None =>
        let pk := poly_key name (List.length args) in
        match assoc pk (f_poly fe) with
        | None => CErr
        | Some sigs =>
            (fix go (sigs : list fsig) (i : Z) : cres (string * Z * list ty * ty) :=
               match sigs with
               | [] => CErr
               | s :: r =>
                   let+ o := try_infer s args in
                   match o with
                   | Some (ps, rt) =>
                       (* an overload whose instantiated parameters differ from the arguments is skipped *)
                       if params_match ps args then COk (pk, i, ps, rt) else go r (i + 1)%Z
                   | None => go r (i + 1)%Z
                   end
               end) sigs 0%Z
        end
    end.

  Fixpoint check (e : expr) : cres (aexpr * ty) :=
    match e with
    | EStr _ t => match str_value t with Some v => COk (AStr v, TStr) | None => CErr end
    | ENum _ t => match num_parse t with Some n => COk (ANum t n, TNum) | None => CErr end
    | ETime _ t => COk (ATime t, TTime)
    | EBool _ b => COk (ABool b, TBool)
    | EList _ es =>
        match es with
        | [] => COk (AList (TList TBot) [], TList TBot)
        | e0 :: rest =>
            let+ (a0, t0) := check e0 in
            let+ ars := cmapM (fun x => let+ (a, t) := check x in let+ _ := type_assert t0 t in COk a) rest in
            COk (AList (TList t0) (a0 :: ars), TList t0)
        end
    | EMap _ kvs =>
        match kvs with
        | [] => COk (AMap (TMap TBot TBot) [], TMap TBot TBot)
        | (k0, v0) :: rest =>
            let+ (ak0, kt) := check k0 in
            if negb (is_primitive kt) then CErr else
            let+ (av0, vt) := check v0 in
            let+ ars := cmapM (fun kv =>
                                 let+ (ak, t1) := check (fst kv) in let+ _ := type_assert kt t1 in
                                 let+ (av, t2) := check (snd kv) in let+ _ := type_assert vt t2 in
                                 COk (ak, av)) rest in
            COk (AMap (TMap kt vt) ((ak0, av0) :: ars), TMap kt vt)
        end
    | EObj _ fs =>
        let+ afs := cmapM (fun f => let+ (a, t) := check (snd f) in COk (rstr (fst f), a, t)) fs in
        let names := map (fun x => fst (fst x)) afs in
        if negb (nodupb names) then CErr else      (* types.Obj: duplicated field *)
        let t := TObj (map (fun x => (fst (fst x), snd x)) afs) in
        COk (AObj t (map (fun x => (fst (fst x), snd (fst x))) afs), t)
    | EIdent p n =>
        let name := rstr n in
        if reserved name then CErr else
        match assoc name G with Some t => COk (AIdent (p_col p) name, t) | None => CErr end
    | ECall _ col callee args =>
        let+ aargs := cmapM check args in
        let argtys := map snd aargs in
        match callee with
        | EIdent p n =>
            let+ (key, idx, ps, rt) := resolve (rstr n) argtys in
            if params_match ps argtys
            then COk (ACall col key idx (TFun (rstr n) ps rt) (AIdent (p_col p) (rstr n)) (map fst aargs), rt)
            else CErr
        | _ =>
            let+ (ac, ft) := check callee in
            match ft with
            | TFun fname fps fret =>
                let+ o := try_infer (mkSig fname fps fret false) argtys in
                match o with
                | Some (ps, rt) =>
                    if params_match ps argtys
                    then COk (ACall col "" (-1)%Z (TFun fname ps rt) ac (map fst aargs), rt)
                    else CErr
                | None => CErr
                end
            | _ => CErr
            end
        end
    | ESub _ col v i =>
        let+ (av, vt) := check v in
        match vt with
        | TList el =>
            let+ (ai, it) := check i in
            let+ _ := type_assert it TNum in COk (ASub col vt av ai, el)
        | TMap kt vl =>
            let+ (ai, it) := check i in
            let+ _ := type_assert it kt in COk (ASub col vt av ai, vl)
        | _ => CErr
        end
    | EMember _ col o fname _ =>
        let+ (ao, ot) := check o in
        match ot with
        | TObj fs =>
            let name := rstr fname in
            match assoc name fs, index_of name fs with
            | Some ft, Some idx => COk (AMember col ot idx ao name, ft)
            | _, _ => CErr
            end
        | _ => CErr
        end
    | EUnary _ _ _ _ _ | EBinary _ _ _ _ _ _ | ETernary _ _ _ _ _ _ | EGroup _ _ => CErr   (* util.Unreachable *)
    end.
End Check.

(* ---- wire ---- *)
Fixpoint enc_aexpr (a : aexpr) : sexp :=
  match a with
  | AStr v => L [A "str"; eNs v]
  | ANum t _ => L [A "num"; eNs t]
  | ATime t => L [A "time"; eNs t]
  | ABool b => L [A "bool"; eB b]
  | AList t es => L [A "list"; enc_ty t; L (map enc_aexpr es)]
  | AMap t kvs => L [A "map"; enc_ty t; L (map (fun kv => L [enc_aexpr (fst kv); enc_aexpr (snd kv)]) kvs)]
  | AObj t fs => L [A "obj"; enc_ty t; L (map (fun f => L [eName (fst f); enc_aexpr (snd f)]) fs)]
  | AIdent c n => L [A "id"; eZ c; eName n]
  | ACall c key idx ft f args => L [A "call"; eZ c; eName key; eZ idx; enc_ty ft; enc_aexpr f; L (map enc_aexpr args)]
  | ASub c vt v i => L [A "sub"; eZ c; enc_ty vt; enc_aexpr v; enc_aexpr i]
  | AMember c ot idx o n => L [A "member"; eZ c; enc_ty ot; enat idx; enc_aexpr o; eName n]
  end.

Definition dec_sig (s : sexp) : option fsig :=
  match s with
  | L [n; L ps; r; lz] => do n' <- dName n; do ps' <- mapM dec_ty ps; do r' <- dec_ty r; do lz' <- dB lz; Some (mkSig n' ps' r' lz')
  | _ => None
  end.

(* registration history: each element is a signature or the atom "builtin" (the point where the built-ins are added) *)
Definition dec_fenv (s : sexp) : option fenv :=
  match s with
  | L l =>
      fold_left (fun acc x =>
                   do fe <- acc;
                   match x with
                   | A "builtin" => Some (fold_left register (map sig_of_tuple builtin_sigs) fe)
                   | _ => do sg <- dec_sig x; Some (register fe sg)
                   end) l (Some fenv_empty)
  | _ => None
  end.

Definition dec_tenv (s : sexp) : option tenv :=
  match s with
  | L l => mapM (fun x => match x with L [n; t] => do n' <- dName n; do t' <- dec_ty t; Some (n', t') | _ => None end) l
  | _ => None
  end.
