(* One entry point for the correspondence check: a request (an S-expression naming a stage and its input) is
   decoded, run through the model, and the observable encoded back.  Used extracted (driver/) and inside Coq. *)
From Coq Require Import List String Ascii Bool NArith ZArith.
From Yae Require Import Base.Sexp Model.Ty Gen.Generated Model.Unify Model.Lexer Model.Literal Model.Cst Model.Pratt Model.Desugar Model.Check Model.Num Model.Val Model.Render Model.Builtins Model.Eval Model.VM Model.Verifier Model.Sql Model.Debug Model.Api Model.Conv Model.EvalSpec.
Import ListNotations.
Open Scope string_scope.

Definition bad : sexp := A "bad-request".

Definition run_tyeq (args : list sexp) : sexp :=
  match args with
  | [x; y] => match dec_ty x, dec_ty y with Some a, Some b => eB (ty_eqb a b) | _, _ => bad end
  | _ => bad
  end.

Definition enc_unify_res (r : res (ty * subst)) : sexp :=
  enc_res (fun p => L [enc_ty (fst p); enc_subst (sort_kv (snd p))]) r.

Definition run_unify (args : list sexp) : sexp :=
  match args with
  | [x; y; m] =>
      match dec_ty x, dec_ty y, dec_subst m with
      | Some a, Some b, Some m' => enc_unify_res (unify big_fuel big_fuel a b m')
      | _, _, _ => bad
      end
  | _ => bad
  end.

Definition run_apply (args : list sexp) : sexp :=
  match args with
  | [x; m] =>
      match dec_ty x, dec_subst m with
      | Some a, Some m' => enc_res enc_ty (apply_subst big_fuel m' a)
      | _, _ => bad
      end
  | _ => bad
  end.

Definition run_inferfun (args : list sexp) : sexp :=
  match args with
  | [f; L al] =>
      match dec_ty f, mapM dec_ty al with
      | Some (TFun n ps r), Some al' =>
          enc_res (fun p => L [L (map enc_ty (fst p)); enc_ty (snd p)])
                  (infer_fun big_fuel big_fuel 1000000000 n ps r al')
      | _, _ => bad
      end
  | _ => bad
  end.

Definition run_tyinfo (args : list sexp) : sexp :=
  match args with
  | [x] => match dec_ty x with
           | Some a => L [eB (slot_free a); eName (ty_str a); eB (wf_ty a)]
           | None => bad end
  | _ => bad
  end.

Definition dec_ops (s : sexp) : option (list (list N)) :=
  match s with L l => mapM dNs l | _ => None end.

Definition run_lex (args : list sexp) : sexp :=
  match args with
  | [ops; src] =>
      match dec_ops ops, dNs src with
      | Some o, Some s => match lex o s with
                          | Some ts => L [A "ok"; L (map enc_tok ts)]
                          | None => A "err"
                          end
      | _, _ => bad
      end
  | _ => bad
  end.

Definition enc_pres (r : pres expr) : sexp :=
  match r with POk e => L [A "ok"; enc_expr e] | PErr => A "err" | PFuel => A "fuel" end.

Definition run_parse (args : list sexp) : sexp :=
  match args with
  | [ops; src] =>
      match dec_operators ops, dNs src with
      | Some o, Some s => enc_pres (parse_source o s)
      | _, _ => bad
      end
  | _ => bad
  end.

Definition run_parsetoks (args : list sexp) : sexp :=
  match args with
  | [ops; L toks] =>
      match dec_operators ops, mapM dec_tok toks with
      | Some o, Some ts => enc_pres (parse_tokens o ts)
      | _, _ => bad
      end
  | _ => bad
  end.

Definition run_desugar (args : list sexp) : sexp :=
  match args with
  | [e] => match dec_expr e with
           | Some e' => match desugar e' with Some d => L [A "ok"; enc_expr d] | None => A "err" end
           | None => bad end
  | _ => bad
  end.

(* literal decoding: (strlit runes) -> value bytes ; (numlit runes) -> validity *)
Definition run_strlit (args : list sexp) : sexp :=
  match args with
  | [t] => match dNs t with Some t' => eOpt eNs (str_value t') | None => bad end
  | _ => bad
  end.

(* (check fenv tenv expr): expr is the parsed (sugared) tree; the facade desugars first *)
Definition run_check (args : list sexp) : sexp :=
  match args with
  | [fe; te; e] =>
      match dec_fenv fe, dec_tenv te, dec_expr e with
      | Some fe', Some te', Some e' =>
          match desugar e' with
          | None => A "err"
          | Some d =>
              match check fe' te' big_fuel 1000000000 d with
              | COk (a, t) => L [A "ok"; enc_ty t; enc_aexpr a]
              | CErr => A "err"
              | CFuel => A "fuel"
              end
          end
      | _, _, _ => bad
      end
  | _ => bad
  end.

Section WithNum.
Variable ops : numops.

Definition enc_m {X} (f : X -> sexp) (m : M X) : sexp :=
  match m with
  | (_, OVal x) => L [A "ok"; f x]
  | (_, OFail _) => A "fail"
  | (_, OFault _) => A "fault"
  end.

(* (render v) (stringify v) (key v) (valeq x y) *)
Definition run_render (args : list sexp) : sexp :=
  match args with [v] => match dec_val v with Some v' => eNs (render ops v') | None => bad end | _ => bad end.
Definition run_stringify (args : list sexp) : sexp :=
  match args with [v] => match dec_val v with Some v' => eNs (stringify ops v') | None => bad end | _ => bad end.
Definition run_key (args : list sexp) : sexp :=
  match args with [v] => match dec_val v with Some v' => enc_m eNs (key_of ops v') | None => bad end | _ => bad end.
Definition run_valeq (args : list sexp) : sexp :=
  match args with
  | [x; y] => match dec_val x, dec_val y with Some a, Some b => eB (val_eqb ops a b) | _, _ => bad end
  | _ => bad
  end.

(* ---- evaluation from source: lex, parse, desugar, check, evaluate ---- *)
Definition builtin_operators : list operator :=
  map (fun x => mkOp (fst (fst x)) (snd (fst x)) (snd x)) builtin_ops.

Definition dec_venv (s : sexp) : option venv :=
  match s with
  | L l => mapM (fun x => match x with L [n; v] => do n' <- dName n; do v' <- dec_val v; Some (n', v') | _ => None end) l
  | _ => None
  end.

(* oracle tables shipped with the request: ((strtotime ((bytes) secs) ...) (regex ((pattern) (subject) T|F|E) ...)) *)
Definition dec_oracles (s : sexp) : option oracles :=
  match s with
  | L [L (A "strtotime" :: ts); L (A "regex" :: rs)] =>
      do tbl_t <- mapM (fun x => match x with L [k; v] => do k' <- dNs k; do v' <- dZ v; Some (k', v') | _ => None end) ts;
      do tbl_r <- mapM (fun x => match x with
                              | L [p; su; r] => do p' <- dNs p; do su' <- dNs su;
                                  do r' <- (if tag_is r "T" then Some (Some true) else if tag_is r "F" then Some (Some false)
                                            else if tag_is r "E" then Some None else None);
                                  Some (p', su', r')
                              | _ => None end) rs;
      Some (mkOracles (fun k => match kget k tbl_t with Some z => z | None => Z0 end)
                      (fun p su => match find (fun x => list_eqb (fst (fst x)) p && list_eqb (snd (fst x)) su) tbl_r with
                                   | Some x => snd x | None => None end))
  | _ => None
  end.

Definition failk_name (k : failk) : string :=
  match k with FIndex => "fail:index" | FKey => "fail:key" | FModZero => "fail:modzero" | FRegex => "fail:regex" | FHost => "fail:host" end.
Definition faultk_name (k : faultk) : string :=
  match k with XTypeConf => "fault:typeconf" | XNil => "fault:nil" | XUnderflow => "fault:underflow" | XOpcode => "fault:opcode"
             | XUnreachable => "fault:unreachable" | XLimit => "fault:limit" | XFuel => "fault:fuel" | XOther => "fault:other" end.

Definition sort_entries (l : list (list N * val)) : list (list N * val) := sort_by fst l.

Definition enc_host_events (t : list event) : sexp :=
  L (flat_map (fun e => match e with
                        | EvHost n args => [L (eName n :: map (fun v => enc_val (canon_val sort_entries v)) args)]
                        | EvStdout _ => []
                        end) t).
Definition stdout_of (t : list event) : list N :=
  flat_map (fun e => match e with EvStdout s => s | _ => [] end) t.

Definition enc_outcome (m : M val) : sexp :=
  match m with
  | (t, OVal v) => L [A "value"; enc_val (canon_val sort_entries v); enc_host_events t]
  | (t, OFail k) => L [A (failk_name k); enc_host_events t]
  | (t, OFault k) => L [A (faultk_name k); enc_host_events t]
  end.

(* front end shared by all back ends: Some (annotated tree, type) or None = compile error *)
Definition compile_src (fe : fenv) (te : tenv) (src : list N) : option (aexpr * ty) :=
  match parse_source builtin_operators src with
  | POk e =>
      match desugar e with
      | Some d => match check fe te big_fuel 1000000000 d with COk r => Some r | _ => None end
      | None => None
      end
  | _ => None
  end.

(* (evalsrc history tenv venv oracles src) *)
Definition run_evalsrc (args : list sexp) : sexp :=
  match args with
  | [h; te; ve; orc; src] =>
      match dec_fenv h, dec_tenv te, dec_venv ve, dec_oracles orc, dNs src with
      | Some fe, Some te', Some ve', Some orc', Some src' =>
          match compile_src fe te' src' with
          | None => L [A "compile-error"; L []]
          | Some (a, _) => enc_outcome (eval ops orc' fe ve' 5000 a)
          end
      | _, _, _, _, _ => bad
      end
  | _ => bad
  end.

(* ---- the VM: (vmsrc ...) switch loop, (vmcsrc ...) call-threaded loop, (bytecode ...) emitted code and pool ---- *)
Definition vm_limit : nat :=
  match assoc "limit" vm_consts with Some z => Z.to_nat z | None => O end.

Definition run_vm (lim : option nat) (args : list sexp) : sexp :=
  match args with
  | [h; te; ve; orc; src] =>
      match dec_fenv h, dec_tenv te, dec_venv ve, dec_oracles orc, dNs src with
      | Some fe, Some te', Some ve', Some orc', Some src' =>
          match compile_src fe te' src' with
          | None => L [A "compile-error"; L []]
          | Some (a, _) =>
              match compile_main ops orc' fe a with
              | COk (code, pool) => enc_outcome (vm_run ops orc' ve' pool lim 5000 code)
              | _ => L [A "refused:overflow"; L []]
              end
          end
      | _, _, _, _, _ => bad
      end
  | _ => bad
  end.

Definition enc_const (c : const) : sexp :=
  match c with
  | CVal v => L [A "val"; enc_val (canon_val sort_entries v)]
  | CFun sg => L [A "fun"; eName (s_name sg); enat (List.length (s_params sg)); eB (s_lazy sg)]
  | CThunk code rt => L [A "thunk"; eNs code; enc_ty rt]
  | CType t => L [A "type"; enc_ty t]
  | CName n => L [A "name"; eName n]
  end.

Definition dec_const (s : sexp) : option const :=
  match s with
  | L (A tag :: args) =>
      if tag =? "val" then match args with [v] => option_map CVal (dec_val v) | _ => None end
      else if tag =? "fun" then
        match args with
        | [n; k; lz] => do n' <- dName n; do k' <- dnat k; do lz' <- dB lz;
                        Some (CFun (mkSig n' (repeat TBot k') TBot lz'))   (* only arity and strategy matter to the verifier *)
        | _ => None end
      else if tag =? "thunk" then match args with [c; t] => do c' <- dNs c; do t' <- dec_ty t; Some (CThunk c' t') | _ => None end
      else if tag =? "type" then match args with [t] => option_map CType (dec_ty t) | _ => None end
      else if tag =? "name" then match args with [n] => option_map CName (dName n) | _ => None end
      else None
  | _ => None
  end.

(* (verify code pool): the extracted verifier run on the IMPLEMENTATION's emitted bytes *)
Definition run_verify (args : list sexp) : sexp :=
  match args with
  | [c; L p] => match dNs c, mapM dec_const p with
                | Some code, Some pool => eB (verify_all code pool)
                | _, _ => bad end
  | _ => bad
  end.

Definition run_bytecode (args : list sexp) : sexp :=
  match args with
  | [h; te; orc; src] =>
      match dec_fenv h, dec_tenv te, dec_oracles orc, dNs src with
      | Some fe, Some te', Some orc', Some src' =>
          match compile_src fe te' src' with
          | None => A "compile-error"
          | Some (a, _) =>
              match compile_main ops orc' fe a with
              | COk (code, pool) => L [A "ok"; eNs code; L (map enc_const pool)]
              | _ => A "refused:overflow"
              end
          end
      | _, _, _, _ => bad
      end
  | _ => bad
  end.

(* (sql crit venv) *)
Definition run_sql (args : list sexp) : sexp :=
  match args with
  | [c; ve] => match dec_crit c, dec_venv ve with
               | Some c', Some ve' => match sql_text ops ve' c' 0%N with Some t => L [A "ok"; eNs t] | None => A "err" end
               | _, _ => bad end
  | _ => bad
  end.

(* (debugsrc history tenv venv oracles src): outcome, recorded (value, column) entries, rendered report *)
Definition run_debugsrc (args : list sexp) : sexp :=
  match args with
  | [h; te; ve; orc; src] =>
      match dec_fenv h, dec_tenv te, dec_venv ve, dec_oracles orc, dNs src with
      | Some fe, Some te', Some ve', Some orc', Some src' =>
          match compile_src fe te' src' with
          | None => L [A "compile-error"]
          | Some (a, _) =>
              let '(t, raw, o) := deval ops orc' fe ve' 5000 a in
              let recs := rec_all raw in
              L [enc_outcome (t, o);
                 L (map (fun e => L [enc_val (canon_val sort_entries (fst e)); eZ (snd e)]) recs);
                 eNs (report ops src' recs)]
          end
      | _, _, _, _, _ => bad
      end
  | _ => bad
  end.

(* (apieval history tenv venv oracles src): the facade's Eval over raw environments: value, error or escaped panic *)
Definition run_apieval (args : list sexp) : sexp :=
  match args with
  | [h; te; ve; orc; src] =>
      match dec_fenv h, dec_tenv te, dec_venv ve, dec_oracles orc, dNs src with
      | Some fe, Some te', Some ve', Some orc', Some src' =>
          match api_eval ops orc' fe te' ve' src' with
          | AOk v => L [A "ok"; enc_val (canon_val sort_entries v)]
          | AErr => A "err"
          | Escaped => A "escaped"
          end
      | _, _, _, _, _ => bad
      end
  | _ => bad
  end.

(* (conv gty gv): ValOf, TypeOf, TypeEnvOf, ValEnvOf of one host value *)
Definition run_conv (args : list sexp) : sexp :=
  match args with
  | [t; v] =>
      match dec_gty t, dec_gv v with
      | Some t', Some v' =>
          L [eOpt (fun x => enc_val (canon_val sort_entries x)) (ValOf ops t' v');
             eOpt enc_ty (TypeOf ops t' v');
             eOpt (fun l => L (map (fun nt => L [eName (fst nt); enc_ty (snd nt)]) (sort_kv l))) (TypeEnvOf ops t' v');
             eOpt (fun l => L (map (fun nv => L [eName (fst nv); enc_val (canon_val sort_entries (snd nv))]) (sort_kv l))) (ValEnvOf ops t' v')]
      | _, _ => bad
      end
  | _ => bad
  end.

(* (envcall gty1 gv1 gty2 gv2 oracles src): compile against the host value v1, invoke with the host value v2
   (facade: TypeEnvOf, Compile, ValEnvOf, envCheck, run) with the fixed user library registered *)
Definition run_envcall (args : list sexp) : sexp :=
  match args with
  | [t1; v1; t2; v2; orc; src] =>
      match dec_gty t1, dec_gv v1, dec_gty t2, dec_gv v2, dec_oracles orc, dNs src with
      | Some t1', Some v1', Some t2', Some v2', Some orc', Some src' =>
          match TypeEnvOf ops t1' v1' with
          | None => A "compile-env-error"
          | Some te =>
              match api_compile ops orc' fenv_std te src' with
              | AOk (_, code, pool) =>
                  match ValEnvOf ops t2' v2' with
                  | None => A "run-env-error"
                  | Some rho =>
                      let '(r, t) := api_call ops orc' te code pool rho in
                      match r with
                      | AOk v => L [A "ok"; enc_val (canon_val sort_entries v); enc_host_events t]
                      | AErr => L [A "err"; enc_host_events t]
                      | Escaped => A "escaped"
                      end
                  end
              | _ => A "compile-error"
              end
          end
      | _, _, _, _, _, _ => bad
      end
  | _ => bad
  end.

Definition dispatch (req : sexp) : sexp :=
  match req with
  | L (A tag :: args) =>
      if tag =? "tyeq" then run_tyeq args
      else if tag =? "unify" then run_unify args
      else if tag =? "apply" then run_apply args
      else if tag =? "inferfun" then run_inferfun args
      else if tag =? "tyinfo" then run_tyinfo args
      else if tag =? "lex" then run_lex args
      else if tag =? "parse" then run_parse args
      else if tag =? "parsetoks" then run_parsetoks args
      else if tag =? "desugar" then run_desugar args
      else if tag =? "strlit" then run_strlit args
      else if tag =? "check" then run_check args
      else if tag =? "render" then run_render args
      else if tag =? "stringify" then run_stringify args
      else if tag =? "key" then run_key args
      else if tag =? "valeq" then run_valeq args
      else if tag =? "evalsrc" then run_evalsrc args
      else if tag =? "vmsrc" then run_vm None args
      else if tag =? "vmcsrc" then run_vm (Some vm_limit) args
      else if tag =? "bytecode" then run_bytecode args
      else if tag =? "verify" then run_verify args
      else if tag =? "sql" then run_sql args
      else if tag =? "debugsrc" then run_debugsrc args
      else if tag =? "apieval" then run_apieval args
      else if tag =? "conv" then run_conv args
      else if tag =? "envcall" then run_envcall args
      else bad
  | _ => bad
  end.
End WithNum.
