(* One entry point for the correspondence check: a request (an S-expression naming a stage and its input) is
   decoded, run through the model, and the observable encoded back.  Used extracted (driver/) and inside Coq. *)
From Coq Require Import List String Ascii Bool NArith.
From Yae Require Import Base.Sexp Model.Ty Model.Unify Model.Lexer Model.Literal Model.Cst Model.Pratt Model.Desugar Model.Check Model.Num Model.Val Model.Render.
Import ListNotations.
Open Scope string_scope.

Definition bad : sexp := A "bad-request".

Definition run_tyeq (args : list sexp) : sexp :=
  match args with
  | [x; y] => match dec_ty x, dec_ty y with Some a, Some b => eB (ty_eqb a b) | _, _ => bad end
  | _ => bad
  end.

Definition enc_unify_res (r : res (ty * subst)) : sexp :=
  enc_res (fun p => L [enc_ty (fst p); enc_subst (sort_kv (snd p))]) r.

Definition run_unify (args : list sexp) : sexp :=
  match args with
  | [x; y; m] =>
      match dec_ty x, dec_ty y, dec_subst m with
      | Some a, Some b, Some m' => enc_unify_res (unify big_fuel big_fuel a b m')
      | _, _, _ => bad
      end
  | _ => bad
  end.

Definition run_apply (args : list sexp) : sexp :=
  match args with
  | [x; m] =>
      match dec_ty x, dec_subst m with
      | Some a, Some m' => enc_res enc_ty (apply_subst big_fuel m' a)
      | _, _ => bad
      end
  | _ => bad
  end.

Definition run_inferfun (args : list sexp) : sexp :=
  match args with
  | [f; L al] =>
      match dec_ty f, mapM dec_ty al with
      | Some (TFun n ps r), Some al' =>
          enc_res (fun p => L [L (map enc_ty (fst p)); enc_ty (snd p)])
                  (infer_fun big_fuel big_fuel 1000000000 n ps r al')
      | _, _ => bad
      end
  | _ => bad
  end.

Definition run_tyinfo (args : list sexp) : sexp :=
  match args with
  | [x] => match dec_ty x with
           | Some a => L [eB (slot_free a); eName (ty_str a); eB (wf_ty a)]
           | None => bad end
  | _ => bad
  end.

Definition dec_ops (s : sexp) : option (list (list N)) :=
  match s with L l => mapM dNs l | _ => None end.

Definition run_lex (args : list sexp) : sexp :=
  match args with
  | [ops; src] =>
      match dec_ops ops, dNs src with
      | Some o, Some s => match lex o s with
                          | Some ts => L [A "ok"; L (map enc_tok ts)]
                          | None => A "err"
                          end
      | _, _ => bad
      end
  | _ => bad
  end.

Definition enc_pres (r : pres expr) : sexp :=
  match r with POk e => L [A "ok"; enc_expr e] | PErr => A "err" | PFuel => A "fuel" end.

Definition run_parse (args : list sexp) : sexp :=
  match args with
  | [ops; src] =>
      match dec_operators ops, dNs src with
      | Some o, Some s => enc_pres (parse_source o s)
      | _, _ => bad
      end
  | _ => bad
  end.

Definition run_parsetoks (args : list sexp) : sexp :=
  match args with
  | [ops; L toks] =>
      match dec_operators ops, mapM dec_tok toks with
      | Some o, Some ts => enc_pres (parse_tokens o ts)
      | _, _ => bad
      end
  | _ => bad
  end.

Definition run_desugar (args : list sexp) : sexp :=
  match args with
  | [e] => match dec_expr e with
           | Some e' => match desugar e' with Some d => L [A "ok"; enc_expr d] | None => A "err" end
           | None => bad end
  | _ => bad
  end.

(* literal decoding: (strlit runes) -> value bytes ; (numlit runes) -> validity *)
Definition run_strlit (args : list sexp) : sexp :=
  match args with
  | [t] => match dNs t with Some t' => eOpt eNs (str_value t') | None => bad end
  | _ => bad
  end.

(* (check fenv tenv expr): expr is the parsed (sugared) tree; the facade desugars first *)
Definition run_check (args : list sexp) : sexp :=
  match args with
  | [fe; te; e] =>
      match dec_fenv fe, dec_tenv te, dec_expr e with
      | Some fe', Some te', Some e' =>
          match desugar e' with
          | None => A "err"
          | Some d =>
              match check fe' te' big_fuel 1000000000 d with
              | COk (a, t) => L [A "ok"; enc_ty t; enc_aexpr a]
              | CErr => A "err"
              | CFuel => A "fuel"
              end
          end
      | _, _, _ => bad
      end
  | _ => bad
  end.

Section WithNum.
Variable ops : numops.

Definition enc_m {X} (f : X -> sexp) (m : M X) : sexp :=
  match m with
  | (_, OVal x) => L [A "ok"; f x]
  | (_, OFail _) => A "fail"
  | (_, OFault _) => A "fault"
  end.

(* (render v) (stringify v) (key v) (valeq x y) *)
Definition run_render (args : list sexp) : sexp :=
  match args with [v] => match dec_val v with Some v' => eNs (render ops v') | None => bad end | _ => bad end.
Definition run_stringify (args : list sexp) : sexp :=
  match args with [v] => match dec_val v with Some v' => eNs (stringify ops v') | None => bad end | _ => bad end.
Definition run_key (args : list sexp) : sexp :=
  match args with [v] => match dec_val v with Some v' => enc_m eNs (key_of ops v') | None => bad end | _ => bad end.
Definition run_valeq (args : list sexp) : sexp :=
  match args with
  | [x; y] => match dec_val x, dec_val y with Some a, Some b => eB (val_eqb ops a b) | _, _ => bad end
  | _ => bad
  end.

Definition dispatch (req : sexp) : sexp :=
  match req with
  | L (A tag :: args) =>
      if tag =? "tyeq" then run_tyeq args
      else if tag =? "unify" then run_unify args
      else if tag =? "apply" then run_apply args
      else if tag =? "inferfun" then run_inferfun args
      else if tag =? "tyinfo" then run_tyinfo args
      else if tag =? "lex" then run_lex args
      else if tag =? "parse" then run_parse args
      else if tag =? "parsetoks" then run_parsetoks args
      else if tag =? "desugar" then run_desugar args
      else if tag =? "strlit" then run_strlit args
      else if tag =? "check" then run_check args
      else if tag =? "render" then run_render args
      else if tag =? "stringify" then run_stringify args
      else if tag =? "key" then run_key args
      else if tag =? "valeq" then run_valeq args
      else bad
  | _ => bad
  end.
End WithNum.
