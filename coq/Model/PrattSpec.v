(* Declarative vocabulary for C08: which token strings a tree yields (with the positions every node must record),
   and the precedence / associativity / fixity predicate [wfp] that the operator table dictates.
   Nothing here transcribes the parser; [wfp] and [yields] were validated against the real parser on millions of
   token sequences before being stated (harness/c08.go evaluates the same predicates on the implementation). *)
From Coq Require Import List String Ascii Bool NArith ZArith.
From Yae Require Import Base.Sexp Model.Lexer Model.Literal Model.Cst Model.Pratt.
Import ListNotations.
Local Open Scope Z_scope.
Local Open Scope list_scope.

(* span from the first position to the last *)
Definition span (first last : pos) : pos := mkPos (p_idx first) (p_end last) (p_col first) (p_line first).

Definition tcol (t : token) : Z := Z.of_N (t_col t).

Section Spec.
  Variable g : grammar.

  Definition prefix_bp (name : list N) : option Z :=
    match get name (g_prefix g) with Some (bp, NPrefix) => Some bp | _ => None end.
  Definition infix_entry (name : list N) : option (Z * led) := get name (g_infix g).

  (* comma-separated items, each yielding its own tokens; [sep_items] = the flattened token string *)
  Inductive sep_by (comma : token -> Prop) : list (list token) -> list token -> Prop :=
  | sep_nil : sep_by comma [] []
  | sep_one : forall ts, sep_by comma [ts] ts
  | sep_cons : forall ts c rest all, comma c -> rest <> [] -> sep_by comma rest all ->
      sep_by comma (ts :: rest) (ts ++ c :: all).

  Definition is_kind (k : list N) (t : token) : Prop := t_kind t = k /\ is_eof t = false.

  (* optional single trailing comma of list / map / object literals *)
  Definition opt_comma (ts : list token) : Prop := ts = [] \/ exists c, is_kind K_COMMA c /\ ts = [c].

  Inductive yields : expr -> list token -> Prop :=
  | Y_ident : forall t, is_kind K_SYM t -> yields (EIdent (tok_pos t) (t_lexeme t)) [t]
  | Y_true : forall t, is_kind K_TRUE t -> yields (EBool (tok_pos t) true) [t]
  | Y_false : forall t, is_kind K_FALSE t -> yields (EBool (tok_pos t) false) [t]
  | Y_num : forall t, is_kind K_NUM t -> num_parse (t_lexeme t) <> None -> yields (ENum (tok_pos t) (t_lexeme t)) [t]
  | Y_str : forall t, is_kind K_STR t -> str_value (t_lexeme t) <> None -> yields (EStr (tok_pos t) (t_lexeme t)) [t]
  | Y_time : forall t, is_kind K_TIME t -> yields (ETime (tok_pos t) (t_lexeme t)) [t]
  | Y_prefix : forall op x ts bp,
      is_eof op = false -> prefix_bp (t_kind op) = Some bp -> yields x ts ->
      yields (EUnary (span (tok_pos op) (expr_pos x)) (t_lexeme op) (tok_pos op) x true) (op :: ts)
  | Y_postfix : forall op x ts bp,
      is_eof op = false -> infix_entry (t_kind op) = Some (bp, LPostfix) -> yields x ts ->
      yields (EUnary (span (expr_pos x) (tok_pos op)) (t_lexeme op) (tok_pos op) x false) (ts ++ [op])
  | Y_binary : forall op l r tl tr bp ld fx,
      is_eof op = false -> infix_entry (t_kind op) = Some (bp, ld) ->
      (ld = LBinL /\ fx = 3%N \/ ld = LBinR /\ fx = 4%N \/ ld = LBinN /\ fx = 2%N) ->
      yields l tl -> yields r tr ->
      yields (EBinary (span (expr_pos l) (expr_pos r)) (t_lexeme op) (tok_pos op) fx l r) (tl ++ op :: tr)
  | Y_ternary : forall q c l m r tl tm tr,
      is_kind K_QUESTION q -> is_kind K_COLON c -> yields l tl -> yields m tm -> yields r tr ->
      yields (ETernary (span (expr_pos l) (expr_pos r)) (t_lexeme q) (tok_pos q) l m r) (tl ++ q :: tm ++ c :: tr)
  | Y_group : forall lp rp x ts,
      is_kind K_LPAREN lp -> is_kind K_RPAREN rp -> yields x ts ->
      yields (EGroup (span (tok_pos lp) (tok_pos rp)) x) (lp :: ts ++ [rp])
  | Y_call : forall f tf lp rp args tss targs,
      is_kind K_LPAREN lp -> is_kind K_RPAREN rp -> yields f tf ->
      Forall2 yields args tss -> sep_by (is_kind K_COMMA) tss targs ->
      yields (ECall (span (expr_pos f) (tok_pos rp)) (tcol lp) f args) (tf ++ lp :: targs ++ [rp])
  | Y_member : forall o tob dot name,
      is_kind K_DOT dot -> is_eof name = false -> yields o tob ->
      yields (EMember (span (expr_pos o) (tok_pos name)) (tcol dot) o (t_lexeme name) (tok_pos name)) (tob ++ [dot; name])
  | Y_sub : forall v tv lb rb i ti,
      is_kind K_LBRACKET lb -> is_kind K_RBRACKET rb -> yields v tv -> yields i ti ->
      yields (ESub (span (expr_pos v) (tok_pos rb)) (tcol lb) v i) (tv ++ lb :: ti ++ [rb])
  | Y_list : forall lb rb es tss tes tc,
      is_kind K_LBRACKET lb -> is_kind K_RBRACKET rb ->
      Forall2 yields es tss -> sep_by (is_kind K_COMMA) tss tes -> opt_comma tc -> (es = [] -> tc = []) ->
      yields (EList (span (tok_pos lb) (tok_pos rb)) es) (lb :: tes ++ tc ++ [rb])
  | Y_map_empty : forall lb c rb,
      is_kind K_LBRACKET lb -> is_kind K_COLON c -> is_kind K_RBRACKET rb ->
      yields (EMap (span (tok_pos lb) (tok_pos rb)) []) [lb; c; rb]
  | Y_map : forall lb rb kvs tss tes tc,
      is_kind K_LBRACKET lb -> is_kind K_RBRACKET rb -> kvs <> [] ->
      Forall2 (fun kv ts => exists tk c tv, is_kind K_COLON c /\ yields (fst kv) tk /\ yields (snd kv) tv /\ ts = tk ++ c :: tv) kvs tss ->
      sep_by (is_kind K_COMMA) tss tes -> opt_comma tc ->
      yields (EMap (span (tok_pos lb) (tok_pos rb)) kvs) (lb :: tes ++ tc ++ [rb])
  | Y_obj : forall lb rb fs tss tes tc,
      is_kind K_LBRACE lb -> is_kind K_RBRACE rb ->
      Forall2 (fun f ts => exists n c tv, is_kind K_SYM n /\ is_kind K_COLON c /\ fst f = t_lexeme n /\ yields (snd f) tv /\ ts = n :: c :: tv) fs tss ->
      sep_by (is_kind K_COMMA) tss tes -> opt_comma tc -> (fs = [] -> tc = []) ->
      yields (EObj (span (tok_pos lb) (tok_pos rb)) fs) (lb :: tes ++ tc ++ [rb]).

  (* ---- precedence ---- *)
  (* binding powers extended with +infinity *)
  Definition zmin (a : Z) (b : option Z) : option Z := match b with Some b' => Some (Z.min a b') | None => Some a end.
  Definition le_inf (a : Z) (b : option Z) : bool := match b with Some b' => Z.leb a b' | None => true end.

  Definition rbp_of (bp : Z) (ld : led) : Z := match ld with LBinR => bp - 8 | _ => bp end.

  (* least right binding power left open on the right spine (None = closed, +infinity) *)
  Fixpoint rom (e : expr) : option Z :=
    match e with
    | EUnary _ name _ x true => match prefix_bp name with Some bp => zmin bp (rom x) | None => None end
    | EBinary _ name _ _ _ r => match infix_entry name with Some (bp, ld) => zmin (rbp_of bp ld) (rom r) | None => None end
    | ETernary _ _ _ _ _ r => zmin (BP_COND - 8) (rom r)
    | _ => None
    end.

  Fixpoint ends_with_member (e : expr) : bool :=
    match e with
    | EMember _ _ _ _ _ => true
    | EUnary _ _ _ x true => ends_with_member x
    | EBinary _ _ _ _ _ r => ends_with_member r
    | ETernary _ _ _ _ _ r => ends_with_member r
    | _ => false
    end.

  Definition same_binary (name : list N) (e : expr) : bool :=
    match e with EBinary _ n _ _ _ _ => list_eqb n name | _ => false end.

  (* [wfp rbp e]: e is the tree the declarations dictate when parsing starts at level rbp *)
  Fixpoint wfp (rbp : Z) (e : expr) {struct e} : bool :=
    let attach (lbp : Z) (left : expr) := Z.ltb rbp lbp && wfp rbp left && le_inf lbp (rom left) in
    match e with
    | EStr _ _ | ENum _ _ | ETime _ _ | EBool _ _ | EIdent _ _ => true
    | EUnary _ name _ x true => match prefix_bp name with Some bp => wfp bp x | None => false end
    | EUnary _ name _ x false =>
        match infix_entry name with Some (bp, LPostfix) => attach bp x | _ => false end
    | EBinary _ name _ fx l r =>
        match infix_entry name with
        | Some (bp, LBinL) => N.eqb fx 3 && attach bp l && wfp bp r
        | Some (bp, LBinR) => N.eqb fx 4 && attach bp l && wfp (bp - 8) r
        | Some (bp, LBinN) => N.eqb fx 2 && attach bp l && wfp bp r && negb (same_binary name l) && negb (same_binary name r)
        | _ => false
        end
    | ETernary _ _ _ l m r => attach BP_COND l && wfp 0 m && wfp (BP_COND - 8) r
    | ECall _ _ f args =>
        match f with
        | EMember _ _ _ _ _ => wfp rbp f && forallb (wfp 0) args          (* immediate call after .name *)
        | _ => attach BP_CALL f && negb (ends_with_member f) && forallb (wfp 0) args
        end
    | EMember _ _ o _ _ => attach BP_MEMBER o
    | ESub _ _ v i => attach BP_MEMBER v && wfp 0 i
    | EGroup _ x => wfp 0 x
    | EList _ es => forallb (wfp 0) es
    | EMap _ kvs => forallb (fun kv => wfp 0 (fst kv) && wfp 0 (snd kv)) kvs
    | EObj _ fs => forallb (fun f => wfp 0 (snd f)) fs
    end.

  (* a non-associative operator is never chained with itself without parentheses, anywhere in the tree *)
  Fixpoint no_nonassoc_chain (e : expr) : bool :=
    match e with
    | EStr _ _ | ENum _ _ | ETime _ _ | EBool _ _ | EIdent _ _ => true
    | EUnary _ _ _ x _ => no_nonassoc_chain x
    | EBinary _ name _ fx l r =>
        (if N.eqb fx 2 then negb (same_binary name l) && negb (same_binary name r) else true)
        && no_nonassoc_chain l && no_nonassoc_chain r
    | ETernary _ _ _ l m r => no_nonassoc_chain l && no_nonassoc_chain m && no_nonassoc_chain r
    | ECall _ _ f args => no_nonassoc_chain f && forallb no_nonassoc_chain args
    | EMember _ _ o _ _ => no_nonassoc_chain o
    | ESub _ _ v i => no_nonassoc_chain v && no_nonassoc_chain i
    | EGroup _ x => no_nonassoc_chain x
    | EList _ es => forallb no_nonassoc_chain es
    | EMap _ kvs => forallb (fun kv => no_nonassoc_chain (fst kv) && no_nonassoc_chain (snd kv)) kvs
    | EObj _ fs => forallb (fun f => no_nonassoc_chain (snd f)) fs
    end.
End Spec.

(* operator tables the theorems are about: names do not collide with the fixed token kinds, infix powers are positive,
   right-associative powers at least 1 (a right-associative operator of power below 1 makes every use a syntax error) *)
Definition fixed_kinds : list (list N) :=
  [K_SYM; K_NUM; K_STR; K_TIME; K_TRUE; K_FALSE; K_EOF; K_LBRACKET; K_RBRACKET; K_LBRACE; K_RBRACE; K_LPAREN; K_RPAREN;
   K_COLON; K_COMMA; K_DOT; K_QUESTION].
Definition table_ok (ops : list operator) : bool :=
  forallb (fun o => negb (existsb (list_eqb (o_kind o)) fixed_kinds)
                    && match o_fix o with
                       | 1%N => Z.leb 0 (o_bp o)
                       | 4%N => Z.leb 8 (o_bp o)
                       | 2%N | 3%N | 5%N => Z.ltb 0 (o_bp o)
                       | _ => false
                       end) ops.

Definition no_eof (ts : list token) : bool := forallb (fun t => negb (is_eof t)) ts.
