(* The bytecode compiler and the stack VM: transcription of /repo/vm/compiler.go, intrinsic.go, opcode.go, bin.go,
   vm.go, switchthread.go (and callthread.go = the same handlers under a per-invocation instruction limit).
   Code is a byte list; operands are big-endian 16-bit (constants, sizes, member index, absolute jump targets) or
   8-bit (argument counts); the constant pool is shared by the main code object and the thunk bodies.
   The Go stack (slice + sp, grown by stackGrow) is modelled as an unbounded list. *)
From Coq Require Import List String Ascii Bool NArith ZArith.
From Yae Require Import Base.Sexp Model.Ty Gen.Generated Model.Num Model.Lexer Model.Literal Model.Cst Model.Check
  Model.Val Model.Render Model.Builtins Model.Eval.
Import ListNotations.
Local Open Scope string_scope.

Inductive opcode :=
| OP_NOP
| OP_RETURN
| OP_CONST
| OP_LOAD
| OP_ADD_NUM
| OP_ADD_NUM_NUM
| OP_ADD_STR_STR
| OP_SUB_NUM
| OP_SUB_NUM_NUM
| OP_SUB_TIME_TIME
| OP_MUL_NUM_NUM
| OP_DIV_NUM_NUM
| OP_MOD_NUM_NUM
| OP_EXP_NUM_NUM
| OP_ABS_NUM
| OP_CEIL_NUM
| OP_FLOOR_NUM
| OP_ROUND_NUM
| OP_MIN_NUM_NUM
| OP_MAX_NUM_NUM
| OP_EQ_NUM_NUM
| OP_EQ_BOOL_BOOL
| OP_EQ_STR_STR
| OP_EQ_TIME_TIME
| OP_EQ_LIST_LIST
| OP_EQ_MAP_MAP
| OP_NE_NUM_NUM
| OP_NE_BOOL_BOOL
| OP_NE_STR_STR
| OP_NE_TIME_TIME
| OP_NE_LIST_LIST
| OP_NE_MAP_MAP
| OP_LT_NUM_NUM
| OP_LT_TIME_TIME
| OP_LE_NUM_NUM
| OP_LE_TIME_TIME
| OP_GT_NUM_NUM
| OP_GT_TIME_TIME
| OP_GE_NUM_NUM
| OP_GE_TIME_TIME
| OP_NEW_LIST
| OP_NEW_MAP
| OP_NEW_OBJ
| OP_LIST_LOAD
| OP_MAP_LOAD
| OP_OBJ_LOAD
| OP_LEN_STR
| OP_LEN_LIST
| OP_LEN_MAP
| OP_STRTOTIME_STR
| OP_CALL_BY_VALUE
| OP_CALL_BY_NEED
| OP_DYNAMIC_CALL
| OP_GET_MAYBE
| OP_IF_TRUE
| OP_LOGICAL_NOT
| OP_JUMP.

Definition op_name (o : opcode) : string :=
  match o with
  | OP_NOP => "OP_NOP"
  | OP_RETURN => "OP_RETURN"
  | OP_CONST => "OP_CONST"
  | OP_LOAD => "OP_LOAD"
  | OP_ADD_NUM => "OP_ADD_NUM"
  | OP_ADD_NUM_NUM => "OP_ADD_NUM_NUM"
  | OP_ADD_STR_STR => "OP_ADD_STR_STR"
  | OP_SUB_NUM => "OP_SUB_NUM"
  | OP_SUB_NUM_NUM => "OP_SUB_NUM_NUM"
  | OP_SUB_TIME_TIME => "OP_SUB_TIME_TIME"
  | OP_MUL_NUM_NUM => "OP_MUL_NUM_NUM"
  | OP_DIV_NUM_NUM => "OP_DIV_NUM_NUM"
  | OP_MOD_NUM_NUM => "OP_MOD_NUM_NUM"
  | OP_EXP_NUM_NUM => "OP_EXP_NUM_NUM"
  | OP_ABS_NUM => "OP_ABS_NUM"
  | OP_CEIL_NUM => "OP_CEIL_NUM"
  | OP_FLOOR_NUM => "OP_FLOOR_NUM"
  | OP_ROUND_NUM => "OP_ROUND_NUM"
  | OP_MIN_NUM_NUM => "OP_MIN_NUM_NUM"
  | OP_MAX_NUM_NUM => "OP_MAX_NUM_NUM"
  | OP_EQ_NUM_NUM => "OP_EQ_NUM_NUM"
  | OP_EQ_BOOL_BOOL => "OP_EQ_BOOL_BOOL"
  | OP_EQ_STR_STR => "OP_EQ_STR_STR"
  | OP_EQ_TIME_TIME => "OP_EQ_TIME_TIME"
  | OP_EQ_LIST_LIST => "OP_EQ_LIST_LIST"
  | OP_EQ_MAP_MAP => "OP_EQ_MAP_MAP"
  | OP_NE_NUM_NUM => "OP_NE_NUM_NUM"
  | OP_NE_BOOL_BOOL => "OP_NE_BOOL_BOOL"
  | OP_NE_STR_STR => "OP_NE_STR_STR"
  | OP_NE_TIME_TIME => "OP_NE_TIME_TIME"
  | OP_NE_LIST_LIST => "OP_NE_LIST_LIST"
  | OP_NE_MAP_MAP => "OP_NE_MAP_MAP"
  | OP_LT_NUM_NUM => "OP_LT_NUM_NUM"
  | OP_LT_TIME_TIME => "OP_LT_TIME_TIME"
  | OP_LE_NUM_NUM => "OP_LE_NUM_NUM"
  | OP_LE_TIME_TIME => "OP_LE_TIME_TIME"
  | OP_GT_NUM_NUM => "OP_GT_NUM_NUM"
  | OP_GT_TIME_TIME => "OP_GT_TIME_TIME"
  | OP_GE_NUM_NUM => "OP_GE_NUM_NUM"
  | OP_GE_TIME_TIME => "OP_GE_TIME_TIME"
  | OP_NEW_LIST => "OP_NEW_LIST"
  | OP_NEW_MAP => "OP_NEW_MAP"
  | OP_NEW_OBJ => "OP_NEW_OBJ"
  | OP_LIST_LOAD => "OP_LIST_LOAD"
  | OP_MAP_LOAD => "OP_MAP_LOAD"
  | OP_OBJ_LOAD => "OP_OBJ_LOAD"
  | OP_LEN_STR => "OP_LEN_STR"
  | OP_LEN_LIST => "OP_LEN_LIST"
  | OP_LEN_MAP => "OP_LEN_MAP"
  | OP_STRTOTIME_STR => "OP_STRTOTIME_STR"
  | OP_CALL_BY_VALUE => "OP_CALL_BY_VALUE"
  | OP_CALL_BY_NEED => "OP_CALL_BY_NEED"
  | OP_DYNAMIC_CALL => "OP_DYNAMIC_CALL"
  | OP_GET_MAYBE => "OP_GET_MAYBE"
  | OP_IF_TRUE => "OP_IF_TRUE"
  | OP_LOGICAL_NOT => "OP_LOGICAL_NOT"
  | OP_JUMP => "OP_JUMP"
  end.

Definition all_ops : list opcode := [OP_NOP; OP_RETURN; OP_CONST; OP_LOAD; OP_ADD_NUM; OP_ADD_NUM_NUM; OP_ADD_STR_STR; OP_SUB_NUM; OP_SUB_NUM_NUM; OP_SUB_TIME_TIME; OP_MUL_NUM_NUM; OP_DIV_NUM_NUM; OP_MOD_NUM_NUM; OP_EXP_NUM_NUM; OP_ABS_NUM; OP_CEIL_NUM; OP_FLOOR_NUM; OP_ROUND_NUM; OP_MIN_NUM_NUM; OP_MAX_NUM_NUM; OP_EQ_NUM_NUM; OP_EQ_BOOL_BOOL; OP_EQ_STR_STR; OP_EQ_TIME_TIME; OP_EQ_LIST_LIST; OP_EQ_MAP_MAP; OP_NE_NUM_NUM; OP_NE_BOOL_BOOL; OP_NE_STR_STR; OP_NE_TIME_TIME; OP_NE_LIST_LIST; OP_NE_MAP_MAP; OP_LT_NUM_NUM; OP_LT_TIME_TIME; OP_LE_NUM_NUM; OP_LE_TIME_TIME; OP_GT_NUM_NUM; OP_GT_TIME_TIME; OP_GE_NUM_NUM; OP_GE_TIME_TIME; OP_NEW_LIST; OP_NEW_MAP; OP_NEW_OBJ; OP_LIST_LOAD; OP_MAP_LOAD; OP_OBJ_LOAD; OP_LEN_STR; OP_LEN_LIST; OP_LEN_MAP; OP_STRTOTIME_STR; OP_CALL_BY_VALUE; OP_CALL_BY_NEED; OP_DYNAMIC_CALL; OP_GET_MAYBE; OP_IF_TRUE; OP_LOGICAL_NOT; OP_JUMP].

(* the byte of an opcode = its position in opcode.go's const block, read from the regenerated table *)
Fixpoint str_index (n : string) (l : list string) (i : N) : option N :=
  match l with [] => None | m :: r => if String.eqb n m then Some i else str_index n r (i + 1)%N end.
Definition op_byte (o : opcode) : N := match str_index (op_name o) opcode_names 0%N with Some i => i | None => 255%N end.
Definition decode_op (b : N) : option opcode :=
  match nth_error opcode_names (N.to_nat b) with
  | Some n => find (fun o => String.eqb (op_name o) n) all_ops
  | None => None
  end.

(* ---------------- constant pool and code objects ---------------- *)
Inductive const :=
| CVal (v : val)
| CFun (sg : fsig)
| CThunk (code : list N) (ret : ty)     (* a deferred argument: its own code object, sharing the pool *)
| CType (t : ty)
| CName (s : string).

(* compiler state: code and pool are kept reversed (appending is consing), with their lengths *)
Record cstate := mkCS { cs_rcode : list N; cs_clen : N; cs_rpool : list const; cs_plen : N }.
Definition cs_empty (pool : list const) (plen : N) : cstate := mkCS [] 0 pool plen.

Definition emit_byte (b : N) (st : cstate) : cstate :=
  mkCS (b :: cs_rcode st) (cs_clen st + 1) (cs_rpool st) (cs_plen st).
Definition emit_op (o : opcode) (st : cstate) : cstate := emit_byte (op_byte o) st.

(* emitUint16 / emitUint8: util.Assert(ui <= max, "overflow") *)
Definition emit16 (n : N) (st : cstate) : cres cstate :=
  if N.leb n 65535 then COk (emit_byte (n mod 256) (emit_byte (n / 256) st)) else CErr.
Definition emit8 (n : N) (st : cstate) : cres cstate :=
  if N.leb n 255 then COk (emit_byte n st) else CErr.

(* emitConst: append to the pool (no de-duplication) and emit its 16-bit index *)
Definition emit_const (c : const) (st : cstate) : cres cstate :=
  let idx := cs_plen st in
  emit16 idx (mkCS (cs_rcode st) (cs_clen st) (c :: cs_rpool st) (cs_plen st + 1)).

(* placeholderUint16 ... func(i): overwrite the two bytes at [off] *)
Fixpoint set_nth (l : list N) (i : nat) (x : N) : list N :=
  match l, i with
  | _ :: r, O => x :: r
  | y :: r, S j => y :: set_nth r j x
  | [], _ => []
  end.
Definition patch16 (off : N) (v : N) (st : cstate) : cres cstate :=
  if N.leb v 65535 then
    let code := rev (cs_rcode st) in
    let code := set_nth (set_nth code (N.to_nat off) (v / 256)) (N.to_nat off + 1) (v mod 256) in
    COk (mkCS (rev code) (cs_clen st) (cs_rpool st) (cs_plen st))
  else CErr.

Definition ty_is_list (t : ty) : bool := match t with TList _ => true | _ => false end.
Definition ty_is_map (t : ty) : bool := match t with TMap _ _ => true | _ => false end.

Section Compile.
  Variable ops : numops.
  Variable orc : oracles.
  Variable fe : fenv.

  Definition same_fn (name : string) (ps : list ty) (sg : fsig) : bool :=
    String.eqb name (s_name sg) && ty_eqb (TFun "" ps TBot) (TFun "" (s_params sg) TBot).

  (* intrinsic.go: the two tables are keyed by the built-in function VALUES, i.e. only built-ins qualify *)
  Definition intrinsic_cbn (sg : fsig) : option bfun :=
    if sig_is_builtin sg && existsb (fun x => same_fn (fst x) (snd x) sg) intrinsics_cbn
    then classify (s_name sg) (s_params sg) else None.
  Definition intrinsic_cbv (sg : fsig) : option opcode :=
    if sig_is_builtin sg then
      match find (fun x => same_fn (fst (fst x)) (snd (fst x)) sg) intrinsics_cbv with
      | Some x => find (fun o => String.eqb (op_name o) (snd x)) all_ops
      | None => None
      end
    else None.

  Definition thunk_ret (sg : fsig) (i : nat) : ty := nth i (s_params sg) TBot.

  Fixpoint compile (a : aexpr) (st : cstate) {struct a} : cres cstate :=
    let compile_list := fix go (l : list aexpr) (st : cstate) : cres cstate :=
      match l with [] => COk st | x :: r => let+ st1 := compile x st in go r st1 end in
    (* emitCond *)
    let branch (br : aexpr + bool) (st : cstate) : cres cstate :=
      match br with
      | inl e => compile e st
      | inr b => emit_const (CVal (VBool b)) (emit_op OP_CONST st)      (* ast.True / ast.False compiled in place *)
      end in
    let cond (c : aexpr) (t e : aexpr + bool) (st : cstate) : cres cstate :=
      let+ st1 := compile c st in
      let st2 := emit_op OP_IF_TRUE st1 in
      let off_false := cs_clen st2 in
      let+ st3 := emit16 0 st2 in
      let+ st4 := branch t st3 in
      let st5 := emit_op OP_JUMP st4 in
      let off_next := cs_clen st5 in
      let+ st6 := emit16 0 st5 in
      let branch_false := cs_clen st6 in
      let+ st7 := branch e st6 in
      let next := cs_clen st7 in
      let+ st8 := patch16 off_false branch_false st7 in
      patch16 off_next next st8 in
    match a with
    | AStr v => emit_const (CVal (VStr v)) (emit_op OP_CONST st)
    | ANum _ n => emit_const (CVal (VNum (lit_num ops n))) (emit_op OP_CONST st)
    | ATime t => emit_const (CVal (VTime (o_strtotime orc (time_inner t)) 0)) (emit_op OP_CONST st)
    | ABool b => emit_const (CVal (VBool b)) (emit_op OP_CONST st)
    | AList t es =>
        let+ st1 := compile_list es st in
        let+ st2 := emit_const (CType t) (emit_op OP_NEW_LIST st1) in
        emit16 (N.of_nat (len es)) st2
    | AMap t kvs =>
        let+ st1 := (fix go (l : list (aexpr * aexpr)) (st : cstate) : cres cstate :=
                       match l with
                       | [] => COk st
                       | (k, v) :: r => let+ s1 := compile k st in let+ s2 := compile v s1 in go r s2
                       end) kvs st in
        let+ st2 := emit_const (CType t) (emit_op OP_NEW_MAP st1) in
        emit16 (N.of_nat (len kvs)) st2
    | AObj t fs =>
        let+ st1 := (fix go (l : list (string * aexpr)) (st : cstate) : cres cstate :=
                       match l with [] => COk st | (_, v) :: r => let+ s1 := compile v st in go r s1 end) fs st in
        emit_const (CType t) (emit_op OP_NEW_OBJ st1)
    | AIdent _ name => emit_const (CName name) (emit_op OP_LOAD st)
    | ACall _ key idx _ callee args =>
        if String.eqb key "" then
          (* compileInvokeDynamic *)
          let+ st1 := compile callee st in
          let+ st2 := compile_list args st1 in
          emit8 (N.of_nat (len args)) (emit_op OP_DYNAMIC_CALL st2)
        else
          match lookup_fn fe key idx with
          | None => CErr
          | Some sg =>
              match intrinsic_cbn sg, args with
              | Some BIf, [c; t; e] => cond c (inl t) (inl e) st
              | Some BAnd, [x; y] => cond x (inl y) (inr false) st
              | Some BOr, [x; y] => cond x (inr true) (inl y) st
              | Some BNot, [x] => let+ st1 := compile x st in COk (emit_op OP_LOGICAL_NOT st1)
              | Some _, _ => CErr
              | None, _ =>
                  let+ st1 :=
                    (fix go (l : list aexpr) (i : nat) (st : cstate) : cres cstate :=
                       match l with
                       | [] => COk st
                       | x :: r =>
                           if s_lazy sg then
                             (* c.Compile(arg): a fresh code object on the shared pool, closed by RETURN *)
                             let+ sub := compile x (cs_empty (cs_rpool st) (cs_plen st)) in
                             let body := rev (cs_rcode (emit_op OP_RETURN sub)) in
                             let st' := mkCS (cs_rcode st) (cs_clen st) (cs_rpool sub) (cs_plen sub) in
                             let+ st'' := emit_const (CThunk body (thunk_ret sg i)) (emit_op OP_CONST st') in
                             go r (S i) st''
                           else let+ st' := compile x st in go r (S i) st'
                       end) args O st in
                  match intrinsic_cbv sg with
                  | Some o => COk (emit_op o st1)
                  | None =>
                      let o := if s_lazy sg then OP_CALL_BY_NEED else OP_CALL_BY_VALUE in
                      let+ st2 := emit_const (CFun sg) (emit_op o st1) in
                      emit8 (N.of_nat (len args)) st2
                  end
              end
          end
    | ASub _ vty v i =>
        let+ st1 := compile v st in
        let+ st2 := compile i st1 in
        if ty_is_list vty then COk (emit_op OP_LIST_LOAD st2)
        else if ty_is_map vty then COk (emit_op OP_MAP_LOAD st2)
        else CErr
    | AMember _ _ idx o name =>
        let+ st1 := compile o st in
        let+ st2 := emit16 (N.of_nat idx) (emit_op OP_OBJ_LOAD st1) in
        emit_const (CName name) st2
    end.

  (* Compiler.Compile: compile, then OP_RETURN *)
  Definition compile_main (a : aexpr) : cres (list N * list const) :=
    let+ st := compile a (cs_empty [] 0) in
    let st' := emit_op OP_RETURN st in
    COk (rev (cs_rcode st'), rev (cs_rpool st')).
End Compile.

(* ---------------- the VM ---------------- *)
Inductive sval := SV (v : val) | STh (code : list N) (ret : ty).

Section Run.
  Variable ops : numops.
  Variable orc : oracles.
  Variable fe : fenv.
  Variable rho : venv.
  Variable pool : list const.
  Variable limit : option nat.      (* None: switch threading; Some 1024: call threading *)

  Definition pop (s : list sval) : M (sval * list sval) :=
    match s with x :: r => ret (x, r) | [] => fault XUnderflow end.
  Definition pop_val (s : list sval) : M (val * list sval) :=
    let^ (x, r) := pop s in match x with SV v => ret (v, r) | STh _ _ => fault XTypeConf end.
  Fixpoint pop_n (n : nat) (s : list sval) (acc : list sval) : M (list sval * list sval) :=
    match n with
    | O => ret (acc, s)
    | S m => let^ (x, r) := pop s in pop_n m r (x :: acc)
    end.
  Definition vals_of (l : list sval) : M (list val) :=
    mmapM (fun x => match x with SV v => ret v | STh _ _ => fault XTypeConf end) l.

  Definition read16 (rest : list N) : M (N * list N) :=
    match rest with hi :: lo :: r => ret ((hi * 256 + lo)%N, r) | _ => fault XOther end.
  Definition read8 (rest : list N) : M (N * list N) :=
    match rest with b :: r => ret (b, r) | _ => fault XOther end.
  Definition read_const (rest : list N) : M (const * list N) :=
    let^ (i, r) := read16 rest in
    match nth_error pool (N.to_nat i) with Some c => ret (c, r) | None => fault XOther end.

  (* an intrinsic opcode that re-implements a built-in: pops its operands (last argument on top) *)
  Definition intrinsic_sem (o : opcode) : option (bfun * nat) :=
    match o with
    | OP_ADD_NUM => Some (BAddNum1, 1%nat) | OP_ADD_NUM_NUM => Some (BAddNum, 2%nat) | OP_ADD_STR_STR => Some (BAddStr, 2%nat)
    | OP_SUB_NUM => Some (BSubNum1, 1%nat) | OP_SUB_NUM_NUM => Some (BSubNum, 2%nat) | OP_SUB_TIME_TIME => Some (BSubTime, 2%nat)
    | OP_MUL_NUM_NUM => Some (BMul, 2%nat) | OP_DIV_NUM_NUM => Some (BDiv, 2%nat) | OP_MOD_NUM_NUM => Some (BMod, 2%nat)
    | OP_EXP_NUM_NUM => Some (BExp, 2%nat) | OP_ABS_NUM => Some (BAbs, 1%nat) | OP_CEIL_NUM => Some (BCeil, 1%nat)
    | OP_FLOOR_NUM => Some (BFloor, 1%nat) | OP_ROUND_NUM => Some (BRound, 1%nat) | OP_MIN_NUM_NUM => Some (BMinNum, 2%nat)
    | OP_MAX_NUM_NUM => Some (BMaxNum, 2%nat) | OP_EQ_NUM_NUM => Some (BEqNum, 2%nat) | OP_EQ_BOOL_BOOL => Some (BEqBool, 2%nat)
    | OP_EQ_STR_STR => Some (BEqStr, 2%nat) | OP_EQ_TIME_TIME => Some (BEqTime, 2%nat) | OP_EQ_LIST_LIST => Some (BEqList, 2%nat)
    | OP_EQ_MAP_MAP => Some (BEqMap, 2%nat) | OP_NE_NUM_NUM => Some (BNeNum, 2%nat) | OP_NE_BOOL_BOOL => Some (BNeBool, 2%nat)
    | OP_NE_STR_STR => Some (BNeStr, 2%nat) | OP_NE_TIME_TIME => Some (BNeTime, 2%nat) | OP_NE_LIST_LIST => Some (BNeList, 2%nat)
    | OP_NE_MAP_MAP => Some (BNeMap, 2%nat) | OP_LT_NUM_NUM => Some (BLtNum, 2%nat) | OP_LT_TIME_TIME => Some (BLtTime, 2%nat)
    | OP_LE_NUM_NUM => Some (BLeNum, 2%nat) | OP_LE_TIME_TIME => Some (BLeTime, 2%nat) | OP_GT_NUM_NUM => Some (BGtNum, 2%nat)
    | OP_GT_TIME_TIME => Some (BGtTime, 2%nat) | OP_GE_NUM_NUM => Some (BGeNum, 2%nat) | OP_GE_TIME_TIME => Some (BGeTime, 2%nat)
    | OP_LEN_STR => Some (BLenStr, 1%nat) | OP_LEN_LIST => Some (BLenList, 1%nat) | OP_LEN_MAP => Some (BLenMap, 1%nat)
    | OP_STRTOTIME_STR => Some (BStrtotime, 1%nat) | OP_GET_MAYBE => Some (BGetMaybe, 2%nat)
    | OP_LOGICAL_NOT => Some (BNot, 1%nat)
    | _ => None
    end.

  (* run one code object from its start on a fresh stack (Interp / doCall0) *)
  Fixpoint vm_run (fuel : nat) (code : list N) {struct fuel} : M val :=
    match fuel with
    | O => fault XFuel
    | S f =>
      (* the dispatch loop: [rest] is the code from pc on; [n] the instructions left under the call-threading limit *)
      (fix loop (g : nat) (rest : list N) (stack : list sval) (n : option nat) {struct g} : M val :=
         match g with
         | O => fault XFuel
         | S g' =>
           match n with
           | Some O => fault XLimit
           | _ =>
             let n' := option_map pred n in
             match rest with
             | [] => fault XOther       (* running off the end of the code *)
             | b :: r =>
               match decode_op b with
               | None => fault XOpcode
               | Some o =>
                 let continue (r : list N) (s : list sval) := loop g' r s n' in
                 match o with
                 | OP_NOP => continue r stack
                 | OP_ADD_NUM => continue r stack      (* switchthread.go: "nothing to do" — the operand stays where it is *)
                 | OP_RETURN => let^ (v, _) := pop_val stack in ret v
                 | OP_CONST =>
                     let^ (c, r1) := read_const r in
                     match c with
                     | CVal v => continue r1 (SV v :: stack)
                     | CThunk body rt => continue r1 (STh body rt :: stack)
                     | _ => fault XTypeConf
                     end
                 | OP_LOAD =>
                     let^ (c, r1) := read_const r in
                     match c with
                     | CName nm => match assoc nm rho with Some v => continue r1 (SV v :: stack) | None => fault XNil end
                     | _ => fault XTypeConf
                     end
                 | OP_JUMP => let^ (t, _) := read16 r in continue (skipn (N.to_nat t) code) stack
                 | OP_IF_TRUE =>
                     let^ (t, r1) := read16 r in
                     let^ (v, s1) := pop_val stack in
                     let^ bv := as_bool v in
                     if bv then continue r1 s1 else continue (skipn (N.to_nat t) code) s1
                 | OP_NEW_LIST =>
                     let^ (c, r1) := read_const r in let^ (sz, r2) := read16 r1 in
                     match c with
                     | CType (TList e) =>
                         let^ (xs, s1) := pop_n (N.to_nat sz) stack [] in let^ vs := vals_of xs in
                         continue r2 (SV (VList (TList e) vs) :: s1)
                     | _ => fault XTypeConf
                     end
                 | OP_NEW_MAP =>
                     let^ (c, r1) := read_const r in let^ (sz, r2) := read16 r1 in
                     match c with
                     | CType (TMap kt vt) =>
                         let^ (xs, s1) := pop_n (2 * N.to_nat sz) stack [] in let^ vs := vals_of xs in
                         let^ entries :=
                           (fix go (vs : list val) (acc : list (list N * val)) : M (list (list N * val)) :=
                              match vs with
                              | k :: v :: rr => let^ kk := key_of ops k in go rr (kput kk v acc)
                              | _ => ret acc
                              end) vs [] in
                         continue r2 (SV (VMap (TMap kt vt) entries) :: s1)
                     | _ => fault XTypeConf
                     end
                 | OP_NEW_OBJ =>
                     let^ (c, r1) := read_const r in
                     match c with
                     | CType (TObj fs) =>
                         let^ (xs, s1) := pop_n (len fs) stack [] in let^ vs := vals_of xs in
                         continue r1 (SV (VObj (TObj fs) vs) :: s1)
                     | _ => fault XTypeConf
                     end
                 | OP_LIST_LOAD =>
                     let^ (iv, s1) := pop_val stack in let^ nb := as_num iv in
                     let^ (lv, s2) := pop_val s1 in let^ vs := as_list lv in
                     let idx := to_i64 ops nb in
                     if Z.ltb idx 0 || Z.leb (Z.of_nat (len vs)) idx then fail FIndex
                     else match nth_error vs (Z.to_nat idx) with Some e => continue r (SV e :: s2) | None => fail FIndex end
                 | OP_MAP_LOAD =>
                     let^ (kv, s1) := pop_val stack in
                     let^ (mv, s2) := pop_val s1 in let^ kvs := as_map mv in
                     let^ kk := key_of ops kv in
                     match kget kk kvs with Some e => continue r (SV e :: s2) | None => fail FKey end
                 | OP_OBJ_LOAD =>
                     let^ (idx, r1) := read16 r in let^ (c, r2) := read_const r1 in
                     let^ (ov, s1) := pop_val stack in
                     match c, ov with
                     | CName nm, VObj t vs =>
                         match obj_load t vs (N.to_nat idx) nm with Some e => continue r2 (SV e :: s1) | None => fault XNil end
                     | _, _ => fault XTypeConf
                     end
                 | OP_CALL_BY_VALUE =>
                     let^ (c, r1) := read_const r in let^ (argc, r2) := read8 r1 in
                     match c with
                     | CFun sg =>
                         let^ (xs, s1) := pop_n (N.to_nat argc) stack [] in let^ vs := vals_of xs in
                         let^ res := apply_strict ops orc sg vs in
                         continue r2 (SV res :: s1)
                     | _ => fault XTypeConf
                     end
                 | OP_CALL_BY_NEED =>
                     let^ (c, r1) := read_const r in let^ (argc, r2) := read8 r1 in
                     match c with
                     | CFun sg =>
                         let^ (xs, s1) := pop_n (N.to_nat argc) stack [] in
                         let^ ths := mmapM (fun x => match x with
                                                     | STh body _ => ret (fun (_ : unit) => vm_run f body)
                                                     | SV _ => fault XTypeConf
                                                     end) xs in
                         let^ res := (if sig_is_builtin sg then apply_lazy sg else host_lazy (s_name sg)) ths in
                         continue r2 (SV res :: s1)
                     | _ => fault XTypeConf
                     end
                 | OP_DYNAMIC_CALL =>
                     let^ (argc, r1) := read8 r in
                     let^ (xs, s1) := pop_n (N.to_nat argc) stack [] in let^ vs := vals_of xs in
                     let^ (fv, s2) := pop_val s1 in
                     match fv with
                     | VFun (TFun _ ps rt) name lz =>
                         if lz then fault XNil     (* a lazy function value receives values where it expects thunks *)
                         else let^ res := apply_strict ops orc (mkSig name ps rt false) vs in continue r1 (SV res :: s2)
                     | _ => fault XTypeConf
                     end
                 | _ =>
                     match intrinsic_sem o with
                     | Some (bf, k) =>
                         let^ (xs, s1) := pop_n k stack [] in let^ vs := vals_of xs in
                         let^ res := bsem ops orc bf vs in
                         continue r (SV res :: s1)
                     | None => fault XOpcode
                     end
                 end
               end
             end
           end
         end) (4 * S (len code))%nat code [] limit
    end.
End Run.
