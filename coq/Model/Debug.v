(* Debug (power-assert) evaluation: /repo/closure/compiler.go (DebugCompile / wrapForDebug), debug/record.go,
   debug/render.go and facade.Debug.  [deval] is the evaluator of Model/Eval.v with the recorder wrapper around
   identifier, call, subscript and member nodes; [rec_all] is Record.Rec (shift right on a column collision);
   [report] is Record.Render. *)
From Coq Require Import List String Ascii Bool NArith ZArith.
From Yae Require Import Base.Sexp Model.Ty Gen.Generated Model.Num Model.Lexer Model.Literal Model.Cst Model.Check
  Model.Val Model.Render Model.Builtins Model.Eval.
Import ListNotations.
Local Open Scope string_scope.

(* a recorded value: (value, column counted from 1) *)
Definition recd := (val * Z)%type.

Section Debug.
  Variable ops : numops.
  Variable orc : oracles.
  Variable fe : fenv.
  Variable rho : venv.

  (* evaluation returning, besides trace and outcome, the values recorded in completion order (before collision shifts) *)
  Definition DM (X : Type) : Type := (list event * list recd * outcome X)%type.
  Definition dret {X} (x : X) : DM X := ([], [], OVal x).
  Definition dbind {X Y} (m : DM X) (f : X -> DM Y) : DM Y :=
    match m with
    | (t, r, OVal x) => let '(t', r', o) := f x in ((t ++ t')%list, (r ++ r')%list, o)
    | (t, r, OFail k) => (t, r, OFail k)
    | (t, r, OFault k) => (t, r, OFault k)
    end.
  Definition dlift {X} (m : M X) : DM X := let '(t, o) := m in (t, [], o).
  Notation "'let@' x := m 'in' k" := (dbind m (fun x => k)) (at level 200, x pattern, m at level 100, k at level 200).
  Definition dmapM {X Y} (f : X -> DM Y) : list X -> DM (list Y) :=
    fix go l := match l with
                | [] => dret []
                | x :: r => let@ y := f x in let@ ys := go r in dret (y :: ys)
                end.
  (* recordVal: after the wrapped closure has produced v, rcd.Rec(v, col + 1) *)
  Definition recording (col : Z) (m : DM val) : DM val :=
    let@ v := m in (([], [(v, (col + 1)%Z)], OVal v) : DM val).

  (* a thunk handed to a lazy function: its records are collected when (and as often as) it is called; the lazy
     function bodies of Model/Eval.v are re-stated over DM *)
  Definition d_as_bool (v : val) : DM bool := dlift (as_bool v).

  Definition d_apply_lazy (sg : fsig) (ths : list (unit -> DM val)) : DM val :=
    let lazyif := match ths with
                  | [c; a; b] => let@ cv := c tt in let@ cb := d_as_bool cv in if cb then a tt else b tt
                  | _ => dlift (fault XOther)
                  end in
    let conj (stop_on : bool) :=
      match ths with
      | [a; b] => let@ av := a tt in let@ ab := d_as_bool av in
                  if Bool.eqb ab stop_on then dret (VBool stop_on)
                  else (let@ bv := b tt in let@ bb := d_as_bool bv in dret (VBool bb))
      | _ => dlift (fault XOther)
      end in
    if sig_is_builtin sg then
      match classify (s_name sg) (s_params sg) with
      | Some BIf => lazyif
      | Some BAnd => conj false
      | Some BOr => conj true
      | _ => dlift (fault XOther)
      end
    else if s_name sg =? "lazyif" then (let@ _ := dlift (emit (EvHost "lazyif" [])) in lazyif)
    else if s_name sg =? "both" then (let@ _ := dlift (emit (EvHost "both" [])) in conj false)
    else dlift (fault XOther).

  Fixpoint deval (fuel : nat) (a : aexpr) {struct fuel} : DM val :=
    match fuel with
    | O => dlift (fault XFuel)
    | S f =>
      let call (sg : fsig) (args : list aexpr) : DM val :=
        if s_lazy sg then d_apply_lazy sg (map (fun x (_ : unit) => deval f x) args)
        else let@ vs := dmapM (deval f) args in dlift (apply_strict ops orc sg vs) in
      match a with
      | AStr v => dret (VStr v)
      | ANum _ n => dret (VNum (lit_num ops n))
      | ATime t => dret (VTime (o_strtotime orc (time_inner t)) 0)
      | ABool b => dret (VBool b)
      | AList t es =>
          match es with
          | [] => dret (VList (TList TBot) [])
          | _ => let@ vs := dmapM (deval f) es in dret (VList t vs)
          end
      | AMap t kvs =>
          match kvs with
          | [] => dret (VMap (TMap TBot TBot) [])
          | _ =>
              let@ entries :=
                (fix go (kvs : list (aexpr * aexpr)) (acc : list (list N * val)) : DM (list (list N * val)) :=
                   match kvs with
                   | [] => dret acc
                   | (k, v) :: r =>
                       let@ kv := deval f k in let@ kk := dlift (key_of ops kv) in
                       let@ vv := deval f v in go r (kput kk vv acc)
                   end) kvs [] in
              dret (VMap t entries)
          end
      | AObj t fs =>
          match fs with
          | [] => dret (VObj (TObj []) [])
          | _ => let@ vs := dmapM (fun nf => deval f (snd nf)) fs in dret (VObj t vs)
          end
      | AIdent col name =>
          recording col (match assoc name rho with Some v => dret v | None => dlift (fault XOther) end)
      | ACall col key idx _ callee args =>
          recording col
            (if String.eqb key "" then
               let@ fv := deval f callee in
               match fv with
               | VFun (TFun n ps r) name lz => call (mkSig name ps r lz) args
               | _ => dlift (fault XTypeConf)
               end
             else match lookup_fn fe key idx with
                  | Some sg => call sg args
                  | None => dlift (fault XOther)
                  end)
      | ASub col _ v i =>
          recording col
            (let@ x := deval f v in
             match x with
             | VList _ vs =>
                 let@ iv := deval f i in let@ n := dlift (as_num iv) in
                 let idx := to_i64 ops n in
                 if Z.ltb idx 0 || Z.leb (Z.of_nat (len vs)) idx then dlift (fail FIndex)
                 else match nth_error vs (Z.to_nat idx) with Some e => dret e | None => dlift (fail FIndex) end
             | VMap _ kvs =>
                 let@ kv := deval f i in let@ kk := dlift (key_of ops kv) in
                 match kget kk kvs with Some e => dret e | None => dlift (fail FKey) end
             | _ => dlift (fault XUnreachable)
             end)
      | AMember col _ idx o name =>
          recording col
            (let@ ov := deval f o in
             match ov with
             | VObj t vs => match obj_load t vs idx name with Some e => dret e | None => dlift (fault XNil) end
             | _ => dlift (fault XTypeConf)
             end)
      end
    end.
End Debug.

(* debug/record.go: Rec — a value whose column is taken moves right until a free column is found *)
Fixpoint rec_one (fuel : nat) (vs : list recd) (v : val) (col : Z) : list recd :=
  match fuel with
  | O => vs
  | S f => if existsb (fun e => Z.eqb (snd e) col) vs then rec_one f vs v (col + 1)%Z else (vs ++ [(v, col)])%list
  end.
Definition rec_all (raw : list recd) : list recd :=
  fold_left (fun acc e => rec_one (S (len acc)) acc (fst e) (snd e)) raw [].

(* ---- debug/render.go ---- *)
Local Open Scope list_scope.

Definition rune_len (l : list N) : nat := len (runes_of l).

(* lines are kept as rune lists; placeString: pad with spaces up to [col] runes, then overwrite from col-1 *)
Definition place (line : list N) (str : list N) (col : nat) : list N :=
  let line := line ++ repeat 32%N (col - len line) in
  let start := (col - 1)%nat in
  let stop := (start + len str)%nat in
  if Nat.ltb (len line) stop then firstn start line ++ str
  else firstn start line ++ str ++ skipn stop line.

(* split on \r\n | \r | \n *)
Fixpoint split_lines (l : list N) (cur : list N) : list (list N) :=
  match l with
  | [] => [rev cur]
  | 13%N :: 10%N :: r => rev cur :: split_lines r []
  | 13%N :: r => rev cur :: split_lines r []
  | 10%N :: r => rev cur :: split_lines r []
  | c :: r => split_lines r (c :: cur)
  end.

(* stable sort by decreasing column: sort.SliceStable(vs, vs[j].col < vs[i].col) *)
Fixpoint insert_desc (e : recd) (l : list recd) : list recd :=
  match l with
  | [] => [e]
  | x :: r => if Z.leb (snd x) (snd e) then e :: l else x :: insert_desc e r
  end.
Definition sort_desc (l : list recd) : list recd := fold_right insert_desc [] l.

Definition runes_of_bytes (b : list N) : list N := map (fun x => fst (fst x)) (runes_of b).

Section Render.
  Variable ops : numops.

  (* lines: list of (runes, startCol); line 0 is the source, line 1 the separator *)
  Definition line := (list N * Z)%type.

  (* try lines 1.. for room; returns the updated lines and whether the value was placed *)
  Fixpoint try_lines (ls : list line) (j : nat) (str : list N) (start endc : Z) (single : bool) : list line * bool :=
    match ls with
    | [] => ([], false)
    | (txt, sc) :: r =>
        if Nat.eqb j 0 then let '(r', ok) := try_lines r 1 str start endc single in ((txt, sc) :: r', ok)
        else if single && Z.ltb endc sc then ((place txt str (Z.to_nat start), start) :: r, true)
        else
          let txt' := place txt [124%N] (Z.to_nat start) in
          let sc' := if Nat.ltb 1 j then (start + 1)%Z else sc in
          let '(r', ok) := try_lines r (S j) str start endc single in
          ((txt', sc') :: r', ok)
    end.

  Definition render_value (ls : list line) (e : recd) (next_same : bool) : list line :=
    let start := snd e in
    if Z.ltb start 1 then ls
    else if next_same then ls
    else
      let str := runes_of_bytes (render ops (fst e)) in
      let strs := split_lines str [] in
      let single := Nat.eqb (len strs) 1 in
      let endc := (start + Z.of_nat (len str))%Z in
      let '(ls', ok) := try_lines ls 0 str start endc single in
      if ok then ls'
      else ls' ++ map (fun s => (place [] s (Z.to_nat start), start)) strs.

  Fixpoint render_values (ls : list line) (vs : list recd) : list line :=
    match vs with
    | [] => ls
    | e :: r =>
        let next_same := match r with e2 :: _ => Z.eqb (snd e2) (snd e) | [] => false end in
        render_values (render_value ls e next_same) r
    end.

  (* Record.Render(src): the report as runes *)
  Definition report (src : list N) (vs : list recd) : list N :=
    let ls := render_values [(src, 0%Z); ([], 0%Z)] (sort_desc vs) in
    (fix joinl (l : list line) : list N :=
       match l with
       | [] => []
       | [(t, _)] => t
       | (t, _) :: r => t ++ [10%N] ++ joinl r
       end) ls.
End Render.
