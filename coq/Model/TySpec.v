(* Declarative vocabulary for C17 (and reused by C05/C16): what "structurally identical", "instantiation" and
   "extends" mean.  Nothing here is a transcription of Go code. *)
From Coq Require Import List String Ascii Bool NArith.
From Yae Require Import Base.Sexp Model.Ty Model.Unify.
Import ListNotations.
Open Scope string_scope.

(* canonical form: object fields sorted by name, function names erased *)
Fixpoint norm (t : ty) : ty :=
  match t with
  | TList e => TList (norm e)
  | TMaybe e => TMaybe (norm e)
  | TMap k v => TMap (norm k) (norm v)
  | TTuple l => TTuple (map norm l)
  | TObj fs => TObj (sort_kv (map (fun f => (fst f, norm (snd f))) fs))
  | TFun _ ps r => TFun "" (map norm ps) (norm r)
  | _ => t
  end.

(* no tuple and no function type anywhere inside *)
Fixpoint simple (t : ty) : bool :=
  match t with
  | TTuple _ | TFun _ _ _ => false
  | TList e | TMaybe e => simple e
  | TMap k v => simple k && simple v
  | TObj fs => forallb (fun f => simple (snd f)) fs
  | _ => true
  end.

(* argument tuples only as the outermost constructor, as the checker uses them *)
Definition pat_ok (t : ty) : bool :=
  match t with TTuple l => forallb simple l | _ => simple t end.

Fixpoint has_top (t : ty) : bool :=
  match t with
  | TTop => true
  | TList e | TMaybe e => has_top e
  | TMap k v => has_top k || has_top v
  | TTuple l => existsb has_top l
  | TObj fs => existsb (fun f => has_top (snd f)) fs
  | TFun _ ps r => existsb has_top ps || has_top r
  | _ => false
  end.

Fixpoint has_bot (t : ty) : bool :=
  match t with
  | TBot => true
  | TList e | TMaybe e => has_bot e
  | TMap k v => has_bot k || has_bot v
  | TTuple l => existsb has_bot l
  | TObj fs => existsb (fun f => has_bot (snd f)) fs
  | TFun _ ps r => existsb has_bot ps || has_bot r
  | _ => false
  end.

Definition ground_subst (m : subst) : bool := forallb (fun kv => slot_free (snd kv) && simple (snd kv)) m.

(* [inst s p g]: substitution [s] instantiates pattern [p] to the variable-free type [g].
   Structural in the pattern: a variable must be bound to a type equal to [g] (also when [g] is bottom);
   only a NON-variable pattern may face bottom (the empty-container rule); top matches anything. *)
Fixpoint inst (s : subst) (p g : ty) {struct p} : bool :=
  match p with
  | TVar n => match assoc n s with Some t => ty_eqb t g | None => false end
  | _ =>
    match g with
    | TBot => true
    | _ =>
      match p, g with
      | TTop, _ => true
      | TNum, TNum | TStr, TStr | TBool, TBool | TTime, TTime => true
      | TList a, TList b => inst s a b
      | TMaybe a, TMaybe b => inst s a b
      | TMap k1 v1, TMap k2 v2 => inst s k1 k2 && inst s v1 v2
      | TTuple l1, TTuple l2 =>
          (fix go (l1 l2 : list ty) {struct l1} : bool :=
             match l1, l2 with
             | [], [] => true
             | a :: r1, b :: r2 => inst s a b && go r1 r2
             | _, _ => false
             end) l1 l2
      | TObj f1, TObj f2 =>
          Nat.eqb (List.length f1) (List.length f2) &&
          (fix go (f1 : list (string * ty)) : bool :=
             match f1 with
             | [] => true
             | (n, a) :: r => match assoc n f2 with Some b => inst s a b | None => false end && go r
             end) f1
      | _, _ => false
      end
    end
  end.

(* m' keeps every binding of m up to type equality *)
Definition extends (m m' : subst) : Prop :=
  forall n t, assoc n m = Some t -> exists t', assoc n m' = Some t' /\ ty_eqb t t' = true.

(* the substitution binds no variable to a type that contains that variable *)
Fixpoint occurs (n : string) (t : ty) : bool :=
  match t with
  | TVar m => String.eqb n m
  | TList e | TMaybe e => occurs n e
  | TMap k v => occurs n k || occurs n v
  | TTuple l => existsb (occurs n) l
  | TObj fs => existsb (fun f => occurs n (snd f)) fs
  | TFun _ ps r => existsb (occurs n) ps || occurs n r
  | _ => false
  end.

Definition no_self_binding (m : subst) : Prop :=
  forall n t, assoc n m = Some t -> occurs n t = false.
