(* Evaluation of correspondence requests INSIDE Coq (vm_compute), used by the thorough tier to cross-check the extracted
   OCaml model on a sample of the same cases: a disagreement here would be a defect of extraction or of the driver.
   Only requests that never touch the numeric interface are eligible (the instance below is a placeholder). *)
From Coq Require Import List String Ascii Bool NArith ZArith.
From Yae Require Import Base.Sexp Model.Num Model.Dispatch.
Import ListNotations.

Definition dummy_ops : numops :=
  mkNumOps (fun _ _ => 0%N) (fun _ _ => 0%N) (fun _ _ => 0%N) (fun _ _ => 0%N) (fun _ _ => 0%N) (fun _ _ => 0%N) (fun _ _ => 0%N)
           (fun _ => 0%N) (fun _ => 0%N) (fun _ => 0%N) (fun _ => 0%N) (fun _ => 0%N)
           (fun _ _ => false) (fun _ _ => false) (fun _ => false) (fun _ => Z0) (fun _ => 0%N) (fun _ _ => 0%N) (fun _ => []) 0%N.

Fixpoint sexp_eqb (x y : sexp) {struct x} : bool :=
  match x, y with
  | A a, A b => String.eqb a b
  | L l1, L l2 =>
      (fix go (l1 l2 : list sexp) : bool :=
         match l1, l2 with
         | [], [] => true
         | a :: r1, b :: r2 => sexp_eqb a b && go r1 r2
         | _, _ => false
         end) l1 l2
  | _, _ => false
  end.

(* indices of the cases on which the model evaluated here differs from the recorded observable *)
Fixpoint mismatches_from (i : nat) (cases : list (sexp * sexp)) : list nat :=
  match cases with
  | [] => []
  | (req, obs) :: r =>
      if sexp_eqb (dispatch dummy_ops req) obs then mismatches_from (S i) r else i :: mismatches_from (S i) r
  end.
Definition mismatches (cases : list (sexp * sexp)) : list nat := mismatches_from 0 cases.
