(* Transcription of /repo/parser (parser.go, factory.go, grammar.go), parser/pos.Range and the literal assertions of
   parser/ast/factory.go.  Binding powers are in eighths (oper.BP is a float32; the harness only generates powers
   that are multiples of 1/8 below 2^20, where float32 arithmetic is exact).  Panics are the result [PErr].
   Non-structural recursion runs on fuel ([PFuel] when exhausted; Proofs show 2*|tokens|+2 suffices). *)
From Coq Require Import List String Ascii Bool NArith ZArith.
From Yae Require Import Base.Sexp Model.Lexer Model.Literal Model.Cst.
Import ListNotations.
Local Open Scope Z_scope.

Record operator := mkOp { o_kind : list N; o_bp : Z; o_fix : N }.   (* fixity: 1 prefix 2 infixN 3 infixL 4 infixR 5 postfix *)

Inductive nud := NIdent | NTrue | NFalse | NNum | NStr | NTime | NListMap | NObj | NGroup | NPrefix.
Inductive led := LBinL | LBinR | LBinN | LPostfix | LQuestion | LDot | LCall | LSubscript.

Record grammar := mkGrammar { g_prefix : list (list N * (Z * nud)); g_infix : list (list N * (Z * led)) }.

(* Go map assignment: overwrite an existing key, else add *)
Fixpoint put {X} (k : list N) (x : X) (l : list (list N * X)) : list (list N * X) :=
  match l with
  | [] => [(k, x)]
  | (k', x') :: r => if list_eqb k k' then (k, x) :: r else (k', x') :: put k x r
  end.
Fixpoint get {X} (k : list N) (l : list (list N * X)) : option X :=
  match l with
  | [] => None
  | (k', x) :: r => if list_eqb k k' then Some x else get k r
  end.

Definition BP_NONE := 0. Definition BP_COND := 16. Definition BP_CALL := 96. Definition BP_MEMBER := 104.

Definition K_LBRACKET := [91%N]. Definition K_RBRACKET := [93%N]. Definition K_LBRACE := [123%N].
Definition K_RBRACE := [125%N]. Definition K_LPAREN := [40%N]. Definition K_RPAREN := [41%N].
Definition K_COLON := [58%N]. Definition K_COMMA := [44%N]. Definition K_DOT := [46%N]. Definition K_QUESTION := [63%N].

(* factory.go: newGrammar *)
Definition new_grammar (ops : list operator) : grammar :=
  let p0 := fold_left (fun acc kn => put (fst kn) (BP_NONE, snd kn) acc)
              [(K_SYM, NIdent); (K_TRUE, NTrue); (K_FALSE, NFalse); (K_NUM, NNum); (K_STR, NStr); (K_TIME, NTime);
               (K_LBRACKET, NListMap); (K_LBRACE, NObj); (K_LPAREN, NGroup)] [] in
  let sorted := sort_ops (fun o => byte_len (o_kind o)) ops in
  let '(p1, i1) :=
    fold_left (fun '(p, i) o =>
                 match o_fix o with
                 | 1%N => (put (o_kind o) (o_bp o, NPrefix) p, i)
                 | 2%N => (p, put (o_kind o) (o_bp o, LBinN) i)
                 | 3%N => (p, put (o_kind o) (o_bp o, LBinL) i)
                 | 4%N => (p, put (o_kind o) (o_bp o, LBinR) i)
                 | 5%N => (p, put (o_kind o) (o_bp o, LPostfix) i)
                 | _ => (p, i)
                 end) sorted (p0, []) in
  let i2 := put K_LBRACKET (BP_MEMBER, LSubscript)
              (put K_LPAREN (BP_CALL, LCall) (put K_DOT (BP_MEMBER, LDot) (put K_QUESTION (BP_COND, LQuestion) i1))) in
  mkGrammar p1 i2.

Inductive pres (X : Type) := POk (x : X) | PErr | PFuel.
Arguments POk {X}. Arguments PErr {X}. Arguments PFuel {X}.
Definition pbind {X Y} (r : pres X) (f : X -> pres Y) : pres Y :=
  match r with POk x => f x | PErr => PErr | PFuel => PFuel end.
Notation "'let!' x := r 'in' k" := (pbind r (fun x => k)) (at level 200, x pattern, r at level 100, k at level 200).

Definition eof_tok : token := mkTok K_EOF K_EOF 0 0 0 0.
Definition is_eof (t : token) : bool := list_eqb (t_kind t) K_EOF.
Definition tpos (t : token) : pos := if is_eof t then pos_unknown else tok_pos t.

Definition peek (ts : list token) : token := match ts with t :: _ => t | [] => eof_tok end.
Definition eat (ts : list token) : token * list token := match ts with t :: r => (t, r) | [] => (eof_tok, []) end.
Definition kind_is (t : token) (k : list N) : bool := list_eqb (t_kind t) k.

Definition must_eat (k : list N) (ts : list token) : pres (token * list token) :=
  let '(t, r) := eat ts in if kind_is t k then POk (t, r) else PErr.
Definition try_eat (k : list N) (ts : list token) : option (token * list token) :=
  if kind_is (peek ts) k then Some (eat ts) else None.

(* pos.Range: asserts to.Idx >= from.Idx; start of [from], end of [to] *)
Definition range (from to : pos) : pres pos :=
  if Z.leb (p_idx from) (p_idx to) then POk (mkPos (p_idx from) (p_end to) (p_col from) (p_line from)) else PErr.

Definition infix_lbp (g : grammar) (t : token) : Z :=
  match get (t_kind t) (g_infix g) with Some (bp, _) => bp | None => 0 end.

(* parser.go: infixNCheck *)
Definition infix_n_ok (e : expr) : bool :=
  match e with
  | EBinary _ name _ 2%N l r =>
      negb (match l with EBinary _ n2 _ _ _ _ => list_eqb n2 name | _ => false end) &&
      negb (match r with EBinary _ n2 _ _ _ _ => list_eqb n2 name | _ => false end)
  | _ => true
  end.

Section Parser.
  Variable g : grammar.

  (* [rec rbp ts] is p.expr(rbp) one fuel level down *)
  Section Step.
    Variable rec : Z -> list token -> pres (expr * list token).

    (* comma-separated expressions up to (not including) the closing token; a trailing comma is allowed when
       [trailing] (list / map / object literals), not for call arguments *)
    Fixpoint elems_loop (n : nat) (close : list N) (ts : list token) (acc : list expr) : pres (list expr * list token) :=
      match n with
      | O => PFuel
      | S m =>
          if kind_is (peek ts) close then POk (rev acc, ts) else
          let! (e, ts1) := rec 0 ts in
          match try_eat K_COMMA ts1 with
          | Some (_, ts2) => elems_loop m close ts2 (e :: acc)
          | None => POk (rev (e :: acc), ts1)
          end
      end.

    Fixpoint pairs_loop (n : nat) (ts : list token) (acc : list (expr * expr)) : pres (list (expr * expr) * list token) :=
      match n with
      | O => PFuel
      | S m =>
          if kind_is (peek ts) K_RBRACKET then POk (rev acc, ts) else
          let! (k, ts1) := rec 0 ts in
          let! (_, ts2) := must_eat K_COLON ts1 in
          let! (v, ts3) := rec 0 ts2 in
          match try_eat K_COMMA ts3 with
          | Some (_, ts4) => pairs_loop m ts4 ((k, v) :: acc)
          | None => POk (rev ((k, v) :: acc), ts3)
          end
      end.

    Fixpoint fields_loop (n : nat) (ts : list token) (acc : list (list N * expr)) : pres (list (list N * expr) * list token) :=
      match n with
      | O => PFuel
      | S m =>
          if kind_is (peek ts) K_RBRACE then POk (rev acc, ts) else
          let! (nm, ts1) := must_eat K_SYM ts in
          let! (_, ts2) := must_eat K_COLON ts1 in
          let! (v, ts3) := rec 0 ts2 in
          match try_eat K_COMMA ts3 with
          | Some (_, ts4) => fields_loop m ts4 ((t_lexeme nm, v) :: acc)
          | None => POk (rev ((t_lexeme nm, v) :: acc), ts3)
          end
      end.

    (* call arguments: no trailing comma *)
    Fixpoint args_loop (n : nat) (ts : list token) (acc : list expr) : pres (list expr * list token) :=
      match n with
      | O => PFuel
      | S m =>
          let! (e, ts1) := rec 0 ts in
          match try_eat K_COMMA ts1 with
          | Some (_, ts2) => args_loop m ts2 (e :: acc)
          | None => POk (rev (e :: acc), ts1)
          end
      end.

    (* factory.go: parseCall (after the opening parenthesis [lp]) *)
    Definition parse_call (callee : expr) (lp : token) (ts : list token) : pres (expr * list token) :=
      let! (args, rp, ts') :=
        match try_eat K_RPAREN ts with
        | Some (rp, ts1) => POk ([], rp, ts1)
        | None =>
            let! (args, ts1) := args_loop (S (len ts)) ts [] in
            let! (rp, ts2) := must_eat K_RPAREN ts1 in POk (args, rp, ts2)
        end in
      let! p := range (expr_pos callee) (tpos rp) in
      POk (ECall p (Z.of_N (t_col lp)) callee args, ts').

    Definition nud_fn (n : nud) (bp : Z) (t : token) (ts : list token) : pres (expr * list token) :=
      match n with
      | NIdent => POk (EIdent (tpos t) (t_lexeme t), ts)
      | NTrue => POk (EBool (tpos t) true, ts)
      | NFalse => POk (EBool (tpos t) false, ts)
      | NNum => match num_parse (t_lexeme t) with Some _ => POk (ENum (tpos t) (t_lexeme t), ts) | None => PErr end
      | NStr => match str_value (t_lexeme t) with Some _ => POk (EStr (tpos t) (t_lexeme t), ts) | None => PErr end
      | NTime => POk (ETime (tpos t) (t_lexeme t), ts)
      | NPrefix =>
          let! (e, ts1) := rec bp ts in
          let! p := range (tpos t) (expr_pos e) in
          POk (EUnary p (t_lexeme t) (tpos t) e true, ts1)
      | NGroup =>
          let! (e, ts1) := rec 0 ts in
          let! (rp, ts2) := must_eat K_RPAREN ts1 in
          let! p := range (tpos t) (tpos rp) in
          POk (EGroup p e, ts2)
      | NObj =>
          let! (fs, ts1) := fields_loop (S (len ts)) ts [] in
          let! (rb, ts2) := must_eat K_RBRACE ts1 in
          let! p := range (tpos t) (tpos rb) in
          POk (EObj p fs, ts2)
      | NListMap =>
          match try_eat K_COLON ts with
          | Some (_, ts1) =>
              let! (rb, ts2) := must_eat K_RBRACKET ts1 in
              let! p := range (tpos t) (tpos rb) in POk (EMap p [], ts2)
          | None =>
              if kind_is (peek ts) K_RBRACKET then
                let! (rb, ts1) := must_eat K_RBRACKET ts in
                let! p := range (tpos t) (tpos rb) in POk (EList p [], ts1)
              else
                let! (fst_e, ts1) := rec 0 ts in
                match try_eat K_COLON ts1 with
                | None =>
                    let! (es, ts2) :=
                      match try_eat K_COMMA ts1 with
                      | Some (_, ts2) => elems_loop (S (len ts2)) K_RBRACKET ts2 [fst_e]
                      | None => POk ([fst_e], ts1)
                      end in
                    let! (rb, ts3) := must_eat K_RBRACKET ts2 in
                    let! p := range (tpos t) (tpos rb) in POk (EList p es, ts3)
                | Some (_, ts2) =>
                    let! (v, ts3) := rec 0 ts2 in
                    let! (kvs, ts4) :=
                      match try_eat K_COMMA ts3 with
                      | Some (_, ts4) => pairs_loop (S (len ts4)) ts4 [(fst_e, v)]
                      | None => POk ([(fst_e, v)], ts3)
                      end in
                    let! (rb, ts5) := must_eat K_RBRACKET ts4 in
                    let! p := range (tpos t) (tpos rb) in POk (EMap p kvs, ts5)
                end
          end
      end.

    Definition led_fn (l : led) (bp : Z) (left : expr) (t : token) (ts : list token) : pres (expr * list token) :=
      let binary (fx : N) (rbp : Z) :=
        let! (r, ts1) := rec rbp ts in
        let! p := range (expr_pos left) (expr_pos r) in
        POk (EBinary p (t_lexeme t) (tpos t) fx left r, ts1) in
      match l with
      | LBinL => binary 3%N bp
      | LBinR => binary 4%N (bp - 8)
      | LBinN => binary 2%N bp
      | LPostfix =>
          let! p := range (expr_pos left) (tpos t) in
          POk (EUnary p (t_lexeme t) (tpos t) left false, ts)
      | LQuestion =>
          let! (m, ts1) := rec 0 ts in
          let! (_, ts2) := must_eat K_COLON ts1 in
          let! (r, ts3) := rec (bp - 8) ts2 in
          let! p := range (expr_pos left) (expr_pos r) in
          POk (ETernary p (t_lexeme t) (tpos t) left m r, ts3)
      | LCall => parse_call left t ts
      | LSubscript =>
          let! (i, ts1) := rec 0 ts in
          let! (rb, ts2) := must_eat K_RBRACKET ts1 in
          let! p := range (expr_pos left) (tpos rb) in
          POk (ESub p (Z.of_N (t_col t)) left i, ts2)
      | LDot =>
          let '(name, ts1) := eat ts in
          let! p := range (expr_pos left) (tpos name) in
          let mem := EMember p (Z.of_N (t_col t)) left (t_lexeme name) (tpos name) in
          match try_eat K_LPAREN ts1 with
          | None => POk (mem, ts1)
          | Some (lp, ts2) => parse_call mem lp ts2
          end
      end.

    (* parser.go: parseInfix; every led consumes at least the operator token, so |tokens| bounds the iterations *)
    Fixpoint infix_loop (n : nat) (rbp : Z) (left : expr) (ts : list token) : pres (expr * list token) :=
      match n with
      | O => PFuel
      | S m =>
          if Z.ltb rbp (infix_lbp g (peek ts)) then
            let '(t, ts1) := eat ts in
            match get (t_kind t) (g_infix g) with
            | None => PErr
            | Some (bp, l) =>
                let! (left', ts2) := led_fn l bp left t ts1 in
                if infix_n_ok left' then infix_loop m rbp left' ts2 else PErr
            end
          else POk (left, ts)
      end.

    (* parser.go: expr(rbp) *)
    Definition expr_step (rbp : Z) (ts : list token) : pres (expr * list token) :=
      let '(t, ts1) := eat ts in
      match get (t_kind t) (g_prefix g) with
      | None => PErr
      | Some (bp, n) =>
          let! (lft, ts2) := nud_fn n bp t ts1 in
          infix_loop (S (len ts2)) rbp lft ts2
      end.
  End Step.

  Fixpoint p_expr (fuel : nat) (rbp : Z) (ts : list token) : pres (expr * list token) :=
    match fuel with
    | O => PFuel
    | S f => expr_step (p_expr f) rbp ts
    end.
End Parser.

(* parser.go: Parse *)
Definition parse_tokens (ops : list operator) (ts : list token) : pres expr :=
  let g := new_grammar ops in
  let! (e, rest) := p_expr g (2 * len ts + 2) 0 ts in
  match rest with [] => POk e | _ => PErr end.

(* facade.go: Parse = lex then parse (the lexer and the grammar get the same operator list) *)
Definition parse_source (ops : list operator) (src : list N) : pres expr :=
  match lex (map o_kind ops) src with
  | None => PErr
  | Some ts => parse_tokens ops ts
  end.

(* ---- wire ---- *)
Definition dec_operator (s : sexp) : option operator :=
  match s with
  | L [k; bp; fx] => do k' <- dNs k; do bp' <- dZ bp; do fx' <- dN fx; Some (mkOp k' bp' fx')
  | _ => None
  end.
Definition dec_operators (s : sexp) : option (list operator) :=
  match s with L l => mapM dec_operator l | _ => None end.
