(* Transcription of /repo/types/unify.go (Unify, unifyComposite, applySubst, freeFrom) and typecheck.go:inferFun.
   The substitution is Go's in-place map[string]*Type, threaded here as an association list with unique keys.
   Panics (util.Unreachable in freeFrom on a tuple, the keyable assertion of types.Map) are the result [Panic];
   non-structural recursion (applySubst chasing variable chains) runs on fuel, [Fuel] when exhausted. *)
From Coq Require Import List String Ascii Bool NArith.
From Yae Require Import Base.Sexp Model.Ty.
Import ListNotations.
Open Scope string_scope.

Inductive res (X : Type) := Ok (x : X) | Fail | Panic | Fuel.
Arguments Ok {X}. Arguments Fail {X}. Arguments Panic {X}. Arguments Fuel {X}.

Definition rbind {X Y} (r : res X) (f : X -> res Y) : res Y :=
  match r with Ok x => f x | Fail => Fail | Panic => Panic | Fuel => Fuel end.
Notation "'let*' x := r 'in' k" := (rbind r (fun x => k)) (at level 200, x pattern, r at level 100, k at level 200).
Definition rmap {X Y} (f : X -> Y) (r : res X) : res Y := let* x := r in Ok (f x).

Definition rmapM {X Y} (f : X -> res Y) : list X -> res (list Y) :=
  fix go l := match l with
              | [] => Ok []
              | x :: r => let* y := f x in let* ys := go r in Ok (y :: ys)
              end.

Definition subst := list (string * ty).

Fixpoint update (n : string) (t : ty) (m : subst) : subst :=
  match m with
  | [] => [(n, t)]
  | (k, v) :: r => if String.eqb k n then (n, t) :: r else (k, v) :: update n t r
  end.

(* types.Map asserts keyable(key) *)
Definition mk_map (k v : ty) : res ty := if keyable k then Ok (TMap k v) else Panic.

Definition is_var_named (t : ty) (n : string) : bool :=
  match t with TVar m => String.eqb m n | _ => false end.

Fixpoint apply_subst (fuel : nat) (m : subst) (t : ty) : res ty :=
  match fuel with
  | 0 => Fuel
  | S f =>
    match t with
    | TNum | TStr | TBool | TTime | TTop | TBot => Ok t
    | TVar n =>
        match assoc n m with
        | None => Ok t
        | Some r => if is_var_named r n then Ok t else apply_subst f m r
        end
    | TList e => rmap TList (apply_subst f m e)
    | TMap k v => let* k' := apply_subst f m k in let* v' := apply_subst f m v in mk_map k' v'
    | TTuple l => rmap TTuple (rmapM (apply_subst f m) l)
    | TObj fs => rmap TObj (rmapM (fun nf => rmap (fun t' => (fst nf, t')) (apply_subst f m (snd nf))) fs)
    | TFun n ps r => let* ps' := rmapM (apply_subst f m) ps in let* r' := apply_subst f m r in Ok (TFun n ps' r')
    | TMaybe e => rmap TMaybe (apply_subst f m e)
    end
  end.

(* freeFrom: true = the variable does NOT occur.  No tuple case in the Go code: util.Unreachable. *)
Fixpoint free_from (t : ty) (s : string) : res bool :=
  match t with
  | TNum | TStr | TBool | TTime | TBot | TTop => Ok true
  | TList e | TMaybe e => free_from e s
  | TMap k v => let* a := free_from k s in if a then free_from v s else Ok false
  | TObj fs =>
      (fix go (fs : list (string * ty)) : res bool :=
         match fs with
         | [] => Ok true
         | (_, t) :: r => let* a := free_from t s in if a then go r else Ok false
         end) fs
  | TFun _ ps r =>
      (fix go (ps : list ty) : res bool :=
         match ps with
         | [] => free_from r s
         | t :: r' => let* a := free_from t s in if a then go r' else Ok false
         end) ps
  | TVar n => Ok (negb (String.eqb n s))
  | TTuple _ => Panic
  end.

Definition same_kind (x y : ty) : bool :=
  match x, y with
  | TTop, TTop | TBot, TBot | TVar _, TVar _ | TNum, TNum | TStr, TStr | TBool, TBool | TTime, TTime
  | TTuple _, TTuple _ | TList _, TList _ | TMap _ _, TMap _ _ | TObj _, TObj _ | TFun _ _ _, TFun _ _ _
  | TMaybe _, TMaybe _ => true
  | _, _ => false
  end.

Definition var_name (t : ty) : string := match t with TVar n => n | _ => "" end.

(* the `case x.Kind == KTyVar` arm (and its mirror image) *)
Definition bind_var (fa : nat) (xn : string) (y : ty) (m : subst) : res (ty * subst) :=
  let* y1 := apply_subst fa m y in
  let* free := free_from y1 xn in
  if free then
    match assoc xn m with
    | Some k => if ty_eqb k y1 then Ok (y1, update xn y1 m) else Fail
    | None => Ok (y1, update xn y1 m)
    end
  else Fail.

Fixpoint unify (fa fuel : nat) (x y : ty) (m : subst) : res (ty * subst) :=
  match fuel with
  | 0 => Fuel
  | S f =>
    let tail (_ : unit) : res (ty * subst) :=
      if is_primitive x && is_primitive y && same_kind x y then Ok (x, m)
      else if is_composite x && is_composite y && same_kind x y then
        match x, y with
        | TList a, TList b => let* (e, m1) := unify fa f a b m in Ok (TList e, m1)
        | TMaybe a, TMaybe b => let* (e, m1) := unify fa f a b m in Ok (TMaybe e, m1)
        | TMap k1 v1, TMap k2 v2 =>
            let* (k, m1) := unify fa f k1 k2 m in
            let* (v, m2) := unify fa f v1 v2 m1 in
            let* t := mk_map k v in Ok (t, m2)
        | TTuple l1, TTuple l2 =>
            if negb (Nat.eqb (List.length l1) (List.length l2)) then Fail else
            let* (ks, m1) :=
              (fix go (l1 l2 : list ty) (m : subst) : res (list ty * subst) :=
                 match l1, l2 with
                 | a :: r1, b :: r2 =>
                     let* (u, m1) := unify fa f a b m in
                     let* (us, m2) := go r1 r2 m1 in Ok (u :: us, m2)
                 | _, _ => Ok ([], m)
                 end) l1 l2 m in
            Ok (TTuple ks, m1)
        | TObj f1, TObj f2 =>
            if negb (Nat.eqb (List.length f1) (List.length f2)) then Fail else
            let* (fs, m1) :=
              (fix go (f1 : list (string * ty)) (m : subst) : res (list (string * ty) * subst) :=
                 match f1 with
                 | [] => Ok ([], m)
                 | (n, a) :: r1 =>
                     match assoc n f2 with
                     | None => Fail
                     | Some b =>
                         let* (u, m1) := unify fa f a b m in
                         let* (us, m2) := go r1 m1 in Ok ((n, u) :: us, m2)
                     end
                 end) f1 m in
            Ok (TObj fs, m1)
        | TFun n1 p1 r1, TFun _ p2 r2 =>
            if negb (Nat.eqb (List.length p1) (List.length p2)) then Fail else
            let* (ps, m1) :=
              (fix go (l1 l2 : list ty) (m : subst) : res (list ty * subst) :=
                 match l1, l2 with
                 | a :: q1, b :: q2 =>
                     let* xp := apply_subst fa m a in
                     let* yp := apply_subst fa m b in
                     let* (u, m1) := unify fa f xp yp m in
                     let* (us, m2) := go q1 q2 m1 in Ok (u :: us, m2)
                 | _, _ => Ok ([], m)
                 end) p1 p2 m in
            let* (r, m2) := unify fa f r1 r2 m1 in
            Ok (TFun n1 ps r, m2)
        | _, _ => Panic (* unreachable: same composite kind *)
        end
      else if is_var x then bind_var fa (var_name x) y m
      else if is_var y then bind_var fa (var_name y) x m
      else match y with
           | TBot => Ok (x, m)
           | _ => match x with TTop => Ok (x, m) | _ => Fail end
           end in
    if is_var x && is_var y then
      let* ax := apply_subst fa m x in
      let* ay := apply_subst fa m y in
      if ty_eqb ax ay then Ok (x, m) else tail tt
    else tail tt
  end.

(* typecheck.go: inferFun.  [fresh] is where types.TyVar's global counter stands; only distinctness of the generated
   names from every name in [f] and [args] matters (they never reach the result). *)
Definition fresh_var (p : string) (n : N) : ty := TVar (p ++ string_of_N n).

Fixpoint seqN (start : N) (len : nat) : list N :=
  match len with 0 => [] | S l => start :: seqN (start + 1) l end.

Definition infer_fun (fa fuel : nat) (fresh : N) (fname : string) (params : list ty) (ret : ty) (args : list ty)
  : res (list ty * ty) :=
  let n := List.length args in
  let sx := map (fun i => fresh_var "s" (fresh + i)) (seqN 1 n) in
  let s := TTuple sx in
  let t := fresh_var "t" (fresh + N.of_nat n + 1) in
  let pseudo := TFun fname [s] t in
  let fn := TFun fname [TTuple params] ret in
  let* (_, m) := unify fa fuel pseudo fn [] in
  let targ := TTuple args in
  let* targ1 := apply_subst fa m s in
  let* (targ2, m2) := unify fa fuel targ1 targ m in
  match targ2 with
  | TTuple ps =>
      let* tres := apply_subst fa m2 t in
      if slot_free tres then Ok (ps, tres) else Fail
  | _ => Fail
  end.

(* ---- wire ---- *)
Definition enc_subst (m : subst) : sexp := L (map (fun kv => L [eName (fst kv); enc_ty (snd kv)]) m).
Definition dec_subst (s : sexp) : option subst :=
  match s with
  | L l => mapM (fun kv => match kv with L [k; v] => do k' <- dName k; do v' <- dec_ty v; Some (k', v') | _ => None end) l
  | _ => None
  end.

Definition enc_res {X} (f : X -> sexp) (r : res X) : sexp :=
  match r with Ok x => L [A "ok"; f x] | Fail => A "fail" | Panic => A "panic" | Fuel => A "fuel" end.

(* the substitution is compared as a finite map: sorted by the harness on both sides after applying it fully *)
Definition big_fuel : nat := 5000.
