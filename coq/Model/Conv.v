(* Host data -> types and values: /repo/conv/val.go, type.go, typeenv.go, valenv.go.  Go's reflection is represented by
   a description of the static Go type [gty] and of the value [gv] (with nil at every nil-able place and interface cells
   carrying their dynamic type).  util.Recover boundaries (valOfRV, typeOfRV) turn panics into errors: [None]. *)
From Coq Require Import List String Ascii Bool NArith ZArith.
From Yae Require Import Base.Sexp Model.Ty Model.Unify Model.Num Model.Lexer Model.Val Model.Render.
Import ListNotations.
Local Open Scope string_scope.

Inductive gty :=
| GBool | GInt | GUint | GFloat | GString | GTime
| GPtr (e : gty) | GSlice (e : gty) | GArray (e : gty) | GMap (k v : gty)
| GStruct (fs : list (string * string * gty))      (* (Go field name, raw `yae:"..."` tag, type) *)
| GIface | GOther.                                 (* interface{} ; chan, func, complex, ... *)

Inductive gv :=
| HBool (b : bool) | HInt (z : Z) | HUint (n : N) | HFloat (bits : N) | HString (s : list N) | HTime (sec nsec : Z)
| HNil                                  (* nil pointer / slice / map / interface *)
| HPtr (v : gv)
| HSeq (vs : list gv)                   (* slice or array elements *)
| HMap (kvs : list (gv * gv))           (* entries in reflect.MapKeys order (unspecified: an oracle) *)
| HStruct (vs : list gv)
| HIface (t : gty) (v : gv)             (* a non-nil interface holding a value of dynamic type t *)
| HOther.

Definition maxLevel : nat := 100.

(* strings.TrimSpace / ToLower on ASCII, enough for tags *)
Definition is_sp (c : N) : bool := N.eqb c 32 || N.eqb c 9 || N.eqb c 10 || N.eqb c 13 || N.eqb c 11 || N.eqb c 12.
Fixpoint ltrim (l : list N) : list N := match l with c :: r => if is_sp c then ltrim r else l | [] => [] end.
Definition trim (l : list N) : list N := rev (ltrim (rev (ltrim l))).
Definition lower (l : list N) : list N := map (fun c => if N.leb 65 c && N.leb c 90 then (c + 32)%N else c) l.
Fixpoint split_comma (l : list N) (cur : list N) : list (list N) :=
  match l with
  | [] => [rev cur]
  | c :: r => if N.eqb c 44 then rev cur :: split_comma r [] else split_comma r (c :: cur)
  end.

(* type.go: parseTag -> (name, maybe) *)
Definition parse_tag (goname tag : string) : string * bool :=
  let xs := split_comma (bytes_of_string tag) [] in
  let name := match xs with fst_ :: _ => let t := trim fst_ in match t with [] => goname | _ => str_of_bytes t end | [] => goname end in
  let maybe := match xs with _ :: snd_ :: _ => list_eqb (lower (trim snd_)) (bytes_of_string "maybe") | _ => false end in
  (name, maybe).

Definition mk_obj (fs : list (string * ty)) : option ty := if nodupb (map fst fs) then Some (TObj fs) else None.
Definition mk_mapty (k v : ty) : option ty := if keyable k then Some (TMap k v) else None.

(* type.go: typeOf(rt, lv): None = panic *)
Fixpoint type_of (fuel : nat) (t : gty) (lv : nat) {struct fuel} : option ty :=
  match fuel with
  | O => None
  | S f =>
    if Nat.ltb maxLevel lv then None else
    match t with
    | GPtr e => type_of f e lv              (* for rt.Kind() == Pointer { rt = rt.Elem() }: same level *)
    | GTime => Some TTime
    | GBool => Some TBool
    | GInt | GUint | GFloat => Some TNum
    | GString => Some TStr
    | GSlice e | GArray e => option_map TList (type_of f e (S lv))
    | GMap k v => do kt <- type_of f k (S lv); do vt <- type_of f v (S lv); mk_mapty kt vt
    | GStruct fs =>
        do fts <- mapM (fun x => let '(gn, tag, ft) := x in
                                 let '(name, maybe) := parse_tag gn tag in
                                 do t' <- type_of f ft (S lv);
                                 Some (name, if maybe then TMaybe t' else t')) fs;
        mk_obj fts
    | GIface | GOther => None
    end
  end.

Definition is_nil (v : gv) : bool := match v with HNil => true | _ => false end.

(* unwrap pointers and interfaces: for rv.Kind() == Interface || Pointer { rv = rv.Elem(); rt = rv.Type() }.
   A nil pointer / interface met on the way makes rv.Type() panic. *)
Fixpoint unwrap (fuel : nat) (t : gty) (v : gv) : option (gty * gv) :=
  match fuel with
  | O => None
  | S f =>
    match t, v with
    | GPtr e, HPtr x => unwrap f e x
    | GPtr _, _ => None
    | GIface, HIface dt x => unwrap f dt x
    | GIface, _ => None
    | _, _ => Some (t, v)
    end
  end.

Section Conv.
  Variable ops : numops.

  Definition all_eq_type (t0 : ty) (vs : list val) : bool := forallb (fun v => ty_eqb t0 (val_type v)) vs.

  (* val.go: valOf(rv, lv): None = panic (turned into an error at valOfRV) *)
  Fixpoint val_of (fuel : nat) (t : gty) (v : gv) (lv : nat) {struct fuel} : option val :=
    match fuel with
    | O => None
    | S f =>
      if Nat.ltb maxLevel lv then None
      else if is_nil v then None
      else
        match unwrap f t v with
        | None => None
        | Some (t1, v1) =>
          match t1, v1 with
          | GTime, HTime s n => Some (VTime s n)
          | GBool, HBool b => Some (VBool b)
          | GInt, HInt z => Some (VNum (of_Z ops z))
          | GUint, HUint n => Some (VNum (of_Z ops (Z.of_N n)))
          | GFloat, HFloat b => Some (VNum b)
          | GString, HString s => Some (VStr s)
          | (GSlice e | GArray e), (HSeq _ | HNil) =>
              let elems := match v1 with HSeq l => l | _ => [] end in
              match elems with
              | [] => do lt <- type_of (S maxLevel + S maxLevel) t1 lv;
                      match lt with TList _ => Some (VList lt []) | _ => None end
              | _ =>
                  do xs <- mapM (fun x => val_of f e x (S lv)) elems;
                  match xs with
                  | x0 :: _ => if all_eq_type (val_type x0) xs then Some (VList (TList (val_type x0)) xs) else None
                  | [] => None
                  end
              end
          | GMap kt vt, (HMap _ | HNil) =>
              let entries := match v1 with HMap l => l | _ => [] end in
              match entries with
              | [] => do mt <- type_of (S maxLevel + S maxLevel) t1 lv;
                      match mt with TMap _ _ => Some (VMap mt []) | _ => None end
              | _ =>
                  do kvs <- mapM (fun kv => do k <- val_of f kt (fst kv) (S lv); do x <- val_of f vt (snd kv) (S lv); Some (k, x)) entries;
                  match kvs with
                  | (k0, x0) :: _ =>
                      if all_eq_type (val_type k0) (map fst kvs) && all_eq_type (val_type x0) (map snd kvs) then
                        do mt <- mk_mapty (val_type k0) (val_type x0);
                        do ents <- fold_left (fun acc kx => do a <- acc;
                                                            match key_of ops (fst kx) with
                                                            | (_, OVal kk) => Some (kput kk (snd kx) a)
                                                            | _ => None end) kvs (Some []);
                        Some (VMap mt ents)
                      else None
                  | [] => None
                  end
              end
          | GStruct fs, HStruct vs =>
              match fs with
              | [] => Some (VObj (TObj []) [])
              | _ =>
                  do xs <- (fix go (fs : list (string * string * gty)) (vs : list gv) : option (list (string * val)) :=
                              match fs, vs with
                              | [], [] => Some []
                              | (gn, tag, ft) :: fr, x :: vr =>
                                  let '(name, maybe) := parse_tag gn tag in
                                  do fv <- (if is_nil x then
                                              do et <- type_of (S maxLevel + S maxLevel) ft 0; Some (VMaybe (TMaybe et) None)
                                            else
                                              do y <- val_of f ft x (S lv);
                                              Some (if maybe then VMaybe (TMaybe (val_type y)) (Some y) else y));
                                  do rest <- go fr vr; Some ((name, fv) :: rest)
                              | _, _ => None
                              end) fs vs;
                  do ot <- mk_obj (map (fun nv => (fst nv, val_type (snd nv))) xs);
                  Some (VObj ot (map snd xs))
              end
          | _, _ => None
          end
        end
    end.

  Definition conv_fuel : nat := 400.

  (* ValOf / TypeOf (typeOfRV: the type of the value when it converts, else the static type) *)
  Definition ValOf (t : gty) (v : gv) : option val := val_of conv_fuel t v 0.
  Definition TypeOf (t : gty) (v : gv) : option ty :=
    match ValOf t v with
    | Some x => Some (val_type x)
    | None => type_of conv_fuel t 0      (* typeOf(rv.Type(), 0): the STATIC type of the slot (an interface slot: panic) *)
    end.

  (* typeenv.go / valenv.go: environments from a struct (its fields) or from a map with string keys (its entries) *)
  Definition TypeEnvOf (t : gty) (v : gv) : option (list (string * ty)) :=
    match t, v with GIface, HNil => Some [] | _, _ =>
    match (if is_nil v then None else unwrap conv_fuel t v) with
    | Some (GMap GString vt, HMap kvs) =>
        mapM (fun kv => match fst kv with
                        | HString k => do ty_ <- TypeOf vt (snd kv); Some (str_of_bytes k, ty_)
                        | _ => None end) kvs
    | _ => match TypeOf t v with Some (TObj fs) => Some fs | _ => None end
    end end.
  Definition ValEnvOf (t : gty) (v : gv) : option (list (string * val)) :=
    match t, v with GIface, HNil => Some [] | _, _ =>
    match (if is_nil v then None else unwrap conv_fuel t v) with
    | Some (GMap GString vt, HMap kvs) =>
        mapM (fun kv => match fst kv with
                        | HString k => do x <- ValOf vt (snd kv); Some (str_of_bytes k, x)
                        | _ => None end) kvs
    | _ => match ValOf t v with
           | Some (VObj (TObj fs) vs) => Some (combine (map fst fs) vs)
           | _ => None
           end
    end end.
End Conv.

(* ---- wire ---- *)
Fixpoint dec_gty (s : sexp) : option gty :=
  match s with
  | A a =>
      if a =? "bool" then Some GBool else if a =? "int" then Some GInt else if a =? "uint" then Some GUint
      else if a =? "float" then Some GFloat else if a =? "string" then Some GString else if a =? "time" then Some GTime
      else if a =? "iface" then Some GIface else if a =? "other" then Some GOther else None
  | L (A tag :: args) =>
      if tag =? "ptr" then match args with [e] => option_map GPtr (dec_gty e) | _ => None end
      else if tag =? "slice" then match args with [e] => option_map GSlice (dec_gty e) | _ => None end
      else if tag =? "array" then match args with [e] => option_map GArray (dec_gty e) | _ => None end
      else if tag =? "map" then match args with [k; v] => do k' <- dec_gty k; do v' <- dec_gty v; Some (GMap k' v') | _ => None end
      else if tag =? "struct" then
        option_map GStruct (mapM (fun f => match f with
                                           | L [n; tg; t] => do n' <- dName n; do tg' <- dName tg; do t' <- dec_gty t; Some (n', tg', t')
                                           | _ => None end) args)
      else None
  | _ => None
  end.

Fixpoint dec_gv (s : sexp) : option gv :=
  match s with
  | A a => if a =? "nil" then Some HNil else if a =? "other" then Some HOther else None
  | L (A tag :: args) =>
      if tag =? "bool" then match args with [b] => option_map HBool (dB b) | _ => None end
      else if tag =? "int" then match args with [z] => option_map HInt (dZ z) | _ => None end
      else if tag =? "uint" then match args with [n] => option_map HUint (dN n) | _ => None end
      else if tag =? "float" then match args with [n] => option_map HFloat (dN n) | _ => None end
      else if tag =? "string" then match args with [b] => option_map HString (dNs b) | _ => None end
      else if tag =? "time" then match args with [a; b] => do a' <- dZ a; do b' <- dZ b; Some (HTime a' b') | _ => None end
      else if tag =? "ptr" then match args with [v] => option_map HPtr (dec_gv v) | _ => None end
      else if tag =? "seq" then option_map HSeq (mapM dec_gv args)
      else if tag =? "struct" then option_map HStruct (mapM dec_gv args)
      else if tag =? "map" then
        option_map HMap (mapM (fun kv => match kv with L [k; v] => do k' <- dec_gv k; do v' <- dec_gv v; Some (k', v') | _ => None end) args)
      else if tag =? "iface" then match args with [t; v] => do t' <- dec_gty t; do v' <- dec_gv v; Some (HIface t' v') | _ => None end
      else None
  | _ => None
  end.
