(* Vocabulary for C10. *)
From Coq Require Import List String Bool NArith ZArith.
From Yae Require Import Base.Sexp Model.Lexer Model.Cst Model.Desugar.
Import ListNotations.

(* no call whose callee is a member node (the shape method-call sugar has; see C10_idempotent_refuted) *)
Fixpoint no_member_callee (e : expr) : bool :=
  match e with
  | EStr _ _ | ENum _ _ | EBool _ _ | ETime _ _ | EIdent _ _ => true
  | EList _ es => forallb no_member_callee es
  | EMap _ kvs => forallb (fun kv => no_member_callee (fst kv) && no_member_callee (snd kv)) kvs
  | EObj _ fs => forallb (fun f => no_member_callee (snd f)) fs
  | ECall _ _ c args =>
      match c with EMember _ _ _ _ _ => false | _ => no_member_callee c end && forallb no_member_callee args
  | ESub _ _ v i => no_member_callee v && no_member_callee i
  | EMember _ _ o _ _ => no_member_callee o
  | EUnary _ _ _ x _ => no_member_callee x
  | EBinary _ _ _ _ l r => no_member_callee l && no_member_callee r
  | ETernary _ _ _ l m r => no_member_callee l && no_member_callee m && no_member_callee r
  | EGroup _ x => no_member_callee x
  end.

(* forget every position and debug column: what the type and the value of an expression depend on *)
Definition p0 : pos := mkPos 0 0 0 0.
Fixpoint erase (e : expr) : expr :=
  match e with
  | EStr _ t => EStr p0 t | ENum _ t => ENum p0 t | ETime _ t => ETime p0 t | EBool _ b => EBool p0 b
  | EIdent _ n => EIdent p0 n
  | EList _ es => EList p0 (map erase es)
  | EMap _ kvs => EMap p0 (map (fun kv => (erase (fst kv), erase (snd kv))) kvs)
  | EObj _ fs => EObj p0 (map (fun f => (fst f, erase (snd f))) fs)
  | ECall _ _ c args => ECall p0 0 (erase c) (map erase args)
  | ESub _ _ v i => ESub p0 0 (erase v) (erase i)
  | EMember _ _ o n _ => EMember p0 0 (erase o) n p0
  | EUnary _ n _ x pre => EUnary p0 n p0 (erase x) pre
  | EBinary _ n _ fx l r => EBinary p0 n p0 fx (erase l) (erase r)
  | ETernary _ n _ l m r => ETernary p0 n p0 (erase l) (erase m) (erase r)
  | EGroup _ x => EGroup p0 (erase x)
  end.
