(* Declarative vocabulary about values: deep well-typedness (C01), and what C18 calls "same contents". *)
From Coq Require Import List String Ascii Bool NArith ZArith Permutation.
From Yae Require Import Base.Sexp Model.Ty Model.Num Model.Lexer Model.Val Model.Render.
Import ListNotations.

Fixpoint nodup_keys (l : list (list N)) : bool :=
  match l with
  | [] => true
  | k :: r => negb (existsb (list_eqb k) r) && nodup_keys r
  end.

(* [val_ok v]: every component has the type its container declares (object fields by position in the value's OWN
   type), no component is absent, map keys are distinct, all types are well formed and variable-free *)
Fixpoint val_ok (v : val) : bool :=
  match v with
  | VNum _ | VBool _ | VStr _ | VTime _ _ => true
  | VList t vs =>
      wf_ty t && slot_free t &&
      match t with TList e => forallb (fun x => val_ok x && ty_eqb (val_type x) e) vs | _ => false end
  | VMap t kvs =>
      wf_ty t && slot_free t && nodup_keys (map fst kvs) &&
      match t with TMap _ e => forallb (fun kv => val_ok (snd kv) && ty_eqb (val_type (snd kv)) e) kvs | _ => false end
  | VObj t vs =>
      wf_ty t && slot_free t &&
      match t with
      | TObj fs =>
          Nat.eqb (len fs) (len vs) &&
          (fix go (fs : list (string * ty)) (vs : list val) {struct vs} : bool :=
             match fs, vs with
             | (_, ft) :: fr, x :: r => val_ok x && ty_eqb (val_type x) ft && go fr r
             | _, [] => true
             | [], _ :: _ => false
             end) fs vs
      | _ => false
      end
  | VMaybe t o =>
      wf_ty t && slot_free t &&
      match t, o with
      | TMaybe _, None => true
      | TMaybe e, Some x => val_ok x && ty_eqb (val_type x) e
      | _, _ => false
      end
  | VFun t _ _ => match t with TFun _ _ _ => true | _ => false end
  end.

(* the value has (deep) type t *)
Definition has_vtype (v : val) (t : ty) : bool := val_ok v && ty_eqb (val_type v) t.

(* no function value inside (functions are compared and rendered by address in the code) *)
Fixpoint fun_free (v : val) : bool :=
  match v with
  | VFun _ _ _ => false
  | VList _ vs | VObj _ vs => forallb fun_free vs
  | VMap _ kvs => forallb (fun kv => fun_free (snd kv)) kvs
  | VMaybe _ (Some x) => fun_free x
  | _ => true
  end.

(* all numeric leaves *)
Fixpoint nums_of (v : val) : list N :=
  match v with
  | VNum b => [b]
  | VList _ vs | VObj _ vs => flat_map nums_of vs
  | VMap _ kvs => flat_map (fun kv => nums_of (snd kv)) kvs
  | VMaybe _ (Some x) => nums_of x
  | _ => []
  end.

(* the same object with its fields listed in another order / the same map with its entries inserted in another order *)
Inductive same_contents : val -> val -> Prop :=
| sc_refl : forall v, same_contents v v
| sc_list : forall t xs ys, Forall2 same_contents xs ys -> same_contents (VList t xs) (VList t ys)
| sc_map : forall t kx ky ky', Forall2 (fun a b => fst a = fst b /\ same_contents (snd a) (snd b)) kx ky' ->
    Permutation ky' ky -> same_contents (VMap t kx) (VMap t ky)
| sc_obj : forall fx fy xs ys ys',
    Forall2 same_contents xs ys' ->
    Permutation (combine (map fst fx) ys') (combine (map fst fy) ys) ->
    Permutation fx fy ->
    len fx = len xs -> len fy = len ys ->
    same_contents (VObj (TObj fx) xs) (VObj (TObj fy) ys)
| sc_maybe : forall t t' x y, ty_eqb t t' = true -> same_contents x y -> same_contents (VMaybe t (Some x)) (VMaybe t' (Some y)).
