(* C13 — histories of operations over pools of engines, environment objects and compiled expressions.
   An engine's state is its registration history and its init flag (facade.go: makeSureInit appends the built-ins at the
   first compilation); environment objects carry the parent link of types.Env / val.Env — since the repair Inherit
   returns a new object and leaves its receiver alone, which the step function reflects. *)
From Coq Require Import List String Ascii Bool NArith ZArith.
From Yae Require Import Base.Sexp Model.Ty Gen.Generated Model.Unify Model.Num Model.Lexer Model.Literal Model.Cst Model.Pratt Model.Desugar
  Model.Check Model.Val Model.Render Model.Builtins Model.Eval Model.VM Model.Api.
Import ListNotations.
Local Open Scope string_scope.

(* an environment object: bindings and an optional parent (never set by the API on a user's object any more) *)
Record envobj (X : Type) := mkEnvObj { eo_parent : option (list (string * X)); eo_ctx : list (string * X) }.
Arguments mkEnvObj {X}. Arguments eo_parent {X}. Arguments eo_ctx {X}.

(* Inherit: asserts the receiver has no parent; returns a NEW object; the receiver is unchanged *)
Definition inherit {X} (e : envobj X) (p : list (string * X)) : option (envobj X) :=
  match eo_parent e with None => Some (mkEnvObj (Some p) (eo_ctx e)) | Some _ => None end.

Record engine := mkEngine { en_init : bool; en_user : list fsig; en_table : fenv }.
Definition engine_new : engine := mkEngine false [] fenv_empty.

(* RegisterFun: straight into the tables *)
Definition engine_register (e : engine) (sg : fsig) : engine :=
  mkEngine (en_init e) (en_user e ++ [sg]) (register (en_table e) sg).
(* makeSureInit *)
Definition engine_init (e : engine) : engine :=
  if en_init e then e
  else mkEngine true (en_user e) (fold_left register (map sig_of_tuple builtin_sigs) (en_table e)).

Record compiled := mkCompiled { c_tenv : tenv; c_code : list N; c_pool : list const }.

Record hstate := mkH {
  h_engines : list engine;
  h_tenvs : list (envobj ty);
  h_venvs : list (envobj val);
  h_compiled : list compiled }.

Inductive hop :=
| HRegister (eng : nat) (sg : fsig)
| HCompile (eng : nat) (src : list N) (tenv_obj : nat)
| HInvoke (comp : nat) (venv_obj : nat).

Inductive hout :=
| HNone
| HCompiled (ok : bool)
| HResult (r : api val) (trace : list event).

Fixpoint replace_nth {X} (l : list X) (i : nat) (x : X) : list X :=
  match l, i with
  | _ :: r, O => x :: r
  | y :: r, S j => y :: replace_nth r j x
  | [], _ => []
  end.

Section History.
  Variable ops : numops.
  Variable orc : oracles.

  Definition hstep (s : hstate) (o : hop) : hstate * hout :=
    match o with
    | HRegister i sg =>
        match nth_error (h_engines s) i with
        | Some e => (mkH (replace_nth (h_engines s) i (engine_register e sg)) (h_tenvs s) (h_venvs s) (h_compiled s), HNone)
        | None => (s, HNone)
        end
    | HCompile i src j =>
        match nth_error (h_engines s) i, nth_error (h_tenvs s) j with
        | Some e, Some te =>
            let e' := engine_init e in
            let s' := mkH (replace_nth (h_engines s) i e') (h_tenvs s) (h_venvs s) (h_compiled s) in
            (* checkEnv := env0.Inherit(e.typeCheck): a new object; the user's object te stays as it was *)
            match inherit te [] with
            | None => (s', HCompiled false)
            | Some _ =>
                match api_compile ops orc (en_table e') (eo_ctx te) src with
                | AOk (_, code, pool) =>
                    (mkH (h_engines s') (h_tenvs s') (h_venvs s') (h_compiled s' ++ [mkCompiled (eo_ctx te) code pool]), HCompiled true)
                | _ => (s', HCompiled false)
                end
            end
        | _, _ => (s, HNone)
        end
    | HInvoke k j =>
        match nth_error (h_compiled s) k, nth_error (h_venvs s) j with
        | Some c, Some ve =>
            match inherit ve [] with
            | None => (s, HResult AErr [])
            | Some _ => let '(r, t) := api_call ops orc (c_tenv c) (c_code c) (c_pool c) (eo_ctx ve) in (s, HResult r t)
            end
        | _, _ => (s, HNone)
        end
    end.

  Fixpoint hrun (s : hstate) (ops_ : list hop) : hstate * list hout :=
    match ops_ with
    | [] => (s, [])
    | o :: r => let '(s1, out) := hstep s o in let '(s2, outs) := hrun s1 r in (s2, out :: outs)
    end.

  (* the same operation on fresh objects: a fresh engine that has seen the same registrations, fresh environment
     objects with the same contents *)
  Definition fresh_engine (user : list fsig) : engine := fold_left engine_register user engine_new.
  Definition fresh_compile (user : list fsig) (src : list N) (ctx : tenv) : bool :=
    match api_compile ops orc (en_table (engine_init (fresh_engine user))) ctx src with AOk _ => true | _ => false end.
End History.
