(* Run-time values: /repo/val/val.go.  Every value carries its own dynamic type, as val.Val does.  Go's unsafe.Pointer
   casts (v.Num(), v.Obj(), ...) are tag tests here: a mismatch is the fault [TypeConfusion] instead of undefined
   behaviour.  Maps are association lists with unique keys (key = rendered text, val/map.go:Key); pointer identity,
   aliasing and the garbage collector are not modelled. *)
From Coq Require Import List String Ascii Bool NArith ZArith.
From Yae Require Import Base.Sexp Model.Ty Model.Num Model.Lexer.
Import ListNotations.
Local Open Scope string_scope.

Inductive val :=
| VNum (b : N)
| VBool (b : bool)
| VStr (s : list N)                         (* bytes *)
| VTime (sec nsec : Z)                      (* instant; location and monotonic reading not modelled *)
| VList (t : ty) (vs : list val)            (* t: the value's own type, list[..] *)
| VMap (t : ty) (kvs : list (list N * val)) (* key text -> value *)
| VObj (t : ty) (vs : list val)             (* positional, in the order of t's fields *)
| VMaybe (t : ty) (v : option val)
| VFun (t : ty) (name : string) (lazy : bool).

Definition val_type (v : val) : ty :=
  match v with
  | VNum _ => TNum | VBool _ => TBool | VStr _ => TStr | VTime _ _ => TTime
  | VList t _ | VMap t _ | VObj t _ | VMaybe t _ | VFun t _ _ => t
  end.

(* failure classes: the documented partial operations ... *)
Inductive failk := FIndex | FKey | FModZero | FRegex | FHost.
(* ... and internal faults, which a well-typed program must never meet *)
Inductive faultk := XTypeConf | XNil | XUnderflow | XOpcode | XUnreachable | XLimit | XFuel | XOther.

Inductive outcome (X : Type) := OVal (x : X) | OFail (k : failk) | OFault (k : faultk).
Arguments OVal {X}. Arguments OFail {X}. Arguments OFault {X}.

(* observable effects of an evaluation, in order *)
Inductive event :=
| EvHost (name : string) (args : list val)     (* a host-registered function was invoked with these arguments *)
| EvStdout (text : list N).

(* evaluation: a trace of events and an outcome *)
Definition M (X : Type) : Type := list event * outcome X.
Definition ret {X} (x : X) : M X := ([], OVal x).
Definition fail {X} (k : failk) : M X := ([], OFail k).
Definition fault {X} (k : faultk) : M X := ([], OFault k).
Definition emit (e : event) : M unit := ([e], OVal tt).
Definition mbind {X Y} (m : M X) (f : X -> M Y) : M Y :=
  match m with
  | (t, OVal x) => let '(t', o) := f x in ((t ++ t')%list, o)
  | (t, OFail k) => (t, OFail k)
  | (t, OFault k) => (t, OFault k)
  end.
Notation "'let^' x := m 'in' k" := (mbind m (fun x => k)) (at level 200, x pattern, m at level 100, k at level 200).

Definition mmapM {X Y} (f : X -> M Y) : list X -> M (list Y) :=
  fix go l := match l with
              | [] => ret []
              | x :: r => let^ y := f x in let^ ys := go r in ret (y :: ys)
              end.

(* tag tests standing for the unsafe casts *)
Definition as_num (v : val) : M N := match v with VNum b => ret b | _ => fault XTypeConf end.
Definition as_bool (v : val) : M bool := match v with VBool b => ret b | _ => fault XTypeConf end.
Definition as_str (v : val) : M (list N) := match v with VStr s => ret s | _ => fault XTypeConf end.
Definition as_time (v : val) : M (Z * Z) := match v with VTime s n => ret (s, n) | _ => fault XTypeConf end.
Definition as_list (v : val) : M (list val) := match v with VList _ vs => ret vs | _ => fault XTypeConf end.
Definition as_map (v : val) : M (list (list N * val)) := match v with VMap _ kvs => ret kvs | _ => fault XTypeConf end.

(* association on key text *)
Fixpoint kget {X} (k : list N) (l : list (list N * X)) : option X :=
  match l with
  | [] => None
  | (k', x) :: r => if list_eqb k k' then Some x else kget k r
  end.
Fixpoint kput {X} (k : list N) (x : X) (l : list (list N * X)) : list (list N * X) :=
  match l with
  | [] => [(k, x)]
  | (k', x') :: r => if list_eqb k k' then (k, x) :: r else (k', x') :: kput k x r
  end.

(* ---- wire ---- *)
Fixpoint enc_val (v : val) : sexp :=
  match v with
  | VNum b => L [A "num"; eN b]
  | VBool b => L [A "bool"; eB b]
  | VStr s => L [A "str"; eNs s]
  | VTime s n => L [A "time"; eZ s; eZ n]
  | VList t vs => L [A "list"; enc_ty t; L (map enc_val vs)]
  | VMap t kvs => L [A "map"; enc_ty t; L (map (fun kv => L [A "0"; eNs (fst kv); enc_val (snd kv)]) kvs)]
  | VObj t vs => L [A "obj"; enc_ty t; L (map enc_val vs)]
  | VMaybe t o => L [A "maybe"; enc_ty t; match o with None => A "none" | Some x => enc_val x end]
  | VFun t n _ => L [A "fun"; eName n]
  end.

Fixpoint dec_val (s : sexp) : option val :=
  match s with
  | L (A tag :: args) =>
      if tag =? "num" then match args with [b] => option_map VNum (dN b) | _ => None end
      else if tag =? "bool" then match args with [b] => option_map VBool (dB b) | _ => None end
      else if tag =? "str" then match args with [b] => option_map VStr (dNs b) | _ => None end
      else if tag =? "time" then match args with [a; b] => do a' <- dZ a; do b' <- dZ b; Some (VTime a' b') | _ => None end
      else if tag =? "list" then
        match args with [t; L vs] => do t' <- dec_ty t; do vs' <- mapM dec_val vs; Some (VList t' vs') | _ => None end
      else if tag =? "obj" then
        match args with [t; L vs] => do t' <- dec_ty t; do vs' <- mapM dec_val vs; Some (VObj t' vs') | _ => None end
      else if tag =? "map" then
        match args with
        | [t; L kvs] =>
            do t' <- dec_ty t;
            do kvs' <- mapM (fun kv => match kv with
                                       | L [_; k; v] => do k' <- dNs k; do v' <- dec_val v; Some (k', v')
                                       | _ => None end) kvs;
            Some (VMap t' kvs')
        | _ => None end
      else if tag =? "maybe" then
        match args with
        | [t; v] => do t' <- dec_ty t;
                    if tag_is v "none" then Some (VMaybe t' None) else do v' <- dec_val v; Some (VMaybe t' (Some v'))
        | _ => None end
      else if tag =? "fun" then
        match args with [t; n; lz] => do t' <- dec_ty t; do n' <- dName n; do lz' <- dB lz; Some (VFun t' n' lz') | _ => None end
      else None
  | _ => None
  end.

(* maps travel sorted by key text *)
Fixpoint canon_val (sortk : list (list N * val) -> list (list N * val)) (v : val) : val :=
  match v with
  | VList t vs => VList t (map (canon_val sortk) vs)
  | VMap t kvs => VMap t (sortk (map (fun kv => (fst kv, canon_val sortk (snd kv))) kvs))
  | VObj t vs => VObj t (map (canon_val sortk) vs)
  | VMaybe t (Some x) => VMaybe t (Some (canon_val sortk x))
  | _ => v
  end.
