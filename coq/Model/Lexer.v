(* Transcription of /repo/parser/lexer (lexer.go, factory.go, rule.go, lexicon.go), parser/oper (Sort, HasPrefix,
   IsIdentOp) and parser/pos (Move).  The input is Go's []rune(input); rules are tried in the order of
   newLexicon (pinned to the source by Generated.lexer_rules, see Proofs/Tables.v); the first rule that matches wins.
   Go's regexp engine is replaced by hand-written matchers for the ten fixed patterns (leftmost-first semantics;
   every pattern here is deterministic, see the comment at each matcher). *)
From Coq Require Import List String Ascii Bool NArith ZArith.
From Yae Require Import Base.Sexp Gen.Generated.
Import ListNotations.
Open Scope N_scope.

Definition runes (s : string) : list N := map N_of_ascii (list_ascii_of_string s).

Fixpoint in_ranges (c : N) (rs : list (N * N)) : bool :=
  match rs with
  | [] => false
  | (lo, hi) :: r => (N.leb lo c && N.leb c hi) || in_ranges c r
  end.

Definition is_digit (c : N) : bool := N.leb 48 c && N.leb c 57.
Definition is_ascii_alpha (c : N) : bool := (N.leb 97 c && N.leb c 122) || (N.leb 65 c && N.leb c 90).
Definition is_space (c : N) : bool := in_ranges c space_ranges.        (* unicode.IsSpace *)
(* \p{L}; below 128 the table is exactly the ASCII letters (Proofs/Tables.v: letter_table_ascii) *)
Definition is_letter (c : N) : bool := if N.ltb c 128 then is_ascii_alpha c else in_ranges c letter_ranges.
Definition is_id_start (c : N) : bool := is_ascii_alpha c || is_letter c || N.eqb c 95.      (* [a-zA-Z\p{L}_] *)
Definition is_id_char (c : N) : bool := is_id_start c || is_digit c.                          (* [a-zA-Z0-9\p{L}_] *)
Definition is_oper_char (c : N) : bool := existsb (N.eqb c) oper_chars.

Fixpoint list_eqb (a b : list N) : bool :=
  match a, b with
  | [], [] => true
  | x :: r, y :: s => N.eqb x y && list_eqb r s
  | _, _ => false
  end.

(* strings.HasPrefix on runes; returns the rest *)
Fixpoint strip_prefix (p s : list N) : option (list N) :=
  match p, s with
  | [], _ => Some s
  | x :: r, y :: t => if N.eqb x y then strip_prefix r t else None
  | _ :: _, [] => None
  end.

(* ---- token ---- *)
Record token := mkTok { t_kind : list N; t_lexeme : list N; t_idx : N; t_end : N; t_line : N; t_col : N }.

Definition K_SYM := runes "<sym>".
Definition K_NUM := runes "<num>".
Definition K_STR := runes "<str>".
Definition K_TIME := runes "<time>".
Definition K_EOF := runes "<END-OF-FILE>".
Definition K_TRUE := runes "true".
Definition K_FALSE := runes "false".

(* ---- rules: a matcher returns the number of runes matched (rule.go: match returns EndRuneCount or NotMatched) ---- *)
Inductive rule :=
| RStr (k : list N)          (* str(k): HasPrefix *)
| RKeyword (k : list N)      (* keyword(k): HasPrefix and not followed by [a-zA-Z\d\p{L}_] *)
| RPrim (k : list N)         (* primOper(k): HasPrefix and not followed by an operator character *)
| RRegex (kind : list N) (m : list N -> option nat).

Definition len {X} (l : list X) : nat := List.length l.

Definition match_str (k s : list N) : option nat :=
  match strip_prefix k s with Some _ => Some (len k) | None => None end.

Definition match_keyword (k s : list N) : option nat :=
  match strip_prefix k s with
  | Some (c :: _) => if is_id_char c then None else Some (len k)
  | Some [] => Some (len k)
  | None => None
  end.

Definition match_prim (k s : list N) : option nat :=
  match strip_prefix k s with
  | Some (c :: _) => if is_oper_char c then None else Some (len k)
  | Some [] => Some (len k)
  | None => None
  end.

(* count the longest prefix satisfying p, return (count, rest) *)
Fixpoint span (p : N -> bool) (l : list N) : nat * list N :=
  match l with
  | c :: r => if p c then let '(n, t) := span p r in (S n, t) else (O, l)
  | [] => (O, [])
  end.

(* (?:0|[1-9][0-9]* )  -- the alternative 0 first: 0123 yields 0 *)
Definition m_int (l : list N) : option (nat * list N) :=
  match l with
  | c :: r => if N.eqb c 48 then Some (1%nat, r)
              else if N.leb 49 c && N.leb c 57 then let '(n, t) := span is_digit r in Some (S n, t)
              else None
  | [] => None
  end.

(* [.][0-9]+ *)
Definition m_frac (l : list N) : option (nat * list N) :=
  match l with
  | c :: r => if N.eqb c 46 then
                match span is_digit r with
                | (O, _) => None
                | (n, t) => Some (S n, t)
                end
              else None
  | [] => None
  end.

(* [eE][-+]?[0-9]+ *)
Definition m_exp (l : list N) : option (nat * list N) :=
  match l with
  | c :: r =>
      if N.eqb c 101 || N.eqb c 69 then
        let '(s, r1) := match r with
                        | d :: r' => if N.eqb d 45 || N.eqb d 43 then (1%nat, r') else (O, r)
                        | [] => (O, r)
                        end in
        match span is_digit r1 with
        | (O, _) => None
        | (n, t) => Some ((S s + n)%nat, t)
        end
      else None
  | [] => None
  end.

(* greedy iteration of a step that consumes at least one rune; fuel = input length *)
Fixpoint star (step : list N -> option (nat * list N)) (fuel : nat) (l : list N) : nat * list N :=
  match fuel with
  | O => (O, l)
  | S f => match step l with
           | Some (n, t) => let '(m, u) := star step f t in ((n + m)%nat, u)
           | None => (O, l)
           end
  end.

(* (?:0|[1-9][0-9]* )(?:[.][0-9]+)+(?:[eE][-+]?[0-9]+)?
   deterministic: after the integer part / a digit run the next rune is not a digit, so giving digits back to the
   engine can never enable a later piece *)
Definition m_float1 (l : list N) : option nat :=
  match m_int l with
  | Some (n0, r0) =>
      match m_frac r0 with
      | Some (n1, r1) =>
          let '(n2, r2) := star m_frac (len r1) r1 in
          match m_exp r2 with
          | Some (n3, _) => Some (n0 + n1 + n2 + n3)%nat
          | None => Some (n0 + n1 + n2)%nat
          end
      | None => None
      end
  | None => None
  end.

(* (?:0|[1-9][0-9]* )(?:[.][0-9]+)?(?:[eE][-+]?[0-9]+)+ *)
Definition m_float2 (l : list N) : option nat :=
  match m_int l with
  | Some (n0, r0) =>
      let '(n1, r1) := match m_frac r0 with Some (n, t) => (n, t) | None => (O, r0) end in
      match m_exp r1 with
      | Some (n2, r2) => let '(n3, _) := star m_exp (len r2) r2 in Some (n0 + n1 + n2 + n3)%nat
      | None =>
          (* the optional fraction may also be skipped: only matters when m_frac matched; then the next rune is not
             [eE] (it is '.'), so skipping cannot succeed either *)
          None
      end
  | None => None
  end.

(* 0b(?:0|1[0-1]* )   0x(?:0|[1-9a-fA-F][0-9a-fA-F]* )   0o(?:0|[1-7][0-7]* ) *)
Definition is_hex (c : N) : bool := is_digit c || (N.leb 97 c && N.leb c 102) || (N.leb 65 c && N.leb c 70).
Definition m_radix (letter : N) (first rest : N -> bool) (l : list N) : option nat :=
  match l with
  | z :: x :: c :: r =>
      if N.eqb z 48 && N.eqb x letter then
        if N.eqb c 48 then Some 3%nat
        else if first c then let '(n, _) := span rest r in Some (3 + n)%nat
        else None
      else None
  | _ => None
  end.
Definition m_bin := m_radix 98 (N.eqb 49) (fun c => N.eqb c 48 || N.eqb c 49).
Definition m_hex := m_radix 120 (fun c => is_hex c && negb (N.eqb c 48)) is_hex.
Definition m_oct := m_radix 111 (fun c => N.leb 49 c && N.leb c 55) (fun c => N.leb 48 c && N.leb c 55).
Definition m_dec (l : list N) : option nat := option_map fst (m_int l).

(* the double-quoted string pattern (text pinned in Generated.lexer_rules):
   deterministic: a backslash can only be consumed by one of the two escape alternatives, a double quote only by the
   closing one, everything else only by the first alternative *)
Definition is_simple_escape (c : N) : bool :=
  existsb (N.eqb c) [34; 92; 116; 114; 110; 98; 102; 47].
Fixpoint m_str_body (l : list N) : option nat :=
  match l with
  | [] => None
  | c :: r =>
      if N.eqb c 34 then Some 1%nat
      else if N.eqb c 92 then
        match r with
        | e :: r' =>
            if is_simple_escape e then option_map (fun n => (2 + n)%nat) (m_str_body r')
            else if N.eqb e 117 then
              match r' with
              | h1 :: h2 :: h3 :: h4 :: r4 =>
                  if is_hex h1 && is_hex h2 && is_hex h3 && is_hex h4
                  then option_map (fun n => (6 + n)%nat) (m_str_body r4)
                  else None
              | _ => None
              end
            else None
        | [] => None
        end
      else option_map S (m_str_body r)
  end.
Definition m_dqstr (l : list N) : option nat :=
  match l with
  | c :: r => if N.eqb c 34 then option_map S (m_str_body r) else None
  | [] => None
  end.

(* the raw-string pattern (back quotes) and the time pattern (single quotes; no back quote, double or single quote inside) *)
Definition m_delim (open : N) (stop : N -> bool) (close : N) (l : list N) : option nat :=
  match l with
  | c :: r =>
      if N.eqb c open then
        let '(n, t) := span (fun x => negb (stop x)) r in
        match t with
        | d :: _ => if N.eqb d close then Some (2 + n)%nat else None
        | [] => None
        end
      else None
  | [] => None
  end.
Definition m_raw := m_delim 96 (N.eqb 96) 96.
Definition m_time := m_delim 39 (fun c => N.eqb c 96 || N.eqb c 34 || N.eqb c 39) 39.

(* [a-zA-Z\p{L}_][a-zA-Z0-9\p{L}_]* *)
Definition m_sym (l : list N) : option nat :=
  match l with
  | c :: r => if is_id_start c then let '(n, _) := span is_id_char r in Some (S n) else None
  | [] => None
  end.

(* ---- oper.Sort: stable, by decreasing BYTE length of the kind ---- *)
Definition utf8_len (c : N) : nat :=
  if N.ltb c 128 then 1 else if N.ltb c 2048 then 2 else if N.ltb c 65536 then 3 else 4.
Definition byte_len (k : list N) : nat := fold_right (fun c a => (utf8_len c + a)%nat) O k.

Fixpoint insert_by_len {X} (key : X -> nat) (x : X) (l : list X) : list X :=
  match l with
  | [] => [x]
  | y :: r => if Nat.leb (key y) (key x) then x :: l else y :: insert_by_len key x r
  end.
(* stable sort: fold from the right, an element goes before the first one that is not longer *)
Definition sort_ops {X} (key : X -> nat) (l : list X) : list X :=
  fold_right (insert_by_len key) [] l.

(* oper.IsIdentOp: ^[a-zA-Z\p{L}_][a-zA-Z0-9\p{L}_]*$ *)
Definition is_ident_op (k : list N) : bool :=
  match k with
  | c :: r => is_id_start c && forallb is_id_char r
  | [] => false
  end.

Definition oper_rule (k : list N) : rule := if is_ident_op k then RKeyword k else RStr k.

(* factory.go: newLexicon *)
Definition lexicon (ops : list (list N)) : list rule :=
  map RStr [[58]; [44]; [40]; [41]; [91]; [93]; [123]; [125]]          (* : , ( ) [ ] { } *)
  ++ [] (* keywords: none *)
  ++ map RPrim (sort_ops byte_len [[46]; [63]])                           (* . ? *)
  ++ map oper_rule (sort_ops byte_len ops)
  ++ [RKeyword K_TRUE; RKeyword K_FALSE;
      RRegex K_NUM m_float1; RRegex K_NUM m_float2; RRegex K_NUM m_bin; RRegex K_NUM m_hex; RRegex K_NUM m_oct;
      RRegex K_NUM m_dec; RRegex K_STR m_dqstr; RRegex K_STR m_raw; RRegex K_TIME m_time; RRegex K_SYM m_sym].

Definition rule_kind (r : rule) : list N :=
  match r with RStr k | RKeyword k | RPrim k => k | RRegex k _ => k end.

(* a regex rule that finds the empty string reports NotMatched (rule.go: found == "") *)
Definition rule_match (r : rule) (s : list N) : option nat :=
  match r with
  | RStr k => match_str k s
  | RKeyword k => match_keyword k s
  | RPrim k => match_prim k s
  | RRegex _ m => match m s with Some O => None | x => x end
  end.

Fixpoint first_match (rs : list rule) (s : list N) : option (list N * nat) :=
  match rs with
  | [] => None
  | r :: rest => match rule_match r s with
                 | Some n => Some (rule_kind r, n)
                 | None => first_match rest s
                 end
  end.

(* pos.Move over a run of runes *)
Record cursor := mkCur { c_idx : N; c_line : N; c_col : N }.
Definition move (c : cursor) (r : N) : cursor :=
  if N.eqb r 10 then mkCur (c_idx c + 1) (c_line c + 1) 0 else mkCur (c_idx c + 1) (c_line c) (c_col c + 1).

Fixpoint skip_space (c : cursor) (s : list N) : cursor * list N :=
  match s with
  | r :: t => if is_space r then skip_space (move c r) t else (c, s)
  | [] => (c, [])
  end.

Fixpoint take_move (n : nat) (c : cursor) (s : list N) : list N * cursor * list N :=
  match n, s with
  | S m, r :: t => let '(lx, c', rest) := take_move m (move c r) t in (r :: lx, c', rest)
  | _, _ => ([], c, s)
  end.

(* lexer.go: Lex / next.  None = "nothing token matched" (syntax error).  fuel: one unit per token. *)
Fixpoint lex_loop (fuel : nat) (rs : list rule) (c : cursor) (s : list N) : option (list token) :=
  match fuel with
  | O => None
  | S f =>
    let '(c1, s1) := skip_space c s in
    match s1 with
    | [] => Some []
    | _ =>
      match first_match rs s1 with
      | None => None
      | Some (k, n) =>
          let '(lx, c2, s2) := take_move n c1 s1 in
          match lex_loop f rs c2 s2 with
          | Some ts => Some (mkTok k lx (c_idx c1) (c_idx c2) (c_line c1) (c_col c1) :: ts)
          | None => None
          end
      end
    end
  end.

Definition lex (ops : list (list N)) (src : list N) : option (list token) :=
  lex_loop (S (len src)) (lexicon ops) (mkCur 0 0 0) src.

(* ---- wire ---- *)
Definition enc_tok (t : token) : sexp :=
  L [eNs (t_kind t); eNs (t_lexeme t); eN (t_idx t); eN (t_end t); eN (t_line t); eN (t_col t)].
Definition dec_tok (s : sexp) : option token :=
  match s with
  | L [k; lx; i; e; l; c] =>
      do k' <- dNs k; do lx' <- dNs lx; do i' <- dN i; do e' <- dN e; do l' <- dN l; do c' <- dN c;
      Some (mkTok k' lx' i' e' l' c')
  | _ => None
  end.
