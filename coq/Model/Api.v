(* C12 — the public API as a composition of the stage models in an exception monad, with a catch exactly where the source
   installs a deferred recover (Generated.recover_sites, pinned in Proofs/Tables.v).  Every stage model reports a Go
   panic as an explicit result (PErr, CErr, OFail, OFault), so "a panic crosses the API boundary" is the result
   [Escaped] of a stage that runs outside every catch region. *)
From Coq Require Import List String Ascii Bool NArith ZArith.
From Yae Require Import Base.Sexp Model.Ty Gen.Generated Model.Unify Model.Num Model.Lexer Model.Literal Model.Cst Model.Pratt Model.Desugar
  Model.Check Model.Val Model.Render Model.Builtins Model.Eval Model.VM.
Import ListNotations.
Local Open Scope string_scope.

Inductive api (X : Type) := AOk (x : X) | AErr | Escaped.
Arguments AOk {X}. Arguments AErr {X}. Arguments Escaped {X}.

(* the recover placement this model assumes *)
Definition modelled_recover_sites : list string := [
  "conv/type.go:typeOfRV defers util.Recover";
  "conv/val.go:valOfRV defers util.Recover";
  "ext/sql.go:CompileToSql.func defers func(){recover()}";
  "facade.go:Compile defers e.backStrace";
  "facade.go:envCheck defers e.backStrace";
  "facade.go:makeCallable.func defers e.backStrace";
  "types/typecheck.go:Infer defers util.Recover"].

Definition has_site (s : string) : bool := existsb (String.eqb s) modelled_recover_sites.

(* a computation that may panic, run inside / outside a recover *)
Definition guarded {X} (site : string) (r : option X) : api X :=
  match r with
  | Some x => AOk x
  | None => if has_site site then AErr else Escaped
  end.

Section Api.
  Variable ops : numops.
  Variable orc : oracles.
  Variable fe : fenv.

  (* Expr.Compile: lex, parse, desugar, check, bytecode compile — all under "facade.go:Compile defers e.backStrace" *)
  Definition api_compile (te : tenv) (src : list N) : api (aexpr * list N * list const) :=
    guarded "facade.go:Compile defers e.backStrace"
      (match parse_source (map (fun x => mkOp (fst (fst x)) (snd (fst x)) (snd x)) builtin_ops) src with
       | POk e =>
           match desugar e with
           | Some d =>
               match check fe te big_fuel 1000000000 d with
               | COk (a, _) =>
                   match compile_main ops orc fe a with
                   | COk (code, pool) => Some (a, code, pool)
                   | _ => None
                   end
               | _ => None
               end
           | None => None
           end
       | _ => None
       end).

  (* facade.envCheck: every compile-time name is bound at run time to a value whose (own, shallow) type is equal *)
  Definition env_check (te : tenv) (rho : venv) : bool :=
    forallb (fun nt => match assoc (fst nt) rho with
                       | Some v => ty_eqb (snd nt) (val_type v)
                       | None => false
                       end) te.

  (* the Callable: envCheck, then run — under "facade.go:makeCallable.func defers e.backStrace" *)
  Definition api_call (te : tenv) (code : list N) (pool : list const) (rho : venv) : api val * list event :=
    if env_check te rho then
      let '(t, o) := vm_run ops orc rho pool None 5000 code in
      (guarded "facade.go:makeCallable.func defers e.backStrace" (match o with OVal v => Some v | _ => None end), t)
    else (AErr, []).

  (* yae.Eval with a raw environment *)
  Definition api_eval (te : tenv) (rho : venv) (src : list N) : api val :=
    match api_compile te src with
    | AOk (_, code, pool) => fst (api_call te code pool rho)
    | AErr => AErr
    | Escaped => Escaped
    end.
End Api.
