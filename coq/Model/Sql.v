(* Criteria -> SQL WHERE text: /repo/ext/criteria.go, ext/sql.go, ext/sql/compile.go, ext/sql/fun.go, for well-typed
   criteria over AND / OR / NOT and the condition forms (comparison, LIKE, BETWEEN, IN, IS NULL).
   The generic expression route (criteria -> call tree -> desugar -> check -> sql.Compile) is specialised here to the
   criteria constructors; the correspondence check runs ext.CompileToSql on the same trees. *)
From Coq Require Import List String Ascii Bool NArith ZArith.
From Yae Require Import Base.Sexp Model.Ty Model.Num Model.Lexer Model.Val Model.Render Model.Eval.
Import ListNotations.
Local Open Scope list_scope.

Inductive operand :=
| PNum (b : N) | PStr (s : list N) | PBool (b : bool) | PTime (sec : Z)
| PName (n : string).                    (* a name: the run-time value when bound in the environment, the column otherwise *)

Inductive cond :=
| KCmp (field : string) (op : string) (v : operand)     (* = <> > >= < <= LIKE *)
| KBetween (field : string) (lo hi : operand)
| KIn (field : string) (vs : list operand)
| KIsNull (field : string).

Inductive crit := CLeaf (c : cond) | CAnd (a b : crit) | COr (a b : crit) | CNot (a : crit).

Section Sql.
  Variable ops : numops.
  Variable rho : venv.

  (* compile.go: fmtVal; None = util.Assert(false, "unsupported val") *)
  Definition fmt_val (v : val) : option (list N) :=
    match v with
    | VBool b => Some (if b then B"1" else B"0")
    | VNum b => Some (fmt_num ops b)
    | VStr s => Some (quote s)
    | VTime s _ => Some (B"from_unixtime(" ++ fmt_Z s ++ B")")
    | _ => None
    end.

  Definition name_text (n : string) : option (list N) :=
    match assoc n rho with
    | Some v => fmt_val v
    | None => Some ([96%N] ++ bytes_of_string n ++ [96%N])
    end.

  Definition operand_text (o : operand) : option (list N) :=
    match o with
    | PNum b => fmt_val (VNum b)
    | PStr s => fmt_val (VStr s)
    | PBool b => fmt_val (VBool b)
    | PTime s => fmt_val (VTime s 0)
    | PName n => name_text n
    end.

  Definition sp : list N := [32%N].

  Definition cond_text (c : cond) : option (list N) :=
    match c with
    | KCmp f op v => do ft <- name_text f; do vt <- operand_text v; Some (ft ++ sp ++ bytes_of_string op ++ sp ++ vt)
    | KBetween f lo hi =>
        do ft <- name_text f; do a <- operand_text lo; do b <- operand_text hi;
        Some (ft ++ B" BETWEEN " ++ a ++ B" AND " ++ b)
    | KIn f vs =>
        do ft <- name_text f; do ts <- mapM operand_text vs;
        Some (ft ++ B" IN (" ++ join_bytes B", " ts ++ B")")
    | KIsNull f => do ft <- name_text f; Some (ft ++ B" IS NULL")
    end.

  (* binding powers of fun.go: logicalFunPrecTbl *)
  Definition P_OR : N := 3. Definition P_AND : N := 4. Definition P_NOT : N := 10.

  (* compile.go: compile(expr, env1, outerPrec): parentheses only around AND / OR / NOT, when outerPrec > own *)
  Fixpoint sql_text (c : crit) (outer : N) : option (list N) :=
    let paren (own : N) (t : list N) := if N.ltb own outer then [40%N] ++ t ++ [41%N] else t in
    match c with
    | CLeaf k => cond_text k
    | CAnd a b => do x <- sql_text a P_AND; do y <- sql_text b P_AND; Some (paren P_AND (x ++ B" AND " ++ y))
    | COr a b => do x <- sql_text a P_OR; do y <- sql_text b P_OR; Some (paren P_OR (x ++ B" OR " ++ y))
    | CNot a => do x <- sql_text a P_NOT; Some (paren P_NOT (B"NOT " ++ x))
    end.
End Sql.

(* ---- wire ---- *)
Definition dec_operand (s : sexp) : option operand :=
  match s with
  | L [A tag; x] =>
      if (tag =? "num")%string then option_map PNum (dN x)
      else if (tag =? "str")%string then option_map PStr (dNs x)
      else if (tag =? "bool")%string then option_map PBool (dB x)
      else if (tag =? "time")%string then option_map PTime (dZ x)
      else if (tag =? "name")%string then option_map PName (dName x)
      else None
  | _ => None
  end.

Definition dec_cond (s : sexp) : option cond :=
  match s with
  | L (A tag :: f :: args) =>
      do f' <- dName f;
      if (tag =? "cmp")%string then match args with [op; v] => do op' <- dName op; do v' <- dec_operand v; Some (KCmp f' op' v') | _ => None end
      else if (tag =? "between")%string then match args with [a; b] => do a' <- dec_operand a; do b' <- dec_operand b; Some (KBetween f' a' b') | _ => None end
      else if (tag =? "in")%string then match args with [L vs] => do vs' <- mapM dec_operand vs; Some (KIn f' vs') | _ => None end
      else if (tag =? "isnull")%string then match args with [] => Some (KIsNull f') | _ => None end
      else None
  | _ => None
  end.

Fixpoint dec_crit (s : sexp) : option crit :=
  match s with
  | L [A tag; a] =>
      if (tag =? "leaf")%string then option_map CLeaf (dec_cond a)
      else if (tag =? "not")%string then option_map CNot (dec_crit a)
      else None
  | L [A tag; a; b] =>
      if (tag =? "and")%string then do a' <- dec_crit a; do b' <- dec_crit b; Some (CAnd a' b')
      else if (tag =? "or")%string then do a' <- dec_crit a; do b' <- dec_crit b; Some (COr a' b')
      else None
  | _ => None
  end.
