(* C02 proofs: in progress *)
