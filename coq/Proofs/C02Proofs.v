(* Proofs for Props/C02.v (progress).  [progress] is the fault half of the invariant [C01Proofs.eval_invariant];
   [terminates], [total_builtins] and [mod_fails_iff] are about the evaluator and the library alone: they use the
   compositional predicate [avoid] (which failures / faults a computation can never end in). *)
From Coq Require Import List String Ascii Bool Arith NArith ZArith Lia.
From Yae Require Import Base.Sexp Model.Ty Gen.Generated Model.Unify Model.TySpec Model.Num Model.Lexer Model.Literal Model.Cst
  Model.Check Model.CheckSpec Model.Val Model.Render Model.ValSpec Model.Builtins Model.Eval Model.EvalSpec
  Proofs.C01Proofs.
Import ListNotations.
Local Open Scope nat_scope.
Local Open Scope string_scope.

Lemma progress ops orc : forall fe G rho fuel fresh e a T f t k,
  (fe = builtin_fenv \/ fe = fenv_std) ->
  tenv_ok G = true -> env_ok G rho -> fresh_ok fe fresh ->
  check fe G fuel fresh e = COk (a, T) ->
  eval ops orc fe rho f a = (t, OFault k) -> k = XFuel.
Proof. exact (progress_inv ops orc). Qed.

(* ------------------------------------------------------------------------------------------------ *)
(* outcomes a computation never has                                                                  *)
(* ------------------------------------------------------------------------------------------------ *)

Section Avoid.
  Variable bfail : failk -> Prop.
  Variable bfault : faultk -> Prop.

  Definition avoid {X} (m : M X) : Prop :=
    match snd m with OVal _ => True | OFail k => ~ bfail k | OFault k => ~ bfault k end.

  Lemma av_ret {X} (x : X) : avoid (ret x).
  Proof. exact I. Qed.
  Lemma av_fail {X} k : ~ bfail k -> avoid (@fail X k).
  Proof. intros H. exact H. Qed.
  Lemma av_fault {X} k : ~ bfault k -> avoid (@fault X k).
  Proof. intros H. exact H. Qed.
  Lemma av_bind {X Y} (m : M X) (k : X -> M Y) : avoid m -> (forall x, avoid (k x)) -> avoid (mbind m k).
  Proof.
    destruct m as [t [x|fk|fk]]; unfold avoid; simpl; intros H1 H2; try assumption.
    specialize (H2 x). destruct (k x) as [t' o']. exact H2.
  Qed.
  Lemma av_emit e : avoid (emit e).
  Proof. exact I. Qed.
  Lemma av_mmapM {X Y} (g : X -> M Y) : forall xs, Forall (fun x => avoid (g x)) xs -> avoid (mmapM g xs).
  Proof.
    induction 1 as [|x xs Hx Hr IH]; simpl; [apply av_ret|].
    apply av_bind; [exact Hx|]. intros y. apply av_bind; [exact IH|]. intros ys. apply av_ret.
  Qed.
  Lemma avoid_fail {X} (m : M X) t k : avoid m -> m = (t, OFail k) -> ~ bfail k.
  Proof. intros H E. subst m. exact H. Qed.
  Lemma avoid_fault {X} (m : M X) t k : avoid m -> m = (t, OFault k) -> ~ bfault k.
  Proof. intros H E. subst m. exact H. Qed.
End Avoid.
Global Opaque avoid.

(* side conditions: "this failure / fault is not one of the excluded ones" *)
Ltac av_side := solve [ intros [] | intro; discriminate | discriminate | tauto | congruence ].

Ltac av_step :=
  first
    [ apply av_ret
    | apply av_emit
    | apply av_fail; av_side
    | apply av_fault; av_side
    | assumption
    | apply av_bind; [|intros]
    | match goal with H : Forall _ (_ :: _) |- _ => inversion H; subst; clear H end
    | match goal with |- avoid _ _ (match ?x with _ => _ end) => destruct x end
    | match goal with |- avoid _ _ (if ?c then _ else _) => destruct c end
    | progress cbv zeta ].
Ltac av := repeat av_step.

Section AvoidSem.
  Variable ops : numops.
  Variable orc : oracles.
  Variable bfail : failk -> Prop.
  Variable bfault : faultk -> Prop.
  (* the library's own faults are not among the excluded ones *)
  Hypothesis Hother : ~ bfault XOther.
  Hypothesis Hconf : ~ bfault XTypeConf.
  Notation av_ := (avoid bfail bfault).

  Lemma av_as_num v : av_ (as_num v). Proof. unfold as_num. av. Qed.
  Lemma av_as_bool v : av_ (as_bool v). Proof. unfold as_bool. av. Qed.
  Lemma av_as_str v : av_ (as_str v). Proof. unfold as_str. av. Qed.
  Lemma av_as_time v : av_ (as_time v). Proof. unfold as_time. av. Qed.
  Lemma av_as_list v : av_ (as_list v). Proof. unfold as_list. av. Qed.
  Lemma av_as_map v : av_ (as_map v). Proof. unfold as_map. av. Qed.
  Lemma av_key_of v : av_ (key_of ops v). Proof. unfold key_of. av. Qed.

  Lemma av_fold_num f vs : av_ (fold_num ops f vs).
  Proof.
    unfold fold_num. destruct vs as [|v0 r]; [apply av_ret|].
    apply av_bind; [apply av_as_num|]. intros x0. apply av_bind; [|intros; apply av_ret].
    revert x0. induction r as [|v r IH]; intros acc; [apply av_ret|].
    apply av_bind; [apply av_as_num|]. intros x. apply IH.
  Qed.
End AvoidSem.

Ltac av_lib :=
  repeat first
    [ apply av_as_num; av_side | apply av_as_bool; av_side | apply av_as_str; av_side
    | apply av_as_time; av_side | apply av_as_list; av_side | apply av_as_map; av_side
    | apply av_key_of; av_side | apply av_fold_num; av_side
    | av_step ].

(* ------------------------------------------------------------------------------------------------ *)
(* the fuel fault comes from [eval] alone                                                            *)
(* ------------------------------------------------------------------------------------------------ *)

Definition nofuel {X} (m : M X) : Prop := avoid (fun _ => False) (fun k => k = XFuel) m.

Section NoFuel.
  Variable ops : numops.
  Variable orc : oracles.

  Lemma nf_bsem b args : nofuel (bsem ops orc b args).
  Proof. unfold nofuel. destruct b; unfold bsem, num1, num2, time2, any2; av_lib. Qed.

  Lemma nf_host_strict name args : nofuel (host_strict ops name args).
  Proof. unfold nofuel, host_strict. av_lib. Qed.

  Lemma nf_host_lazy name ths : Forall (fun th : unit -> M val => nofuel (th tt)) ths -> nofuel (host_lazy name ths).
  Proof. unfold nofuel, host_lazy. intros H. av_lib. Qed.

  Lemma nf_apply_lazy sg ths : Forall (fun th : unit -> M val => nofuel (th tt)) ths -> nofuel (apply_lazy sg ths).
  Proof.
    intros H. unfold apply_lazy. destruct (classify (s_name sg) (s_params sg)) as [b|]; [|apply nf_host_lazy; exact H].
    destruct b; try (apply nf_host_lazy; exact H); unfold nofuel in *; av_lib.
  Qed.

  Lemma nf_apply_strict sg args : nofuel (apply_strict ops orc sg args).
  Proof.
    unfold apply_strict. destruct (sig_is_builtin sg); [|apply nf_host_strict].
    destruct (classify (s_name sg) (s_params sg)); [apply nf_bsem|]. unfold nofuel. av.
  Qed.

  Section WithEnv.
    Variables (fe : fenv) (rho : venv).
    Notation ev := (eval ops orc fe rho).

    Lemma nf_do_call f sg args : Forall (fun x => nofuel (ev f x)) args -> nofuel (do_call ops orc fe rho f sg args).
    Proof.
      intros H. unfold do_call, lazy_call. destruct (s_lazy sg).
      - assert (Forall (fun th : unit -> M val => nofuel (th tt)) (map (fun x (_ : unit) => ev f x) args)) as Hth.
        { apply Forall_forall. intros th Hin. apply in_map_iff in Hin. destruct Hin as [x [<- Hin]].
          rewrite Forall_forall in H. apply H. exact Hin. }
        destruct (sig_is_builtin sg); [apply nf_apply_lazy|apply nf_host_lazy]; exact Hth.
      - apply av_bind; [apply av_mmapM; exact H|]. intros vs. apply nf_apply_strict.
    Qed.

    Lemma nf_map_go g : forall kvs,
      Forall (fun kv : aexpr * aexpr => nofuel (g (fst kv)) /\ nofuel (g (snd kv))) kvs ->
      forall acc, nofuel (map_go ops g kvs acc).
    Proof.
      induction 1 as [|[k v] r [Hk Hv] Hr IH]; intros acc; simpl; unfold nofuel in *; [apply av_ret|].
      simpl in Hk, Hv. apply av_bind; [exact Hk|]. intros kv. apply av_bind; [apply av_key_of; discriminate|].
      intros kk. apply av_bind; [exact Hv|]. intros vv. apply IH.
    Qed.

    (* [fuel_ok n a]: from n on, fuel never runs out on a *)
    Definition fuel_ok (n : nat) (a : aexpr) : Prop := forall f, n <= f -> nofuel (ev f a).

    Lemma fuel_ok_mono n m a : n <= m -> fuel_ok n a -> fuel_ok m a.
    Proof. intros L H f Hf. apply H. lia. Qed.

    Lemma fuel_ok_all (l : list aexpr) : Forall (fun a => exists n, fuel_ok n a) l -> exists n, Forall (fuel_ok n) l.
    Proof.
      induction 1 as [|a r [n Hn] Hr [m Hm]]; [exists 0; constructor|].
      exists (Nat.max n m). constructor; [eapply fuel_ok_mono; [|exact Hn]; lia|].
      eapply Forall_impl; [|exact Hm]. intros x Hx. eapply fuel_ok_mono; [|exact Hx]. lia.
    Qed.
  End WithEnv.
End NoFuel.

(* induction principle for the nested inductive [aexpr] *)
Section AexprInd.
  Variable P : aexpr -> Prop.
  Hypothesis Hstr : forall v, P (AStr v).
  Hypothesis Hnum : forall t n, P (ANum t n).
  Hypothesis Htime : forall t, P (ATime t).
  Hypothesis Hbool : forall b, P (ABool b).
  Hypothesis Hlist : forall t es, Forall P es -> P (AList t es).
  Hypothesis Hmap : forall t kvs, Forall (fun kv => P (fst kv) /\ P (snd kv)) kvs -> P (AMap t kvs).
  Hypothesis Hobj : forall t fs, Forall (fun f => P (snd f)) fs -> P (AObj t fs).
  Hypothesis Hident : forall c n, P (AIdent c n).
  Hypothesis Hcall : forall c key idx ft f args, P f -> Forall P args -> P (ACall c key idx ft f args).
  Hypothesis Hsub : forall c vt v i, P v -> P i -> P (ASub c vt v i).
  Hypothesis Hmember : forall c ot idx o n, P o -> P (AMember c ot idx o n).

  Fixpoint aexpr_ind' (a : aexpr) : P a :=
    match a with
    | AStr v => Hstr v | ANum t n => Hnum t n | ATime t => Htime t | ABool b => Hbool b
    | AList t es => Hlist t es ((fix go (l : list aexpr) : Forall P l :=
                                  match l with [] => Forall_nil _ | x :: r => Forall_cons _ (aexpr_ind' x) (go r) end) es)
    | AMap t kvs => Hmap t kvs ((fix go (l : list (aexpr * aexpr)) : Forall (fun kv => P (fst kv) /\ P (snd kv)) l :=
                                   match l with
                                   | [] => Forall_nil _
                                   | x :: r => Forall_cons _ (conj (aexpr_ind' (fst x)) (aexpr_ind' (snd x))) (go r)
                                   end) kvs)
    | AObj t fs => Hobj t fs ((fix go (l : list (string * aexpr)) : Forall (fun f => P (snd f)) l :=
                                 match l with [] => Forall_nil _ | x :: r => Forall_cons _ (aexpr_ind' (snd x)) (go r) end) fs)
    | AIdent c n => Hident c n
    | ACall c key idx ft f args =>
        Hcall c key idx ft f args (aexpr_ind' f)
          ((fix go (l : list aexpr) : Forall P l :=
              match l with [] => Forall_nil _ | x :: r => Forall_cons _ (aexpr_ind' x) (go r) end) args)
    | ASub c vt v i => Hsub c vt v i (aexpr_ind' v) (aexpr_ind' i)
    | AMember c ot idx o n => Hmember c ot idx o n (aexpr_ind' o)
    end.
End AexprInd.

Section Terminates.
  Variables (ops : numops) (orc : oracles) (fe : fenv) (rho : venv).
  Notation ev := (eval ops orc fe rho).
  Notation fok := (fuel_ok ops orc fe rho).

  Lemma leaf_ok a : (forall f, nofuel (ev (S f) a)) -> exists n, fok n a.
  Proof. intros H. exists 1. intros [|f] Hf; [lia|apply H]. Qed.

  Lemma fuel_enough : forall a, exists n, fok n a.
  Proof.
    induction a using aexpr_ind'.
    - apply leaf_ok. intros f. apply av_ret.
    - apply leaf_ok. intros f. apply av_ret.
    - apply leaf_ok. intros f. apply av_ret.
    - apply leaf_ok. intros f. apply av_ret.
    - (* list *)
      destruct (fuel_ok_all ops orc fe rho es H) as [n Hn]. exists (S n). intros [|f] Hf; [lia|].
      rewrite eval_list. destruct es as [|e0 r]; [apply av_ret|].
      apply av_bind; [|intros; apply av_ret]. apply av_mmapM.
      eapply Forall_impl; [|exact Hn]. intros x Hx. apply Hx. lia.
    - (* map *)
      assert (exists n, Forall (fun kv => fok n (fst kv) /\ fok n (snd kv)) kvs) as [n Hn].
      { induction H as [|kv r [[n1 H1] [n2 H2]] Hr [m Hm]]; [exists 0; constructor|].
        exists (Nat.max (Nat.max n1 n2) m). constructor.
        - split; (eapply fuel_ok_mono; [|eassumption]; lia).
        - eapply Forall_impl; [|exact Hm]. intros x [Hx1 Hx2]. split; (eapply fuel_ok_mono; [|eassumption]; lia). }
      exists (S n). intros [|f] Hf; [lia|]. rewrite eval_map. destruct kvs as [|kv0 r]; [apply av_ret|].
      apply av_bind; [|intros; apply av_ret]. apply nf_map_go.
      eapply Forall_impl; [|exact Hn]. intros x [Hx1 Hx2]. split; [apply Hx1|apply Hx2]; lia.
    - (* obj *)
      assert (exists n, Forall (fun nf : string * aexpr => fok n (snd nf)) fs) as [n Hn].
      { induction H as [|x r [n1 H1] Hr [m Hm]]; [exists 0; constructor|].
        exists (Nat.max n1 m). constructor; [(eapply fuel_ok_mono; [|eassumption]; lia)|].
        eapply Forall_impl; [|exact Hm]. intros y Hy. cbv beta in Hy. (eapply fuel_ok_mono; [|eassumption]; lia). }
      exists (S n). intros [|f] Hf; [lia|]. rewrite eval_obj. destruct fs as [|f0 r]; [apply av_ret|].
      apply av_bind; [|intros; apply av_ret]. apply av_mmapM.
      eapply Forall_impl; [|exact Hn]. intros x Hx. apply Hx. lia.
    - (* ident *)
      apply leaf_ok. intros f. rewrite eval_ident. destruct (assoc n rho); [apply av_ret|apply av_fault; discriminate].
    - (* call *)
      destruct IHa as [nc Hc]. destruct (fuel_ok_all ops orc fe rho args H) as [n Hn].
      exists (S (Nat.max nc n)). intros [|f] Hf; [lia|]. rewrite eval_call.
      assert (Forall (fun x => nofuel (ev f x)) args) as Hargs.
      { eapply Forall_impl; [|exact Hn]. intros x Hx. apply Hx. lia. }
      destruct (String.eqb key "").
      + apply av_bind; [apply Hc; lia|]. intros fv.
        destruct fv; try (apply av_fault; discriminate). destruct t; try (apply av_fault; discriminate).
        apply nf_do_call. exact Hargs.
      + destruct (lookup_fn fe key idx); [apply nf_do_call; exact Hargs|apply av_fault; discriminate].
    - (* sub *)
      destruct IHa1 as [n1 H1]. destruct IHa2 as [n2 H2]. exists (S (Nat.max n1 n2)). intros [|f] Hf; [lia|].
      rewrite eval_sub. apply av_bind; [apply H1; lia|]. intros x.
      assert (nofuel (ev f a2)) as Hi by (apply H2; lia). unfold nofuel in *.
      destruct x; av_lib.
    - (* member *)
      destruct IHa as [n1 H1]. exists (S n1). intros [|f] Hf; [lia|].
      rewrite eval_member. apply av_bind; [apply H1; lia|]. intros x. unfold nofuel. destruct x; av.
  Qed.
End Terminates.

Lemma terminates ops orc : forall fe rho a,
  exists f0, forall f, (f0 <= f)%nat -> forall t, eval ops orc fe rho f a <> (t, OFault XFuel).
Proof.
  intros fe rho a. destruct (fuel_enough ops orc fe rho a) as [n Hn]. exists n. intros f Hf t E.
  apply (avoid_fault _ _ _ t XFuel (Hn f Hf) E). reflexivity.
Qed.

(* ------------------------------------------------------------------------------------------------ *)
(* total library functions; the modulo failure                                                       *)
(* ------------------------------------------------------------------------------------------------ *)

Lemma total_builtins ops orc : forall b args,
  In b [BGetList; BGetMap; BGetMaybe; BIsset; BMaxList; BMinList; BLenList; BLenMap; BLenStr; BString; BUnion; BIntersect; BDiff] ->
  forall k t, bsem ops orc b args <> (t, OFail k).
Proof.
  intros b args Hin k t E.
  assert (avoid (fun _ => True) (fun _ => False) (bsem ops orc b args)) as H.
  { simpl in Hin. repeat (destruct Hin as [<-|Hin]; [unfold bsem; av_lib|]). destruct Hin. }
  apply (avoid_fail _ _ _ t k H E). exact I.
Qed.

Lemma mod_fails_iff ops orc : forall x y,
  (exists t, bsem ops orc BMod [VNum x; VNum y] = (t, OFail FModZero)) <-> to_i64 ops y = 0%Z.
Proof.
  intros x y. simpl. split.
  - intros [t H]. destruct (Z.eqb_spec (to_i64 ops y) 0) as [E|E]; [exact E|discriminate H].
  - intros E. rewrite E. simpl. exists []. reflexivity.
Qed.

Print Assumptions progress.
Print Assumptions terminates.
Print Assumptions total_builtins.
Print Assumptions mod_fails_iff.
