(* Proofs for Props/C05.v: the checker model [check] against the declarative typing relation [has_type].

   Findings (details and machine-checked counterexamples at the end of the file):
   - [fenv_ok] does not force a monomorphic entry to have a variable-free result, so for hand-built tables
     C05_inferred_ok and C05_sound are false; they are proved here under [mono_ret_ground fe].
   - a type variable in map-key position of a polymorphic result type makes the model panic ([mk_map]) where the
     rules assign a type; C05_complete is proved under [ret_keys_ok fe] in addition. *)
From Coq Require Import List String Ascii Bool Arith NArith ZArith Lia Permutation DecimalString DecimalN DecimalPos.
From Yae Require Import Base.Sexp Model.Ty Gen.Generated Model.Unify Model.TySpec Model.Lexer Model.Literal Model.Cst
  Model.Check Model.CheckSpec Proofs.TyInd Proofs.ExprInd Proofs.C17Proofs.
Import ListNotations.
Local Open Scope nat_scope.
Local Open Scope string_scope.

(* ------------------------------------------------------------------------------------------------ *)
(* Stage 1: the tables                                                                               *)
(* ------------------------------------------------------------------------------------------------ *)

Lemma builtin_table_ok : fenv_ok builtin_fenv = true.
Proof. vm_compute; reflexivity. Qed.

Lemma assoc_sput_same {X} k (x : X) l : assoc k (sput k x l) = Some x.
Proof.
  induction l as [|[k' x'] r IH]; simpl.
  - rewrite String.eqb_refl. reflexivity.
  - destruct (String.eqb_spec k k') as [E|E]; simpl.
    + rewrite String.eqb_refl. reflexivity.
    + destruct (String.eqb_spec k k'); [congruence|exact IH].
Qed.

Lemma register_mono : forall fe sg,
  slot_free (sig_ty sg) = true ->
  assoc (mono_key (s_name sg) (s_params sg)) (f_mono (register fe sg)) = Some sg /\ f_poly (register fe sg) = f_poly fe.
Proof.
  intros fe sg H. unfold register. rewrite H. simpl. split; [apply assoc_sput_same|reflexivity].
Qed.

Lemma register_poly : forall fe sg,
  slot_free (sig_ty sg) = false ->
  exists old, (assoc (poly_key (s_name sg) (List.length (s_params sg))) (f_poly fe) = Some old \/
               (assoc (poly_key (s_name sg) (List.length (s_params sg))) (f_poly fe) = None /\ old = [])) /\
  assoc (poly_key (s_name sg) (List.length (s_params sg))) (f_poly (register fe sg)) = Some (old ++ [sg])%list /\
  f_mono (register fe sg) = f_mono fe.
Proof.
  intros fe sg H. unfold register. rewrite H. simpl.
  destruct (assoc (poly_key (s_name sg) (List.length (s_params sg))) (f_poly fe)) as [old|] eqn:E.
  - exists old. split; [left; reflexivity|]. split; [apply assoc_sput_same|reflexivity].
  - exists []. split; [right; split; reflexivity|]. split; [apply assoc_sput_same|reflexivity].
Qed.

(* ------------------------------------------------------------------------------------------------ *)
(* Stage 2a: fuel.  [rf P r1 r2]: the fuelled computation r1 gives the fuel-free answer r2, or runs   *)
(* out of fuel, the latter only when P (a "fuel too small" condition) holds                          *)
(* ------------------------------------------------------------------------------------------------ *)

Definition rf {X} (P : Prop) (r1 r2 : res X) : Prop := r1 = r2 \/ (r1 = Fuel /\ P).

Lemma rf_refl {X} P (r : res X) : rf P r r.
Proof. left; reflexivity. Qed.

Lemma rf_weaken {X} (P Q : Prop) (r1 r2 : res X) : (P -> Q) -> rf P r1 r2 -> rf Q r1 r2.
Proof. intros HPQ [E|[E HP]]; [left; exact E|right; split; auto]. Qed.

Lemma rf_bind {X Y} P (r1 r2 : res X) (k1 k2 : X -> res Y) :
  rf P r1 r2 -> (forall x, r2 = Ok x -> rf P (k1 x) (k2 x)) -> rf P (rbind r1 k1) (rbind r2 k2).
Proof.
  intros [E|[E HP]] Hk.
  - subst r1. destruct r2 as [x| | |]; simpl; try (left; reflexivity). apply Hk; reflexivity.
  - subst r1. right. simpl. split; auto.
Qed.

Lemma rf_rmap {X Y} P (g : X -> Y) (r1 r2 : res X) : rf P r1 r2 -> rf P (rmap g r1) (rmap g r2).
Proof. intros H. unfold rmap. apply rf_bind; [exact H|]. intros x _. apply rf_refl. Qed.

Lemma rf_rmapM {X Y} P (g1 g2 : X -> res Y) l :
  (forall x, In x l -> rf P (g1 x) (g2 x)) -> rf P (rmapM g1 l) (rmapM g2 l).
Proof.
  induction l as [|a r IH]; intros H; simpl.
  - apply rf_refl.
  - apply rf_bind; [apply H; left; reflexivity|]. intros y _.
    apply rf_bind; [apply IH; intros x Hin; apply H; right; exact Hin|]. intros ys _. apply rf_refl.
Qed.

Lemma rf_fuel_free {X} (P : Prop) (r1 r2 : res X) : rf P r1 r2 -> ~ P -> r1 = r2.
Proof. intros [E|[_ HP]] HnP; [exact E|contradiction]. Qed.

Lemma rf_not_fuel {X} (P : Prop) (r1 r2 : res X) : rf P r1 r2 -> r1 <> Fuel -> r1 = r2.
Proof. intros [E|[E _]] Hn; [exact E|contradiction]. Qed.

(* fuel-free application of a substitution whose relevant bindings are variable-free *)
Fixpoint asub (m : subst) (t : ty) : res ty :=
  match t with
  | TVar n => match assoc n m with Some u => Ok u | None => Ok t end
  | TList e => rmap TList (asub m e)
  | TMaybe e => rmap TMaybe (asub m e)
  | TMap k v => let* k' := asub m k in let* v' := asub m v in mk_map k' v'
  | TTuple l => rmap TTuple (rmapM (asub m) l)
  | TObj fs => rmap TObj (rmapM (fun nf => rmap (fun t' => (fst nf, t')) (asub m (snd nf))) fs)
  | TFun n ps r => let* ps' := rmapM (asub m) ps in let* r' := asub m r in Ok (TFun n ps' r')
  | _ => Ok t
  end.

Lemma flat_map_nil {X Y} (g : X -> list Y) l : (forall x, In x l -> g x = []) -> flat_map g l = [].
Proof.
  induction l as [|a r IH]; intros H; simpl; [reflexivity|].
  rewrite (H a) by (left; reflexivity). simpl. apply IH. intros x Hin. apply H. right; exact Hin.
Qed.

Lemma slot_free_vars : forall t, slot_free t = true -> vars_of t = [].
Proof.
  induction t using ty_ind'; intros Hs; simpl in Hs; try discriminate Hs; try reflexivity.
  - simpl. apply flat_map_nil. intros x Hin. rewrite Forall_forall in H. apply H; [exact Hin|].
    rewrite forallb_forall in Hs. auto.
  - simpl. auto.
  - apply andb_true_iff in Hs. destruct Hs. simpl. rewrite IHt1, IHt2 by assumption. reflexivity.
  - simpl. apply flat_map_nil. intros x Hin. rewrite Forall_forall in H. apply H; [exact Hin|].
    rewrite forallb_forall in Hs. auto.
  - apply andb_true_iff in Hs. destruct Hs as [Hs1 Hs2]. simpl. rewrite IHt by assumption.
    rewrite app_nil_r. apply flat_map_nil. intros x Hin. rewrite Forall_forall in H. apply H; [exact Hin|].
    rewrite forallb_forall in Hs1. auto.
  - simpl. auto.
Qed.

Lemma is_var_named_ground u n : slot_free u = true -> is_var_named u n = false.
Proof. destruct u; simpl; intros H; try discriminate H; reflexivity. Qed.

Lemma asub_unbound : forall m t, (forall n, In n (vars_of t) -> assoc n m = None) -> wf_ty t = true -> asub m t = Ok t.
Proof.
  intros m. induction t using ty_ind'; intros Hv Hw; try reflexivity.
  - simpl. rewrite (Hv n) by (left; reflexivity). reflexivity.
  - simpl. rewrite rmapM_ok_id; [reflexivity|]. intros x Hin.
    rewrite Forall_forall in H. apply H; [exact Hin| |].
    + intros n Hn. apply Hv. simpl. apply in_flat_map. eauto.
    + apply wf_tuple in Hw. rewrite Forall_forall in Hw. auto.
  - simpl in *. rewrite IHt by assumption. reflexivity.
  - apply wf_map in Hw. destruct Hw as [Hk [Hw1 Hw2]]. simpl in *.
    rewrite IHt1, IHt2; try assumption; try (intros n Hn; apply Hv; apply in_or_app; tauto).
    simpl. unfold mk_map. rewrite Hk. reflexivity.
  - apply wf_obj in Hw. destruct Hw as [_ Hw]. simpl. rewrite rmapM_ok_id; [reflexivity|].
    intros [n t] Hin. simpl. rewrite Forall_forall in H. specialize (H (n, t) Hin). simpl in H.
    rewrite H; [reflexivity| |eauto].
    intros v Hv'. apply Hv. simpl. apply in_flat_map. exists (n, t). split; assumption.
  - apply wf_fun in Hw. destruct Hw as [Hw1 Hw2]. simpl in *. rewrite rmapM_ok_id.
    + simpl. rewrite IHt; [reflexivity| |assumption]. intros v Hv'. apply Hv. apply in_or_app. tauto.
    + intros x Hin. rewrite Forall_forall in H. apply H; [exact Hin| |].
      * intros v Hv'. apply Hv. apply in_or_app. left. apply in_flat_map. eauto.
      * rewrite Forall_forall in Hw1. auto.
  - simpl in *. rewrite IHt by assumption. reflexivity.
Qed.

Lemma asub_ground m t : slot_free t = true -> wf_ty t = true -> asub m t = Ok t.
Proof.
  intros Hs Hw. apply asub_unbound; [|exact Hw]. rewrite (slot_free_vars _ Hs). intros n [].
Qed.

Lemma ty_size_pos t : 1 <= ty_size t.
Proof. destruct t; simpl; lia. Qed.

(* [apply_subst] refines [asub] when every bound variable of [t] is bound to a variable-free well-formed type *)
Lemma as_rf : forall fa m t B,
  (forall n u, In n (vars_of t) -> assoc n m = Some u -> slot_free u = true /\ wf_ty u = true /\ ty_size u <= B) ->
  rf (fa < ty_size t + B) (apply_subst fa m t) (asub m t).
Proof.
  induction fa as [|fa IH]; intros m t B Hb.
  { right. split; [reflexivity|]. pose proof (ty_size_pos t). lia. }
  destruct t; try (left; reflexivity).
  - (* var *)
    simpl. destruct (assoc n m) as [u|] eqn:Ea; [|left; reflexivity].
    destruct (Hb n u (or_introl Logic.eq_refl) Ea) as [Hs [Hw Hsz]].
    rewrite (is_var_named_ground _ _ Hs).
    rewrite <- (asub_ground m u Hs Hw).
    eapply rf_weaken; [|apply (IH m u 0)].
    + lia.
    + rewrite (slot_free_vars _ Hs). intros n0 u0 [].
  - (* tuple *)
    simpl. apply rf_rmap. apply rf_rmapM. intros x Hin.
    eapply rf_weaken; [|apply (IH m x B)].
    + pose proof (size_in_list _ _ Hin). lia.
    + intros n u Hn. apply Hb. simpl. apply in_flat_map. eauto.
  - (* list *)
    simpl. apply rf_rmap. eapply rf_weaken; [|apply (IH m t B)]; [lia|exact Hb].
  - (* map *)
    simpl. apply rf_bind.
    { eapply rf_weaken; [|apply (IH m t1 B)]; [lia|]. intros n u Hn. apply Hb. simpl. apply in_or_app. tauto. }
    intros k' _. apply rf_bind; [|intros; apply rf_refl].
    eapply rf_weaken; [|apply (IH m t2 B)]; [lia|]. intros n u Hn. apply Hb. simpl. apply in_or_app. tauto.
  - (* obj *)
    simpl. apply rf_rmap. apply rf_rmapM. intros [n t] Hin. simpl. apply rf_rmap.
    eapply rf_weaken; [|apply (IH m t B)].
    + pose proof (size_in_fields _ _ Hin). simpl in *. lia.
    + intros v u Hv. apply Hb. simpl. apply in_flat_map. exists (n, t). split; assumption.
  - (* fun *)
    simpl. apply rf_bind.
    { apply rf_rmapM. intros x Hin. eapply rf_weaken; [|apply (IH m x B)].
      - pose proof (size_in_list _ _ Hin). lia.
      - intros v u Hv. apply Hb. simpl. apply in_or_app. left. apply in_flat_map. eauto. }
    intros ps' _. apply rf_bind; [|intros; apply rf_refl].
    eapply rf_weaken; [|apply (IH m t B)]; [lia|]. intros v u Hv. apply Hb. simpl. apply in_or_app. tauto.
  - (* maybe *)
    simpl. apply rf_rmap. eapply rf_weaken; [|apply (IH m t B)]; [lia|exact Hb].
Qed.

(* ------------------------------------------------------------------------------------------------ *)
(* Stage 2b: the fuel-free matcher that [unify] refines on a simple pattern and a variable-free type *)
(* ------------------------------------------------------------------------------------------------ *)

Fixpoint mtch (x y : ty) (m : subst) {struct x} : res (ty * subst) :=
  match x with
  | TVar n =>
      match assoc n m with
      | Some k => if ty_eqb k y then Ok (y, update n y m) else Fail
      | None => Ok (y, update n y m)
      end
  | TTop => Ok (x, m)
  | TBot => match y with TBot => Ok (x, m) | _ => Fail end
  | TNum => match y with TNum | TBot => Ok (x, m) | _ => Fail end
  | TStr => match y with TStr | TBot => Ok (x, m) | _ => Fail end
  | TBool => match y with TBool | TBot => Ok (x, m) | _ => Fail end
  | TTime => match y with TTime | TBot => Ok (x, m) | _ => Fail end
  | TList a =>
      match y with
      | TList b => let* (e, m1) := mtch a b m in Ok (TList e, m1)
      | TBot => Ok (x, m)
      | _ => Fail
      end
  | TMaybe a =>
      match y with
      | TMaybe b => let* (e, m1) := mtch a b m in Ok (TMaybe e, m1)
      | TBot => Ok (x, m)
      | _ => Fail
      end
  | TMap k1 v1 =>
      match y with
      | TMap k2 v2 =>
          let* (k, m1) := mtch k1 k2 m in
          let* (v, m2) := mtch v1 v2 m1 in
          let* t := mk_map k v in Ok (t, m2)
      | TBot => Ok (x, m)
      | _ => Fail
      end
  | TObj f1 =>
      match y with
      | TObj f2 =>
          if negb (Nat.eqb (List.length f1) (List.length f2)) then Fail else
          let* (fs, m1) :=
            (fix go (f1 : list (string * ty)) (m : subst) : res (list (string * ty) * subst) :=
               match f1 with
               | [] => Ok ([], m)
               | (n, a) :: r1 =>
                   match assoc n f2 with
                   | None => Fail
                   | Some b =>
                       let* (u, m1) := mtch a b m in
                       let* (us, m2) := go r1 m1 in Ok ((n, u) :: us, m2)
                   end
               end) f1 m in
          Ok (TObj fs, m1)
      | TBot => Ok (x, m)
      | _ => Fail
      end
  | TTuple _ | TFun _ _ _ => Fail
  end.

Definition mtch_fields (f2 : list (string * ty)) :=
  fix go (f1 : list (string * ty)) (m : subst) : res (list (string * ty) * subst) :=
    match f1 with
    | [] => Ok ([], m)
    | (n, a) :: r1 =>
        match assoc n f2 with
        | None => Fail
        | Some b =>
            let* (u, m1) := mtch a b m in
            let* (us, m2) := go r1 m1 in Ok ((n, u) :: us, m2)
        end
    end.

Fixpoint mtch_list (l1 l2 : list ty) (m : subst) : res (list ty * subst) :=
  match l1, l2 with
  | a :: r1, b :: r2 =>
      let* (u, m1) := mtch a b m in
      let* (us, m2) := mtch_list r1 r2 m1 in Ok (u :: us, m2)
  | _, _ => Ok ([], m)
  end.

Lemma mtch_obj f1 f2 m :
  mtch (TObj f1) (TObj f2) m =
  if negb (Nat.eqb (List.length f1) (List.length f2)) then Fail else
  let* (fs, m1) := mtch_fields f2 f1 m in Ok (TObj fs, m1).
Proof. reflexivity. Qed.

Lemma mtch_nonvar_bot x m : is_var x = false -> simple x = true -> mtch x TBot m = Ok (x, m).
Proof. destruct x; intros H1 H2; try discriminate H1; try discriminate H2; reflexivity. Qed.

Definition low (fa f : nat) (x y : ty) : Prop := fa < ty_size y \/ f < ty_size x.

Lemma apply_ground_rf fa m y :
  slot_free y = true -> wf_ty y = true -> rf (fa < ty_size y) (apply_subst fa m y) (Ok y).
Proof.
  intros Hs Hw. rewrite <- (asub_ground m y Hs Hw).
  eapply rf_weaken; [|apply (as_rf fa m y 0)].
  - lia.
  - rewrite (slot_free_vars _ Hs). intros n u [].
Qed.

Lemma bind_var_rf fa n y m :
  slot_free y = true -> simple y = true -> wf_ty y = true ->
  rf (fa < ty_size y) (bind_var fa n y m) (mtch (TVar n) y m).
Proof.
  intros Hs Hsim Hw. unfold bind_var.
  replace (mtch (TVar n) y m) with
    (let* y1 := Ok y in let* free := free_from y1 n in
     if free then match assoc n m with
                  | Some k => if ty_eqb k y1 then Ok (y1, update n y1 m) else Fail
                  | None => Ok (y1, update n y1 m) end else Fail).
  2:{ simpl. rewrite free_from_ground by assumption. reflexivity. }
  apply rf_bind; [apply apply_ground_rf; assumption|]. intros y1 _. apply rf_refl.
Qed.

Definition ref_stmt (fa : nat) (x : ty) : Prop :=
  forall f y m, simple x = true -> simple y = true -> wf_ty y = true -> slot_free y = true ->
    rf (low fa f x y) (unify fa f x y m) (mtch x y m).

Lemma unify_fields_rf fa f f2 P :
  (forall n b, In (n, b) f2 -> simple b = true /\ wf_ty b = true /\ slot_free b = true) ->
  forall f1, Forall (fun nf => forall b m, In (fst nf, b) f2 -> simple b = true -> wf_ty b = true -> slot_free b = true ->
                                rf P (unify fa f (snd nf) b m) (mtch (snd nf) b m)) f1 ->
  forall m, rf P (unify_fields fa f f2 f1 m) (mtch_fields f2 f1 m).
Proof.
  intros Hf2. induction 1 as [|[n a] r1 Ha Hr IH]; intros m; simpl.
  - apply rf_refl.
  - destruct (assoc n f2) as [b|] eqn:Eb; [|apply rf_refl].
    destruct (Hf2 n b (assoc_In _ _ _ Eb)) as [Hb1 [Hb2 Hb3]].
    apply rf_bind; [apply (Ha b m); auto using assoc_In|]. intros [u m1] _.
    apply rf_bind; [apply IH|]. intros [us m2] _. apply rf_refl.
Qed.

Lemma unify_refines fa : forall x, ref_stmt fa x.
Proof.
  induction x using ty_ind'; intros f y m Hsx Hsy Hwy Hfy;
    (destruct f as [|f]; [right; split; [reflexivity|right; pose proof (ty_size_pos x); simpl; lia] || 
                          (right; split; [reflexivity|right; simpl; lia])|]);
    pose proof (slot_free_not_var _ Hfy) as Hnv.
  - (* top *) rewrite unify_top by assumption. apply rf_refl.
  - (* bot *) destruct y; try discriminate Hnv; apply rf_refl.
  - (* var *) rewrite unify_var by assumption. eapply rf_weaken; [|apply bind_var_rf; assumption].
    unfold low. tauto.
  - destruct y; try discriminate Hnv; apply rf_refl.
  - destruct y; try discriminate Hnv; apply rf_refl.
  - destruct y; try discriminate Hnv; apply rf_refl.
  - destruct y; try discriminate Hnv; apply rf_refl.
  - discriminate Hsx.
  - (* list *)
    destruct y; try discriminate Hnv; try apply rf_refl.
    rewrite unify_tlist. simpl mtch. simpl in *.
    apply rf_bind; [|intros [e m1] _; apply rf_refl].
    eapply rf_weaken; [|apply IHx; assumption]. unfold low; simpl; lia.
  - (* map *)
    destruct y; try discriminate Hnv; try apply rf_refl.
    rewrite unify_tmap. simpl mtch.
    apply wf_map in Hwy. destruct Hwy as [_ [Hw1 Hw2]]. simpl in Hsx, Hsy, Hfy.
    apply andb_true_iff in Hsx. apply andb_true_iff in Hsy. apply andb_true_iff in Hfy.
    destruct Hsx as [Hsx1 Hsx2]. destruct Hsy as [Hsy1 Hsy2]. destruct Hfy as [Hfy1 Hfy2].
    apply rf_bind.
    { eapply rf_weaken; [|apply IHx1; assumption]. unfold low; simpl; lia. }
    intros [k m1] _. apply rf_bind; [|intros [v m2] _; apply rf_refl].
    eapply rf_weaken; [|apply IHx2; assumption]. unfold low; simpl; lia.
  - (* obj *)
    destruct y; try discriminate Hnv; try apply rf_refl.
    rewrite unify_obj, mtch_obj.
    destruct (negb (Nat.eqb (List.length fs) (List.length fs0))); [apply rf_refl|].
    apply rf_bind; [|intros [us m1] _; apply rf_refl].
    apply wf_obj in Hwy. destruct Hwy as [_ Hwy]. simpl in Hsx, Hsy, Hfy.
    rewrite forallb_forall in Hsy, Hfy.
    apply unify_fields_rf.
    + intros n b Hin. repeat split; [apply (Hsy _ Hin)|eauto|apply (Hfy _ Hin)].
    + rewrite forallb_forall in Hsx. rewrite Forall_forall in H |- *. intros [n a] Hin b m' Hinb Hb1 Hb2 Hb3.
      simpl. eapply rf_weaken; [|apply (H (n, a) Hin); try assumption; apply (Hsx _ Hin)].
      unfold low. simpl.
      pose proof (size_in_fields _ _ Hin). simpl in *.
      pose proof (size_in_fields _ _ Hinb). simpl in *. lia.
  - discriminate Hsx.
  - (* maybe *)
    destruct y; try discriminate Hnv; try apply rf_refl.
    rewrite unify_tmaybe. simpl mtch. simpl in *.
    apply rf_bind; [|intros [e m1] _; apply rf_refl].
    eapply rf_weaken; [|apply IHx; assumption]. unfold low; simpl; lia.
Qed.

(* ------------------------------------------------------------------------------------------------ *)
(* Stage 2c: what a successful strict match means                                                    *)
(* ------------------------------------------------------------------------------------------------ *)

Lemma ty_ok_parts t : ty_ok t = true -> slot_free t = true /\ wf_ty t = true /\ simple t = true.
Proof. unfold ty_ok. intros H. apply andb_true_iff in H. destruct H as [H H3]. apply andb_true_iff in H. tauto. Qed.

Lemma ty_ok_intro t : slot_free t = true -> wf_ty t = true -> simple t = true -> ty_ok t = true.
Proof. unfold ty_ok. intros H1 H2 H3. rewrite H1, H2, H3. reflexivity. Qed.

(* a variable, if bound, is bound to a variable-free well-formed simple type *)
Definition gb (m : subst) (n : string) : Prop := forall u, assoc n m = Some u -> ty_ok u = true.

(* m' keeps every binding of m, exactly or up to type equality *)
Definition ext (m m' : subst) : Prop :=
  forall n u, assoc n m = Some u -> exists u', assoc n m' = Some u' /\ (u' = u \/ ty_eqb u u' = true).

Lemma ext_refl m : ext m m.
Proof. intros n u H. eauto. Qed.

Lemma ext_trans a b c : ext a b -> ext b c -> ext a c.
Proof.
  intros H1 H2 n u Ha. destruct (H1 n u Ha) as [u1 [Hb E1]]. destruct (H2 n u1 Hb) as [u2 [Hc E2]].
  exists u2. split; [exact Hc|].
  destruct E1 as [E1|E1]; destruct E2 as [E2|E2]; subst; auto.
  right. eapply eqb_trans; eauto.
Qed.

Lemma ext_bound m m' n : ext m m' -> (exists u, assoc n m = Some u) -> exists u, assoc n m' = Some u.
Proof. intros He [u Hu]. destruct (He n u Hu) as [u' [H _]]. eauto. Qed.

Lemma simple_obj_in fs n t : simple (TObj fs) = true -> In (n, t) fs -> simple t = true.
Proof. simpl. intros H Hin. rewrite forallb_forall in H. apply (H _ Hin). Qed.

Lemma map_fst_subst s (fs : list (string * ty)) :
  map fst (map (fun f => (fst f, subst_ty s (snd f))) fs) = map fst fs.
Proof. rewrite map_map. apply map_ext. intros [n t]; reflexivity. Qed.

(* substitutions that agree up to type equality on the variables of [a] give equal instances *)
Lemma subst_ext : forall a m1 m2,
  simple a = true -> wf_ty a = true ->
  (forall n, In n (vars_of a) -> exists u1 u2, assoc n m1 = Some u1 /\ assoc n m2 = Some u2 /\ ty_eqb u2 u1 = true) ->
  ty_eqb (subst_ty m2 a) (subst_ty m1 a) = true.
Proof.
  induction a using ty_ind'; intros m1 m2 Hs Hw Hv; try reflexivity; try discriminate Hs.
  - destruct (Hv n (or_introl Logic.eq_refl)) as [u1 [u2 [H1 [H2 E]]]]. simpl. rewrite H1, H2. exact E.
  - simpl in *. auto.
  - apply wf_map in Hw. destruct Hw as [_ [Hw1 Hw2]]. simpl in Hs. apply andb_true_iff in Hs. destruct Hs.
    simpl. rewrite IHa1, IHa2; try assumption; try reflexivity;
      intros n Hn; apply Hv; simpl; apply in_or_app; tauto.
  - pose proof Hw as Hw'. apply wf_obj in Hw. destruct Hw as [Hnd Hw].
    simpl subst_ty. apply ty_eqb_obj_spec. split; [rewrite !map_length; reflexivity|].
    intros n t' Hin. apply in_map_iff in Hin. destruct Hin as [[n0 t] [E Hin]]. simpl in E. inversion E; subst n0 t'.
    exists (subst_ty m1 t). split.
    + apply In_assoc; [rewrite map_fst_subst; exact Hnd|].
      apply in_map_iff. exists (n, t). split; [reflexivity|exact Hin].
    + rewrite Forall_forall in H. apply (H (n, t) Hin); simpl.
      * eapply simple_obj_in; eauto.
      * eauto.
      * intros v Hv'. apply Hv. simpl. apply in_flat_map. exists (n, t). split; assumption.
  - simpl in *. auto.
Qed.

Section MatchSound.
  Variable W : string -> Prop.

  Lemma subst_lift a b m1 m2 :
    simple a = true -> wf_ty a = true ->
    (forall n, In n (vars_of a) -> W n) ->
    (forall n, In n (vars_of a) -> exists u, assoc n m1 = Some u) ->
    (forall n, W n -> gb m1 n) -> (forall n, W n -> gb m2 n) -> ext m1 m2 ->
    ty_eqb (subst_ty m1 a) b = true -> ty_eqb (subst_ty m2 a) b = true.
  Proof.
    intros Hs Hw HW Hb Hg1 Hg2 He Hab.
    eapply eqb_trans; [|exact Hab]. apply subst_ext; try assumption.
    intros n Hn. destruct (Hb n Hn) as [u1 Hu1]. destruct (He n u1 Hu1) as [u2 [Hu2 E]].
    exists u1, u2. repeat split; try assumption.
    destruct (ty_ok_parts _ (Hg1 n (HW n Hn) u1 Hu1)) as [_ [Hw1 _]].
    destruct (ty_ok_parts _ (Hg2 n (HW n Hn) u2 Hu2)) as [_ [Hw2 _]].
    destruct E as [E|E]; [subst; apply eq_refl; assumption|apply eqb_sym_imp; assumption].
  Qed.

  Definition spost (m : subst) (vs : list string) (m' : subst) : Prop :=
    (forall n, ~ In n vs -> assoc n m' = assoc n m) /\ (forall n, W n -> gb m' n) /\ ext m m'.

  Definition sound_stmt' (x : ty) : Prop :=
    forall y m r m',
      simple x = true -> wf_ty x = true -> ty_ok y = true ->
      (forall n, In n (vars_of x) -> W n) -> (forall n, W n -> gb m n) ->
      mtch x y m = Ok (r, m') ->
      spost m (vars_of x) m' /\
      (ty_eqb r y = true ->
       (forall n, In n (vars_of x) -> exists u, assoc n m' = Some u) /\ ty_eqb (subst_ty m' x) y = true).

  Lemma spost_same m vs : (forall n, W n -> gb m n) -> spost m vs m.
  Proof. intros H. repeat split; auto using ext_refl. Qed.

  Lemma gb_update n y m : ty_ok y = true -> (forall v, W v -> gb m v) -> forall v, W v -> gb (update n y m) v.
  Proof.
    intros Hy Hg v Hv u Hu. destruct (String.eqb_spec v n) as [E|E].
    - subst v. rewrite assoc_update_same in Hu. inversion Hu; subst. exact Hy.
    - rewrite assoc_update_other in Hu by assumption. eapply Hg; eauto.
  Qed.

  Lemma ext_update n y m : (forall k, assoc n m = Some k -> ty_eqb k y = true) -> ext m (update n y m).
  Proof.
    intros Hk v u Hu. destruct (String.eqb_spec v n) as [E|E].
    - subst v. exists y. rewrite assoc_update_same. split; [reflexivity|]. right. auto.
    - exists u. rewrite assoc_update_other by assumption. auto.
  Qed.

  Lemma mtch_fields_sound f2 :
    (forall n b, In (n, b) f2 -> ty_ok b = true) ->
    forall f1, Forall (fun nf => sound_stmt' (snd nf)) f1 ->
    (forall n a, In (n, a) f1 -> simple a = true /\ wf_ty a = true /\ forall v, In v (vars_of a) -> W v) ->
    forall m us m', (forall n, W n -> gb m n) ->
    mtch_fields f2 f1 m = Ok (us, m') ->
    spost m (flat_map (fun f => vars_of (snd f)) f1) m' /\
    (eqb_fields f2 us = true ->
     (forall n, In n (flat_map (fun f => vars_of (snd f)) f1) -> exists u, assoc n m' = Some u) /\
     eqb_fields f2 (map (fun f => (fst f, subst_ty m' (snd f))) f1) = true).
  Proof.
    intros Hf2. induction 1 as [|[n a] r1 Ha Hr IH]; intros Hf1 m us m' Hg HM; simpl in HM.
    - inversion HM; subst. split; [apply spost_same; assumption|]. intros _. split; [intros n []|reflexivity].
    - destruct (assoc n f2) as [b|] eqn:Eb; [|discriminate HM].
      destruct (mtch a b m) as [[u m1]| | |] eqn:E1; simpl in HM; try discriminate HM.
      destruct (mtch_fields f2 r1 m1) as [[us' m2]| | |] eqn:E2; simpl in HM; try discriminate HM.
      inversion HM; subst us m2. clear HM.
      destruct (Hf1 n a (or_introl Logic.eq_refl)) as [Hsa [Hwa HWa]].
      pose proof (Hf2 n b (assoc_In _ _ _ Eb)) as Hb.
      destruct (Ha b m u m1 Hsa Hwa Hb HWa Hg E1) as [[P1 [G1 X1]] Q1]. simpl in P1, Q1.
      destruct (IH (fun n' a' Hin => Hf1 n' a' (or_intror Hin)) m1 us' m' G1 E2) as [[P2 [G2 X2]] Q2].
      split.
      + repeat split.
        * intros v Hv. simpl in Hv. rewrite P2, P1; [reflexivity| |]; intros Hin; apply Hv; apply in_or_app; tauto.
        * exact G2.
        * eapply ext_trans; eauto.
      + intros HE. simpl in HE. rewrite Eb in HE. apply andb_true_iff in HE. destruct HE as [HE1 HE2].
        destruct (Q1 HE1) as [B1 T1]. destruct (Q2 HE2) as [B2 T2].
        split.
        * intros v Hv. simpl in Hv. apply in_app_or in Hv. destruct Hv as [Hv|Hv]; [|auto].
          eapply ext_bound; eauto.
        * simpl. rewrite Eb. rewrite (subst_lift a b m1 m'); auto.
  Qed.

  Lemma mtch_sound : forall x, sound_stmt' x.
  Proof.
    induction x using ty_ind'; intros y m r m' Hsx Hwx Hy HW Hg HM; try discriminate Hsx.
    - (* top *) simpl in HM. inversion HM; subst. split; [apply spost_same; assumption|].
      intros E. split; [intros n []|exact E].
    - (* bot *) destruct y; simpl in HM; try discriminate HM. inversion HM; subst.
      split; [apply spost_same; assumption|]. intros E. split; [intros n []|exact E].
    - (* var *)
      destruct (ty_ok_parts _ Hy) as [Hy1 [Hy2 Hy3]].
      assert (r = y /\ m' = update n y m /\ (forall k, assoc n m = Some k -> ty_eqb k y = true)) as [Er [Em Hk]].
      { simpl in HM. destruct (assoc n m) as [k|] eqn:Ea.
        - destruct (ty_eqb k y) eqn:Ek; [|discriminate HM]. inversion HM; subst. repeat split.
          intros k' Hk'. inversion Hk'; subst. exact Ek.
        - inversion HM; subst. repeat split. intros k' Hk'. discriminate Hk'. }
      subst r m'. split.
      + repeat split.
        * intros v Hv. apply assoc_update_other. intros E. apply Hv. left. auto.
        * apply gb_update; assumption.
        * apply ext_update; assumption.
      + intros _. split.
        * intros v [E|[]]. subst v. exists y. apply assoc_update_same.
        * simpl. rewrite assoc_update_same. apply eq_refl. exact Hy2.
    - destruct y; simpl in HM; try discriminate HM; inversion HM; subst;
        (split; [apply spost_same; assumption|]); intros E; (split; [intros n []|exact E]).
    - destruct y; simpl in HM; try discriminate HM; inversion HM; subst;
        (split; [apply spost_same; assumption|]); intros E; (split; [intros n []|exact E]).
    - destruct y; simpl in HM; try discriminate HM; inversion HM; subst;
        (split; [apply spost_same; assumption|]); intros E; (split; [intros n []|exact E]).
    - destruct y; simpl in HM; try discriminate HM; inversion HM; subst;
        (split; [apply spost_same; assumption|]); intros E; (split; [intros n []|exact E]).
    - (* list *)
      destruct y; simpl in HM; try discriminate HM.
      + inversion HM; subst. split; [apply spost_same; assumption|]. intros E. discriminate E.
      + destruct (mtch x y m) as [[e m1]| | |] eqn:E1; simpl in HM; try discriminate HM.
        inversion HM; subst. clear HM.
        assert (ty_ok y = true) as Hy'.
        { destruct (ty_ok_parts _ Hy) as [A [B C]]. apply ty_ok_intro; assumption. }
        destruct (IHx y m e m' Hsx Hwx Hy' HW Hg E1) as [P1 Q1]. split; [exact P1|exact Q1].
    - (* map *)
      destruct y; simpl in HM; try discriminate HM.
      + inversion HM; subst. split; [apply spost_same; assumption|]. intros E. discriminate E.
      + destruct (mtch x1 y1 m) as [[k m1]| | |] eqn:E1; simpl in HM; try discriminate HM.
        destruct (mtch x2 y2 m1) as [[v m2]| | |] eqn:E2; simpl in HM; try discriminate HM.
        unfold mk_map in HM. destruct (keyable k); simpl in HM; [|discriminate HM].
        inversion HM; subst. clear HM.
        destruct (ty_ok_parts _ Hy) as [A [B C]]. simpl in A, C, Hsx.
        apply andb_true_iff in A. apply andb_true_iff in C. apply andb_true_iff in Hsx.
        apply wf_map in B. apply wf_map in Hwx.
        destruct A as [A1 A2]. destruct C as [C1 C2]. destruct Hsx as [S1 S2].
        destruct B as [_ [B1 B2]]. destruct Hwx as [_ [W1 W2]].
        assert (forall n, In n (vars_of x1) -> W n) as HW1 by (intros n Hn; apply HW; simpl; apply in_or_app; tauto).
        assert (forall n, In n (vars_of x2) -> W n) as HW2 by (intros n Hn; apply HW; simpl; apply in_or_app; tauto).
        destruct (IHx1 y1 m k m1 S1 W1 (ty_ok_intro _ A1 B1 C1) HW1 Hg E1) as [[P1 [G1 X1]] Q1].
        destruct (IHx2 y2 m1 v m' S2 W2 (ty_ok_intro _ A2 B2 C2) HW2 G1 E2) as [[P2 [G2 X2]] Q2].
        split.
        * repeat split.
          -- intros n Hn. simpl in Hn. rewrite P2, P1; [reflexivity| |]; intros Hin; apply Hn; apply in_or_app; tauto.
          -- exact G2.
          -- eapply ext_trans; eauto.
        * intros HE. simpl in HE. apply andb_true_iff in HE. destruct HE as [HE1 HE2].
          destruct (Q1 HE1) as [Bd1 T1]. destruct (Q2 HE2) as [Bd2 T2]. split.
          -- intros n Hn. simpl in Hn. apply in_app_or in Hn. destruct Hn as [Hn|Hn]; [|auto].
             eapply ext_bound; eauto.
          -- simpl. rewrite (subst_lift x1 y1 m1 m'), T2; auto.
    - (* obj *)
      destruct y; try (simpl in HM; discriminate HM).
      + simpl in HM. inversion HM; subst. split; [apply spost_same; assumption|]. intros E. discriminate E.
      + rewrite mtch_obj in HM.
        destruct (Nat.eqb (List.length fs) (List.length fs0)) eqn:El; simpl in HM; [|discriminate HM].
        destruct (mtch_fields fs0 fs m) as [[us m1]| | |] eqn:E1; simpl in HM; try discriminate HM.
        inversion HM; subst. clear HM.
        destruct (ty_ok_parts _ Hy) as [A [B C]]. simpl in A, C. apply wf_obj in B. destruct B as [_ B].
        rewrite forallb_forall in A, C.
        pose proof Hwx as Hwx'. apply wf_obj in Hwx'. destruct Hwx' as [_ Hwf].
        destruct (mtch_fields_sound fs0) with (f1 := fs) (m := m) (us := us) (m' := m') as [P1 Q1]; try assumption.
        { intros n b Hin. apply ty_ok_intro; [apply (A _ Hin)|eauto|apply (C _ Hin)]. }
        { intros n a Hin. repeat split; [eapply simple_obj_in; eauto|eauto|].
          intros v Hv. apply HW. simpl. apply in_flat_map. exists (n, a). split; assumption. }
        split; [exact P1|].
        intros HE. rewrite ty_eqb_obj in HE. apply andb_true_iff in HE. destruct HE as [_ HE].
        destruct (Q1 HE) as [Bd T]. split; [exact Bd|].
        simpl subst_ty. rewrite ty_eqb_obj, map_length, El, T. reflexivity.
    - (* maybe *)
      destruct y; simpl in HM; try discriminate HM.
      + inversion HM; subst. split; [apply spost_same; assumption|]. intros E. discriminate E.
      + destruct (mtch x y m) as [[e m1]| | |] eqn:E1; simpl in HM; try discriminate HM.
        inversion HM; subst. clear HM.
        assert (ty_ok y = true) as Hy'.
        { destruct (ty_ok_parts _ Hy) as [A [B C]]. apply ty_ok_intro; assumption. }
        destruct (IHx y m e m' Hsx Hwx Hy' HW Hg E1) as [P1 Q1]. split; [exact P1|exact Q1].
  Qed.

  Lemma mtch_list_sound : forall l1 l2 m us m',
    (forall a, In a l1 -> simple a = true /\ wf_ty a = true /\ forall v, In v (vars_of a) -> W v) ->
    forallb ty_ok l2 = true ->
    (forall n, W n -> gb m n) ->
    mtch_list l1 l2 m = Ok (us, m') ->
    spost m (flat_map vars_of l1) m' /\
    (List.length l1 = List.length l2 -> eqb_list us l2 = true ->
     (forall n, In n (flat_map vars_of l1) -> exists u, assoc n m' = Some u) /\
     eqb_list (map (subst_ty m') l1) l2 = true).
  Proof.
    induction l1 as [|a r1 IH]; intros l2 m us m' H1 H2 Hg HM.
    - simpl in HM. inversion HM; subst. split; [apply spost_same; assumption|].
      intros Hl _. destruct l2; [|discriminate Hl]. split; [intros n []|reflexivity].
    - destruct l2 as [|b r2].
      { simpl in HM. inversion HM; subst. split; [apply spost_same; assumption|]. intros Hl; discriminate Hl. }
      simpl in HM, H2. apply andb_true_iff in H2. destruct H2 as [Hb Hr2].
      destruct (mtch a b m) as [[u m1]| | |] eqn:E1; simpl in HM; try discriminate HM.
      destruct (mtch_list r1 r2 m1) as [[us' m2]| | |] eqn:E2; simpl in HM; try discriminate HM.
      inversion HM; subst us m2. clear HM.
      destruct (H1 a (or_introl Logic.eq_refl)) as [Hsa [Hwa HWa]].
      destruct (mtch_sound a b m u m1 Hsa Hwa Hb HWa Hg E1) as [[P1 [G1 X1]] Q1].
      destruct (IH r2 m1 us' m' (fun a' Hin => H1 a' (or_intror Hin)) Hr2 G1 E2) as [[P2 [G2 X2]] Q2].
      split.
      + repeat split.
        * intros v Hv. simpl in Hv. rewrite P2, P1; [reflexivity| |]; intros Hin; apply Hv; apply in_or_app; tauto.
        * exact G2.
        * eapply ext_trans; eauto.
      + intros Hl HE. simpl in Hl, HE. apply andb_true_iff in HE. destruct HE as [HE1 HE2].
        destruct (Q1 HE1) as [B1 T1]. destruct Q2 as [B2 T2]; [lia|exact HE2|].
        split.
        * intros v Hv. simpl in Hv. apply in_app_or in Hv. destruct Hv as [Hv|Hv]; [|auto].
          eapply ext_bound; eauto.
        * simpl. rewrite (subst_lift a b m1 m'), T2; auto.
  Qed.
End MatchSound.
