(* Proofs for Props/C05.v: the checker model [check] against the declarative typing relation [has_type].

   Structure
   - Stage 1: the tables ([builtin_table_ok], [register_mono], [register_poly]).
   - Stage 2: inferFun.  [rf P r1 r2] says that the fuelled computation r1 returns the fuel-free answer r2 or runs out
     of fuel (the latter only when P, "fuel too small", holds).  [apply_subst] refines [asub], [unify] on a simple
     pattern against a variable-free type refines the fuel-free matcher [mtch] ([unify_refines]), and [infer_fun]
     refines [infer_spec] ([infer_rf]): the pseudo function binds s_i := params_i, t := ret ([step1], [step2]), the
     parameters are matched against the arguments in that (non-ground) substitution, and t is read back.
     [spec_sound] / [spec_complete] / [spec_total] relate [infer_spec] + [params_match] to [instantiates].
   - Stage 3: [check_inv] (soundness + the inferred type is variable-free, well formed and simple), [check_comp]
     (completeness: from some fuel on the checker returns one fixed result of a type equal to the declarative one).

   The two clauses of [fenv_ok] that go beyond [sig_ok] are both needed; see the examples at the end of the file. *)
From Coq Require Import List String Ascii Bool Arith NArith ZArith Lia Permutation DecimalString DecimalN DecimalPos.
From Yae Require Import Base.Sexp Model.Ty Gen.Generated Model.Unify Model.TySpec Model.Lexer Model.Literal Model.Cst
  Model.Check Model.CheckSpec Proofs.TyInd Proofs.ExprInd Proofs.C17Proofs.
Import ListNotations.
Local Open Scope nat_scope.
Local Open Scope string_scope.

(* ------------------------------------------------------------------------------------------------ *)
(* Stage 1: the tables                                                                               *)
(* ------------------------------------------------------------------------------------------------ *)

Lemma builtin_table_ok : fenv_ok builtin_fenv = true.
Proof. vm_compute; reflexivity. Qed.

Lemma assoc_sput_same {X} k (x : X) l : assoc k (sput k x l) = Some x.
Proof.
  induction l as [|[k' x'] r IH]; simpl.
  - rewrite String.eqb_refl. reflexivity.
  - destruct (String.eqb_spec k k') as [E|E]; simpl.
    + rewrite String.eqb_refl. reflexivity.
    + destruct (String.eqb_spec k k'); [congruence|exact IH].
Qed.

Lemma register_mono : forall fe sg,
  slot_free (sig_ty sg) = true ->
  assoc (mono_key (s_name sg) (s_params sg)) (f_mono (register fe sg)) = Some sg /\ f_poly (register fe sg) = f_poly fe.
Proof.
  intros fe sg H. unfold register. rewrite H. simpl. split; [apply assoc_sput_same|reflexivity].
Qed.

Lemma register_poly : forall fe sg,
  slot_free (sig_ty sg) = false ->
  exists old, (assoc (poly_key (s_name sg) (List.length (s_params sg))) (f_poly fe) = Some old \/
               (assoc (poly_key (s_name sg) (List.length (s_params sg))) (f_poly fe) = None /\ old = [])) /\
  assoc (poly_key (s_name sg) (List.length (s_params sg))) (f_poly (register fe sg)) = Some (old ++ [sg])%list /\
  f_mono (register fe sg) = f_mono fe.
Proof.
  intros fe sg H. unfold register. rewrite H. simpl.
  destruct (assoc (poly_key (s_name sg) (List.length (s_params sg))) (f_poly fe)) as [old|] eqn:E.
  - exists old. split; [left; reflexivity|]. split; [apply assoc_sput_same|reflexivity].
  - exists []. split; [right; split; reflexivity|]. split; [apply assoc_sput_same|reflexivity].
Qed.

(* ------------------------------------------------------------------------------------------------ *)
(* Stage 2a: fuel.  [rf P r1 r2]: the fuelled computation r1 gives the fuel-free answer r2, or runs   *)
(* out of fuel, the latter only when P (a "fuel too small" condition) holds                          *)
(* ------------------------------------------------------------------------------------------------ *)

Definition rf {X} (P : Prop) (r1 r2 : res X) : Prop := r1 = r2 \/ (r1 = Fuel /\ P).

Lemma rf_refl {X} P (r : res X) : rf P r r.
Proof. left; reflexivity. Qed.

Lemma rf_weaken {X} (P Q : Prop) (r1 r2 : res X) : (P -> Q) -> rf P r1 r2 -> rf Q r1 r2.
Proof. intros HPQ [E|[E HP]]; [left; exact E|right; split; auto]. Qed.

Lemma rf_bind {X Y} P (r1 r2 : res X) (k1 k2 : X -> res Y) :
  rf P r1 r2 -> (forall x, r2 = Ok x -> rf P (k1 x) (k2 x)) -> rf P (rbind r1 k1) (rbind r2 k2).
Proof.
  intros [E|[E HP]] Hk.
  - subst r1. destruct r2 as [x| | |]; simpl; try (left; reflexivity). apply Hk; reflexivity.
  - subst r1. right. simpl. split; auto.
Qed.

Lemma rf_rmap {X Y} P (g : X -> Y) (r1 r2 : res X) : rf P r1 r2 -> rf P (rmap g r1) (rmap g r2).
Proof. intros H. unfold rmap. apply rf_bind; [exact H|]. intros x _. apply rf_refl. Qed.

Lemma rf_rmapM {X Y} P (g1 g2 : X -> res Y) l :
  (forall x, In x l -> rf P (g1 x) (g2 x)) -> rf P (rmapM g1 l) (rmapM g2 l).
Proof.
  induction l as [|a r IH]; intros H; simpl.
  - apply rf_refl.
  - apply rf_bind; [apply H; left; reflexivity|]. intros y _.
    apply rf_bind; [apply IH; intros x Hin; apply H; right; exact Hin|]. intros ys _. apply rf_refl.
Qed.

Lemma rf_fuel_free {X} (P : Prop) (r1 r2 : res X) : rf P r1 r2 -> ~ P -> r1 = r2.
Proof. intros [E|[_ HP]] HnP; [exact E|contradiction]. Qed.

Lemma rf_not_fuel {X} (P : Prop) (r1 r2 : res X) : rf P r1 r2 -> r1 <> Fuel -> r1 = r2.
Proof. intros [E|[E _]] Hn; [exact E|contradiction]. Qed.

(* fuel-free application of a substitution whose relevant bindings are variable-free *)
Fixpoint asub (m : subst) (t : ty) : res ty :=
  match t with
  | TVar n => match assoc n m with Some u => Ok u | None => Ok t end
  | TList e => rmap TList (asub m e)
  | TMaybe e => rmap TMaybe (asub m e)
  | TMap k v => let* k' := asub m k in let* v' := asub m v in mk_map k' v'
  | TTuple l => rmap TTuple (rmapM (asub m) l)
  | TObj fs => rmap TObj (rmapM (fun nf => rmap (fun t' => (fst nf, t')) (asub m (snd nf))) fs)
  | TFun n ps r => let* ps' := rmapM (asub m) ps in let* r' := asub m r in Ok (TFun n ps' r')
  | _ => Ok t
  end.

Lemma flat_map_nil {X Y} (g : X -> list Y) l : (forall x, In x l -> g x = []) -> flat_map g l = [].
Proof.
  induction l as [|a r IH]; intros H; simpl; [reflexivity|].
  rewrite (H a) by (left; reflexivity). simpl. apply IH. intros x Hin. apply H. right; exact Hin.
Qed.

Lemma slot_free_vars : forall t, slot_free t = true -> vars_of t = [].
Proof.
  induction t using ty_ind'; intros Hs; simpl in Hs; try discriminate Hs; try reflexivity.
  - simpl. apply flat_map_nil. intros x Hin. rewrite Forall_forall in H. apply H; [exact Hin|].
    rewrite forallb_forall in Hs. auto.
  - simpl. auto.
  - apply andb_true_iff in Hs. destruct Hs. simpl. rewrite IHt1, IHt2 by assumption. reflexivity.
  - simpl. apply flat_map_nil. intros x Hin. rewrite Forall_forall in H. apply H; [exact Hin|].
    rewrite forallb_forall in Hs. auto.
  - apply andb_true_iff in Hs. destruct Hs as [Hs1 Hs2]. simpl. rewrite IHt by assumption.
    rewrite app_nil_r. apply flat_map_nil. intros x Hin. rewrite Forall_forall in H. apply H; [exact Hin|].
    rewrite forallb_forall in Hs1. auto.
  - simpl. auto.
Qed.

Lemma is_var_named_ground u n : slot_free u = true -> is_var_named u n = false.
Proof. destruct u; simpl; intros H; try discriminate H; reflexivity. Qed.

Lemma asub_unbound : forall m t, (forall n, In n (vars_of t) -> assoc n m = None) -> wf_ty t = true -> asub m t = Ok t.
Proof.
  intros m. induction t using ty_ind'; intros Hv Hw; try reflexivity.
  - simpl. rewrite (Hv n) by (left; reflexivity). reflexivity.
  - simpl. rewrite rmapM_ok_id; [reflexivity|]. intros x Hin.
    rewrite Forall_forall in H. apply H; [exact Hin| |].
    + intros n Hn. apply Hv. simpl. apply in_flat_map. eauto.
    + apply wf_tuple in Hw. rewrite Forall_forall in Hw. auto.
  - simpl in *. rewrite IHt by assumption. reflexivity.
  - apply wf_map in Hw. destruct Hw as [Hk [Hw1 Hw2]]. simpl in *.
    rewrite IHt1, IHt2; try assumption; try (intros n Hn; apply Hv; apply in_or_app; tauto).
    simpl. unfold mk_map. rewrite Hk. reflexivity.
  - apply wf_obj in Hw. destruct Hw as [_ Hw]. simpl. rewrite rmapM_ok_id; [reflexivity|].
    intros [n t] Hin. simpl. rewrite Forall_forall in H. specialize (H (n, t) Hin). simpl in H.
    rewrite H; [reflexivity| |eauto].
    intros v Hv'. apply Hv. simpl. apply in_flat_map. exists (n, t). split; assumption.
  - apply wf_fun in Hw. destruct Hw as [Hw1 Hw2]. simpl in *. rewrite rmapM_ok_id.
    + simpl. rewrite IHt; [reflexivity| |assumption]. intros v Hv'. apply Hv. apply in_or_app. tauto.
    + intros x Hin. rewrite Forall_forall in H. apply H; [exact Hin| |].
      * intros v Hv'. apply Hv. apply in_or_app. left. apply in_flat_map. eauto.
      * rewrite Forall_forall in Hw1. auto.
  - simpl in *. rewrite IHt by assumption. reflexivity.
Qed.

Lemma asub_ground m t : slot_free t = true -> wf_ty t = true -> asub m t = Ok t.
Proof.
  intros Hs Hw. apply asub_unbound; [|exact Hw]. rewrite (slot_free_vars _ Hs). intros n [].
Qed.

Lemma ty_size_pos t : 1 <= ty_size t.
Proof. destruct t; simpl; lia. Qed.

(* [apply_subst] refines [asub] when every bound variable of [t] is bound to a variable-free well-formed type *)
Lemma as_rf : forall fa m t B,
  (forall n u, In n (vars_of t) -> assoc n m = Some u -> slot_free u = true /\ wf_ty u = true /\ ty_size u <= B) ->
  rf (fa < ty_size t + B) (apply_subst fa m t) (asub m t).
Proof.
  induction fa as [|fa IH]; intros m t B Hb.
  { right. split; [reflexivity|]. pose proof (ty_size_pos t). lia. }
  destruct t; try (left; reflexivity).
  - (* var *)
    simpl. destruct (assoc n m) as [u|] eqn:Ea; [|left; reflexivity].
    destruct (Hb n u (or_introl Logic.eq_refl) Ea) as [Hs [Hw Hsz]].
    rewrite (is_var_named_ground _ _ Hs).
    rewrite <- (asub_ground m u Hs Hw).
    eapply rf_weaken; [|apply (IH m u 0)].
    + lia.
    + rewrite (slot_free_vars _ Hs). intros n0 u0 [].
  - (* tuple *)
    simpl. apply rf_rmap. apply rf_rmapM. intros x Hin.
    eapply rf_weaken; [|apply (IH m x B)].
    + pose proof (size_in_list _ _ Hin). lia.
    + intros n u Hn. apply Hb. simpl. apply in_flat_map. eauto.
  - (* list *)
    simpl. apply rf_rmap. eapply rf_weaken; [|apply (IH m t B)]; [lia|exact Hb].
  - (* map *)
    simpl. apply rf_bind.
    { eapply rf_weaken; [|apply (IH m t1 B)]; [lia|]. intros n u Hn. apply Hb. simpl. apply in_or_app. tauto. }
    intros k' _. apply rf_bind; [|intros; apply rf_refl].
    eapply rf_weaken; [|apply (IH m t2 B)]; [lia|]. intros n u Hn. apply Hb. simpl. apply in_or_app. tauto.
  - (* obj *)
    simpl. apply rf_rmap. apply rf_rmapM. intros [n t] Hin. simpl. apply rf_rmap.
    eapply rf_weaken; [|apply (IH m t B)].
    + pose proof (size_in_fields _ _ Hin). simpl in *. lia.
    + intros v u Hv. apply Hb. simpl. apply in_flat_map. exists (n, t). split; assumption.
  - (* fun *)
    simpl. apply rf_bind.
    { apply rf_rmapM. intros x Hin. eapply rf_weaken; [|apply (IH m x B)].
      - pose proof (size_in_list _ _ Hin). lia.
      - intros v u Hv. apply Hb. simpl. apply in_or_app. left. apply in_flat_map. eauto. }
    intros ps' _. apply rf_bind; [|intros; apply rf_refl].
    eapply rf_weaken; [|apply (IH m t B)]; [lia|]. intros v u Hv. apply Hb. simpl. apply in_or_app. tauto.
  - (* maybe *)
    simpl. apply rf_rmap. eapply rf_weaken; [|apply (IH m t B)]; [lia|exact Hb].
Qed.

(* ------------------------------------------------------------------------------------------------ *)
(* Stage 2b: the fuel-free matcher that [unify] refines on a simple pattern and a variable-free type *)
(* ------------------------------------------------------------------------------------------------ *)

Fixpoint mtch (x y : ty) (m : subst) {struct x} : res (ty * subst) :=
  match x with
  | TVar n =>
      match assoc n m with
      | Some k => if ty_eqb k y then Ok (y, update n y m) else Fail
      | None => Ok (y, update n y m)
      end
  | TTop => Ok (x, m)
  | TBot => match y with TBot => Ok (x, m) | _ => Fail end
  | TNum => match y with TNum | TBot => Ok (x, m) | _ => Fail end
  | TStr => match y with TStr | TBot => Ok (x, m) | _ => Fail end
  | TBool => match y with TBool | TBot => Ok (x, m) | _ => Fail end
  | TTime => match y with TTime | TBot => Ok (x, m) | _ => Fail end
  | TList a =>
      match y with
      | TList b => let* (e, m1) := mtch a b m in Ok (TList e, m1)
      | TBot => Ok (x, m)
      | _ => Fail
      end
  | TMaybe a =>
      match y with
      | TMaybe b => let* (e, m1) := mtch a b m in Ok (TMaybe e, m1)
      | TBot => Ok (x, m)
      | _ => Fail
      end
  | TMap k1 v1 =>
      match y with
      | TMap k2 v2 =>
          let* (k, m1) := mtch k1 k2 m in
          let* (v, m2) := mtch v1 v2 m1 in
          let* t := mk_map k v in Ok (t, m2)
      | TBot => Ok (x, m)
      | _ => Fail
      end
  | TObj f1 =>
      match y with
      | TObj f2 =>
          if negb (Nat.eqb (List.length f1) (List.length f2)) then Fail else
          let* (fs, m1) :=
            (fix go (f1 : list (string * ty)) (m : subst) : res (list (string * ty) * subst) :=
               match f1 with
               | [] => Ok ([], m)
               | (n, a) :: r1 =>
                   match assoc n f2 with
                   | None => Fail
                   | Some b =>
                       let* (u, m1) := mtch a b m in
                       let* (us, m2) := go r1 m1 in Ok ((n, u) :: us, m2)
                   end
               end) f1 m in
          Ok (TObj fs, m1)
      | TBot => Ok (x, m)
      | _ => Fail
      end
  | TTuple _ | TFun _ _ _ => Fail
  end.

Definition mtch_fields (f2 : list (string * ty)) :=
  fix go (f1 : list (string * ty)) (m : subst) : res (list (string * ty) * subst) :=
    match f1 with
    | [] => Ok ([], m)
    | (n, a) :: r1 =>
        match assoc n f2 with
        | None => Fail
        | Some b =>
            let* (u, m1) := mtch a b m in
            let* (us, m2) := go r1 m1 in Ok ((n, u) :: us, m2)
        end
    end.

Fixpoint mtch_list (l1 l2 : list ty) (m : subst) : res (list ty * subst) :=
  match l1, l2 with
  | a :: r1, b :: r2 =>
      let* (u, m1) := mtch a b m in
      let* (us, m2) := mtch_list r1 r2 m1 in Ok (u :: us, m2)
  | _, _ => Ok ([], m)
  end.

Lemma mtch_obj f1 f2 m :
  mtch (TObj f1) (TObj f2) m =
  if negb (Nat.eqb (List.length f1) (List.length f2)) then Fail else
  let* (fs, m1) := mtch_fields f2 f1 m in Ok (TObj fs, m1).
Proof. reflexivity. Qed.

Lemma mtch_nonvar_bot x m : is_var x = false -> simple x = true -> mtch x TBot m = Ok (x, m).
Proof. destruct x; intros H1 H2; try discriminate H1; try discriminate H2; reflexivity. Qed.

Definition low (fa f : nat) (x y : ty) : Prop := fa < ty_size y \/ f < ty_size x.

Lemma apply_ground_rf fa m y :
  slot_free y = true -> wf_ty y = true -> rf (fa < ty_size y) (apply_subst fa m y) (Ok y).
Proof.
  intros Hs Hw. rewrite <- (asub_ground m y Hs Hw).
  eapply rf_weaken; [|apply (as_rf fa m y 0)].
  - lia.
  - rewrite (slot_free_vars _ Hs). intros n u [].
Qed.

Lemma bind_var_rf fa n y m :
  slot_free y = true -> simple y = true -> wf_ty y = true ->
  rf (fa < ty_size y) (bind_var fa n y m) (mtch (TVar n) y m).
Proof.
  intros Hs Hsim Hw. unfold bind_var.
  replace (mtch (TVar n) y m) with
    (let* y1 := Ok y in let* free := free_from y1 n in
     if free then match assoc n m with
                  | Some k => if ty_eqb k y1 then Ok (y1, update n y1 m) else Fail
                  | None => Ok (y1, update n y1 m) end else Fail).
  2:{ simpl. rewrite free_from_ground by assumption. reflexivity. }
  apply rf_bind; [apply apply_ground_rf; assumption|]. intros y1 _. apply rf_refl.
Qed.

Definition ref_stmt (fa : nat) (x : ty) : Prop :=
  forall f y m, simple x = true -> simple y = true -> wf_ty y = true -> slot_free y = true ->
    rf (low fa f x y) (unify fa f x y m) (mtch x y m).

Lemma unify_fields_rf fa f f2 P :
  (forall n b, In (n, b) f2 -> simple b = true /\ wf_ty b = true /\ slot_free b = true) ->
  forall f1, Forall (fun nf => forall b m, In (fst nf, b) f2 -> simple b = true -> wf_ty b = true -> slot_free b = true ->
                                rf P (unify fa f (snd nf) b m) (mtch (snd nf) b m)) f1 ->
  forall m, rf P (unify_fields fa f f2 f1 m) (mtch_fields f2 f1 m).
Proof.
  intros Hf2. induction 1 as [|[n a] r1 Ha Hr IH]; intros m; simpl.
  - apply rf_refl.
  - destruct (assoc n f2) as [b|] eqn:Eb; [|apply rf_refl].
    destruct (Hf2 n b (assoc_In _ _ _ Eb)) as [Hb1 [Hb2 Hb3]].
    apply rf_bind; [apply (Ha b m); auto using assoc_In|]. intros [u m1] _.
    apply rf_bind; [apply IH|]. intros [us m2] _. apply rf_refl.
Qed.

Lemma unify_refines fa : forall x, ref_stmt fa x.
Proof.
  induction x using ty_ind'; intros f y m Hsx Hsy Hwy Hfy;
    (destruct f as [|f]; [right; split; [reflexivity|right; pose proof (ty_size_pos x); simpl; lia] || 
                          (right; split; [reflexivity|right; simpl; lia])|]);
    pose proof (slot_free_not_var _ Hfy) as Hnv.
  - (* top *) rewrite unify_top by assumption. apply rf_refl.
  - (* bot *) destruct y; try discriminate Hnv; apply rf_refl.
  - (* var *) rewrite unify_var by assumption. eapply rf_weaken; [|apply bind_var_rf; assumption].
    unfold low. tauto.
  - destruct y; try discriminate Hnv; apply rf_refl.
  - destruct y; try discriminate Hnv; apply rf_refl.
  - destruct y; try discriminate Hnv; apply rf_refl.
  - destruct y; try discriminate Hnv; apply rf_refl.
  - discriminate Hsx.
  - (* list *)
    destruct y; try discriminate Hnv; try apply rf_refl.
    rewrite unify_tlist. simpl mtch. simpl in *.
    apply rf_bind; [|intros [e m1] _; apply rf_refl].
    eapply rf_weaken; [|apply IHx; assumption]. unfold low; simpl; lia.
  - (* map *)
    destruct y; try discriminate Hnv; try apply rf_refl.
    rewrite unify_tmap. simpl mtch.
    apply wf_map in Hwy. destruct Hwy as [_ [Hw1 Hw2]]. simpl in Hsx, Hsy, Hfy.
    apply andb_true_iff in Hsx. apply andb_true_iff in Hsy. apply andb_true_iff in Hfy.
    destruct Hsx as [Hsx1 Hsx2]. destruct Hsy as [Hsy1 Hsy2]. destruct Hfy as [Hfy1 Hfy2].
    apply rf_bind.
    { eapply rf_weaken; [|apply IHx1; assumption]. unfold low; simpl; lia. }
    intros [k m1] _. apply rf_bind; [|intros [v m2] _; apply rf_refl].
    eapply rf_weaken; [|apply IHx2; assumption]. unfold low; simpl; lia.
  - (* obj *)
    destruct y; try discriminate Hnv; try apply rf_refl.
    rewrite unify_obj, mtch_obj.
    destruct (negb (Nat.eqb (List.length fs) (List.length fs0))); [apply rf_refl|].
    apply rf_bind; [|intros [us m1] _; apply rf_refl].
    apply wf_obj in Hwy. destruct Hwy as [_ Hwy]. simpl in Hsx, Hsy, Hfy.
    rewrite forallb_forall in Hsy, Hfy.
    apply unify_fields_rf.
    + intros n b Hin. repeat split; [apply (Hsy _ Hin)|eauto|apply (Hfy _ Hin)].
    + rewrite forallb_forall in Hsx. rewrite Forall_forall in H |- *. intros [n a] Hin b m' Hinb Hb1 Hb2 Hb3.
      simpl. eapply rf_weaken; [|apply (H (n, a) Hin); try assumption; apply (Hsx _ Hin)].
      unfold low. simpl.
      pose proof (size_in_fields _ _ Hin). simpl in *.
      pose proof (size_in_fields _ _ Hinb). simpl in *. lia.
  - discriminate Hsx.
  - (* maybe *)
    destruct y; try discriminate Hnv; try apply rf_refl.
    rewrite unify_tmaybe. simpl mtch. simpl in *.
    apply rf_bind; [|intros [e m1] _; apply rf_refl].
    eapply rf_weaken; [|apply IHx; assumption]. unfold low; simpl; lia.
Qed.

(* ------------------------------------------------------------------------------------------------ *)
(* Stage 2c: what a successful strict match means                                                    *)
(* ------------------------------------------------------------------------------------------------ *)

Lemma ty_ok_parts t : ty_ok t = true -> slot_free t = true /\ wf_ty t = true /\ simple t = true.
Proof. unfold ty_ok. intros H. apply andb_true_iff in H. destruct H as [H H3]. apply andb_true_iff in H. tauto. Qed.

Lemma ty_ok_intro t : slot_free t = true -> wf_ty t = true -> simple t = true -> ty_ok t = true.
Proof. unfold ty_ok. intros H1 H2 H3. rewrite H1, H2, H3. reflexivity. Qed.

(* a variable, if bound, is bound to a variable-free well-formed simple type *)
Definition gb (m : subst) (n : string) : Prop := forall u, assoc n m = Some u -> ty_ok u = true.

(* m' keeps every binding of m, exactly or up to type equality *)
Definition ext (m m' : subst) : Prop :=
  forall n u, assoc n m = Some u -> exists u', assoc n m' = Some u' /\ (u' = u \/ ty_eqb u u' = true).

Lemma ext_refl m : ext m m.
Proof. intros n u H. eauto. Qed.

Lemma ext_trans a b c : ext a b -> ext b c -> ext a c.
Proof.
  intros H1 H2 n u Ha. destruct (H1 n u Ha) as [u1 [Hb E1]]. destruct (H2 n u1 Hb) as [u2 [Hc E2]].
  exists u2. split; [exact Hc|].
  destruct E1 as [E1|E1]; destruct E2 as [E2|E2]; subst; auto.
  right. eapply eqb_trans; eauto.
Qed.

Lemma ext_bound m m' n : ext m m' -> (exists u, assoc n m = Some u) -> exists u, assoc n m' = Some u.
Proof. intros He [u Hu]. destruct (He n u Hu) as [u' [H _]]. eauto. Qed.

Lemma simple_obj_in fs n t : simple (TObj fs) = true -> In (n, t) fs -> simple t = true.
Proof. simpl. intros H Hin. rewrite forallb_forall in H. apply (H _ Hin). Qed.

Lemma map_fst_subst s (fs : list (string * ty)) :
  map fst (map (fun f => (fst f, subst_ty s (snd f))) fs) = map fst fs.
Proof. rewrite map_map. apply map_ext. intros [n t]; reflexivity. Qed.

(* substitutions that agree up to type equality on the variables of [a] give equal instances *)
Lemma subst_ext : forall a m1 m2,
  simple a = true -> wf_ty a = true ->
  (forall n, In n (vars_of a) -> exists u1 u2, assoc n m1 = Some u1 /\ assoc n m2 = Some u2 /\ ty_eqb u2 u1 = true) ->
  ty_eqb (subst_ty m2 a) (subst_ty m1 a) = true.
Proof.
  induction a using ty_ind'; intros m1 m2 Hs Hw Hv; try reflexivity; try discriminate Hs.
  - destruct (Hv n (or_introl Logic.eq_refl)) as [u1 [u2 [H1 [H2 E]]]]. simpl. rewrite H1, H2. exact E.
  - simpl in *. auto.
  - apply wf_map in Hw. destruct Hw as [_ [Hw1 Hw2]]. simpl in Hs. apply andb_true_iff in Hs. destruct Hs.
    simpl. rewrite IHa1, IHa2; try assumption; try reflexivity;
      intros n Hn; apply Hv; simpl; apply in_or_app; tauto.
  - pose proof Hw as Hw'. apply wf_obj in Hw. destruct Hw as [Hnd Hw].
    simpl subst_ty. apply ty_eqb_obj_spec. split; [rewrite !map_length; reflexivity|].
    intros n t' Hin. apply in_map_iff in Hin. destruct Hin as [[n0 t] [E Hin]]. simpl in E. inversion E; subst n0 t'.
    exists (subst_ty m1 t). split.
    + apply In_assoc; [rewrite map_fst_subst; exact Hnd|].
      apply in_map_iff. exists (n, t). split; [reflexivity|exact Hin].
    + rewrite Forall_forall in H. apply (H (n, t) Hin); simpl.
      * eapply simple_obj_in; eauto.
      * eauto.
      * intros v Hv'. apply Hv. simpl. apply in_flat_map. exists (n, t). split; assumption.
  - simpl in *. auto.
Qed.

Section MatchSound.
  Variable W : string -> Prop.

  Lemma subst_lift a b m1 m2 :
    simple a = true -> wf_ty a = true ->
    (forall n, In n (vars_of a) -> W n) ->
    (forall n, In n (vars_of a) -> exists u, assoc n m1 = Some u) ->
    (forall n, W n -> gb m1 n) -> (forall n, W n -> gb m2 n) -> ext m1 m2 ->
    ty_eqb (subst_ty m1 a) b = true -> ty_eqb (subst_ty m2 a) b = true.
  Proof.
    intros Hs Hw HW Hb Hg1 Hg2 He Hab.
    eapply eqb_trans; [|exact Hab]. apply subst_ext; try assumption.
    intros n Hn. destruct (Hb n Hn) as [u1 Hu1]. destruct (He n u1 Hu1) as [u2 [Hu2 E]].
    exists u1, u2. repeat split; try assumption.
    destruct (ty_ok_parts _ (Hg1 n (HW n Hn) u1 Hu1)) as [_ [Hw1 _]].
    destruct (ty_ok_parts _ (Hg2 n (HW n Hn) u2 Hu2)) as [_ [Hw2 _]].
    destruct E as [E|E]; [subst; apply eq_refl; assumption|apply eqb_sym_imp; assumption].
  Qed.

  Definition spost (m : subst) (vs : list string) (m' : subst) : Prop :=
    (forall n, ~ In n vs -> assoc n m' = assoc n m) /\ (forall n, W n -> gb m' n) /\ ext m m'.

  Definition sound_stmt' (x : ty) : Prop :=
    forall y m r m',
      simple x = true -> wf_ty x = true -> ty_ok y = true ->
      (forall n, In n (vars_of x) -> W n) -> (forall n, W n -> gb m n) ->
      mtch x y m = Ok (r, m') ->
      spost m (vars_of x) m' /\
      (ty_eqb r y = true ->
       (forall n, In n (vars_of x) -> exists u, assoc n m' = Some u) /\ ty_eqb (subst_ty m' x) y = true).

  Lemma spost_same m vs : (forall n, W n -> gb m n) -> spost m vs m.
  Proof. intros H. repeat split; auto using ext_refl. Qed.

  Lemma gb_update n y m : ty_ok y = true -> (forall v, W v -> gb m v) -> forall v, W v -> gb (update n y m) v.
  Proof.
    intros Hy Hg v Hv u Hu. destruct (String.eqb_spec v n) as [E|E].
    - subst v. rewrite assoc_update_same in Hu. inversion Hu; subst. exact Hy.
    - rewrite assoc_update_other in Hu by assumption. eapply Hg; eauto.
  Qed.

  Lemma ext_update n y m : (forall k, assoc n m = Some k -> ty_eqb k y = true) -> ext m (update n y m).
  Proof.
    intros Hk v u Hu. destruct (String.eqb_spec v n) as [E|E].
    - subst v. exists y. rewrite assoc_update_same. split; [reflexivity|]. right. auto.
    - exists u. rewrite assoc_update_other by assumption. auto.
  Qed.

  Lemma mtch_fields_sound f2 :
    (forall n b, In (n, b) f2 -> ty_ok b = true) ->
    forall f1, Forall (fun nf => sound_stmt' (snd nf)) f1 ->
    (forall n a, In (n, a) f1 -> simple a = true /\ wf_ty a = true /\ forall v, In v (vars_of a) -> W v) ->
    forall m us m', (forall n, W n -> gb m n) ->
    mtch_fields f2 f1 m = Ok (us, m') ->
    spost m (flat_map (fun f => vars_of (snd f)) f1) m' /\
    (eqb_fields f2 us = true ->
     (forall n, In n (flat_map (fun f => vars_of (snd f)) f1) -> exists u, assoc n m' = Some u) /\
     eqb_fields f2 (map (fun f => (fst f, subst_ty m' (snd f))) f1) = true).
  Proof.
    intros Hf2. induction 1 as [|[n a] r1 Ha Hr IH]; intros Hf1 m us m' Hg HM; simpl in HM.
    - inversion HM; subst. split; [apply spost_same; assumption|]. intros _. split; [intros n []|reflexivity].
    - destruct (assoc n f2) as [b|] eqn:Eb; [|discriminate HM].
      destruct (mtch a b m) as [[u m1]| | |] eqn:E1; simpl in HM; try discriminate HM.
      destruct (mtch_fields f2 r1 m1) as [[us' m2]| | |] eqn:E2; simpl in HM; try discriminate HM.
      inversion HM; subst us m2. clear HM.
      destruct (Hf1 n a (or_introl Logic.eq_refl)) as [Hsa [Hwa HWa]].
      pose proof (Hf2 n b (assoc_In _ _ _ Eb)) as Hb.
      destruct (Ha b m u m1 Hsa Hwa Hb HWa Hg E1) as [[P1 [G1 X1]] Q1]. simpl in P1, Q1.
      destruct (IH (fun n' a' Hin => Hf1 n' a' (or_intror Hin)) m1 us' m' G1 E2) as [[P2 [G2 X2]] Q2].
      split.
      + repeat split.
        * intros v Hv. simpl in Hv. rewrite P2, P1; [reflexivity| |]; intros Hin; apply Hv; apply in_or_app; tauto.
        * exact G2.
        * eapply ext_trans; eauto.
      + intros HE. simpl in HE. rewrite Eb in HE. apply andb_true_iff in HE. destruct HE as [HE1 HE2].
        destruct (Q1 HE1) as [B1 T1]. destruct (Q2 HE2) as [B2 T2].
        split.
        * intros v Hv. simpl in Hv. apply in_app_or in Hv. destruct Hv as [Hv|Hv]; [|auto].
          eapply ext_bound; eauto.
        * simpl. rewrite Eb. rewrite (subst_lift a b m1 m'); auto.
  Qed.

  Lemma mtch_sound : forall x, sound_stmt' x.
  Proof.
    induction x using ty_ind'; intros y m r m' Hsx Hwx Hy HW Hg HM; try discriminate Hsx.
    - (* top *) simpl in HM. inversion HM; subst. split; [apply spost_same; assumption|].
      intros E. split; [intros n []|exact E].
    - (* bot *) destruct y; simpl in HM; try discriminate HM. inversion HM; subst.
      split; [apply spost_same; assumption|]. intros E. split; [intros n []|exact E].
    - (* var *)
      destruct (ty_ok_parts _ Hy) as [Hy1 [Hy2 Hy3]].
      assert (r = y /\ m' = update n y m /\ (forall k, assoc n m = Some k -> ty_eqb k y = true)) as [Er [Em Hk]].
      { simpl in HM. destruct (assoc n m) as [k|] eqn:Ea.
        - destruct (ty_eqb k y) eqn:Ek; [|discriminate HM]. inversion HM; subst. repeat split.
          intros k' Hk'. inversion Hk'; subst. exact Ek.
        - inversion HM; subst. repeat split. intros k' Hk'. discriminate Hk'. }
      subst r m'. split.
      + repeat split.
        * intros v Hv. apply assoc_update_other. intros E. apply Hv. left. auto.
        * apply gb_update; assumption.
        * apply ext_update; assumption.
      + intros _. split.
        * intros v [E|[]]. subst v. exists y. apply assoc_update_same.
        * simpl. rewrite assoc_update_same. apply eq_refl. exact Hy2.
    - destruct y; simpl in HM; try discriminate HM; inversion HM; subst;
        (split; [apply spost_same; assumption|]); intros E; (split; [intros n []|exact E]).
    - destruct y; simpl in HM; try discriminate HM; inversion HM; subst;
        (split; [apply spost_same; assumption|]); intros E; (split; [intros n []|exact E]).
    - destruct y; simpl in HM; try discriminate HM; inversion HM; subst;
        (split; [apply spost_same; assumption|]); intros E; (split; [intros n []|exact E]).
    - destruct y; simpl in HM; try discriminate HM; inversion HM; subst;
        (split; [apply spost_same; assumption|]); intros E; (split; [intros n []|exact E]).
    - (* list *)
      destruct y; simpl in HM; try discriminate HM.
      + inversion HM; subst. split; [apply spost_same; assumption|]. intros E. discriminate E.
      + destruct (mtch x y m) as [[e m1]| | |] eqn:E1; simpl in HM; try discriminate HM.
        inversion HM; subst. clear HM.
        assert (ty_ok y = true) as Hy'.
        { destruct (ty_ok_parts _ Hy) as [A [B C]]. apply ty_ok_intro; assumption. }
        destruct (IHx y m e m' Hsx Hwx Hy' HW Hg E1) as [P1 Q1]. split; [exact P1|exact Q1].
    - (* map *)
      destruct y; simpl in HM; try discriminate HM.
      + inversion HM; subst. split; [apply spost_same; assumption|]. intros E. discriminate E.
      + destruct (mtch x1 y1 m) as [[k m1]| | |] eqn:E1; simpl in HM; try discriminate HM.
        destruct (mtch x2 y2 m1) as [[v m2]| | |] eqn:E2; simpl in HM; try discriminate HM.
        unfold mk_map in HM. destruct (keyable k); simpl in HM; [|discriminate HM].
        inversion HM; subst. clear HM.
        destruct (ty_ok_parts _ Hy) as [A [B C]]. simpl in A, C, Hsx.
        apply andb_true_iff in A. apply andb_true_iff in C. apply andb_true_iff in Hsx.
        apply wf_map in B. apply wf_map in Hwx.
        destruct A as [A1 A2]. destruct C as [C1 C2]. destruct Hsx as [S1 S2].
        destruct B as [_ [B1 B2]]. destruct Hwx as [_ [W1 W2]].
        assert (forall n, In n (vars_of x1) -> W n) as HW1 by (intros n Hn; apply HW; simpl; apply in_or_app; tauto).
        assert (forall n, In n (vars_of x2) -> W n) as HW2 by (intros n Hn; apply HW; simpl; apply in_or_app; tauto).
        destruct (IHx1 y1 m k m1 S1 W1 (ty_ok_intro _ A1 B1 C1) HW1 Hg E1) as [[P1 [G1 X1]] Q1].
        destruct (IHx2 y2 m1 v m' S2 W2 (ty_ok_intro _ A2 B2 C2) HW2 G1 E2) as [[P2 [G2 X2]] Q2].
        split.
        * repeat split.
          -- intros n Hn. simpl in Hn. rewrite P2, P1; [reflexivity| |]; intros Hin; apply Hn; apply in_or_app; tauto.
          -- exact G2.
          -- eapply ext_trans; eauto.
        * intros HE. simpl in HE. apply andb_true_iff in HE. destruct HE as [HE1 HE2].
          destruct (Q1 HE1) as [Bd1 T1]. destruct (Q2 HE2) as [Bd2 T2]. split.
          -- intros n Hn. simpl in Hn. apply in_app_or in Hn. destruct Hn as [Hn|Hn]; [|auto].
             eapply ext_bound; eauto.
          -- simpl. rewrite (subst_lift x1 y1 m1 m'), T2; auto.
    - (* obj *)
      destruct y; try (simpl in HM; discriminate HM).
      + simpl in HM. inversion HM; subst. split; [apply spost_same; assumption|]. intros E. discriminate E.
      + rewrite mtch_obj in HM.
        destruct (Nat.eqb (List.length fs) (List.length fs0)) eqn:El; simpl in HM; [|discriminate HM].
        destruct (mtch_fields fs0 fs m) as [[us m1]| | |] eqn:E1; simpl in HM; try discriminate HM.
        inversion HM; subst. clear HM.
        destruct (ty_ok_parts _ Hy) as [A [B C]]. simpl in A, C. apply wf_obj in B. destruct B as [_ B].
        rewrite forallb_forall in A, C.
        pose proof Hwx as Hwx'. apply wf_obj in Hwx'. destruct Hwx' as [_ Hwf].
        destruct (mtch_fields_sound fs0) with (f1 := fs) (m := m) (us := us) (m' := m') as [P1 Q1]; try assumption.
        { intros n b Hin. apply ty_ok_intro; [apply (A _ Hin)|eauto|apply (C _ Hin)]. }
        { intros n a Hin. repeat split; [eapply simple_obj_in; eauto|eauto|].
          intros v Hv. apply HW. simpl. apply in_flat_map. exists (n, a). split; assumption. }
        split; [exact P1|].
        intros HE. rewrite ty_eqb_obj in HE. apply andb_true_iff in HE. destruct HE as [_ HE].
        destruct (Q1 HE) as [Bd T]. split; [exact Bd|].
        simpl subst_ty. rewrite ty_eqb_obj, map_length, El, T. reflexivity.
    - (* maybe *)
      destruct y; simpl in HM; try discriminate HM.
      + inversion HM; subst. split; [apply spost_same; assumption|]. intros E. discriminate E.
      + destruct (mtch x y m) as [[e m1]| | |] eqn:E1; simpl in HM; try discriminate HM.
        inversion HM; subst. clear HM.
        assert (ty_ok y = true) as Hy'.
        { destruct (ty_ok_parts _ Hy) as [A [B C]]. apply ty_ok_intro; assumption. }
        destruct (IHx y m e m' Hsx Hwx Hy' HW Hg E1) as [P1 Q1]. split; [exact P1|exact Q1].
  Qed.

  Lemma mtch_list_sound : forall l1 l2 m us m',
    (forall a, In a l1 -> simple a = true /\ wf_ty a = true /\ forall v, In v (vars_of a) -> W v) ->
    forallb ty_ok l2 = true ->
    (forall n, W n -> gb m n) ->
    mtch_list l1 l2 m = Ok (us, m') ->
    spost m (flat_map vars_of l1) m' /\
    (List.length l1 = List.length l2 -> eqb_list us l2 = true ->
     (forall n, In n (flat_map vars_of l1) -> exists u, assoc n m' = Some u) /\
     eqb_list (map (subst_ty m') l1) l2 = true).
  Proof.
    induction l1 as [|a r1 IH]; intros l2 m us m' H1 H2 Hg HM.
    - simpl in HM. inversion HM; subst. split; [apply spost_same; assumption|].
      intros Hl _. destruct l2; [|discriminate Hl]. split; [intros n []|reflexivity].
    - destruct l2 as [|b r2].
      { simpl in HM. inversion HM; subst. split; [apply spost_same; assumption|]. intros Hl; discriminate Hl. }
      simpl in HM, H2. apply andb_true_iff in H2. destruct H2 as [Hb Hr2].
      destruct (mtch a b m) as [[u m1]| | |] eqn:E1; simpl in HM; try discriminate HM.
      destruct (mtch_list r1 r2 m1) as [[us' m2]| | |] eqn:E2; simpl in HM; try discriminate HM.
      inversion HM; subst us m2. clear HM.
      destruct (H1 a (or_introl Logic.eq_refl)) as [Hsa [Hwa HWa]].
      destruct (mtch_sound a b m u m1 Hsa Hwa Hb HWa Hg E1) as [[P1 [G1 X1]] Q1].
      destruct (IH r2 m1 us' m' (fun a' Hin => H1 a' (or_intror Hin)) Hr2 G1 E2) as [[P2 [G2 X2]] Q2].
      split.
      + repeat split.
        * intros v Hv. simpl in Hv. rewrite P2, P1; [reflexivity| |]; intros Hin; apply Hv; apply in_or_app; tauto.
        * exact G2.
        * eapply ext_trans; eauto.
      + intros Hl HE. simpl in Hl, HE. apply andb_true_iff in HE. destruct HE as [HE1 HE2].
        destruct (Q1 HE1) as [B1 T1]. destruct Q2 as [B2 T2]; [lia|exact HE2|].
        split.
        * intros v Hv. simpl in Hv. apply in_app_or in Hv. destruct Hv as [Hv|Hv]; [|auto].
          eapply ext_bound; eauto.
        * simpl. rewrite (subst_lift a b m1 m'), T2; auto.
  Qed.
End MatchSound.

(* ------------------------------------------------------------------------------------------------ *)
(* Stage 2d: a strict instance is found by the matcher; the matcher never panics                    *)
(* ------------------------------------------------------------------------------------------------ *)

Section MatchComplete.
  Variable s : subst.
  Hypothesis Hgs : ground_subst s = true.
  Hypothesis Hws : subst_wf s = true.

  (* where both bind a variable, they agree *)
  Definition cmp (m : subst) : Prop :=
    forall n u u', assoc n m = Some u -> assoc n s = Some u' -> ty_eqb u u' = true.

  Definition complete_stmt' (x : ty) : Prop :=
    forall y m, simple x = true -> wf_ty x = true -> ty_ok y = true -> cmp m ->
      ty_eqb (subst_ty s x) y = true ->
      exists r m', mtch x y m = Ok (r, m') /\ cmp m' /\ ty_eqb r y = true /\
                   (keyable x = true -> keyable y = true -> keyable r = true).

  Lemma mtch_fields_complete f2 :
    (forall n b, In (n, b) f2 -> ty_ok b = true) ->
    forall f1, Forall (fun nf => complete_stmt' (snd nf)) f1 ->
    (forall n a, In (n, a) f1 -> simple a = true /\ wf_ty a = true) ->
    forall m, cmp m -> eqb_fields f2 (map (fun f => (fst f, subst_ty s (snd f))) f1) = true ->
    exists us m', mtch_fields f2 f1 m = Ok (us, m') /\ cmp m' /\ eqb_fields f2 us = true /\
                  List.length us = List.length f1.
  Proof.
    intros Hf2. induction 1 as [|[n a] r1 Ha Hr IH]; intros Hf1 m Hc HE; simpl in HE |- *.
    - exists [], m. auto.
    - apply andb_true_iff in HE. destruct HE as [HE1 HE2].
      destruct (assoc n f2) as [b|] eqn:Eb; [|discriminate HE1].
      destruct (Hf1 n a (or_introl Logic.eq_refl)) as [Hsa Hwa].
      destruct (Ha b m Hsa Hwa (Hf2 n b (assoc_In _ _ _ Eb)) Hc HE1) as [u [m1 [E1 [C1 [T1 _]]]]].
      simpl in E1. rewrite E1. simpl.
      destruct (IH (fun n' a' Hin => Hf1 n' a' (or_intror Hin)) m1 C1 HE2) as [us [m2 [E2 [C2 [T2 L2]]]]].
      fold (mtch_fields f2). rewrite E2. simpl. exists ((n, u) :: us), m2.
      repeat split; try assumption.
      + simpl. rewrite Eb, T1, T2. reflexivity.
      + simpl. f_equal. exact L2.
  Qed.

  Lemma mtch_complete : forall x, complete_stmt' x.
  Proof.
    induction x using ty_ind'; intros y m Hsx Hwx Hy Hc HE; try discriminate Hsx;
      destruct (ty_ok_parts _ Hy) as [Hy1 [Hy2 Hy3]].
    - (* top *) exists TTop, m. simpl in *. repeat split; auto.
    - (* bot *) destruct y; simpl in HE; try discriminate HE. exists TBot, m. repeat split; auto.
    - (* var *)
      simpl in HE. destruct (assoc n s) as [t|] eqn:Ea.
      2:{ destruct y; simpl in HE; try discriminate HE. simpl in Hy1. discriminate Hy1. }
      assert (wf_ty t = true) as Hwt by (eapply wf_assoc; eauto).
      assert (mtch (TVar n) y m = Ok (y, update n y m)) as EM.
      { simpl. destruct (assoc n m) as [k|] eqn:Ek; [|reflexivity].
        rewrite (eqb_trans k t y); [reflexivity|eapply Hc; eauto|exact HE]. }
      exists y, (update n y m). repeat split; auto.
      + intros v u u' Hu Hu'. destruct (String.eqb_spec v n) as [E|E].
        * subst v. rewrite assoc_update_same in Hu. inversion Hu; subst u.
          rewrite Ea in Hu'. inversion Hu'; subst u'. apply eqb_sym_imp; assumption.
        * rewrite assoc_update_other in Hu by assumption. eapply Hc; eauto.
      + apply eq_refl. exact Hy2.
    - destruct y; simpl in HE; try discriminate HE. exists TNum, m. repeat split; auto.
    - destruct y; simpl in HE; try discriminate HE. exists TStr, m. repeat split; auto.
    - destruct y; simpl in HE; try discriminate HE. exists TBool, m. repeat split; auto.
    - destruct y; simpl in HE; try discriminate HE. exists TTime, m. repeat split; auto.
    - (* list *)
      destruct y; simpl in HE; try discriminate HE. simpl in *.
      destruct (IHx y m Hsx Hwx (ty_ok_intro _ Hy1 Hy2 Hy3) Hc HE) as [e [m1 [E1 [C1 [T1 _]]]]].
      rewrite E1. simpl. exists (TList e), m1. repeat split; auto; try (intros K; discriminate K).
    - (* map *)
      destruct y; simpl in HE; try discriminate HE.
      apply andb_true_iff in HE. destruct HE as [HE1 HE2].
      simpl in Hy1, Hy3, Hsx. apply andb_true_iff in Hy1. apply andb_true_iff in Hy3. apply andb_true_iff in Hsx.
      apply wf_map in Hy2. apply wf_map in Hwx.
      destruct Hy1 as [A1 A2]. destruct Hy3 as [C1 C2]. destruct Hsx as [S1 S2].
      destruct Hy2 as [Ky [B1 B2]]. destruct Hwx as [Kx [W1 W2]].
      destruct (IHx1 y1 m S1 W1 (ty_ok_intro _ A1 B1 C1) Hc HE1) as [k [m1 [E1 [Cm1 [T1 K1]]]]].
      destruct (IHx2 y2 m1 S2 W2 (ty_ok_intro _ A2 B2 C2) Cm1 HE2) as [v [m2 [E2 [Cm2 [T2 _]]]]].
      simpl. rewrite E1. simpl. rewrite E2. simpl. unfold mk_map. rewrite (K1 Kx Ky). simpl.
      exists (TMap k v), m2. repeat split; auto; try (intros K; discriminate K).
      simpl. rewrite T1, T2. reflexivity.
    - (* obj *)
      destruct y; try (simpl in HE; discriminate HE).
      simpl subst_ty in HE. rewrite ty_eqb_obj, map_length in HE. apply andb_true_iff in HE. destruct HE as [El HE].
      simpl in Hy1, Hy3. apply wf_obj in Hy2. destruct Hy2 as [_ Hy2]. rewrite forallb_forall in Hy1, Hy3.
      pose proof Hwx as Hwx'. apply wf_obj in Hwx'. destruct Hwx' as [_ Hwf].
      destruct (mtch_fields_complete fs0) with (f1 := fs) (m := m) as [us [m1 [E1 [C1 [T1 L1]]]]]; try assumption.
      { intros n b Hin. apply ty_ok_intro; [apply (Hy1 _ Hin)|eauto|apply (Hy3 _ Hin)]. }
      { intros n a Hin. split; [eapply simple_obj_in; eauto|eauto]. }
      rewrite mtch_obj, El. simpl. rewrite E1. simpl. exists (TObj us), m1. repeat split; auto; try (intros K; discriminate K).
      rewrite ty_eqb_obj, L1, El, T1. reflexivity.
    - (* maybe *)
      destruct y; simpl in HE; try discriminate HE. simpl in *.
      destruct (IHx y m Hsx Hwx (ty_ok_intro _ Hy1 Hy2 Hy3) Hc HE) as [e [m1 [E1 [C1 [T1 _]]]]].
      rewrite E1. simpl. exists (TMaybe e), m1. repeat split; auto; try (intros K; discriminate K).
  Qed.

  Lemma mtch_list_complete : forall l1 l2 m,
    (forall a, In a l1 -> simple a = true /\ wf_ty a = true) ->
    forallb ty_ok l2 = true -> cmp m ->
    eqb_list (map (subst_ty s) l1) l2 = true ->
    exists us m', mtch_list l1 l2 m = Ok (us, m') /\ cmp m' /\ eqb_list us l2 = true.
  Proof.
    induction l1 as [|a r1 IH]; intros [|b r2] m H1 H2 Hc HE; simpl in HE; try discriminate HE.
    - exists [], m. auto.
    - apply andb_true_iff in HE. destruct HE as [HE1 HE2].
      simpl in H2. apply andb_true_iff in H2. destruct H2 as [Hb Hr2].
      destruct (H1 a (or_introl Logic.eq_refl)) as [Hsa Hwa].
      destruct (mtch_complete a b m Hsa Hwa Hb Hc HE1) as [u [m1 [E1 [C1 [T1 _]]]]].
      destruct (IH r2 m1 (fun a' Hin => H1 a' (or_intror Hin)) Hr2 C1 HE2) as [us [m2 [E2 [C2 T2]]]].
      simpl. rewrite E1. simpl. rewrite E2. simpl. exists (u :: us), m2. repeat split; auto.
      simpl. rewrite T1, T2. reflexivity.
  Qed.
End MatchComplete.

(* the matcher never panics (and is fuel-free) *)
Definition total_stmt (x : ty) : Prop :=
  forall y m, wf_ty x = true -> wf_ty y = true ->
    mtch x y m = Fail \/ exists r m', mtch x y m = Ok (r, m') /\ (keyable x = true -> keyable y = true -> keyable r = true).

Lemma mtch_fields_total f2 :
  (forall n b, In (n, b) f2 -> wf_ty b = true) ->
  forall f1, Forall (fun nf => total_stmt (snd nf)) f1 -> (forall n a, In (n, a) f1 -> wf_ty a = true) ->
  forall m, mtch_fields f2 f1 m = Fail \/ exists us m', mtch_fields f2 f1 m = Ok (us, m').
Proof.
  intros Hf2. induction 1 as [|[n a] r1 Ha Hr IH]; intros Hf1 m; simpl.
  - right. eauto.
  - destruct (assoc n f2) as [b|] eqn:Eb; [|left; reflexivity].
    destruct (Ha b m (Hf1 n a (or_introl Logic.eq_refl)) (Hf2 n b (assoc_In _ _ _ Eb))) as [E|[u [m1 [E _]]]];
      simpl in E; rewrite E; simpl; [left; reflexivity|].
    fold (mtch_fields f2).
    destruct (IH (fun n' a' Hin => Hf1 n' a' (or_intror Hin)) m1) as [E2|[us [m2 E2]]]; rewrite E2; simpl;
      [left; reflexivity|right; eauto].
Qed.

Lemma mtch_total : forall x, total_stmt x.
Proof.
  induction x using ty_ind'; intros y m Hwx Hwy.
  - right. exists TTop, m. auto.
  - destruct y; simpl; auto; right; exists TBot, m; auto.
  - simpl. destruct (assoc n m) as [k|]; [destruct (ty_eqb k y); [|left; reflexivity]|];
      right; exists y, (update n y m); auto.
  - destruct y; simpl; auto; right; exists TNum, m; auto.
  - destruct y; simpl; auto; right; exists TStr, m; auto.
  - destruct y; simpl; auto; right; exists TBool, m; auto.
  - destruct y; simpl; auto; right; exists TTime, m; auto.
  - left. reflexivity.
  - destruct y; simpl; auto; try (right; exists (TList x), m; split; [reflexivity|intros K; discriminate K]).
    simpl in *. destruct (IHx y m Hwx Hwy) as [E|[e [m1 [E _]]]]; rewrite E; simpl; auto.
    right. exists (TList e), m1. split; [reflexivity|intros K; discriminate K].
  - destruct y; simpl; auto; try (right; exists (TMap x1 x2), m; split; [reflexivity|intros K; discriminate K]).
    apply wf_map in Hwx. apply wf_map in Hwy. destruct Hwx as [Kx [W1 W2]]. destruct Hwy as [Ky [B1 B2]].
    destruct (IHx1 y1 m W1 B1) as [E|[k [m1 [E K1]]]]; rewrite E; simpl; auto.
    destruct (IHx2 y2 m1 W2 B2) as [E2|[v [m2 [E2 _]]]]; rewrite E2; simpl; auto.
    unfold mk_map. rewrite (K1 Kx Ky). simpl. right. exists (TMap k v), m2. split; [reflexivity|intros K; discriminate K].
  - destruct y; try (simpl; auto; fail);
      try (right; exists (TObj fs), m; split; [reflexivity|intros K; discriminate K]).
    rewrite mtch_obj. destruct (negb (Nat.eqb (List.length fs) (List.length fs0))); [left; reflexivity|].
    apply wf_obj in Hwx. apply wf_obj in Hwy. destruct Hwx as [_ Hwx]. destruct Hwy as [_ Hwy].
    destruct (mtch_fields_total fs0 Hwy fs H Hwx m) as [E|[us [m1 E]]]; rewrite E; simpl; auto.
    right. exists (TObj us), m1. split; [reflexivity|intros K; discriminate K].
  - left. reflexivity.
  - destruct y; simpl; auto; try (right; exists (TMaybe x), m; split; [reflexivity|intros K; discriminate K]).
    simpl in *. destruct (IHx y m Hwx Hwy) as [E|[e [m1 [E _]]]]; rewrite E; simpl; auto.
    right. exists (TMaybe e), m1. split; [reflexivity|intros K; discriminate K].
Qed.

Lemma mtch_list_total : forall l1 l2 m,
  (forall a, In a l1 -> wf_ty a = true) -> (forall b, In b l2 -> wf_ty b = true) ->
  mtch_list l1 l2 m = Fail \/ exists us m', mtch_list l1 l2 m = Ok (us, m').
Proof.
  induction l1 as [|a r1 IH]; intros [|b r2] m H1 H2; simpl; try (right; eauto; fail).
  destruct (mtch_total a b m (H1 a (or_introl Logic.eq_refl)) (H2 b (or_introl Logic.eq_refl))) as [E|[u [m1 [E _]]]];
    rewrite E; simpl; auto.
  destruct (IH r2 m1 (fun a' Hin => H1 a' (or_intror Hin)) (fun b' Hin => H2 b' (or_intror Hin))) as [E2|[us [m2 E2]]];
    rewrite E2; simpl; auto.
  right. eauto.
Qed.

(* ------------------------------------------------------------------------------------------------ *)
(* Stage 2e: inferFun.  Names generated for the pseudo function                                      *)
(* ------------------------------------------------------------------------------------------------ *)

Lemma string_of_N_inj a b : string_of_N a = string_of_N b -> a = b.
Proof.
  unfold string_of_N. intros H.
  assert (forall n, N.to_uint n <> Decimal.Nil) as Hnn.
  { intros [|p]; simpl; [discriminate|]. apply DecimalPos.Unsigned.to_uint_nonnil. }
  assert (Some (N.to_uint a) = Some (N.to_uint b)) as E.
  { rewrite <- (NilZero.usu _ (Hnn a)), <- (NilZero.usu _ (Hnn b)). rewrite H. reflexivity. }
  inversion E as [E']. rewrite <- (DecimalN.Unsigned.of_to a), <- (DecimalN.Unsigned.of_to b). rewrite E'. reflexivity.
Qed.

Definition sname (fresh i : N) : string := "s" ++ string_of_N (fresh + i).
Definition snames (fresh : N) (n : nat) : list string := map (sname fresh) (seqN 1 n).
Definition tname (fresh : N) (n : nat) : string := "t" ++ string_of_N (fresh + N.of_nat n + 1).
Definition m_init (fresh : N) (params : list ty) (ret : ty) (n : nat) : subst :=
  (combine (snames fresh n) params ++ [(tname fresh n, ret)])%list.

Lemma seqN_lt a n i : In i (seqN a n) -> (a <= i)%N.
Proof.
  revert a. induction n as [|n IH]; intros a H; simpl in H; [contradiction|].
  destruct H as [E|H]; [subst; apply N.le_refl|]. apply IH in H. lia.
Qed.

Lemma seqN_NoDup a n : NoDup (seqN a n).
Proof.
  revert a. induction n as [|n IH]; intros a; simpl; constructor; [|apply IH].
  intros H. apply seqN_lt in H. lia.
Qed.

Lemma seqN_length a n : List.length (seqN a n) = n.
Proof. revert a. induction n as [|n IH]; intros a; simpl; [reflexivity|]. rewrite IH. reflexivity. Qed.

Lemma sname_inj fresh i j : sname fresh i = sname fresh j -> i = j.
Proof.
  unfold sname. simpl. intros H. inversion H as [H']. apply string_of_N_inj in H'. lia.
Qed.

Lemma snames_NoDup fresh n : NoDup (snames fresh n).
Proof.
  unfold snames. generalize (seqN_NoDup 1 n). generalize (seqN 1 n). intros l Hnd.
  induction Hnd as [|a r Hnotin Hnd IH]; simpl; constructor; [|exact IH].
  intros Hin. apply in_map_iff in Hin. destruct Hin as [j [E Hj]]. apply sname_inj in E. subst j. contradiction.
Qed.

Lemma snames_length fresh n : List.length (snames fresh n) = n.
Proof. unfold snames. rewrite map_length. apply seqN_length. Qed.

Lemma snames_In fresh n nm : In nm (snames fresh n) -> exists i, nm = sname fresh i.
Proof. unfold snames. intros H. apply in_map_iff in H. destruct H as [i [E _]]. eauto. Qed.

Lemma tname_not_sname fresh n i : tname fresh n <> sname fresh i.
Proof. unfold tname, sname. simpl. intros H. inversion H. Qed.

Lemma tname_form fresh n : tname fresh n = "t" ++ string_of_N (fresh + (N.of_nat n + 1)).
Proof. unfold tname. rewrite N.add_assoc. reflexivity. Qed.

(* ---- association lists ---- *)
Lemma update_absent n t (m : subst) : assoc n m = None -> update n t m = (m ++ [(n, t)])%list.
Proof.
  induction m as [|[k v] r IH]; simpl; intros H; [reflexivity|].
  destruct (String.eqb_spec n k) as [E|E]; [discriminate H|].
  destruct (String.eqb_spec k n) as [E'|E']; [congruence|]. rewrite IH by assumption. reflexivity.
Qed.

Lemma assoc_app {X} n (a b : list (string * X)) :
  assoc n (a ++ b)%list = match assoc n a with Some x => Some x | None => assoc n b end.
Proof.
  induction a as [|[k v] r IH]; simpl; [reflexivity|].
  destruct (String.eqb n k); [reflexivity|exact IH].
Qed.

Lemma assoc_not_in {X} n (l : list (string * X)) : ~ In n (map fst l) -> assoc n l = None.
Proof.
  induction l as [|[k v] r IH]; simpl; intros H; [reflexivity|].
  destruct (String.eqb_spec n k) as [E|E]; [exfalso; apply H; left; auto|]. apply IH. tauto.
Qed.

Lemma map_fst_combine {X Y} (a : list X) (b : list Y) : List.length a = List.length b -> map fst (combine a b) = a.
Proof.
  revert b. induction a as [|x r IH]; intros [|y s] H; simpl in *; try discriminate H; [reflexivity|].
  f_equal. apply IH. lia.
Qed.

(* ---- free_from ---- *)
Lemma free_from_absent : forall t n, simple t = true -> ~ In n (vars_of t) -> free_from t n = Ok true.
Proof.
  induction t using ty_ind'; intros v Hs Hv; simpl in Hs; try discriminate Hs; try reflexivity.
  - simpl. destruct (String.eqb_spec n v) as [E|E]; [exfalso; apply Hv; left; exact E|reflexivity].
  - simpl. auto.
  - apply andb_true_iff in Hs. destruct Hs as [H1 H2]. simpl in Hv |- *.
    rewrite IHt1; [simpl; apply IHt2|assumption|]; try assumption; intros Hin; apply Hv; apply in_or_app; tauto.
  - simpl. induction H as [|[n t] r Ht Hr IH]; [reflexivity|].
    simpl in *. apply andb_true_iff in Hs. destruct Hs as [H1 H2].
    rewrite Ht; [simpl; apply IH|assumption|]; try assumption; intros Hin; apply Hv; apply in_or_app; tauto.
  - simpl. auto.
Qed.

Lemma as_unbound_rf fa m t :
  (forall n, In n (vars_of t) -> assoc n m = None) -> wf_ty t = true ->
  rf (fa < ty_size t) (apply_subst fa m t) (Ok t).
Proof.
  intros Hv Hw. rewrite <- (asub_unbound m t Hv Hw).
  eapply rf_weaken; [|apply (as_rf fa m t 0)]; [lia|].
  intros n u Hn Hu. rewrite (Hv n Hn) in Hu. discriminate Hu.
Qed.

Lemma bind_var_fresh fa n t m :
  assoc n m = None -> (forall v, In v (vars_of t) -> assoc v m = None) -> ~ In n (vars_of t) ->
  simple t = true -> wf_ty t = true ->
  rf (fa < ty_size t) (bind_var fa n t m) (Ok (t, (m ++ [(n, t)])%list)).
Proof.
  intros Hn Hv Hnot Hs Hw. unfold bind_var.
  replace (Ok (t, (m ++ [(n, t)])%list)) with
    (let* y1 := Ok t in let* free := free_from y1 n in
     if free then match assoc n m with
                  | Some k => if ty_eqb k y1 then Ok (y1, update n y1 m) else Fail
                  | None => Ok (y1, update n y1 m) end else Fail).
  2:{ simpl. rewrite free_from_absent by assumption. simpl. rewrite Hn, update_absent by assumption. reflexivity. }
  apply rf_bind; [apply as_unbound_rf; assumption|]. intros y1 _. apply rf_refl.
Qed.

Lemma unify_var_var fa f n p m :
  unify fa (S f) (TVar n) (TVar p) m =
  let* ax := apply_subst fa m (TVar n) in
  let* ay := apply_subst fa m (TVar p) in
  if ty_eqb ax ay then Ok (TVar n, m) else bind_var fa n (TVar p) m.
Proof. reflexivity. Qed.

Lemma unify_fresh_var fa f n t m :
  assoc n m = None -> (forall v, In v (vars_of t) -> assoc v m = None) -> ~ In n (vars_of t) ->
  simple t = true -> wf_ty t = true ->
  rf (fa < ty_size t \/ f < 1) (unify fa f (TVar n) t m) (Ok (t, (m ++ [(n, t)])%list)).
Proof.
  intros Hn Hv Hnot Hs Hw. destruct f as [|f]; [right; split; [reflexivity|lia]|].
  destruct (is_var t) eqn:Eiv.
  - destruct t; try discriminate Eiv. rename n0 into p. rewrite unify_var_var.
    assert (n <> p) as Hnp by (intros E; apply Hnot; left; auto).
    replace (Ok (TVar p, (m ++ [(n, TVar p)])%list)) with
      (let* ax := Ok (TVar n) in let* ay := Ok (TVar p) in
       if ty_eqb ax ay then Ok (TVar n, m) else (Ok (TVar p, (m ++ [(n, TVar p)])%list) : res (ty * subst))).
    2:{ simpl. destruct (String.eqb_spec n p); [contradiction|reflexivity]. }
    apply rf_bind.
    { eapply rf_weaken; [|apply as_unbound_rf]; [simpl; lia| |reflexivity].
      intros v [E|[]]. subst v. exact Hn. }
    intros ax _. apply rf_bind.
    { eapply rf_weaken; [|apply as_unbound_rf]; [simpl; lia|exact Hv|reflexivity]. }
    intros ay _. destruct (ty_eqb ax ay); [apply rf_refl|].
    eapply rf_weaken; [|apply bind_var_fresh; assumption]. tauto.
  - rewrite unify_var by assumption. eapply rf_weaken; [|apply bind_var_fresh; assumption]. tauto.
Qed.

Lemma size_list_le (l : list ty) : List.length l <= fold_right (fun x a => ty_size x + a) 0 l.
Proof. induction l as [|a r IH]; simpl; [lia|]. pose proof (ty_size_pos a). lia. Qed.

Lemma size_map_TVar (l : list string) : fold_right (fun x a => ty_size x + a) 0 (map TVar l) = List.length l.
Proof. induction l as [|a r IH]; simpl; [reflexivity|]. rewrite IH. reflexivity. Qed.

Lemma unify_list_fresh fa f : forall names ps m,
  List.length names = List.length ps -> NoDup names ->
  (forall n, In n names -> assoc n m = None) ->
  (forall n p, In n names -> In p ps -> ~ In n (vars_of p)) ->
  (forall p v, In p ps -> In v (vars_of p) -> assoc v m = None) ->
  (forall p, In p ps -> simple p = true /\ wf_ty p = true) ->
  rf (fa < ty_size (TTuple ps) \/ f < 1) (unify_list fa f (map TVar names) ps m) (Ok (ps, (m ++ combine names ps)%list)).
Proof.
  induction names as [|n names IH]; intros [|p ps] m Hl Hnd Hn Hnp Hv Hp; simpl in Hl; try discriminate Hl.
  - simpl. rewrite app_nil_r. apply rf_refl.
  - inversion Hnd as [|? ? Hnotin Hnd']; subst.
    destruct (Hp p (or_introl Logic.eq_refl)) as [Hsp Hwp].
    change (unify_list fa f (map TVar (n :: names)) (p :: ps) m) with
      (let* (u, m1) := unify fa f (TVar n) p m in
       let* (us, m2) := unify_list fa f (map TVar names) ps m1 in Ok (u :: us, m2)).
    replace (Ok (p :: ps, (m ++ combine (n :: names) (p :: ps))%list)) with
      (let* (u, m1) := Ok (p, (m ++ [(n, p)])%list) in
       let* (us, m2) := Ok (ps, (m1 ++ combine names ps)%list) in (Ok (u :: us, m2) : res (list ty * subst))).
    2:{ simpl. rewrite <- app_assoc. reflexivity. }
    apply rf_bind.
    { eapply rf_weaken; [|apply unify_fresh_var; auto].
      - simpl. lia.
      - apply Hn. left; reflexivity.
      - intros v Hv'. eapply Hv; [left; reflexivity|exact Hv'].
      - apply Hnp; left; reflexivity. }
    intros [u m1] E. inversion E; subst u m1.
    apply rf_bind; [|intros [us m2] _; apply rf_refl].
    eapply rf_weaken; [|apply IH]; try assumption.
    + simpl. lia.
    + lia.
    + intros n' Hn'. rewrite assoc_app, (Hn n') by (right; exact Hn'). simpl.
      destruct (String.eqb_spec n' n); [subst; contradiction|reflexivity].
    + intros n' p' Hn' Hp'. apply Hnp; right; assumption.
    + intros p' v Hp' Hv'. rewrite assoc_app, (Hv p' v) by (try right; assumption). simpl.
      destruct (String.eqb_spec v n) as [E'|E']; [|reflexivity].
      subst v. exfalso. apply (Hnp n p'); [left; reflexivity|right; exact Hp'|exact Hv'].
    + intros p' Hp'. apply Hp. right; exact Hp'.
Qed.

Lemma unify_tfun1 fa f n1 a r1 n2 b r2 m :
  unify fa (S f) (TFun n1 [a] r1) (TFun n2 [b] r2) m =
  let* xp := apply_subst fa m a in
  let* yp := apply_subst fa m b in
  let* (u, m1) := unify fa f xp yp m in
  let* (r, m2) := unify fa f r1 r2 m1 in Ok (TFun n1 [u] r, m2).
Proof.
  cbn. destruct (apply_subst fa m a) as [xp| | |]; simpl; try reflexivity.
  destruct (apply_subst fa m b) as [yp| | |]; simpl; try reflexivity.
  destruct (unify fa f xp yp m) as [[u m1]| | |]; simpl; reflexivity.
Qed.

(* ------------------------------------------------------------------------------------------------ *)
(* Stage 2f: inferFun refines a fuel-free specification                                              *)
(* ------------------------------------------------------------------------------------------------ *)

Lemma rf_bind_ok {X Y} P (r1 : res X) x (k1 : X -> res Y) r2 :
  rf P r1 (Ok x) -> rf P (k1 x) r2 -> rf P (rbind r1 k1) r2.
Proof. intros [E|[E HP]] H2; subst r1; simpl; [exact H2|right; split; auto]. Qed.

Lemma rf_bind_fail {X Y} P (r1 : res X) (k1 : X -> res Y) : rf P r1 Fail -> rf P (rbind r1 k1) Fail.
Proof. intros [E|[E HP]]; subst r1; simpl; [left; reflexivity|right; split; auto]. Qed.

Definition msize (m : subst) : nat := fold_right (fun kv a => ty_size (snd kv) + a) 0 m.

Lemma msize_assoc m n u : assoc n m = Some u -> ty_size u <= msize m.
Proof.
  intros H. apply assoc_In in H. unfold msize. induction m as [|kv r IH]; [contradiction|].
  simpl. destruct H as [E|H]; [subst kv; simpl; lia|]. apply IH in H. lia.
Qed.

Definition infer_spec (fresh : N) (params : list ty) (ret : ty) (args : list ty) : res (list ty * ty) :=
  if negb (Nat.eqb (List.length args) (List.length params)) then Fail else
  let* (ks, m2) := mtch_list params args (m_init fresh params ret (List.length args)) in
  let* tres := asub m2 ret in
  if slot_free tres then Ok (ks, tres) else Fail.

Definition infer_bound (fresh : N) (params : list ty) (ret : ty) (args : list ty) : nat :=
  match mtch_list params args (m_init fresh params ret (List.length args)) with
  | Ok (_, m2) => msize m2
  | _ => 0
  end + ty_size (TTuple params) + ty_size ret + 2 * ty_size (TTuple args) + 5.

Lemma not_in_vars_not_named p n : ~ In n (vars_of p) -> is_var_named p n = false.
Proof.
  destruct p; simpl; intros H; try reflexivity.
  destruct (String.eqb_spec n0 n); [exfalso; apply H; left; assumption|reflexivity].
Qed.

Lemma as_chase fa m n p B :
  assoc n m = Some p -> ~ In n (vars_of p) ->
  (forall v u, In v (vars_of p) -> assoc v m = Some u -> slot_free u = true /\ wf_ty u = true /\ ty_size u <= B) ->
  rf (fa < ty_size p + B + 1) (apply_subst fa m (TVar n)) (asub m p).
Proof.
  intros Ha Hn Hb. destruct fa as [|fa]; [right; split; [reflexivity|lia]|].
  simpl. rewrite Ha, (not_in_vars_not_named _ _ Hn).
  eapply rf_weaken; [|apply (as_rf fa m p B Hb)]. lia.
Qed.

Lemma rmapM_names {Y} P (g : ty -> res Y) : forall names (ps : list Y),
  List.length names = List.length ps ->
  (forall n p, In (n, p) (combine names ps) -> rf P (g (TVar n)) (Ok p)) ->
  rf P (rmapM g (map TVar names)) (Ok ps).
Proof.
  induction names as [|n names IH]; intros [|p ps] Hl H; simpl in Hl; try discriminate Hl.
  - apply rf_refl.
  - simpl. eapply rf_bind_ok; [apply H; left; reflexivity|].
    eapply rf_bind_ok; [apply (IH ps); [lia|intros n' p' Hin; apply H; right; exact Hin]|]. apply rf_refl.
Qed.

Lemma wf_map_TVar l : forallb wf_ty (map TVar l) = true.
Proof. induction l; simpl; auto. Qed.

Lemma unify_list_rf fa f : forall l1 l2 m,
  forallb simple l1 = true -> forallb ty_ok l2 = true ->
  rf (fa < ty_size (TTuple l2) \/ f < ty_size (TTuple l1)) (unify_list fa f l1 l2 m) (mtch_list l1 l2 m).
Proof.
  induction l1 as [|a r1 IH]; intros [|b r2] m H1 H2; try apply rf_refl.
  simpl in H1, H2. apply andb_true_iff in H1. apply andb_true_iff in H2.
  destruct H1 as [Ha Hr1]. destruct H2 as [Hb Hr2]. destruct (ty_ok_parts _ Hb) as [B1 [B2 B3]].
  change (unify_list fa f (a :: r1) (b :: r2) m) with
    (let* (u, m1) := unify fa f a b m in let* (us, m2) := unify_list fa f r1 r2 m1 in Ok (u :: us, m2)).
  simpl mtch_list. apply rf_bind.
  { eapply rf_weaken; [|apply (unify_refines fa a f b m); assumption]. unfold low. simpl. lia. }
  intros [u m1] _. apply rf_bind; [|intros [us m2] _; apply rf_refl].
  eapply rf_weaken; [|apply IH; assumption]. simpl. lia.
Qed.

Section Infer.
  Variables (fresh : N) (name : string) (params : list ty) (ret : ty) (args : list ty).
  Hypothesis Hp : forall p, In p params -> simple p = true /\ wf_ty p = true.
  Hypothesis Hr1 : simple ret = true.
  Hypothesis Hr2 : wf_ty ret = true.
  Hypothesis Hfr : forall v i, In v (flat_map vars_of (ret :: params)) ->
                               v <> sname fresh i /\ v <> ("t" ++ string_of_N (fresh + i)).
  Hypothesis Ha : forallb ty_ok args = true.

  Let n := List.length args.
  Let m1 := m_init fresh params ret n.
  Let W := fun v => In v (flat_map vars_of params).

  Lemma vars_param_in p v : In p params -> In v (vars_of p) -> In v (flat_map vars_of (ret :: params)).
  Proof. intros Hp' Hv. simpl. apply in_or_app. right. apply in_flat_map. eauto. Qed.

  Lemma not_key_combine v : (forall i, v <> sname fresh i) -> ~ In v (map fst (combine (snames fresh n) params)).
  Proof.
    intros Hv Hin. apply in_map_iff in Hin. destruct Hin as [[k p] [E Hin]]. simpl in E. subst k.
    apply in_combine_l in Hin. apply snames_In in Hin. destruct Hin as [i E]. exact (Hv i E).
  Qed.

  Lemma m1_unbound v : In v (flat_map vars_of (ret :: params)) -> assoc v m1 = None.
  Proof.
    intros Hv. unfold m1, m_init. rewrite assoc_app.
    rewrite (assoc_not_in v (combine (snames fresh n) params)).
    - simpl. destruct (String.eqb_spec v (tname fresh n)) as [E|E]; [|reflexivity].
      exfalso. rewrite tname_form in E. exact (proj2 (Hfr v _ Hv) E).
    - apply not_key_combine. intros i. exact (proj1 (Hfr v i Hv)).
  Qed.

  Lemma m1_t : assoc (tname fresh n) m1 = Some ret.
  Proof.
    unfold m1, m_init. rewrite assoc_app, (assoc_not_in (tname fresh n) (combine (snames fresh n) params)).
    - simpl. rewrite String.eqb_refl. reflexivity.
    - apply not_key_combine. intros i. apply tname_not_sname.
  Qed.

  Lemma m1_s nm p : List.length params = n -> In (nm, p) (combine (snames fresh n) params) -> assoc nm m1 = Some p.
  Proof.
    intros Hl Hin. unfold m1, m_init. rewrite assoc_app.
    rewrite (In_assoc nm (combine (snames fresh n) params) p); [reflexivity| |exact Hin].
    rewrite map_fst_combine by (rewrite snames_length; auto). apply snames_NoDup.
  Qed.

  Lemma t_not_in_ret : ~ In (tname fresh n) (vars_of ret).
  Proof.
    intros Hin. rewrite tname_form in Hin.
    refine (proj2 (Hfr _ (N.of_nat n + 1)%N _) Logic.eq_refl). simpl. apply in_or_app. left. exact Hin.
  Qed.

  Lemma wf_params : wf_ty (TTuple params) = true.
  Proof. simpl. apply forallb_forall. intros p Hin. apply Hp; assumption. Qed.

  Definition pseudo : ty := TFun name [TTuple (map TVar (snames fresh n))] (TVar (tname fresh n)).

  Lemma step1 fa f :
    rf (fa < n + 2 + ty_size (TTuple params) + ty_size ret \/ f < 3)
       (unify fa f pseudo (TFun name [TTuple params] ret) [])
       (if Nat.eqb n (List.length params) then Ok (TFun name [TTuple params] ret, m1) else Fail).
  Proof.
    destruct f as [|f]; [right; split; [reflexivity|lia]|].
    unfold pseudo. rewrite unify_tfun1.
    eapply rf_bind_ok.
    { eapply rf_weaken; [|apply as_unbound_rf].
      - simpl. rewrite size_map_TVar, snames_length. lia.
      - intros v _. reflexivity.
      - simpl. apply wf_map_TVar. }
    eapply rf_bind_ok.
    { eapply rf_weaken; [|apply as_unbound_rf]; [lia|intros v _; reflexivity|apply wf_params]. }
    destruct f as [|f]; [right; split; [reflexivity|lia]|].
    rewrite unify_tuple, map_length, snames_length.
    destruct (Nat.eqb n (List.length params)) eqn:El; simpl negb; cbv iota; [|apply rf_refl].
    apply Nat.eqb_eq in El.
    eapply rf_bind_ok.
    { eapply rf_bind_ok.
      { eapply rf_weaken; [|apply unify_list_fresh].
        - simpl. intros [H|H]; [left|right]; lia.
        - rewrite snames_length. exact El.
        - apply snames_NoDup.
        - intros v _. reflexivity.
        - intros nm p Hnm Hp' Hv. apply snames_In in Hnm. destruct Hnm as [i E]. subst nm.
          exact (proj1 (Hfr _ i (vars_param_in _ _ Hp' Hv)) Logic.eq_refl).
        - intros p v _ _. reflexivity.
        - exact Hp. }
      apply rf_refl. }
    cbv beta iota.
    eapply rf_bind_ok.
    { eapply rf_weaken; [|apply unify_fresh_var]; try assumption.
      - intros [H|H]; [left|right]; lia.
      - simpl. apply assoc_not_in. apply not_key_combine. intros i. apply tname_not_sname.
      - intros v Hv. simpl. apply assoc_not_in. apply not_key_combine. intros i.
        refine (proj1 (Hfr v i _)). simpl. apply in_or_app. left. exact Hv.
      - apply t_not_in_ret. }
    apply rf_refl.
  Qed.

  Lemma step2 fa : List.length params = n ->
    rf (fa < ty_size (TTuple params) + 2) (apply_subst fa m1 (TTuple (map TVar (snames fresh n)))) (Ok (TTuple params)).
  Proof.
    intros Hl. destruct fa as [|fa]; [right; split; [reflexivity|lia]|].
    simpl apply_subst. unfold rmap. eapply rf_bind_ok; [|apply rf_refl].
    apply rmapM_names; [rewrite snames_length; auto|].
    intros nm p Hin.
    assert (In p params) as Hpin by (eapply in_combine_r; eauto).
    assert (In nm (snames fresh n)) as Hnm by (eapply in_combine_l; eauto).
    destruct (Hp p Hpin) as [Hsp Hwp].
    assert (forall v, In v (vars_of p) -> assoc v m1 = None) as Hun.
    { intros v Hv. apply m1_unbound. eapply vars_param_in; eauto. }
    rewrite <- (asub_unbound m1 p Hun Hwp).
    eapply rf_weaken; [|apply (as_chase fa m1 nm p 0)].
    - pose proof (size_in_list _ _ Hpin). simpl. lia.
    - apply m1_s; assumption.
    - intros Hv. apply snames_In in Hnm. destruct Hnm as [i E]. subst nm.
      exact (proj1 (Hfr _ i (vars_param_in _ _ Hpin Hv)) Logic.eq_refl).
    - intros v u Hv Hu. rewrite (Hun v Hv) in Hu. discriminate Hu.
  Qed.

  Lemma params_pre : forall a, In a params -> simple a = true /\ wf_ty a = true /\ forall v, In v (vars_of a) -> W v.
  Proof.
    intros a Hin. destruct (Hp a Hin) as [H1 H2]. repeat split; try assumption.
    intros v Hv. unfold W. apply in_flat_map. eauto.
  Qed.

  Lemma m1_gb : forall v, W v -> gb m1 v.
  Proof.
    intros v Hv u Hu. rewrite m1_unbound in Hu; [discriminate Hu|].
    simpl. apply in_or_app. right. exact Hv.
  Qed.

  (* facts about the substitution after matching the parameters *)
  Lemma m2_facts ks m2 : mtch_list params args m1 = Ok (ks, m2) ->
    assoc (tname fresh n) m2 = Some ret /\
    (forall v u, In v (vars_of ret) -> assoc v m2 = Some u -> W v /\ ty_ok u = true).
  Proof.
    intros HM.
    destruct (mtch_list_sound W params args m1 ks m2 params_pre Ha m1_gb HM) as [[P1 [G1 X1]] _].
    split.
    - rewrite P1; [apply m1_t|]. intros Hin.
      apply in_flat_map in Hin. destruct Hin as [p [Hp' Hv]].
      pose proof (vars_param_in _ _ Hp' Hv) as Hin. rewrite tname_form in Hin.
      exact (proj2 (Hfr _ _ Hin) Logic.eq_refl).
    - intros v u Hv Hu.
      destruct (in_dec string_dec v (flat_map vars_of params)) as [Hin|Hnin].
      + split; [exact Hin|]. exact (G1 v Hin u Hu).
      + rewrite (P1 v Hnin), m1_unbound in Hu; [discriminate Hu|]. simpl. apply in_or_app. left. exact Hv.
  Qed.

  Lemma infer_rf fa f :
    rf (fa < infer_bound fresh params ret args \/ f < infer_bound fresh params ret args)
       (infer_fun fa f fresh name params ret args) (infer_spec fresh params ret args).
  Proof.
    assert (map (fun i => fresh_var "s" (fresh + i)) (seqN 1 n) = map TVar (snames fresh n)) as Esx.
    { unfold snames. rewrite map_map. reflexivity. }
    unfold infer_fun, infer_spec. fold n. rewrite Esx.
    change (fresh_var "t" (fresh + N.of_nat n + 1)) with (TVar (tname fresh n)).
    fold pseudo. fold m1.
    pose proof (size_list_le args) as Hsz. fold n in Hsz.
    assert (n + 2 + ty_size (TTuple params) + ty_size ret + 3 <= infer_bound fresh params ret args) as Hb0.
    { unfold infer_bound. simpl. lia. }
    destruct (Nat.eqb n (List.length params)) eqn:El.
    2:{ simpl negb. cbv iota. apply rf_bind_fail.
        eapply rf_weaken; [|pose proof (step1 fa f) as H; rewrite El in H; exact H]. lia. }
    simpl negb. cbv iota. pose proof El as El'. apply Nat.eqb_eq in El'.
    eapply rf_bind_ok.
    { eapply rf_weaken; [|pose proof (step1 fa f) as H; rewrite El in H; exact H]. lia. }
    cbv beta iota.
    eapply rf_bind_ok.
    { eapply rf_weaken; [|apply step2; auto]. lia. }
    destruct f as [|f]; [right; split; [reflexivity|lia]|].
    rewrite unify_tuple. rewrite <- El', Nat.eqb_refl. simpl negb. cbv iota.
    assert (rf (fa < infer_bound fresh params ret args \/ S f < infer_bound fresh params ret args)
               (unify_list fa f params args m1) (mtch_list params args m1)) as H3.
    { eapply rf_weaken; [|apply unify_list_rf; [|exact Ha]].
      - unfold infer_bound. simpl. lia.
      - apply forallb_forall. intros p Hin. apply Hp; assumption. }
    unfold infer_bound in *. fold n in H3, Hb0 |- *. fold m1 in H3, Hb0 |- *.
    destruct (mtch_list params args m1) as [[ks m2]| | |] eqn:EM.
    2,3,4: (destruct H3 as [E|[E HP]]; rewrite E; simpl; [left; reflexivity|right; split; [reflexivity|exact HP]]).
    eapply rf_bind_ok.
    { eapply rf_bind_ok; [exact H3|]. apply rf_refl. }
    cbv beta iota.
    destruct (m2_facts ks m2 EM) as [Ht Hv].
    cbn [rbind].
    apply rf_bind; [|intros tres _; apply rf_refl].
    eapply rf_weaken; [|apply (as_chase fa m2 (tname fresh n) ret (msize m2) Ht t_not_in_ret)].
    - simpl. lia.
    - intros v u Hin Hu. destruct (Hv v u Hin Hu) as [_ Hok].
      destruct (ty_ok_parts _ Hok) as [A [B _]]. repeat split; try assumption. eapply msize_assoc; eauto.
  Qed.
End Infer.

(* ------------------------------------------------------------------------------------------------ *)
(* Stage 2g: the fuel-free specification of inferFun against [instantiates]                          *)
(* ------------------------------------------------------------------------------------------------ *)

Definition restrict (Wl : list string) (m : subst) : subst :=
  flat_map (fun n => match assoc n m with Some u => [(n, u)] | None => [] end) Wl.

Lemma In_restrict Wl m k u : In (k, u) (restrict Wl m) -> In k Wl /\ assoc k m = Some u.
Proof.
  unfold restrict. intros H. apply in_flat_map in H. destruct H as [n [Hn H]].
  destruct (assoc n m) as [u'|] eqn:E; [|contradiction]. destruct H as [H|[]]. inversion H; subst. auto.
Qed.

Lemma assoc_restrict_in Wl m n : In n Wl -> assoc n (restrict Wl m) = assoc n m.
Proof.
  induction Wl as [|a r IH]; intros Hin; [contradiction|].
  unfold restrict. simpl. fold (restrict r m).
  destruct (String.eqb_spec n a) as [E|E].
  - subst a. destruct (assoc n m) as [u|] eqn:Ea; simpl.
    + rewrite String.eqb_refl. reflexivity.
    + destruct (assoc n (restrict r m)) as [u|] eqn:E2; [|reflexivity].
      apply assoc_In in E2. apply In_restrict in E2. destruct E2 as [_ E2]. congruence.
  - destruct Hin as [Hin|Hin]; [congruence|].
    destruct (assoc a m) as [u|]; simpl; [|auto].
    destruct (String.eqb_spec n a); [congruence|auto].
Qed.

Lemma assoc_restrict_out Wl m n : ~ In n Wl -> assoc n (restrict Wl m) = None.
Proof.
  intros Hn. destruct (assoc n (restrict Wl m)) as [u|] eqn:E; [|reflexivity].
  apply assoc_In in E. apply In_restrict in E. tauto.
Qed.

Lemma subst_agree : forall t s s', simple t = true ->
  (forall v, In v (vars_of t) -> assoc v s = assoc v s') -> subst_ty s t = subst_ty s' t.
Proof.
  induction t using ty_ind'; intros s s' Hs Hv; try reflexivity; try discriminate Hs.
  - simpl. rewrite (Hv n (or_introl Logic.eq_refl)). reflexivity.
  - simpl in *. f_equal. auto.
  - simpl in Hs |- *. apply andb_true_iff in Hs. destruct Hs as [S1 S2].
    rewrite (IHt1 s s' S1), (IHt2 s s' S2); [reflexivity| |]; intros v Hin; apply Hv; simpl; apply in_or_app; tauto.
  - simpl. f_equal. apply map_ext_in. intros [n t] Hin. simpl. f_equal.
    rewrite Forall_forall in H. apply (H (n, t) Hin).
    + eapply simple_obj_in; eauto.
    + intros v Hv'. apply Hv. simpl. apply in_flat_map. exists (n, t). split; assumption.
  - simpl in *. f_equal. auto.
Qed.

Lemma tys_eqb_eq a b : tys_eqb a b = eqb_list a b.
Proof. reflexivity. Qed.

Lemma params_match_eq a b : params_match a b = eqb_list a b.
Proof. reflexivity. Qed.

Lemma eqb_list_length a b : eqb_list a b = true -> List.length a = List.length b.
Proof.
  revert b. induction a as [|x r IH]; intros [|y s] H; simpl in H; try discriminate H; [reflexivity|].
  apply andb_true_iff in H. simpl. f_equal. apply IH. tauto.
Qed.

Lemma keyable_nonvar_subst s k : keyable k = true -> is_var k = false -> subst_ty s k = k.
Proof. destruct k; simpl; intros H1 H2; try discriminate H1; try discriminate H2; reflexivity. Qed.

Lemma subst_simple : forall t s, simple t = true -> (forall n u, assoc n s = Some u -> simple u = true) ->
  simple (subst_ty s t) = true.
Proof.
  induction t using ty_ind'; intros s Hs Hu; try reflexivity; try discriminate Hs.
  - simpl. destruct (assoc n s) as [u|] eqn:E; [eauto|reflexivity].
  - simpl in *. auto.
  - simpl in *. apply andb_true_iff in Hs. destruct Hs. rewrite IHt1, IHt2 by assumption. reflexivity.
  - simpl. apply forallb_forall. intros [n t'] Hin. apply in_map_iff in Hin. destruct Hin as [[n0 t] [E Hin]].
    simpl in E. inversion E; subst. simpl. rewrite Forall_forall in H. apply (H (n, t) Hin); [|assumption].
    eapply simple_obj_in; eauto.
  - simpl in *. auto.
Qed.

Lemma subst_wf_nvk : forall t s, simple t = true -> wf_ty t = true -> no_var_key t = true ->
  (forall n u, assoc n s = Some u -> wf_ty u = true) -> wf_ty (subst_ty s t) = true.
Proof.
  induction t using ty_ind'; intros s Hs Hw Hk Hu; try reflexivity; try discriminate Hs.
  - simpl. destruct (assoc n s) as [u|] eqn:E; [eauto|reflexivity].
  - simpl in *. auto.
  - apply wf_map in Hw. destruct Hw as [K [W1 W2]]. simpl in Hs, Hk.
    apply andb_true_iff in Hs. destruct Hs as [S1 S2].
    apply andb_true_iff in Hk. destruct Hk as [Hk K2]. apply andb_true_iff in Hk. destruct Hk as [K0 K1].
    apply negb_true_iff in K0. simpl.
    rewrite (keyable_nonvar_subst s t1 K K0), K, W1. simpl. apply IHt2; assumption.
  - pose proof Hw as Hw'. apply wf_obj in Hw'. destruct Hw' as [_ Hwf].
    simpl in Hw. apply andb_true_iff in Hw. destruct Hw as [Hnd _].
    simpl. rewrite map_fst_subst, Hnd. simpl.
    apply forallb_forall. intros [n t'] Hin. apply in_map_iff in Hin. destruct Hin as [[n0 t] [E Hin]].
    simpl in E. inversion E; subst. simpl. rewrite Forall_forall in H. apply (H (n, t) Hin); try assumption.
    + eapply simple_obj_in; eauto.
    + eauto.
    + simpl in Hk. rewrite forallb_forall in Hk. apply (Hk _ Hin).
  - simpl in *. auto.
Qed.

Lemma rmapM_map_ok {X Y} (g : X -> res Y) (h : X -> Y) l :
  (forall x, In x l -> g x = Ok (h x)) -> rmapM g l = Ok (map h l).
Proof.
  induction l as [|a r IH]; intros H; simpl; [reflexivity|].
  rewrite (H a) by (left; reflexivity). simpl. rewrite IH by (intros x Hin; apply H; right; exact Hin). reflexivity.
Qed.

Lemma asub_nvk : forall t m, simple t = true -> wf_ty t = true -> no_var_key t = true ->
  asub m t = Ok (subst_ty m t).
Proof.
  induction t using ty_ind'; intros m Hs Hw Hk; try reflexivity; try discriminate Hs.
  - simpl. destruct (assoc n m); reflexivity.
  - simpl in *. rewrite IHt by assumption. reflexivity.
  - apply wf_map in Hw. destruct Hw as [K [W1 W2]]. simpl in Hs, Hk.
    apply andb_true_iff in Hs. destruct Hs as [S1 S2].
    apply andb_true_iff in Hk. destruct Hk as [Hk K2]. apply andb_true_iff in Hk. destruct Hk as [K0 K1].
    apply negb_true_iff in K0. simpl.
    rewrite IHt1, IHt2 by assumption. simpl. unfold mk_map.
    rewrite (keyable_nonvar_subst m t1 K K0), K. reflexivity.
  - pose proof Hw as Hw'. apply wf_obj in Hw'. destruct Hw' as [_ Hwf].
    simpl. 
    rewrite (rmapM_map_ok _ (fun f => (fst f, subst_ty m (snd f)))); [reflexivity|].
    intros [n t] Hin. simpl. rewrite Forall_forall in H. specialize (H (n, t) Hin m). simpl in H.
    rewrite H; [reflexivity| | |].
    + eapply simple_obj_in; eauto.
    + eauto.
    + simpl in Hk. rewrite forallb_forall in Hk. apply (Hk _ Hin).
  - simpl in *. rewrite IHt by assumption. reflexivity.
Qed.

Lemma slot_free_subst_bound : forall t s, simple t = true -> slot_free (subst_ty s t) = true ->
  forall v, In v (vars_of t) -> exists u, assoc v s = Some u.
Proof.
  induction t using ty_ind'; intros s Hs Hf v Hv; try (simpl in Hv; contradiction); try discriminate Hs.
  - simpl in Hv. destruct Hv as [E|[]]. subst v. simpl in Hf. destruct (assoc n s) as [u|]; [eauto|discriminate Hf].
  - simpl in *. eauto.
  - simpl in *. apply andb_true_iff in Hs. apply andb_true_iff in Hf. destruct Hs, Hf.
    apply in_app_or in Hv. destruct Hv; eauto.
  - simpl in Hv. apply in_flat_map in Hv. destruct Hv as [[n t] [Hin Hv]].
    rewrite Forall_forall in H. apply (H (n, t) Hin s); [eapply simple_obj_in; eauto| |exact Hv].
    simpl in Hf. rewrite forallb_forall in Hf. apply (Hf (n, subst_ty s t)).
    apply in_map_iff. exists (n, t). auto.
  - simpl in *. eauto.
Qed.

Lemma subst_slot_free : forall t s, simple t = true ->
  (forall v, In v (vars_of t) -> exists u, assoc v s = Some u /\ slot_free u = true) ->
  slot_free (subst_ty s t) = true.
Proof.
  induction t using ty_ind'; intros s Hs Hv; try reflexivity; try discriminate Hs.
  - simpl. destruct (Hv n (or_introl Logic.eq_refl)) as [u [E Hu]]. rewrite E. exact Hu.
  - simpl in *. auto.
  - simpl in *. apply andb_true_iff in Hs. destruct Hs.
    rewrite IHt1, IHt2; try assumption; try reflexivity; intros v Hin; apply Hv; apply in_or_app; tauto.
  - simpl. apply forallb_forall. intros [n t'] Hin. apply in_map_iff in Hin. destruct Hin as [[n0 t] [E Hin]].
    simpl in E. inversion E; subst. simpl. rewrite Forall_forall in H. apply (H (n, t) Hin).
    + eapply simple_obj_in; eauto.
    + intros v Hv'. apply Hv. simpl. apply in_flat_map. exists (n, t). split; assumption.
  - simpl in *. auto.
Qed.

Section Spec.
  Variables (fresh : N) (params : list ty) (ret : ty) (args : list ty).
  Hypothesis Hp : forall p, In p params -> simple p = true /\ wf_ty p = true.
  Hypothesis Hr1 : simple ret = true.
  Hypothesis Hr2 : wf_ty ret = true.
  Hypothesis Hnk : no_var_key ret = true.
  Hypothesis Hfr : forall v i, In v (flat_map vars_of (ret :: params)) ->
                               v <> sname fresh i /\ v <> ("t" ++ string_of_N (fresh + i)).
  Hypothesis Ha : forallb ty_ok args = true.

  Let n := List.length args.
  Let m1 := m_init fresh params ret n.
  Let Wl := flat_map vars_of params.
  Let W := fun v => In v Wl.

  Lemma spec_sound ps rt :
    infer_spec fresh params ret args = Ok (ps, rt) -> eqb_list ps args = true ->
    (exists s, instantiates s params ret args rt) /\ ty_ok rt = true.
  Proof.
    unfold infer_spec. fold n. fold m1. intros HI HE.
    destruct (Nat.eqb n (List.length params)) eqn:El; simpl in HI; [|discriminate HI].
    apply Nat.eqb_eq in El.
    destruct (mtch_list params args m1) as [[ks m2]| | |] eqn:EM; simpl in HI; try discriminate HI.
    rewrite (asub_nvk ret m2 Hr1 Hr2 Hnk) in HI. simpl in HI.
    destruct (slot_free (subst_ty m2 ret)) eqn:Esf; [|discriminate HI]. inversion HI; subst ks rt. clear HI.
    destruct (mtch_list_sound W params args m1 ps m2 (params_pre params Hp) Ha
                (m1_gb fresh params ret args Hfr) EM) as [[P1 [G1 X1]] Q1].
    destruct Q1 as [Bd T]; [symmetry; exact El|exact HE|].
    set (s := restrict Wl m2).
    assert (forall k u, In (k, u) s -> ty_ok u = true) as Hs_ok.
    { intros k u Hin. apply In_restrict in Hin. destruct Hin as [Hk Hu]. exact (G1 k Hk u Hu). }
    assert (forall v, In v (vars_of ret) -> assoc v s = assoc v m2) as Hagree.
    { intros v Hv. destruct (in_dec string_dec v Wl) as [Hin|Hnin].
      - apply assoc_restrict_in. exact Hin.
      - unfold s. rewrite (assoc_restrict_out Wl m2 v Hnin). symmetry. rewrite (P1 v Hnin).
        apply (m1_unbound fresh params ret args Hfr). simpl. apply in_or_app. left. exact Hv. }
    assert (subst_ty m2 ret = subst_ty s ret) as Eret by (apply subst_agree; [exact Hr1|intros v Hv; symmetry; auto]).
    split.
    - exists s. repeat split.
      + intros k Hk. apply in_map_iff in Hk. destruct Hk as [[k' u] [E Hin]]. simpl in E. subst k'.
        apply In_restrict in Hin. tauto.
      + unfold ground_subst. apply forallb_forall. intros [k u] Hin. simpl.
        destruct (ty_ok_parts _ (Hs_ok k u Hin)) as [A [_ C]]. rewrite A, C. reflexivity.
      + apply forallb_forall. intros [k u] Hin. simpl. destruct (ty_ok_parts _ (Hs_ok k u Hin)) as [_ [B _]]. exact B.
      + rewrite tys_eqb_eq. rewrite <- T. f_equal. apply map_ext_in. intros p Hin.
        apply subst_agree; [apply Hp; exact Hin|]. intros v Hv. apply assoc_restrict_in.
        apply in_flat_map. eauto.
      + exact Eret.
      + exact Esf.
    - apply ty_ok_intro; [exact Esf| |].
      + rewrite Eret. apply subst_wf_nvk; try assumption. intros k u Hu. apply assoc_In in Hu.
        destruct (ty_ok_parts _ (Hs_ok k u Hu)) as [_ [B _]]. exact B.
      + rewrite Eret. apply subst_simple; [exact Hr1|]. intros k u Hu. apply assoc_In in Hu.
        destruct (ty_ok_parts _ (Hs_ok k u Hu)) as [_ [_ C]]. exact C.
  Qed.

  Lemma spec_complete s rt' :
    instantiates s params ret args rt' ->
    exists ps rt, infer_spec fresh params ret args = Ok (ps, rt) /\ eqb_list ps args = true /\ ty_eqb rt rt' = true.
  Proof.
    intros [Hdom [Hgs [Hws [HT [Hrt Hsf]]]]]. rewrite tys_eqb_eq in HT.
    pose proof (eqb_list_length _ _ HT) as Hlen. rewrite map_length in Hlen.
    unfold infer_spec. fold n. fold m1. fold n in Hlen. rewrite <- Hlen, Nat.eqb_refl. simpl negb. cbv iota.
    assert (cmp s m1) as Hc1.
    { intros k u u' Hu Hu'. exfalso. apply assoc_In_keys in Hu'. apply Hdom in Hu'.
      rewrite (m1_unbound fresh params ret args Hfr) in Hu; [discriminate Hu|].
      simpl. apply in_or_app. right. exact Hu'. }
    destruct (mtch_list_complete s Hws params args m1 Hp Ha Hc1 HT) as [us [m2 [EM [Hc2 HE]]]].
    rewrite EM. simpl.
    destruct (mtch_list_sound W params args m1 us m2 (params_pre params Hp) Ha
                (m1_gb fresh params ret args Hfr) EM) as [[P1 [G1 X1]] Q1].
    destruct Q1 as [Bd T]; [exact Hlen|exact HE|].
    rewrite (asub_nvk ret m2 Hr1 Hr2 Hnk). simpl.
    assert (forall v, In v (vars_of ret) ->
              exists u1 u2, assoc v s = Some u1 /\ assoc v m2 = Some u2 /\ ty_eqb u2 u1 = true) as Hboth.
    { intros v Hv. subst rt'. destruct (slot_free_subst_bound ret s Hr1 Hsf v Hv) as [u1 Hu1].
      assert (In v Wl) as Hin by (apply Hdom; eapply assoc_In_keys; eauto).
      destruct (Bd v Hin) as [u2 Hu2]. exists u1, u2. repeat split; try assumption. eapply Hc2; eauto. }
    assert (slot_free (subst_ty m2 ret) = true) as Esf.
    { apply subst_slot_free; [exact Hr1|]. intros v Hv. destruct (Hboth v Hv) as [u1 [u2 [H1 [H2 _]]]].
      exists u2. split; [exact H2|].
      assert (W v) as Hin by (apply Hdom; eapply assoc_In_keys; eauto).
      destruct (ty_ok_parts _ (G1 v Hin u2 H2)) as [A _]. exact A. }
    rewrite Esf. exists us, (subst_ty m2 ret). repeat split; try assumption.
    subst rt'. apply subst_ext; assumption.
  Qed.

  Lemma spec_total :
    infer_spec fresh params ret args = Fail \/ exists ps rt, infer_spec fresh params ret args = Ok (ps, rt).
  Proof.
    unfold infer_spec. destruct (negb (Nat.eqb (List.length args) (List.length params))); [left; reflexivity|].
    destruct (mtch_list_total params args (m_init fresh params ret (List.length args))) as [E|[us [m2 E]]].
    - intros a Hin. apply Hp; exact Hin.
    - intros b Hin. rewrite forallb_forall in Ha. destruct (ty_ok_parts _ (Ha b Hin)) as [_ [B _]]. exact B.
    - rewrite E. left; reflexivity.
    - rewrite E. simpl. rewrite (asub_nvk ret m2 Hr1 Hr2 Hnk). simpl.
      destruct (slot_free (subst_ty m2 ret)); [right; eauto|left; reflexivity].
  Qed.
End Spec.

(* ------------------------------------------------------------------------------------------------ *)
(* Stage 3a: tables, try_infer and overload resolution                                               *)
(* ------------------------------------------------------------------------------------------------ *)

Lemma sig_ok_parts sg : sig_ok sg = true ->
  (forall p, In p (s_params sg) -> simple p = true /\ wf_ty p = true) /\ simple (s_ret sg) = true /\ wf_ty (s_ret sg) = true.
Proof.
  unfold sig_ok. intros H. apply andb_true_iff in H. destruct H as [H H3]. apply andb_true_iff in H. destruct H as [H1 H2].
  repeat split; try assumption; rewrite forallb_forall in H1; specialize (H1 p H);
    apply andb_true_iff in H1; tauto.
Qed.

Lemma fenv_mono fe k sg : fenv_ok fe = true -> assoc k (f_mono fe) = Some sg ->
  sig_ok sg = true /\ slot_free (sig_ty sg) = true.
Proof.
  unfold fenv_ok. intros H Ha. apply andb_true_iff in H. destruct H as [H _].
  rewrite forallb_forall in H. specialize (H _ (assoc_In _ _ _ Ha)). simpl in H. apply andb_true_iff in H. exact H.
Qed.

Lemma fenv_poly fe k sigs sg : fenv_ok fe = true -> assoc k (f_poly fe) = Some sigs -> In sg sigs ->
  sig_ok sg = true /\ no_var_key (s_ret sg) = true.
Proof.
  unfold fenv_ok. intros H Ha Hin. apply andb_true_iff in H. destruct H as [_ H].
  rewrite forallb_forall in H. specialize (H _ (assoc_In _ _ _ Ha)). simpl in H.
  rewrite forallb_forall in H. specialize (H _ Hin). apply andb_true_iff in H. exact H.
Qed.

(* the hypotheses on one polymorphic signature *)
Definition psig_ok (fresh : N) (sg : fsig) : Prop :=
  sig_ok sg = true /\ no_var_key (s_ret sg) = true /\
  forall v i, In v (flat_map vars_of (s_ret sg :: s_params sg)) ->
              v <> sname fresh i /\ v <> ("t" ++ string_of_N (fresh + i)).

Lemma psig_ok_intro fe fresh k sigs sg :
  fenv_ok fe = true -> fresh_ok fe fresh -> assoc k (f_poly fe) = Some sigs -> In sg sigs -> psig_ok fresh sg.
Proof.
  intros Hfe Hfr Ha Hin. destruct (fenv_poly fe k sigs sg Hfe Ha Hin) as [H1 H2].
  repeat split; try assumption; apply (Hfr k sigs sg v i Ha Hin H).
Qed.

Definition spec_opt (fresh : N) (sg : fsig) (args : list ty) : option (list ty * ty) :=
  match infer_spec fresh (s_params sg) (s_ret sg) args with Ok x => Some x | _ => None end.

Lemma try_infer_ok fuel fresh sg args o :
  psig_ok fresh sg -> forallb ty_ok args = true ->
  try_infer fuel fresh sg args = COk o -> o = spec_opt fresh sg args.
Proof.
  intros [Hs [Hk Hfr]] Ha H. destruct (sig_ok_parts _ Hs) as [Hp [Hr1 Hr2]].
  unfold try_infer in H. unfold spec_opt.
  pose proof (infer_rf fresh (s_name sg) (s_params sg) (s_ret sg) args Hp Hr1 Hr2 Hfr Ha fuel fuel) as R.
  destruct R as [E|[E _]]; rewrite E in H; [|discriminate H].
  destruct (spec_total fresh (s_params sg) (s_ret sg) args Hp Hr1 Hr2 Hk Ha) as [E2|[ps [rt E2]]];
    rewrite E2 in H |- *; simpl in H; inversion H; reflexivity.
Qed.

Lemma try_infer_big fuel fresh sg args :
  psig_ok fresh sg -> forallb ty_ok args = true ->
  infer_bound fresh (s_params sg) (s_ret sg) args <= fuel ->
  try_infer fuel fresh sg args = COk (spec_opt fresh sg args).
Proof.
  intros [Hs [Hk Hfr]] Ha Hb. destruct (sig_ok_parts _ Hs) as [Hp [Hr1 Hr2]].
  unfold try_infer, spec_opt.
  pose proof (infer_rf fresh (s_name sg) (s_params sg) (s_ret sg) args Hp Hr1 Hr2 Hfr Ha fuel fuel) as R.
  apply rf_fuel_free in R; [|lia]. rewrite R.
  destruct (spec_total fresh (s_params sg) (s_ret sg) args Hp Hr1 Hr2 Hk Ha) as [E2|[ps [rt E2]]];
    rewrite E2; reflexivity.
Qed.

Lemma spec_opt_sound fresh sg args ps rt :
  psig_ok fresh sg -> forallb ty_ok args = true ->
  spec_opt fresh sg args = Some (ps, rt) -> params_match ps args = true ->
  (exists s, instantiates s (s_params sg) (s_ret sg) args rt) /\ ty_ok rt = true.
Proof.
  intros [Hs [Hk Hfr]] Ha H HM. destruct (sig_ok_parts _ Hs) as [Hp [Hr1 Hr2]].
  unfold spec_opt in H.
  destruct (infer_spec fresh (s_params sg) (s_ret sg) args) as [[ps' rt']| | |] eqn:E; try discriminate H.
  inversion H; subst. eapply spec_sound; eauto.
Qed.

Lemma spec_opt_complete fresh sg args s rt' :
  psig_ok fresh sg -> forallb ty_ok args = true ->
  instantiates s (s_params sg) (s_ret sg) args rt' ->
  exists ps rt, spec_opt fresh sg args = Some (ps, rt) /\ params_match ps args = true /\ ty_eqb rt rt' = true.
Proof.
  intros [Hs [Hk Hfr]] Ha HI. destruct (sig_ok_parts _ Hs) as [Hp [Hr1 Hr2]].
  destruct (spec_complete fresh (s_params sg) (s_ret sg) args Hp Hr1 Hr2 Hk Hfr Ha s rt' HI) as [ps [rt [E [M T]]]].
  exists ps, rt. unfold spec_opt. rewrite E. auto.
Qed.

Definition resolve_go (fuel : nat) (fresh : N) (pk : string) (args : list ty) :=
  fix go (sigs : list fsig) (i : Z) : cres (string * Z * list ty * ty) :=
    match sigs with
    | [] => CErr
    | s :: r =>
        let+ o := try_infer fuel fresh s args in
        match o with
        | Some (ps, rt) => if params_match ps args then COk (pk, i, ps, rt) else go r (i + 1)%Z
        | None => go r (i + 1)%Z
        end
    end.

Lemma resolve_unfold fe fuel fresh name args :
  resolve fe fuel fresh name args =
  match assoc (mono_key name args) (f_mono fe) with
  | Some s => COk (mono_key name args, (-1)%Z, s_params s, s_ret s)
  | None =>
      match assoc (poly_key name (List.length args)) (f_poly fe) with
      | None => CErr
      | Some sigs => resolve_go fuel fresh (poly_key name (List.length args)) args sigs 0%Z
      end
  end.
Proof. reflexivity. Qed.

Lemma resolve_go_sound fuel fresh pk args : forall sigs i key idx ps rt,
  (forall sg, In sg sigs -> psig_ok fresh sg) -> forallb ty_ok args = true ->
  resolve_go fuel fresh pk args sigs i = COk (key, idx, ps, rt) ->
  params_match ps args = true /\ ty_ok rt = true /\
  exists sg s, first_applicable sigs args sg /\ instantiates s (s_params sg) (s_ret sg) args rt.
Proof.
  induction sigs as [|sg r IH]; intros i key idx ps rt Hs Ha H; simpl in H; [discriminate H|].
  destruct (try_infer fuel fresh sg args) as [o| |] eqn:ET; simpl in H; try discriminate H.
  pose proof (Hs sg (or_introl Logic.eq_refl)) as Hsg.
  apply (try_infer_ok fuel fresh sg args o Hsg Ha) in ET. subst o.
  assert (forall ps' rt', spec_opt fresh sg args = Some (ps', rt') -> params_match ps' args = false ->
                          ~ applicable sg args) as Hmis.
  { intros ps' rt' E M [s [rt2 HI]].
    destruct (spec_opt_complete fresh sg args s rt2 Hsg Ha HI) as [ps2 [rt3 [E2 [M2 _]]]].
    rewrite E in E2. inversion E2; subst. congruence. }
  assert (spec_opt fresh sg args = None -> ~ applicable sg args) as Hnone.
  { intros E [s [rt2 HI]].
    destruct (spec_opt_complete fresh sg args s rt2 Hsg Ha HI) as [ps2 [rt3 [E2 _]]]. congruence. }
  assert (forall key idx ps rt, resolve_go fuel fresh pk args r (i + 1)%Z = COk (key, idx, ps, rt) ->
            ~ applicable sg args ->
            params_match ps args = true /\ ty_ok rt = true /\
            exists sg' s, first_applicable (sg :: r) args sg' /\ instantiates s (s_params sg') (s_ret sg') args rt)
    as Hlater.
  { intros key' idx' ps' rt' H' Hna.
    destruct (IH (i + 1)%Z key' idx' ps' rt' (fun sg' Hin => Hs sg' (or_intror Hin)) Ha H') as [M [K [sg' [s [F I]]]]].
    repeat split; try assumption. exists sg', s. split; [apply fa_later; assumption|exact I]. }
  destruct (spec_opt fresh sg args) as [[ps' rt']|] eqn:ES.
  - destruct (params_match ps' args) eqn:EM.
    + inversion H; subst. destruct (spec_opt_sound fresh sg args ps rt Hsg Ha ES EM) as [[s HI] K].
      repeat split; try assumption. exists sg, s. split; [|exact HI]. apply fa_here. exists s, rt. exact HI.
    + apply (Hlater _ _ _ _ H). eapply Hmis; eauto.
  - apply (Hlater _ _ _ _ H). auto.
Qed.

Lemma eqb_list_trans' : forall l1 l2 l3, eqb_list l1 l2 = true -> eqb_list l2 l3 = true -> eqb_list l1 l3 = true.
Proof.
  induction l1 as [|a r IH]; intros [|b s] [|c t] H1 H2; simpl in *; try discriminate; [reflexivity|].
  apply andb_true_iff in H1. apply andb_true_iff in H2. destruct H1, H2.
  rewrite (eqb_trans a b c), (IH s t); auto.
Qed.

Lemma eqb_list_sym' : forall l1 l2, forallb ty_ok l1 = true -> forallb ty_ok l2 = true ->
  eqb_list l1 l2 = true -> eqb_list l2 l1 = true.
Proof.
  induction l1 as [|a r IH]; intros [|b s] H1 H2 H; simpl in *; try discriminate; [reflexivity|].
  apply andb_true_iff in H1. apply andb_true_iff in H2. apply andb_true_iff in H. destruct H1, H2, H.
  destruct (ty_ok_parts a) as [_ [? _]]; [assumption|]. destruct (ty_ok_parts b) as [_ [? _]]; [assumption|].
  rewrite (eqb_sym_imp a b), (IH s); auto.
Qed.

Lemma instantiates_transfer s params ret a a' rt :
  eqb_list a a' = true -> instantiates s params ret a rt -> instantiates s params ret a' rt.
Proof.
  intros HE [H1 [H2 [H3 [H4 [H5 H6]]]]]. repeat split; try assumption.
  rewrite tys_eqb_eq in *. eapply eqb_list_trans'; eauto.
Qed.

Lemma first_applicable_transfer sigs a a' sg :
  eqb_list a a' = true -> eqb_list a' a = true ->
  first_applicable sigs a sg -> first_applicable sigs a' sg.
Proof.
  intros E1 E2 H. induction H as [sg rest args [s [rt HI]]|sg rest args sg' Hna Hf IH].
  - apply fa_here. exists s, rt. eapply instantiates_transfer; eauto.
  - apply fa_later; [|apply IH; assumption].
    intros [s [rt HI]]. apply Hna. exists s, rt. eapply instantiates_transfer; eauto.
Qed.

(* ------------------------------------------------------------------------------------------------ *)
(* Stage 3b: soundness of the checker                                                                *)
(* ------------------------------------------------------------------------------------------------ *)

Lemma cmapM_Forall2 {X Y} (f : X -> cres Y) l ys : cmapM f l = COk ys -> Forall2 (fun x y => f x = COk y) l ys.
Proof.
  revert ys. induction l as [|a r IH]; intros ys H; simpl in H.
  - inversion H. constructor.
  - destruct (f a) as [y| |] eqn:E; simpl in H; try discriminate H.
    destruct (cmapM f r) as [ys'| |] eqn:E2; simpl in H; try discriminate H.
    inversion H; subst. constructor; [exact E|apply IH; reflexivity].
Qed.

Lemma Forall2_cmapM {X Y} (f : X -> cres Y) l ys : Forall2 (fun x y => f x = COk y) l ys -> cmapM f l = COk ys.
Proof.
  induction 1 as [|a y r ys' E _ IH]; simpl; [reflexivity|]. rewrite E. simpl.
  change (cmapM f r) with (cmapM f r) in IH. rewrite IH. reflexivity.
Qed.

Lemma ty_ok_list t : ty_ok t = true -> ty_ok (TList t) = true.
Proof. intros H. exact H. Qed.

Lemma ty_ok_list_inv t : ty_ok (TList t) = true -> ty_ok t = true.
Proof. intros H. exact H. Qed.

Lemma ty_ok_map k v : is_primitive k = true -> ty_ok k = true -> ty_ok v = true -> ty_ok (TMap k v) = true.
Proof.
  intros Hp Hk Hv. destruct (ty_ok_parts _ Hk) as [A [B C]]. destruct (ty_ok_parts _ Hv) as [A' [B' C']].
  apply ty_ok_intro; simpl; rewrite ?A, ?A', ?B, ?B', ?C, ?C'; try reflexivity.
  unfold keyable. rewrite Hp. reflexivity.
Qed.

Lemma ty_ok_map_inv k v : ty_ok (TMap k v) = true -> ty_ok k = true /\ ty_ok v = true.
Proof.
  intros H. destruct (ty_ok_parts _ H) as [A [B C]]. simpl in A, C.
  apply andb_true_iff in A. apply andb_true_iff in C. apply wf_map in B.
  split; apply ty_ok_intro; tauto.
Qed.

Lemma ty_ok_obj_field fs n t : ty_ok (TObj fs) = true -> assoc n fs = Some t -> ty_ok t = true.
Proof.
  intros H Ha. apply assoc_In in Ha. destruct (ty_ok_parts _ H) as [A [B C]]. simpl in A, C.
  rewrite forallb_forall in A, C. apply wf_obj in B. destruct B as [_ B].
  apply ty_ok_intro; [apply (A _ Ha)|eauto|apply (C _ Ha)].
Qed.

Lemma ty_ok_obj fs : nodupb (map fst fs) = true -> (forall n t, In (n, t) fs -> ty_ok t = true) -> ty_ok (TObj fs) = true.
Proof.
  intros Hnd H. apply ty_ok_intro; simpl.
  - apply forallb_forall. intros [n t] Hin. simpl. destruct (ty_ok_parts _ (H n t Hin)) as [A _]. exact A.
  - rewrite Hnd. simpl. apply forallb_forall. intros [n t] Hin. simpl. destruct (ty_ok_parts _ (H n t Hin)) as [_ [B _]]. exact B.
  - apply forallb_forall. intros [n t] Hin. simpl. destruct (ty_ok_parts _ (H n t Hin)) as [_ [_ C]]. exact C.
Qed.

Lemma tenv_assoc G n t : tenv_ok G = true -> assoc n G = Some t -> ty_ok t = true.
Proof.
  unfold tenv_ok. intros H Ha. rewrite forallb_forall in H. apply (H _ (assoc_In _ _ _ Ha)).
Qed.

Definition is_ident (e : expr) : bool := match e with EIdent _ _ => true | _ => false end.

Lemma check_call_other fe G fuel fresh p col callee args :
  is_ident callee = false ->
  check fe G fuel fresh (ECall p col callee args) =
  let+ aargs := cmapM (check fe G fuel fresh) args in
  let+ (ac, ft) := check fe G fuel fresh callee in
  match ft with
  | TFun fname fps fret =>
      let+ o := try_infer fuel fresh (mkSig fname fps fret false) (map snd aargs) in
      match o with
      | Some (ps, rt) =>
          if params_match ps (map snd aargs)
          then COk (ACall col "" (-1)%Z (TFun fname ps rt) ac (map fst aargs), rt)
          else CErr
      | None => CErr
      end
  | _ => CErr
  end.
Proof. destruct callee; intros H; try discriminate H; reflexivity. Qed.

Lemma check_call_ident fe G fuel fresh p col pn n args :
  check fe G fuel fresh (ECall p col (EIdent pn n) args) =
  let+ aargs := cmapM (check fe G fuel fresh) args in
  let+ (key, idx, ps, rt) := resolve fe fuel fresh (rstr n) (map snd aargs) in
  if params_match ps (map snd aargs)
  then COk (ACall col key idx (TFun (rstr n) ps rt) (AIdent (p_col pn) (rstr n)) (map fst aargs), rt)
  else CErr.
Proof. reflexivity. Qed.

Section Sound.
  Variables (fe : fenv) (G : tenv) (fuel : nat) (fresh : N).
  Hypothesis Hfe : fenv_ok fe = true.
  Hypothesis HG : tenv_ok G = true.
  Hypothesis Hfr : fresh_ok fe fresh.

  Definition inv_stmt (e : expr) : Prop :=
    forall a T, check fe G fuel fresh e = COk (a, T) -> has_type fe G e T /\ ty_ok T = true.

  Lemma args_inv args : Forall inv_stmt args -> forall aargs,
    cmapM (check fe G fuel fresh) args = COk aargs ->
    Forall2 (has_type fe G) args (map snd aargs) /\ forallb ty_ok (map snd aargs) = true.
  Proof.
    induction 1 as [|e r He Hr IH]; intros aargs H; simpl in H.
    - inversion H; subst. split; [constructor|reflexivity].
    - destruct (check fe G fuel fresh e) as [[a t]| |] eqn:E; simpl in H; try discriminate H.
      destruct (cmapM (check fe G fuel fresh) r) as [ys| |] eqn:E2; simpl in H; try discriminate H.
      inversion H; subst. destruct (He a t E) as [H1 H2]. destruct (IH ys Logic.eq_refl) as [H3 H4].
      simpl. rewrite H2, H4. split; [constructor; assumption|reflexivity].
  Qed.

  Lemma check_inv : forall e, inv_stmt e.
  Proof.
    induction e using expr_ind'; intros a T HC.
    - (* str *) simpl in HC. destruct (str_value t) as [v|] eqn:E; inversion HC; subst.
      split; [eapply T_str; eauto|reflexivity].
    - simpl in HC. destruct (num_parse t) as [v|] eqn:E; inversion HC; subst.
      split; [eapply T_num; eauto|reflexivity].
    - simpl in HC. inversion HC; subst. split; [constructor|reflexivity].
    - simpl in HC. inversion HC; subst. split; [constructor|reflexivity].
    - (* list *)
      destruct es as [|e0 rest].
      { simpl in HC. inversion HC; subst. split; [constructor|reflexivity]. }
      inversion H as [|? ? He0 Hrest]; subst.
      simpl in HC.
      destruct (check fe G fuel fresh e0) as [[a0 t0]| |] eqn:E0; simpl in HC; try discriminate HC.
      match type of HC with cbind ?c _ = _ => destruct c as [ars| |] eqn:E1 end; simpl in HC; try discriminate HC.
      inversion HC; subst. destruct (He0 a0 t0 E0) as [H1 H2].
      split; [|exact H2]. apply T_list; [exact H1|].
      apply cmapM_Forall2 in E1. clear -E1 Hrest.
      induction E1 as [|x y r ys Hx _ IH]; [constructor|].
      inversion Hrest as [|? ? Hx' Hr']; subst. constructor; [|apply IH; assumption].
      destruct (check fe G fuel fresh x) as [[ax tx]| |] eqn:Ex; simpl in Hx; try discriminate Hx.
      unfold type_assert in Hx. destruct (ty_eqb t0 tx) eqn:Et; simpl in Hx; try discriminate Hx.
      exists tx. split; [apply (Hx' ax tx Ex)|exact Et].
    - (* map *)
      destruct kvs as [|[k0 v0] rest].
      { simpl in HC. inversion HC; subst. split; [constructor|reflexivity]. }
      inversion H as [|? ? [Hk0 Hv0] Hrest]; subst. simpl in Hk0, Hv0.
      simpl in HC.
      destruct (check fe G fuel fresh k0) as [[ak0 kt]| |] eqn:Ek; simpl in HC; try discriminate HC.
      destruct (is_primitive kt) eqn:Ep; simpl in HC; [|discriminate HC].
      destruct (check fe G fuel fresh v0) as [[av0 vt]| |] eqn:Ev; simpl in HC; try discriminate HC.
      match type of HC with cbind ?c _ = _ => destruct c as [ars| |] eqn:E1 end; simpl in HC; try discriminate HC.
      inversion HC; subst. destruct (Hk0 _ _ Ek) as [K1 K2]. destruct (Hv0 _ _ Ev) as [V1 V2].
      split; [|apply ty_ok_map; assumption]. apply T_map; try assumption.
      apply cmapM_Forall2 in E1. clear -E1 Hrest.
      induction E1 as [|x y r ys Hx _ IH]; [constructor|].
      inversion Hrest as [|? ? [Hx1 Hx2] Hr']; subst. constructor; [|apply IH; assumption].
      destruct (check fe G fuel fresh (fst x)) as [[a1 t1]| |] eqn:Ex1; simpl in Hx; try discriminate Hx.
      unfold type_assert in Hx. destruct (ty_eqb kt t1) eqn:Et1; simpl in Hx; try discriminate Hx.
      destruct (check fe G fuel fresh (snd x)) as [[a2 t2]| |] eqn:Ex2; simpl in Hx; try discriminate Hx.
      destruct (ty_eqb vt t2) eqn:Et2; simpl in Hx; try discriminate Hx.
      exists t1, t2. repeat split; [apply (Hx1 _ _ Ex1)|exact Et1|apply (Hx2 _ _ Ex2)|exact Et2].
    - (* obj *)
      simpl in HC.
      match type of HC with cbind ?c _ = _ => destruct c as [afs| |] eqn:E1 end; simpl in HC; try discriminate HC.
      destruct (nodupb (map (fun x => fst (fst x)) afs)) eqn:End; simpl in HC; [|discriminate HC].
      inversion HC; subst. clear HC. apply cmapM_Forall2 in E1.
      assert (Forall2 (fun f t => has_type fe G (snd f) t) fs (map snd afs) /\
              map (fun f => rstr (fst f)) fs = map (fun x => fst (fst x)) afs /\
              forall n t, In (n, t) (map (fun x => (fst (fst x), snd x)) afs) -> ty_ok t = true) as [F [Enames Hok]].
      { clear End. induction E1 as [|x y r ys Hx _ IH]; [repeat split; [constructor|intros n t []]|].
        inversion H as [|? ? Hx' Hr']; subst. destruct (IH Hr') as [F [En Hok]].
        destruct (check fe G fuel fresh (snd x)) as [[ax tx]| |] eqn:Ex; simpl in Hx; try discriminate Hx.
        inversion Hx; subst. destruct (Hx' _ _ Ex) as [X1 X2]. simpl. repeat split.
        - constructor; assumption.
        - f_equal. exact En.
        - intros n t [E|Hin]; [inversion E; subst; exact X2|eauto]. }
      split.
      + replace (map (fun x => (fst (fst x), snd x)) afs)
          with (combine (map (fun f => rstr (fst f)) fs) (map snd afs)).
        * apply T_obj; [exact F|]. rewrite Enames. exact End.
        * rewrite Enames. clear. induction afs as [|x r IH]; [reflexivity|]. simpl. f_equal. exact IH.
      + apply ty_ok_obj; [|exact Hok]. rewrite map_map. simpl. exact End.
    - (* ident *)
      simpl in HC. destruct (reserved (rstr n)) eqn:Er; [discriminate HC|].
      destruct (assoc (rstr n) G) as [t|] eqn:Ea; inversion HC; subst.
      split; [apply T_ident; assumption|eapply tenv_assoc; eauto].
    - (* call *)
      destruct (is_ident e) eqn:Eid.
      + destruct e; try discriminate Eid. rewrite check_call_ident in HC.
        destruct (cmapM (check fe G fuel fresh) args) as [aargs| |] eqn:E1; simpl in HC; try discriminate HC.
        destruct (args_inv args H aargs E1) as [F Hok].
        destruct (resolve fe fuel fresh (rstr name) (map snd aargs)) as [[[[key idx] ps] rt]| |] eqn:ER;
          simpl in HC; try discriminate HC.
        destruct (params_match ps (map snd aargs)) eqn:EM; [|discriminate HC]. inversion HC; subst. clear HC.
        rewrite resolve_unfold in ER.
        destruct (assoc (mono_key (rstr name) (map snd aargs)) (f_mono fe)) as [sg|] eqn:Emono.
        * inversion ER; subst. destruct (fenv_mono fe _ sg Hfe Emono) as [Hs Hsf].
          destruct (sig_ok_parts _ Hs) as [_ [R1 R2]].
          split; [eapply T_call_mono; eauto|].
          apply ty_ok_intro; try assumption. simpl in Hsf. apply andb_true_iff in Hsf. tauto.
        * destruct (assoc (poly_key (rstr name) (List.length (map snd aargs))) (f_poly fe)) as [sigs|] eqn:Epoly;
            [|discriminate ER].
          assert (forall sg, In sg sigs -> psig_ok fresh sg) as HS by (intros sg Hin; eapply psig_ok_intro; eauto).
          destruct (resolve_go_sound _ _ _ _ _ _ _ _ _ _ HS Hok ER) as [_ [K [sg [s [FA I]]]]].
          split; [eapply T_call_poly; eauto|exact K].
      + rewrite check_call_other in HC by assumption.
        destruct (cmapM (check fe G fuel fresh) args) as [aargs| |] eqn:E1; simpl in HC; try discriminate HC.
        destruct (check fe G fuel fresh e) as [[ac ft]| |] eqn:E2; simpl in HC; try discriminate HC.
        destruct (IHe ac ft E2) as [_ K]. destruct (ty_ok_parts _ K) as [_ [_ C]].
        destruct ft; try discriminate HC. discriminate C.
    - (* sub *)
      simpl in HC.
      destruct (check fe G fuel fresh e1) as [[av vt]| |] eqn:E1; simpl in HC; try discriminate HC.
      destruct (IHe1 _ _ E1) as [V1 V2].
      destruct vt; try discriminate HC.
      + destruct (check fe G fuel fresh e2) as [[ai it]| |] eqn:E2; simpl in HC; try discriminate HC.
        unfold type_assert in HC. destruct (ty_eqb it TNum) eqn:Et; simpl in HC; try discriminate HC.
        inversion HC; subst. destruct (IHe2 _ _ E2) as [I1 I2].
        split; [eapply T_sub_list; eauto|exact V2].
      + destruct (check fe G fuel fresh e2) as [[ai it]| |] eqn:E2; simpl in HC; try discriminate HC.
        unfold type_assert in HC. destruct (ty_eqb it vt1) eqn:Et; simpl in HC; try discriminate HC.
        inversion HC; subst. destruct (IHe2 _ _ E2) as [I1 I2].
        split; [eapply T_sub_map; eauto|]. apply ty_ok_map_inv in V2. tauto.
    - (* member *)
      simpl in HC.
      destruct (check fe G fuel fresh e) as [[ao ot]| |] eqn:E1; simpl in HC; try discriminate HC.
      destruct (IHe _ _ E1) as [O1 O2].
      destruct ot; try discriminate HC.
      destruct (assoc (rstr n) fs) as [ft|] eqn:Ea; [|discriminate HC].
      destruct (index_of (rstr n) fs) as [idx|]; inversion HC; subst.
      split; [eapply T_member; eauto|eapply ty_ok_obj_field; eauto].
    - discriminate HC.
    - discriminate HC.
    - discriminate HC.
    - discriminate HC.
  Qed.
End Sound.

Lemma check_sound : forall fe G fuel fresh e a T,
  fenv_ok fe = true -> tenv_ok G = true -> fresh_ok fe fresh ->
  check fe G fuel fresh e = COk (a, T) -> has_type fe G e T.
Proof. intros fe G fuel fresh e a T H1 H2 H3 H. exact (proj1 (check_inv fe G fuel fresh H1 H2 H3 e a T H)). Qed.

Lemma inferred_ok : forall fe G fuel fresh e a T,
  fenv_ok fe = true -> tenv_ok G = true -> fresh_ok fe fresh ->
  check fe G fuel fresh e = COk (a, T) -> slot_free T = true /\ wf_ty T = true.
Proof.
  intros fe G fuel fresh e a T H1 H2 H3 H.
  destruct (ty_ok_parts _ (proj2 (check_inv fe G fuel fresh H1 H2 H3 e a T H))) as [A [B _]]. auto.
Qed.

Lemma ill_typed_rejected : forall fe G fuel fresh e,
  fenv_ok fe = true -> tenv_ok G = true -> fresh_ok fe fresh ->
  (forall T, ~ has_type fe G e T) -> forall a T, check fe G fuel fresh e <> COk (a, T).
Proof. intros fe G fuel fresh e H1 H2 H3 Hn a T H. apply (Hn T). eapply check_sound; eauto. Qed.

(* ------------------------------------------------------------------------------------------------ *)
(* Stage 3c: completeness of the checker                                                             *)
(* ------------------------------------------------------------------------------------------------ *)

Lemma ok_refl t : ty_ok t = true -> ty_eqb t t = true.
Proof. intros H. apply eq_refl. destruct (ty_ok_parts _ H) as [_ [B _]]. exact B. Qed.

Lemma ok_sym a b : ty_ok a = true -> ty_ok b = true -> ty_eqb a b = true -> ty_eqb b a = true.
Proof.
  intros Ha Hb. destruct (ty_ok_parts _ Ha) as [_ [A _]]. destruct (ty_ok_parts _ Hb) as [_ [B _]].
  apply eqb_sym_imp; assumption.
Qed.

Lemma canon_norm : forall t, simple t = true -> canon t = norm t.
Proof.
  induction t using ty_ind'; intros Hs; try reflexivity; try discriminate Hs.
  - simpl in *. f_equal. auto.
  - simpl in *. apply andb_true_iff in Hs. destruct Hs. f_equal; auto.
  - simpl. f_equal. f_equal. apply map_ext_in. intros [n t] Hin. simpl. f_equal.
    rewrite Forall_forall in H. apply (H (n, t) Hin). eapply simple_obj_in; eauto.
  - simpl in *. f_equal. auto.
Qed.

Lemma canon_eq a b : ty_ok a = true -> ty_ok b = true -> ty_eqb a b = true -> canon a = canon b.
Proof.
  intros Ha Hb E. destruct (ty_ok_parts _ Ha) as [_ [A1 A2]]. destruct (ty_ok_parts _ Hb) as [_ [B1 B2]].
  rewrite !canon_norm by assumption. apply eq_structural; assumption.
Qed.

Lemma mono_key_eq name a b : forallb ty_ok a = true -> forallb ty_ok b = true -> eqb_list a b = true ->
  mono_key name a = mono_key name b.
Proof.
  intros Ha Hb E. unfold mono_key. simpl.
  assert (map canon a = map canon b) as EE; [|rewrite EE; reflexivity].
  revert b Ha Hb E. induction a as [|x r IH]; intros [|y s] Ha Hb E; simpl in *; try discriminate E; [reflexivity|].
  apply andb_true_iff in Ha. apply andb_true_iff in Hb. apply andb_true_iff in E. destruct Ha, Hb, E.
  f_equal; [apply canon_eq; assumption|apply IH; assumption].
Qed.

Lemma assoc_index_of {X} n (l : list (string * X)) x : assoc n l = Some x -> exists i, index_of n l = Some i.
Proof.
  induction l as [|[k v] r IH]; simpl; intros H; [discriminate H|].
  destruct (String.eqb n k); [eauto|]. destruct (IH H) as [i E]. rewrite E. simpl. eauto.
Qed.

Lemma eqb_primitive a b : ty_eqb a b = true -> is_primitive b = true -> is_primitive a = true.
Proof. destruct a, b; simpl; intros H1 H2; try discriminate H1; try discriminate H2; reflexivity. Qed.

Lemma instantiates_ok s params ret args rt :
  simple ret = true -> wf_ty ret = true -> no_var_key ret = true ->
  instantiates s params ret args rt -> ty_ok rt = true.
Proof.
  intros R1 R2 R3 [_ [Hg [Hw [_ [E Hsf]]]]]. subst rt. apply ty_ok_intro; [exact Hsf| |].
  - apply subst_wf_nvk; try assumption. intros n u Hu. eapply wf_assoc; eauto.
  - apply subst_simple; [exact R1|]. intros n u Hu. eapply ground_assoc; eauto.
Qed.

Lemma F2_length {X Y} (R : X -> Y -> Prop) l1 l2 : Forall2 R l1 l2 -> List.length l1 = List.length l2.
Proof. induction 1; simpl; auto. Qed.

Lemma fields_rel_combine (R : ty -> ty -> Prop) : forall names l1 l2,
  NoDup names -> List.length names = List.length l2 -> Forall2 R l1 l2 ->
  fields_rel R (combine names l1) (combine names l2).
Proof.
  induction names as [|n names IH]; intros l1 l2 Hnd Hl HF; [intros k t []|].
  destruct HF as [|a b r1 r2 Hab HF]; [discriminate Hl|].
  inversion Hnd as [|? ? Hnotin Hnd']; subst. simpl in Hl.
  intros k t [E|Hin].
  - inversion E; subst. exists b. simpl. rewrite String.eqb_refl. auto.
  - simpl. destruct (String.eqb_spec k n) as [E|E].
    + subst k. exfalso. apply Hnotin. eapply in_combine_l; eauto.
    + apply (IH r1 r2 Hnd'); [lia|exact HF|exact Hin].
Qed.

(* inversion of the typing rules, by expression form *)
Section Inversions.
  Variables (fe : fenv) (G : tenv).

  Lemma inv_list p es T : has_type fe G (EList p es) T ->
    (es = [] /\ T = TList TBot) \/
    exists e0 rest t0, es = e0 :: rest /\ T = TList t0 /\ has_type fe G e0 t0 /\
      Forall (fun e => exists t, has_type fe G e t /\ ty_eqb t0 t = true) rest.
  Proof. inversion 1; subst; [left; auto|right; eauto 10]. Qed.

  Lemma inv_map p kvs T : has_type fe G (EMap p kvs) T ->
    (kvs = [] /\ T = TMap TBot TBot) \/
    exists k0 v0 rest kt vt, kvs = (k0, v0) :: rest /\ T = TMap kt vt /\
      has_type fe G k0 kt /\ is_primitive kt = true /\ has_type fe G v0 vt /\
      Forall (fun kv => exists t1 t2, has_type fe G (fst kv) t1 /\ ty_eqb kt t1 = true /\
                                      has_type fe G (snd kv) t2 /\ ty_eqb vt t2 = true) rest.
  Proof. inversion 1; subst; [left; auto|right; eauto 12]. Qed.

  Lemma inv_obj p fs T : has_type fe G (EObj p fs) T ->
    exists ts, T = TObj (combine (map (fun f => rstr (fst f)) fs) ts) /\
      Forall2 (fun f t => has_type fe G (snd f) t) fs ts /\ nodupb (map (fun f => rstr (fst f)) fs) = true.
  Proof. inversion 1; subst; eauto. Qed.

  Lemma inv_ident p n T : has_type fe G (EIdent p n) T -> reserved (rstr n) = false /\ assoc (rstr n) G = Some T.
  Proof. inversion 1; subst; auto. Qed.

  Lemma inv_call p col callee args T : has_type fe G (ECall p col callee args) T ->
    exists pn n argtys, callee = EIdent pn n /\ Forall2 (has_type fe G) args argtys /\
      ((exists sg, mono_selected fe (rstr n) argtys = Some sg /\ tys_eqb (s_params sg) argtys = true /\ T = s_ret sg) \/
       (exists sigs sg s, mono_selected fe (rstr n) argtys = None /\
          assoc (poly_key (rstr n) (List.length argtys)) (f_poly fe) = Some sigs /\
          first_applicable sigs argtys sg /\ instantiates s (s_params sg) (s_ret sg) argtys T)).
  Proof. inversion 1; subst; exists pn, n, argtys; repeat split; auto; [left|right]; eauto 10. Qed.

  Lemma inv_sub p col v i T : has_type fe G (ESub p col v i) T ->
    (exists it, has_type fe G v (TList T) /\ has_type fe G i it /\ ty_eqb it TNum = true) \/
    (exists kt it, has_type fe G v (TMap kt T) /\ has_type fe G i it /\ ty_eqb it kt = true).
  Proof. inversion 1; subst; [left|right]; eauto. Qed.

  Lemma inv_member p col o fname fpos T : has_type fe G (EMember p col o fname fpos) T ->
    exists fs, has_type fe G o (TObj fs) /\ assoc (rstr fname) fs = Some T.
  Proof. inversion 1; subst; eauto. Qed.
End Inversions.


Lemma resolve_go_fixed fresh pk args : forall sigs sg s rt',
  (forall sg, In sg sigs -> psig_ok fresh sg) -> forallb ty_ok args = true ->
  first_applicable sigs args sg -> instantiates s (s_params sg) (s_ret sg) args rt' ->
  exists fuel0 k ps rt, params_match ps args = true /\ ty_eqb rt rt' = true /\
    forall fuel, fuel0 <= fuel -> forall i,
      resolve_go fuel fresh pk args sigs i = COk (pk, (i + k)%Z, ps, rt).
Proof.
  intros sigs sg s rt' Hs Ha HF. revert Hs.
  induction HF as [sg rest args Happ|sg rest args sg' Hna Hf IH]; intros Hs HI.
  - pose proof (Hs sg (or_introl Logic.eq_refl)) as Hsg.
    destruct (spec_opt_complete fresh sg args s rt' Hsg Ha HI) as [ps [rt [E [M T]]]].
    exists (infer_bound fresh (s_params sg) (s_ret sg) args), 0%Z, ps, rt. repeat split; try assumption.
    intros fuel Hfuel i. simpl. rewrite (try_infer_big fuel fresh sg args Hsg Ha Hfuel). simpl.
    rewrite E, M, Z.add_0_r. reflexivity.
  - pose proof (Hs sg (or_introl Logic.eq_refl)) as Hsg.
    destruct (IH Ha (fun sg0 Hin => Hs sg0 (or_intror Hin)) HI) as [fuel1 [k [ps [rt [M [T H1]]]]]].
    exists (Nat.max (infer_bound fresh (s_params sg) (s_ret sg) args) fuel1), (1 + k)%Z, ps, rt.
    repeat split; try assumption. intros fuel Hfuel i.
    replace (i + (1 + k))%Z with (i + 1 + k)%Z by lia. simpl.
    rewrite (try_infer_big fuel fresh sg args Hsg Ha) by lia. simpl.
    destruct (spec_opt fresh sg args) as [[ps' rt2]|] eqn:ES; [|apply H1; lia].
    destruct (params_match ps' args) eqn:EM; [|apply H1; lia].
    exfalso. apply Hna. destruct (spec_opt_sound fresh sg args ps' rt2 Hsg Ha ES EM) as [[s' HI'] _].
    exists s', rt2. exact HI'.
Qed.

Section Complete.
  Variables (fe : fenv) (G : tenv) (fresh : N).
  Hypothesis Hfe : fenv_ok fe = true.
  Hypothesis HG : tenv_ok G = true.
  Hypothesis Hfr : fresh_ok fe fresh.

  (* from some fuel on, the checker returns one fixed result, of a type equal to T' *)
  Definition chk (e : expr) (T' : ty) : Prop :=
    exists fuel0 a T, ty_eqb T T' = true /\ ty_ok T = true /\
      forall fuel, fuel0 <= fuel -> check fe G fuel fresh e = COk (a, T).

  Definition comp_stmt (e : expr) : Prop := forall T', has_type fe G e T' -> ty_ok T' = true /\ chk e T'.

  Lemma chk_intro f0 e a T T' :
    (forall fuel, f0 <= fuel -> check fe G fuel fresh e = COk (a, T)) -> ty_eqb T T' = true -> chk e T'.
  Proof.
    intros H E. exists f0, a, T. repeat split; try assumption.
    exact (proj2 (check_inv fe G f0 fresh Hfe HG Hfr e a T (H f0 (Nat.le_refl _)))).
  Qed.

  Lemma args_complete args : Forall comp_stmt args -> forall argtys, Forall2 (has_type fe G) args argtys ->
    forallb ty_ok argtys = true /\
    exists fuel0 aargs, eqb_list (map snd aargs) argtys = true /\ forallb ty_ok (map snd aargs) = true /\
      forall fuel, fuel0 <= fuel -> cmapM (check fe G fuel fresh) args = COk aargs.
  Proof.
    induction 1 as [|e r He Hr IH]; intros argtys HF; inversion HF as [|? t ? ts Ht Hts]; subst.
    - split; [reflexivity|]. exists 0, []. auto.
    - destruct (He t Ht) as [K1 [f1 [a [T [E2 [E3 H1]]]]]]. destruct (IH ts Hts) as [K2 [f2 [aargs [E5 [E6 H2]]]]].
      split; [simpl; rewrite K1, K2; reflexivity|].
      exists (Nat.max f1 f2), ((a, T) :: aargs). simpl. rewrite E2, E3, E5, E6. repeat split.
      intros fuel Hf. rewrite H1 by lia. simpl.
      change ((fix go (l : list expr) : cres (list (aexpr * ty)) :=
                 match l with
                 | [] => COk []
                 | x :: r0 => let+ y := check fe G fuel fresh x in let+ ys := go r0 in COk (y :: ys)
                 end) r) with (cmapM (check fe G fuel fresh) r).
      rewrite H2 by lia. reflexivity.
  Qed.

  Lemma cmapM_cons {X Y} (f : X -> cres Y) x r :
    cmapM f (x :: r) = let+ y := f x in let+ ys := cmapM f r in COk (y :: ys).
  Proof. reflexivity. Qed.

  Lemma obj_complete fs : Forall (fun f => comp_stmt (snd f)) fs -> forall ts,
    Forall2 (fun f t => has_type fe G (snd f) t) fs ts ->
    Forall (fun t => ty_ok t = true) ts /\
    exists fuel0 afs,
      map (fun x => fst (fst x)) afs = map (fun f => rstr (fst f)) fs /\
      Forall2 (fun tc t => ty_eqb tc t = true) (map snd afs) ts /\
      forall fuel, fuel0 <= fuel ->
        cmapM (fun f => let+ (a, t) := check fe G fuel fresh (snd f) in COk (rstr (fst f), a, t)) fs = COk afs.
  Proof.
    induction 1 as [|f r He Hr IH]; intros ts HF; inversion HF as [|? t ? ts' Ht Hts]; subst.
    - split; [constructor|]. exists 0, []. repeat split; constructor.
    - destruct (He t Ht) as [K1 [f1 [a [T [E2 [E3 H1]]]]]]. destruct (IH ts' Hts) as [K2 [f2 [afs [E5 [E6 H2]]]]].
      split; [constructor; assumption|].
      exists (Nat.max f1 f2), ((rstr (fst f), a, T) :: afs). repeat split.
      + simpl. f_equal. exact E5.
      + simpl. constructor; assumption.
      + intros fuel Hf. rewrite cmapM_cons, H1 by lia. simpl. rewrite H2 by lia. reflexivity.
  Qed.

  Lemma list_rest t0 t0c rest :
    ty_ok t0 = true -> ty_ok t0c = true -> ty_eqb t0c t0 = true ->
    Forall comp_stmt rest -> Forall (fun e => exists t, has_type fe G e t /\ ty_eqb t0 t = true) rest ->
    exists f1 ars, forall fuel, f1 <= fuel ->
      cmapM (fun x => let+ (a, t) := check fe G fuel fresh x in let+ _ := type_assert t0c t in COk a) rest = COk ars.
  Proof.
    intros K0 K0c E0 Hc Hr. induction Hr as [|x r [t [Hx Et]] _ IH]; [exists 0, []; reflexivity|].
    inversion Hc as [|? ? Hx' Hc']; subst. destruct (IH Hc') as [f2 [ars H2]].
    destruct (Hx' t Hx) as [Kt [f1 [a [tc [E1 [Ktc H1]]]]]].
    exists (Nat.max f1 f2), (a :: ars). intros fuel Hf. rewrite cmapM_cons, H1 by lia. simpl.
    unfold type_assert. rewrite (eqb_trans t0c t0 tc); [simpl|exact E0|].
    - rewrite H2 by lia. reflexivity.
    - eapply eqb_trans; [exact Et|]. apply ok_sym; assumption.
  Qed.

  Lemma map_rest kt ktc vt vtc rest :
    ty_ok kt = true -> ty_ok ktc = true -> ty_eqb ktc kt = true ->
    ty_ok vt = true -> ty_ok vtc = true -> ty_eqb vtc vt = true ->
    Forall (fun kv => comp_stmt (fst kv) /\ comp_stmt (snd kv)) rest ->
    Forall (fun kv => exists t1 t2, has_type fe G (fst kv) t1 /\ ty_eqb kt t1 = true /\
                                    has_type fe G (snd kv) t2 /\ ty_eqb vt t2 = true) rest ->
    exists f1 ars, forall fuel, f1 <= fuel ->
      cmapM (fun kv => let+ (ak, t1) := check fe G fuel fresh (fst kv) in let+ _ := type_assert ktc t1 in
                       let+ (av, t2) := check fe G fuel fresh (snd kv) in let+ _ := type_assert vtc t2 in
                       COk (ak, av)) rest = COk ars.
  Proof.
    intros Kk Kkc Ek Kv Kvc Ev Hc Hr.
    induction Hr as [|x r [t1 [t2 [Hx1 [Et1 [Hx2 Et2]]]]] _ IH]; [exists 0, []; reflexivity|].
    inversion Hc as [|? ? [Hx1' Hx2'] Hc']; subst. destruct (IH Hc') as [f3 [ars H3]].
    destruct (Hx1' t1 Hx1) as [Kt1 [f1 [a1 [tc1 [A1 [A2 H1]]]]]].
    destruct (Hx2' t2 Hx2) as [Kt2 [f2 [a2 [tc2 [B1 [B2 H2]]]]]].
    exists (Nat.max f1 (Nat.max f2 f3)), ((a1, a2) :: ars). intros fuel Hf.
    rewrite cmapM_cons, H1 by lia. simpl. unfold type_assert.
    rewrite (eqb_trans ktc kt tc1); [simpl|exact Ek|eapply eqb_trans; [exact Et1|apply ok_sym; assumption]].
    rewrite H2 by lia. simpl.
    rewrite (eqb_trans vtc vt tc2); [simpl|exact Ev|eapply eqb_trans; [exact Et2|apply ok_sym; assumption]].
    rewrite H3 by lia. reflexivity.
  Qed.

  Lemma check_list_cons fuel p e0 rest :
    check fe G fuel fresh (EList p (e0 :: rest)) =
    let+ (a0, t0) := check fe G fuel fresh e0 in
    let+ ars := cmapM (fun x => let+ (a, t) := check fe G fuel fresh x in let+ _ := type_assert t0 t in COk a) rest in
    COk (AList (TList t0) (a0 :: ars), TList t0).
  Proof. reflexivity. Qed.

  Lemma check_map_cons fuel p k0 v0 rest :
    check fe G fuel fresh (EMap p ((k0, v0) :: rest)) =
    let+ (ak0, kt) := check fe G fuel fresh k0 in
    if negb (is_primitive kt) then CErr else
    let+ (av0, vt) := check fe G fuel fresh v0 in
    let+ ars := cmapM (fun kv =>
                         let+ (ak, t1) := check fe G fuel fresh (fst kv) in let+ _ := type_assert kt t1 in
                         let+ (av, t2) := check fe G fuel fresh (snd kv) in let+ _ := type_assert vt t2 in
                         COk (ak, av)) rest in
    COk (AMap (TMap kt vt) ((ak0, av0) :: ars), TMap kt vt).
  Proof. reflexivity. Qed.

  Lemma check_obj_eq fuel p fs :
    check fe G fuel fresh (EObj p fs) =
    let+ afs := cmapM (fun f => let+ (a, t) := check fe G fuel fresh (snd f) in COk (rstr (fst f), a, t)) fs in
    let names := map (fun x => fst (fst x)) afs in
    if negb (nodupb names) then CErr else
    let t := TObj (map (fun x => (fst (fst x), snd x)) afs) in
    COk (AObj t (map (fun x => (fst (fst x), snd (fst x))) afs), t).
  Proof. reflexivity. Qed.

  Lemma check_comp : forall e, comp_stmt e.
  Proof.
    induction e using expr_ind'; intros T' HT.
    - (* str *) inversion HT; subst. split; [reflexivity|].
      apply (chk_intro 0 _ (AStr v) TStr); [intros fuel _; simpl|reflexivity].
      match goal with E : str_value _ = _ |- _ => rewrite E end. reflexivity.
    - inversion HT; subst. split; [reflexivity|].
      apply (chk_intro 0 _ (ANum t n) TNum); [intros fuel _; simpl|reflexivity].
      match goal with E : num_parse _ = _ |- _ => rewrite E end. reflexivity.
    - inversion HT; subst. split; [reflexivity|]. apply (chk_intro 0 _ (ATime t) TTime); reflexivity.
    - inversion HT; subst. split; [reflexivity|]. apply (chk_intro 0 _ (ABool b) TBool); reflexivity.
    - (* list *)
      apply inv_list in HT. destruct HT as [[E1 E2]|[e0 [rest [t0 [E1 [E2 [H0 Hrest]]]]]]]; subst.
      { split; [reflexivity|]. apply (chk_intro 0 _ (AList (TList TBot) []) (TList TBot)); reflexivity. }
      inversion H as [|? ? He0 Hr]; subst.
      destruct (He0 t0 H0) as [K0 [f0 [a0 [t0c [E0 [K0c C0]]]]]].
      split; [exact K0|].
      destruct (list_rest t0 t0c rest K0 K0c E0 Hr Hrest) as [f1 [ars C1]].
      apply (chk_intro (Nat.max f0 f1) _ (AList (TList t0c) (a0 :: ars)) (TList t0c)); [|exact E0].
      intros fuel Hf. rewrite check_list_cons, C0 by lia. simpl. rewrite C1 by lia. reflexivity.
    - (* map *)
      apply inv_map in HT.
      destruct HT as [[E1 E2]|[k0 [v0 [rest [kt [vt [E1 [E2 [Hk0 [Hp [Hv0 Hrest]]]]]]]]]]]; subst.
      { split; [reflexivity|]. apply (chk_intro 0 _ (AMap (TMap TBot TBot) []) (TMap TBot TBot)); reflexivity. }
      inversion H as [|? ? [Hk Hv] Hr]; subst. simpl in Hk, Hv.
      destruct (Hk kt Hk0) as [Kk [fk [ak [ktc [Ek [Kkc Ck]]]]]].
      destruct (Hv vt Hv0) as [Kv [fv [av [vtc [Ev [Kvc Cv]]]]]].
      split; [apply ty_ok_map; assumption|].
      destruct (map_rest kt ktc vt vtc rest Kk Kkc Ek Kv Kvc Ev Hr Hrest) as [f1 [ars C1]].
      apply (chk_intro (Nat.max fk (Nat.max fv f1)) _ (AMap (TMap ktc vtc) ((ak, av) :: ars)) (TMap ktc vtc)).
      + intros fuel Hf. rewrite check_map_cons, Ck by lia. simpl. rewrite (eqb_primitive _ _ Ek Hp). simpl.
        rewrite Cv by lia. simpl. rewrite C1 by lia. reflexivity.
      + simpl. rewrite Ek, Ev. reflexivity.
    - (* obj *)
      apply inv_obj in HT. destruct HT as [ts [E [HF Hnd]]]. subst T'.
      destruct (obj_complete fs H ts HF) as [Kts [f0 [afs [E2 [E3 C0]]]]].
      pose proof (F2_length _ _ _ HF) as Hlen.
      assert (ty_ok (TObj (combine (map (fun f => rstr (fst f)) fs) ts)) = true) as KT.
      { apply ty_ok_obj.
        - rewrite map_fst_combine by (rewrite map_length; exact Hlen). exact Hnd.
        - intros n t Hin. apply in_combine_r in Hin. rewrite Forall_forall in Kts. auto. }
      split; [exact KT|].
      apply (chk_intro f0 _ (AObj (TObj (map (fun x => (fst (fst x), snd x)) afs))
                                  (map (fun x => (fst (fst x), snd (fst x))) afs))
                       (TObj (map (fun x => (fst (fst x), snd x)) afs))).
      + intros fuel Hf. rewrite check_obj_eq, C0 by lia. simpl. rewrite E2, Hnd. reflexivity.
      + replace (map (fun x => (fst (fst x), snd x)) afs)
          with (combine (map (fun f => rstr (fst f)) fs) (map snd afs)).
        2:{ rewrite <- E2. clear. induction afs as [|x r IH]; [reflexivity|]. simpl. f_equal. exact IH. }
        apply ty_eqb_obj_spec. split.
        * rewrite !combine_length, !map_length. rewrite <- Hlen.
          apply F2_length in E3. rewrite map_length in E3. rewrite E3, Hlen. reflexivity.
        * apply fields_rel_combine; [apply nodupb_NoDup; exact Hnd|rewrite map_length; exact Hlen|exact E3].
    - (* ident *)
      apply inv_ident in HT. destruct HT as [Hr Ha]. split; [eapply tenv_assoc; eauto|].
      apply (chk_intro 0 _ (AIdent (p_col p) (rstr n)) T').
      + intros fuel _. simpl. rewrite Hr, Ha. reflexivity.
      + apply ok_refl. eapply tenv_assoc; eauto.
    - (* call *)
      apply inv_call in HT. destruct HT as [pn [n [argtys [Ee [HF HC]]]]]. subst e.
      destruct (args_complete args H argtys HF) as [Kargs [f0 [aargs [E2 [E3 C0]]]]].
      destruct HC as [[sg [Hm [Hp ET]]]|[sigs [sg [s [Hm [Hpoly [HFA HI]]]]]]].
      + subst T'. unfold mono_selected in Hm. destruct (fenv_mono fe _ sg Hfe Hm) as [Hs Hsf].
        destruct (sig_ok_parts _ Hs) as [_ [R1 R2]].
        assert (ty_ok (s_ret sg) = true) as KT.
        { apply ty_ok_intro; try assumption. simpl in Hsf. apply andb_true_iff in Hsf. tauto. }
        split; [exact KT|].
        eapply (chk_intro f0); [|apply ok_refl; exact KT].
        intros fuel Hf. rewrite check_call_ident, C0 by lia. simpl. rewrite resolve_unfold.
        rewrite (mono_key_eq (rstr n) (map snd aargs) argtys E3 Kargs E2), Hm. simpl.
        rewrite params_match_eq, (eqb_list_trans' (s_params sg) argtys (map snd aargs)); [reflexivity| |].
        * rewrite <- tys_eqb_eq. exact Hp.
        * apply eqb_list_sym'; assumption.
      + unfold mono_selected in Hm.
        assert (forall sg, In sg sigs -> psig_ok fresh sg) as HS by (intros sg' Hin; eapply psig_ok_intro; eauto).
        assert (In sg sigs) as Hsg.
        { clear -HFA. induction HFA; [left; reflexivity|right; assumption]. }
        destruct (HS sg Hsg) as [Hs [Hk _]]. destruct (sig_ok_parts _ Hs) as [_ [R1 R2]].
        split; [eapply instantiates_ok; eauto|].
        pose proof (eqb_list_sym' _ _ E3 Kargs E2) as E2'.
        pose proof (eqb_list_length _ _ E2) as Hlen.
        destruct (resolve_go_fixed fresh (poly_key (rstr n) (List.length argtys)) (map snd aargs) sigs sg s T' HS E3)
          as [f1 [k [ps [rt [M [ET C1]]]]]].
        { eapply first_applicable_transfer; eauto. }
        { eapply instantiates_transfer; eauto. }
        eapply (chk_intro (Nat.max f0 f1)); [|exact ET].
        intros fuel Hf. rewrite check_call_ident, C0 by lia. simpl. rewrite resolve_unfold.
        rewrite (mono_key_eq (rstr n) (map snd aargs) argtys E3 Kargs E2), Hm, Hlen, Hpoly.
        rewrite C1 by lia. simpl. rewrite M. reflexivity.
    - (* sub *)
      apply inv_sub in HT. destruct HT as [[it [Hv [Hi Et]]]|[kt [it [Hv [Hi Et]]]]].
      + destruct (IHe1 _ Hv) as [Kv [fv [av [vt [Ev [Kvc Cv]]]]]].
        destruct (IHe2 _ Hi) as [Ki [fi [ai [itc [Ei [Kic Ci]]]]]].
        split; [exact Kv|].
        destruct vt; simpl in Ev; try discriminate Ev.
        eapply (chk_intro (Nat.max fv fi)); [|exact Ev].
        intros fuel Hf. simpl. rewrite Cv by lia. simpl. rewrite Ci by lia. simpl.
        unfold type_assert. rewrite (eqb_trans itc it TNum Ei Et). reflexivity.
      + destruct (IHe1 _ Hv) as [Kv [fv [av [vt [Ev [Kvc Cv]]]]]].
        destruct (IHe2 _ Hi) as [Ki [fi [ai [itc [Ei [Kic Ci]]]]]].
        destruct (ty_ok_map_inv _ _ Kv) as [Kkt KT].
        split; [exact KT|].
        destruct vt; simpl in Ev; try discriminate Ev.
        apply andb_true_iff in Ev. destruct Ev as [Ev1 Ev2].
        destruct (ty_ok_map_inv _ _ Kvc) as [Kk1 _].
        eapply (chk_intro (Nat.max fv fi)); [|exact Ev2].
        intros fuel Hf. simpl. rewrite Cv by lia. simpl. rewrite Ci by lia. simpl.
        unfold type_assert. rewrite (eqb_trans itc kt vt1); [reflexivity| |apply ok_sym; assumption].
        eapply eqb_trans; eauto.
    - (* member *)
      apply inv_member in HT. destruct HT as [fs [Ho Ha]].
      destruct (IHe _ Ho) as [Ko [fo [ao [ot [Eo [Koc Co]]]]]].
      pose proof (ty_ok_obj_field _ _ _ Ko Ha) as KT. split; [exact KT|].
      destruct ot; try (simpl in Eo; discriminate Eo).
      pose proof (ok_sym _ _ Koc Ko Eo) as Eo'. apply ty_eqb_obj_spec in Eo'. destruct Eo' as [_ Hrel].
      destruct (Hrel _ _ (assoc_In _ _ _ Ha)) as [tc [Hac Etc]].
      destruct (assoc_index_of _ _ _ Hac) as [idx Hidx].
      eapply (chk_intro fo).
      + intros fuel Hf. simpl. rewrite Co by lia. simpl. rewrite Hac, Hidx. reflexivity.
      + apply ok_sym; [exact KT|eapply ty_ok_obj_field; eauto|exact Etc].
    - inversion HT.
    - inversion HT.
    - inversion HT.
    - inversion HT.
  Qed.
End Complete.

Lemma check_complete : forall fe G fresh e T',
  fenv_ok fe = true -> tenv_ok G = true -> fresh_ok fe fresh ->
  has_type fe G e T' ->
  exists fuel0, forall fuel, (fuel0 <= fuel)%nat ->
    exists a T, check fe G fuel fresh e = COk (a, T) /\ ty_eqb T T' = true.
Proof.
  intros fe G fresh e T' H1 H2 H3 HT.
  destruct (check_comp fe G fresh H1 H2 H3 e T' HT) as [_ [f0 [a [T [E [_ C]]]]]].
  exists f0. intros fuel Hf. exists a, T. split; [apply C; exact Hf|exact E].
Qed.

(* ------------------------------------------------------------------------------------------------ *)
(* Why [fenv_ok] needs its two extra clauses (hand-built tables that satisfy [sig_ok] everywhere)     *)
(* ------------------------------------------------------------------------------------------------ *)

(* 1. a monomorphic entry whose result is a type variable: `f()` is accepted with the type 'a (so the inferred type
      is not variable-free), and `g(f(), 1)` is accepted although no ground instantiation of g's parameters exists *)
Example mono_entry_must_be_ground :
  let p0 := pos_unknown in
  let fe := mkFenv [(mono_key "f" [], mkSig "f" [] (TVar "a") false)]
                   [(poly_key "g" 2, [mkSig "g" [TVar "b"; TNum] TNum false])] in
  let e1 := ECall p0 0 (EIdent p0 [102%N]) [] in
  let e2 := ECall p0 0 (EIdent p0 [103%N]) [e1; ENum p0 [49%N]] in
  forallb (fun ks => sig_ok (snd ks)) (f_mono fe) = true /\
  (exists a, check fe [] 50 1000 e1 = COk (a, TVar "a")) /\
  (exists a, check fe [] 50 1000 e2 = COk (a, TNum)).
Proof. vm_compute. repeat split; eexists; reflexivity. Qed.

(* 2. a type variable in map-key position of a polymorphic result: h : ('a) -> map['a, num] applied to [1] is
      typable by the rules (result map[list[num], num], not a well-formed type) but the implementation panics
      (types.Map asserts a keyable key): the model returns CErr for every fuel that is enough.  The same panic
      also hits an EARLIER overload that is not applicable (k1) and hides a later applicable one (k2). *)
Example poly_result_needs_no_var_key :
  let p0 := pos_unknown in
  let fe := mkFenv [] [(poly_key "h" 1, [mkSig "h" [TVar "a"] (TMap (TVar "a") TNum) false])] in
  let e := ECall p0 0 (EIdent p0 [104%N]) [EList p0 [ENum p0 [49%N]]] in
  forallb (fun ks => forallb sig_ok (snd ks)) (f_poly fe) = true /\
  check fe [] 50 1000 e = CErr /\ check fe [] 500 1000 e = CErr.
Proof. vm_compute. repeat split. Qed.

Example earlier_overload_panics :
  let p0 := pos_unknown in
  let k1 := mkSig "k" [TVar "a"; TMap (TVar "a") TNum] (TMap (TVar "a") TNum) false in
  let k2 := mkSig "k" [TVar "c"; TVar "d"] TNum false in
  let e := ECall p0 0 (EIdent p0 [107%N]) [EList p0 [ENum p0 [49%N]]; ESub p0 0 (EList p0 []) (ENum p0 [49%N])] in
  forallb sig_ok [k1; k2] = true /\
  check (mkFenv [] [(poly_key "k" 2, [k1; k2])]) [] 50 1000 e = CErr /\
  (exists a, check (mkFenv [] [(poly_key "k" 2, [k2])]) [] 50 1000 e = COk (a, TNum)).
Proof. vm_compute. repeat split. eexists; reflexivity. Qed.

Print Assumptions builtin_table_ok.
Print Assumptions check_sound.
Print Assumptions check_complete.
Print Assumptions ill_typed_rejected.
Print Assumptions inferred_ok.
Print Assumptions register_mono.
Print Assumptions register_poly.
