(* C01 proofs: in progress *)
