(* Proofs for Props/C01.v (preservation) and the shared invariant used by Props/C02.v (progress).

   Structure
   - Part 1: [okM P m]: the computation [m] yields a value satisfying P, a documented failure, or the fuel fault.
   - Part 2: inversion of [has_vtype] by type constructor.
   - Part 3: instantiated parameter types are well formed ([subst_wf_eqb]), hence equal to the argument types in
     both directions.
   - Part 4: every built-in / library function respects its (instantiated) signature ([sig_spec]); the rows of the
     regenerated table are tied to the semantics through [shape_ok] (a finite check).
   - Part 5: what the checker records in a call node ([resolve_info]).
   - Part 6: the main induction ([eval_ok]) and the exported lemmas. *)
From Coq Require Import List String Ascii Bool Arith NArith ZArith Lia.
From Yae Require Import Base.Sexp Model.Ty Gen.Generated Model.Unify Model.TySpec Model.Num Model.Lexer Model.Literal Model.Cst
  Model.Check Model.CheckSpec Model.Val Model.Render Model.ValSpec Model.Builtins Model.Eval Model.EvalSpec
  Proofs.TyInd Proofs.ExprInd Proofs.C17Proofs Proofs.C05Proofs.
Import ListNotations.
Local Open Scope nat_scope.
Local Open Scope string_scope.

(* ------------------------------------------------------------------------------------------------ *)
(* Part 1: outcomes                                                                                  *)
(* ------------------------------------------------------------------------------------------------ *)

Definition okO {X} (P : X -> Prop) (o : outcome X) : Prop :=
  match o with OVal x => P x | OFail _ => True | OFault k => k = XFuel end.
Definition okM {X} (P : X -> Prop) (m : M X) : Prop := okO P (snd m).

Lemma okM_ret {X} (P : X -> Prop) x : P x -> okM P (ret x).
Proof. intros H. exact H. Qed.

Lemma okM_fail {X} (P : X -> Prop) k : okM P (fail k).
Proof. exact I. Qed.

Lemma okM_bind {X Y} (Q : X -> Prop) (P : Y -> Prop) (m : M X) (k : X -> M Y) :
  okM Q m -> (forall x, Q x -> okM P (k x)) -> okM P (mbind m k).
Proof.
  destruct m as [t [x|fk|fk]]; unfold okM; simpl; intros H1 H2; try assumption.
  specialize (H2 x H1). destruct (k x) as [t' o']. exact H2.
Qed.

Lemma okM_weaken {X} (P Q : X -> Prop) (m : M X) : okM P m -> (forall x, P x -> Q x) -> okM Q m.
Proof. destruct m as [t [x|fk|fk]]; unfold okM; simpl; auto. Qed.

Lemma okM_mmapM {X Y} (R : X -> Y -> Prop) (g : X -> M Y) : forall xs,
  Forall (fun x => okM (R x) (g x)) xs -> okM (fun ys => Forall2 R xs ys) (mmapM g xs).
Proof.
  induction xs as [|x r IH]; intros H; simpl.
  - apply okM_ret. constructor.
  - inversion H as [|? ? Hx Hr]; subst.
    eapply okM_bind; [exact Hx|]. intros y Hy.
    eapply okM_bind; [exact (IH Hr)|]. intros ys Hys. apply okM_ret. constructor; assumption.
Qed.

Lemma okM_emit {X} (P : X -> Prop) e (k : unit -> M X) : okM P (k tt) -> okM P (mbind (emit e) k).
Proof. intros H. unfold okM, emit. simpl. destruct (k tt) as [t o]. exact H. Qed.

(* ------------------------------------------------------------------------------------------------ *)
(* Part 2: values of a given type                                                                    *)
(* ------------------------------------------------------------------------------------------------ *)

Definition vgood (T : ty) (v : val) : Prop := has_vtype v T = true /\ fun_free v = true.

Lemma vgood_eqb T T' v : ty_eqb T T' = true -> vgood T v -> vgood T' v.
Proof.
  intros E [H1 H2]. split; [|exact H2]. unfold has_vtype in *. apply andb_true_iff in H1. destruct H1 as [Hok Heq].
  rewrite Hok. simpl. eapply eqb_trans; eauto.
Qed.

Lemma vgood_num b : vgood TNum (VNum b). Proof. split; reflexivity. Qed.
Lemma vgood_bool b : vgood TBool (VBool b). Proof. split; reflexivity. Qed.
Lemma vgood_str b : vgood TStr (VStr b). Proof. split; reflexivity. Qed.
Lemma vgood_time a b : vgood TTime (VTime a b). Proof. split; reflexivity. Qed.

Ltac vt_prim H :=
  unfold has_vtype in H; simpl in H;
  match type of H with
  | context [ty_eqb ?t _] => destruct t; simpl in H; rewrite ?andb_false_r in H; try discriminate H
  end.

Lemma vt_num v : has_vtype v TNum = true -> exists b, v = VNum b.
Proof. destruct v; intros H; try (eexists; reflexivity); try discriminate H; vt_prim H. Qed.
Lemma vt_bool v : has_vtype v TBool = true -> exists b, v = VBool b.
Proof. destruct v; intros H; try (eexists; reflexivity); try discriminate H; vt_prim H. Qed.
Lemma vt_str v : has_vtype v TStr = true -> exists b, v = VStr b.
Proof. destruct v; intros H; try (eexists; reflexivity); try discriminate H; vt_prim H. Qed.
Lemma vt_time v : has_vtype v TTime = true -> exists a b, v = VTime a b.
Proof. destruct v; intros H; try (do 2 eexists; reflexivity); try discriminate H; vt_prim H. Qed.
Lemma vt_bot v : has_vtype v TBot = false.
Proof.
  destruct v; try reflexivity; unfold has_vtype; simpl; destruct t; simpl; rewrite ?andb_false_r; reflexivity.
Qed.

Lemma eqb_prim_eq a b : is_primitive b = true -> ty_eqb a b = true -> a = b.
Proof. destruct a, b; simpl; intros H1 H2; try discriminate H1; try discriminate H2; reflexivity. Qed.
Lemma eqb_bot_eq a : ty_eqb a TBot = true -> a = TBot.
Proof. destruct a; simpl; intros H; try discriminate H; reflexivity. Qed.

(* a value of primitive type is a primitive value: its key text exists *)
Lemma vt_prim_key ops v T : is_primitive T = true -> has_vtype v T = true -> exists k, key_of ops v = ret k.
Proof.
  intros Hp H. destruct T; try discriminate Hp.
  - destruct (vt_num _ H) as [b ->]. eexists; reflexivity.
  - destruct (vt_str _ H) as [b ->]. eexists; reflexivity.
  - destruct (vt_bool _ H) as [b ->]. eexists; reflexivity.
  - destruct (vt_time _ H) as [a [b ->]]. eexists; reflexivity.
Qed.

Definition elems_ok (e : ty) (vs : list val) : Prop :=
  forall x, In x vs -> val_ok x = true /\ ty_eqb (val_type x) e = true.

Lemma vt_list v e : has_vtype v (TList e) = true ->
  exists e' vs, v = VList (TList e') vs /\ ty_eqb e' e = true /\ wf_ty (TList e') = true /\ slot_free (TList e') = true /\
                elems_ok e' vs.
Proof.
  unfold has_vtype. intros H. apply andb_true_iff in H. destruct H as [Hok Heq].
  destruct v; simpl in Heq; try discriminate Heq; destruct t; simpl in Heq; try discriminate Heq; simpl in Hok;
    rewrite ?andb_false_r in Hok; try discriminate Hok.
  apply andb_true_iff in Hok. destruct Hok as [Hok Hok3]. apply andb_true_iff in Hok. destruct Hok as [Hok1 Hok2].
  exists t, vs. repeat split; try assumption;
    rewrite forallb_forall in Hok3; specialize (Hok3 _ H); apply andb_true_iff in Hok3; tauto.
Qed.

Lemma vt_map v k e : has_vtype v (TMap k e) = true ->
  exists k' e' kvs, v = VMap (TMap k' e') kvs /\ ty_eqb k' k = true /\ ty_eqb e' e = true /\
                    wf_ty (TMap k' e') = true /\ slot_free (TMap k' e') = true /\
                    nodup_keys (map fst kvs) = true /\ elems_ok e' (map snd kvs).
Proof.
  unfold has_vtype. intros H. apply andb_true_iff in H. destruct H as [Hok Heq].
  destruct v; simpl in Heq; try discriminate Heq; destruct t; simpl in Heq; try discriminate Heq; simpl in Hok;
    rewrite ?andb_false_r in Hok; try discriminate Hok.
  apply andb_true_iff in Heq. destruct Heq as [Heq1 Heq2].
  apply andb_true_iff in Hok. destruct Hok as [Hok Hok4]. apply andb_true_iff in Hok. destruct Hok as [Hok Hok3].
  apply andb_true_iff in Hok. destruct Hok as [Hok1 Hok2].
  exists t1, t2, kvs. repeat split; try assumption;
    apply in_map_iff in H; destruct H as [[kk x'] [E Hin]]; simpl in E; subst x';
    rewrite forallb_forall in Hok4; specialize (Hok4 _ Hin); simpl in Hok4; apply andb_true_iff in Hok4; tauto.
Qed.

Lemma vt_maybe v e : has_vtype v (TMaybe e) = true ->
  exists e' o, v = VMaybe (TMaybe e') o /\ ty_eqb e' e = true /\
               match o with Some x => val_ok x = true /\ ty_eqb (val_type x) e' = true | None => True end.
Proof.
  unfold has_vtype. intros H. apply andb_true_iff in H. destruct H as [Hok Heq].
  destruct v; simpl in Heq; try discriminate Heq; destruct t; simpl in Heq; try discriminate Heq; simpl in Hok;
    rewrite ?andb_false_r in Hok; try discriminate Hok.
  apply andb_true_iff in Hok. destruct Hok as [Hok Hok3].
  exists t, v. repeat split; try assumption. destruct v as [x|]; [|exact I]. apply andb_true_iff in Hok3. exact Hok3.
Qed.

(* positional typing of object values *)
Fixpoint fields_ok (fs : list (string * ty)) (vs : list val) {struct vs} : bool :=
  match fs, vs with
  | (_, ft) :: fr, x :: r => val_ok x && ty_eqb (val_type x) ft && fields_ok fr r
  | _, [] => true
  | [], _ :: _ => false
  end.

Lemma val_ok_obj fs vs :
  val_ok (VObj (TObj fs) vs) =
  wf_ty (TObj fs) && slot_free (TObj fs) && (Nat.eqb (len fs) (len vs) && fields_ok fs vs).
Proof. reflexivity. Qed.

Lemma vt_obj v fs : has_vtype v (TObj fs) = true ->
  exists fs' vs, v = VObj (TObj fs') vs /\ ty_eqb (TObj fs') (TObj fs) = true /\ wf_ty (TObj fs') = true /\
                 slot_free (TObj fs') = true /\ len fs' = len vs /\ fields_ok fs' vs = true.
Proof.
  unfold has_vtype. intros H. apply andb_true_iff in H. destruct H as [Hok Heq].
  destruct v; try (simpl in Heq; discriminate Heq); destruct t; try (simpl in Heq; discriminate Heq);
    try (simpl in Hok; rewrite ?andb_false_r in Hok; discriminate Hok).
  simpl val_type in Heq. rewrite val_ok_obj in Hok.
  apply andb_true_iff in Hok. destruct Hok as [Hok Hok3]. apply andb_true_iff in Hok. destruct Hok as [Hok1 Hok2].
  apply andb_true_iff in Hok3. destruct Hok3 as [Hok3 Hok4]. apply Nat.eqb_eq in Hok3.
  exists fs0, vs. repeat split; assumption.
Qed.

Lemma fields_ok_nth : forall fs vs i n t, fields_ok fs vs = true -> nth_error fs i = Some (n, t) ->
  forall x, nth_error vs i = Some x -> val_ok x = true /\ ty_eqb (val_type x) t = true.
Proof.
  induction fs as [|[n0 t0] fr IH]; intros vs i n t H Hn x Hx.
  - destruct i; discriminate Hn.
  - destruct vs as [|y r]; [destruct i; discriminate Hx|]. simpl in H.
    apply andb_true_iff in H. destruct H as [H H3]. apply andb_true_iff in H. destruct H as [H1 H2].
    destruct i as [|i]; simpl in Hn, Hx.
    + inversion Hn; subst. inversion Hx; subst. auto.
    + eapply IH; eauto.
Qed.

Lemma fun_free_In vs x : forallb fun_free vs = true -> In x vs -> fun_free x = true.
Proof. intros H Hin. rewrite forallb_forall in H. auto. Qed.

(* ------------------------------------------------------------------------------------------------ *)
(* Part 3: instantiated parameter types                                                              *)
(* ------------------------------------------------------------------------------------------------ *)

Lemma eqb_keyable a b : ty_eqb a b = true -> keyable b = true -> keyable a = true.
Proof. destruct a, b; simpl; intros H1 H2; try discriminate H1; try discriminate H2; reflexivity. Qed.

(* an instantiated pattern that equals a well-formed type is well formed *)
Lemma subst_wf_eqb : forall p s b, wf_ty p = true ->
  (forall n u, assoc n s = Some u -> wf_ty u = true) ->
  simple p = true -> ty_eqb (subst_ty s p) b = true -> wf_ty b = true -> wf_ty (subst_ty s p) = true.
Proof.
  induction p using ty_ind'; intros s b Hw Hs Hsi He Hb; try reflexivity; try discriminate Hsi.
  - simpl. destruct (assoc n s) as [u|] eqn:E; [eauto|reflexivity].
  - simpl in *. destruct b; try discriminate He. simpl in He, Hb. eauto.
  - apply wf_map in Hw. destruct Hw as [K [W1 W2]]. simpl in Hsi. apply andb_true_iff in Hsi. destruct Hsi as [S1 S2].
    simpl in He. destruct b; try discriminate He. apply andb_true_iff in He. destruct He as [E1 E2].
    apply wf_map in Hb. destruct Hb as [K' [W1' W2']]. simpl.
    rewrite (eqb_keyable _ _ E1 K'), (IHp1 s b1), (IHp2 s b2); auto.
  - pose proof Hw as Hw'. apply wf_obj in Hw'. destruct Hw' as [_ Hwf].
    simpl in Hw. apply andb_true_iff in Hw. destruct Hw as [Hnd _].
    simpl in He. destruct b; try discriminate He. fold (subst_ty s (TObj fs)) in He. simpl subst_ty in He.
    apply ty_eqb_obj_spec in He. destruct He as [_ Hrel].
    apply wf_obj in Hb. destruct Hb as [_ Hwb].
    simpl. rewrite map_fst_subst, Hnd. simpl.
    apply forallb_forall. intros [n t'] Hin. pose proof Hin as Hin'.
    apply in_map_iff in Hin. destruct Hin as [[n0 t] [E Hin]].
    simpl in E. inversion E; subst. simpl. destruct (Hrel _ _ Hin') as [t2 [Ha Ht2]].
    rewrite Forall_forall in H. apply (H (n, t) Hin s t2); try assumption.
    + eauto.
    + eapply simple_obj_in; eauto.
    + apply assoc_In in Ha. eauto.
  - simpl in *. destruct b; try discriminate He. simpl in He, Hb. eauto.
Qed.

Lemma subst_nil : forall t, subst_ty [] t = t.
Proof.
  induction t using ty_ind'; try reflexivity; simpl.
  - f_equal. induction H as [|x r Hx Hr IH]; simpl; [reflexivity|]. rewrite Hx, IH. reflexivity.
  - rewrite IHt. reflexivity.
  - rewrite IHt1, IHt2. reflexivity.
  - f_equal. induction H as [|[n x] r Hx Hr IH]; simpl; [reflexivity|]. simpl in Hx. rewrite Hx, IH. reflexivity.
  - rewrite IHt. f_equal. induction H as [|x r Hx Hr IH]; simpl; [reflexivity|]. rewrite Hx, IH. reflexivity.
  - rewrite IHt. reflexivity.
Qed.

(* what the main induction needs from [instantiates]: argument types equal the instantiated parameters, which are
   well formed *)
Definition args_inst (s : subst) (params args : list ty) : Prop :=
  Forall2 (fun A p => ty_eqb A (subst_ty s p) = true /\ wf_ty (subst_ty s p) = true) args params.

Lemma instantiates_args s params ret args rt :
  (forall p, In p params -> simple p = true /\ wf_ty p = true) -> forallb ty_ok args = true ->
  instantiates s params ret args rt -> args_inst s params args /\ rt = subst_ty s ret.
Proof.
  intros Hp Ha [_ [_ [Hw [HT [Hrt _]]]]]. split; [|exact Hrt].
  rewrite tys_eqb_eq in HT. unfold args_inst. clear Hrt.
  revert args Ha HT. induction params as [|p r IH]; intros [|A args] Ha HT; simpl in HT; try discriminate HT;
    constructor.
  - apply andb_true_iff in HT. destruct HT as [H1 H2]. simpl in Ha. apply andb_true_iff in Ha. destruct Ha as [Ha1 Ha2].
    destruct (ty_ok_parts _ Ha1) as [_ [WA _]]. destruct (Hp p (or_introl Logic.eq_refl)) as [Sp Wp].
    assert (wf_ty (subst_ty s p) = true) as W.
    { eapply subst_wf_eqb; eauto. intros n u Hu. eapply wf_assoc; eauto. }
    split; [|exact W]. apply eqb_sym_imp; assumption.
  - apply andb_true_iff in HT. destruct HT as [H1 H2]. simpl in Ha. apply andb_true_iff in Ha. destruct Ha as [Ha1 Ha2].
    apply IH; auto. intros q Hq. apply Hp. right; exact Hq.
Qed.

(* ------------------------------------------------------------------------------------------------ *)
(* Part 4: the library respects its signatures                                                       *)
(* ------------------------------------------------------------------------------------------------ *)

(* 4a: the shape of each built-in's signature, up to the names of its (at most two) variables *)
Definition tmpl (b : bfun) (x y : string) : list ty * ty :=
  let X := TVar x in let Y := TVar y in
  match b with
  | BAbs | BAddNum1 | BCeil | BFloor | BRound | BSubNum1 => ([TNum], TNum)
  | BAddNum | BSubNum | BMul | BDiv | BExp | BMaxNum | BMinNum | BMod => ([TNum; TNum], TNum)
  | BAddStr => ([TStr; TStr], TStr)
  | BDiff | BIntersect | BUnion => ([TList X; TList X], TList X)
  | BEqBool | BNeBool | BAnd | BOr => ([TBool; TBool], TBool)
  | BEqList | BNeList => ([TList X; TList X], TBool)
  | BEqMap | BNeMap => ([TMap X Y; TMap X Y], TBool)
  | BEqNum | BNeNum | BGeNum | BGtNum | BLeNum | BLtNum => ([TNum; TNum], TBool)
  | BEqStr | BNeStr | BMatch => ([TStr; TStr], TBool)
  | BEqTime | BNeTime | BGeTime | BGtTime | BLeTime | BLtTime => ([TTime; TTime], TBool)
  | BGetList => ([TList X; TNum; X], X)
  | BGetMap => ([TMap X Y; X; Y], Y)
  | BGetMaybe => ([TMaybe X; X], X)
  | BIf => ([TBool; X; X], X)
  | BIsset => ([TMap X Y; X], TBool)
  | BLenList => ([TList X], TNum)
  | BLenMap => ([TMap X Y], TNum)
  | BLenStr => ([TStr], TNum)
  | BNot => ([TBool], TBool)
  | BMaxList | BMinList => ([TList TNum], TNum)
  | BPrint => ([X], X)
  | BString => ([X], TStr)
  | BStrtotime => ([TStr], TTime)
  | BSubTime => ([TTime; TTime], TNum)
  end.

(* no tuple, object or function type inside: [ty_eqb] is syntactic equality there *)
Fixpoint flat (t : ty) : bool :=
  match t with
  | TTuple _ | TObj _ | TFun _ _ _ => false
  | TList e | TMaybe e => flat e
  | TMap k v => flat k && flat v
  | _ => true
  end.

Lemma ty_eqb_flat : forall b a, flat b = true -> ty_eqb a b = true -> a = b.
Proof.
  induction b; intros a Hf He; try discriminate Hf; destruct a; try (simpl in He; discriminate He); try reflexivity.
  - simpl in He. apply String.eqb_eq in He. subst. reflexivity.
  - simpl in *. f_equal. auto.
  - simpl in *. apply andb_true_iff in Hf. apply andb_true_iff in He. destruct Hf, He. f_equal; auto.
  - simpl in *. f_equal. auto.
Qed.

Lemma eqb_list_flat : forall l2 l1, forallb flat l2 = true -> eqb_list l1 l2 = true -> l1 = l2.
Proof.
  induction l2 as [|b r IH]; intros [|a l1] Hf He; simpl in *; try discriminate He; [reflexivity|].
  apply andb_true_iff in Hf. apply andb_true_iff in He. destruct Hf, He. f_equal; [apply ty_eqb_flat|apply IH]; auto.
Qed.

Lemma tmpl_flat b x y : forallb flat (fst (tmpl b x y)) = true /\ flat (snd (tmpl b x y)) = true.
Proof. destruct b; split; reflexivity. Qed.

Definition shape_ok (b : bfun) (ps : list ty) (r : ty) : bool :=
  let vs := flat_map vars_of ps in
  let tm := tmpl b (nth 0 vs "") (nth 1 vs "") in
  eqb_list ps (fst tm) && ty_eqb r (snd tm).

Lemma shape_ok_tmpl b ps r : shape_ok b ps r = true -> exists x y, (ps, r) = tmpl b x y.
Proof.
  unfold shape_ok. intros H. apply andb_true_iff in H. destruct H as [H1 H2].
  set (x := nth 0 (flat_map vars_of ps) "") in *. set (y := nth 1 (flat_map vars_of ps) "") in *.
  exists x, y. destruct (tmpl_flat b x y) as [F1 F2].
  apply eqb_list_flat in H1; [|exact F1]. apply ty_eqb_flat in H2; [|exact F2].
  rewrite H1, H2. destruct (tmpl b x y); reflexivity.
Qed.

(* the finite check on the regenerated table: every row is classified, has its built-in's shape and laziness, and is
   recognised by [sig_is_builtin] *)
Definition row_ok (sg : fsig) : bool :=
  sig_is_builtin sg &&
  match classify (s_name sg) (s_params sg) with
  | Some b => shape_ok b (s_params sg) (s_ret sg) && Bool.eqb (s_lazy sg) (is_lazy_builtin b)
  | None => false
  end.

Lemma builtin_rows_ok : forallb row_ok (map sig_of_tuple builtin_sigs) = true.
Proof. vm_compute. reflexivity. Qed.

Lemma user_rows_not_builtin : forallb (fun sg => negb (sig_is_builtin sg)) user_sigs = true.
Proof. vm_compute. reflexivity. Qed.

Lemma tables_ok : fenv_ok builtin_fenv = true /\ fenv_ok fenv_std = true.
Proof. split; vm_compute; reflexivity. Qed.

(* 4b: which signatures a table contains *)
Definition sig_in (fe : fenv) (sg : fsig) : Prop :=
  (exists k, In (k, sg) (f_mono fe)) \/ (exists k sigs, In (k, sigs) (f_poly fe) /\ In sg sigs).

Lemma sput_In {X} k (x : X) l k' x' : In (k', x') (sput k x l) -> (k' = k /\ x' = x) \/ In (k', x') l.
Proof.
  induction l as [|[k0 x0] r IH]; simpl; intros H.
  - destruct H as [E|[]]. inversion E; auto.
  - destruct (String.eqb k k0).
    + destruct H as [E|H]; [inversion E; auto|auto].
    + destruct H as [E|H]; [auto|]. destruct (IH H); auto.
Qed.

Lemma register_in fe s sg : sig_in (register fe s) sg -> sig_in fe sg \/ sg = s.
Proof.
  unfold register. destruct (slot_free (sig_ty s)); simpl; intros [[k H]|[k [sigs [H1 H2]]]].
  - apply sput_In in H. destruct H as [[_ E]|H]; [right; exact E|left; left; eauto].
  - left; right; eauto.
  - left; left; eauto.
  - apply sput_In in H1. destruct H1 as [[_ E]|H1]; [|left; right; eauto].
    subst sigs. apply in_app_or in H2. destruct H2 as [H2|[E|[]]]; [|right; auto].
    destruct (assoc (poly_key (s_name s) (Datatypes.length (s_params s))) (f_poly fe)) as [old|] eqn:Eo; [|destruct H2].
    left; right. apply assoc_In in Eo. eauto.
Qed.

Lemma fold_register_in : forall l fe sg, sig_in (fold_left register l fe) sg -> sig_in fe sg \/ In sg l.
Proof.
  induction l as [|s r IH]; simpl; intros fe sg H; [auto|].
  destruct (IH _ _ H) as [H1|H1]; [|auto]. destruct (register_in _ _ _ H1); auto.
Qed.

Lemma sig_in_empty sg : ~ sig_in fenv_empty sg.
Proof. intros [[k []]|[k [sigs [[] _]]]]. Qed.

Definition lib_sigs : list fsig := user_sigs ++ map sig_of_tuple builtin_sigs.

Lemma table_sigs fe sg : fe = builtin_fenv \/ fe = fenv_std -> sig_in fe sg -> In sg lib_sigs.
Proof.
  unfold lib_sigs. intros [E|E] H; subst fe; apply fold_register_in in H; destruct H as [H|H];
    try (exfalso; exact (sig_in_empty _ H)).
  - apply in_or_app. right. exact H.
  - exact H.
Qed.

Lemma lookup_in fe key idx sg : lookup_fn fe key idx = Some sg -> sig_in fe sg.
Proof.
  unfold lookup_fn. destruct (Z.ltb idx 0).
  - intros H. left. exists key. apply assoc_In. exact H.
  - destruct (assoc key (f_poly fe)) as [l|] eqn:E; [|discriminate]. intros H. right. exists key, l.
    split; [apply assoc_In; exact E|eapply nth_error_In; eauto].
Qed.

(* 4c: sets *)
Section SemFacts.
  Variable ops : numops.
  Variable orc : oracles.

  Lemma valset_In : forall vs seen kv, In kv (valset ops vs seen) -> In (snd kv) vs.
  Proof.
    induction vs as [|v r IH]; simpl; intros seen kv H; [contradiction|].
    destruct (existsb (list_eqb (render ops v)) seen).
    - right. eapply IH; eauto.
    - destruct H as [E|H]; [subst kv; left; reflexivity|right; eapply IH; eauto].
  Qed.

  Lemma kget_In {X} k (l : list (list N * X)) v : kget k l = Some v -> In v (map snd l).
  Proof.
    induction l as [|[k' x] r IH]; simpl; intros H; [discriminate H|].
    destruct (list_eqb k k'); [inversion H; auto|auto].
  Qed.

  Lemma set_union_In x y v : In v (set_union ops x y) -> In v x \/ In v y.
  Proof.
    unfold set_union. intros H. apply in_app_or in H. destruct H as [H|H]; apply in_map_iff in H;
      destruct H as [kv [E H]]; subst v.
    - left. eapply valset_In; eauto.
    - right. apply filter_In in H. destruct H as [H _]. eapply valset_In; eauto.
  Qed.

  Lemma set_intersect_In x y v : In v (set_intersect ops x y) -> In v y.
  Proof.
    unfold set_intersect. intros H. apply in_flat_map in H. destruct H as [kx [_ H]].
    destruct (kget (fst kx) (valset ops y [])) as [w|] eqn:E; [|destruct H]. destruct H as [E'|[]]. subst w.
    apply kget_In in E. apply in_map_iff in E. destruct E as [kv [E H]]. subst v. eapply valset_In; eauto.
  Qed.

  Lemma set_diff_In x y v : In v (set_diff ops x y) -> In v x.
  Proof.
    unfold set_diff. intros H. apply in_map_iff in H. destruct H as [kv [E H]]. subst v.
    apply filter_In in H. destruct H as [H _]. eapply valset_In; eauto.
  Qed.

  Lemma mk_list_good e1 e res : wf_ty (TList e1) = true -> slot_free (TList e1) = true -> ty_eqb e1 e = true ->
    (forall x, In x res -> val_ok x = true /\ ty_eqb (val_type x) e1 = true /\ fun_free x = true) ->
    vgood (TList e) (VList (TList e1) res).
  Proof.
    intros W S E H. split.
    - unfold has_vtype. simpl val_type. simpl ty_eqb. rewrite E, andb_true_r. simpl. simpl in W, S. rewrite W, S. simpl.
      apply forallb_forall. intros x Hx. destruct (H x Hx) as [H1 [H2 _]]. rewrite H1, H2. reflexivity.
    - simpl. apply forallb_forall. intros x Hx. apply (H x Hx).
  Qed.

  (* an element of a well-typed list *)
  Lemma list_elem_good e e' vs x : elems_ok e' vs -> ty_eqb e' e = true -> forallb fun_free vs = true -> In x vs ->
    vgood e x.
  Proof.
    intros He E Hf Hin. destruct (He x Hin) as [H1 H2]. split.
    - unfold has_vtype. rewrite H1. simpl. eapply eqb_trans; eauto.
    - eapply fun_free_In; eauto.
  Qed.
End SemFacts.

Ltac inv_F2 :=
  repeat match goal with
         | H : Forall2 _ _ (_ :: _) |- _ => inversion H; subst; clear H
         | H : Forall2 _ _ [] |- _ => inversion H; subst; clear H
         | H : Forall _ (_ :: _) |- _ => inversion H; subst; clear H
         | H : Forall _ [] |- _ => clear H
         end.

Ltac prim_vals :=
  repeat match goal with
         | H : vgood TNum ?v |- _ => let b := fresh "b" in destruct (vt_num v (proj1 H)) as [b ->]; clear H
         | H : vgood TBool ?v |- _ => let b := fresh "b" in destruct (vt_bool v (proj1 H)) as [b ->]; clear H
         | H : vgood TStr ?v |- _ => let b := fresh "b" in destruct (vt_str v (proj1 H)) as [b ->]; clear H
         | H : vgood TTime ?v |- _ =>
             let a := fresh "sec" in let b := fresh "nsec" in destruct (vt_time v (proj1 H)) as [a [b ->]]; clear H
         end.

Section BsemGood.
  Variable ops : numops.
  Variable orc : oracles.

  Lemma map_key_ok k' e' K v : wf_ty (TMap k' e') = true -> slot_free (TMap k' e') = true -> ty_eqb k' K = true ->
    has_vtype v K = true -> exists kk, key_of ops v = ret kk.
  Proof.
    intros W S E H. apply wf_map in W. destruct W as [Kk _]. simpl in S. apply andb_true_iff in S. destruct S as [S _].
    destruct k'; try discriminate Kk; try discriminate S; destruct K; try discriminate E;
      try (eapply vt_prim_key; [|exact H]; reflexivity).
    rewrite vt_bot in H. discriminate H.
  Qed.

  Lemma map_elem_good e e' (kvs : list (list N * val)) k x :
    elems_ok e' (map snd kvs) -> ty_eqb e' e = true -> forallb (fun kv => fun_free (snd kv)) kvs = true ->
    kget k kvs = Some x -> vgood e x.
  Proof.
    intros He E Hf Hk. apply kget_In in Hk. destruct (He x Hk) as [H1 H2]. split.
    - unfold has_vtype. rewrite H1. simpl. eapply eqb_trans; eauto.
    - apply in_map_iff in Hk. destruct Hk as [kv [E' Hin]]. subst x. rewrite forallb_forall in Hf. auto.
  Qed.

  Lemma setop_good E a b res xs ys :
    vgood (TList E) a -> vgood (TList E) b -> wf_ty (TList E) = true ->
    as_list a = ret xs -> as_list b = ret ys -> (forall v, In v res -> In v xs \/ In v ys) ->
    vgood (TList E) (VList (val_type a) res).
  Proof.
    intros [Ha Fa] [Hb Fb] W Ea Eb Hres.
    destruct (vt_list _ _ Ha) as [e1 [vs1 [-> [E1 [W1 [S1 O1]]]]]].
    destruct (vt_list _ _ Hb) as [e2 [vs2 [-> [E2 [W2 [S2 O2]]]]]].
    simpl in Ea, Eb. inversion Ea; subst vs1. inversion Eb; subst vs2. simpl val_type.
    apply mk_list_good; try assumption. simpl in Fa, Fb.
    intros v Hv. destruct (Hres v Hv) as [Hin|Hin].
    - destruct (O1 v Hin) as [P1 P2]. repeat split; try assumption. apply (fun_free_In xs); assumption.
    - destruct (O2 v Hin) as [P1 P2]. repeat split; try assumption; [|apply (fun_free_In ys); assumption].
      eapply eqb_trans; [exact P2|]. eapply eqb_trans; [exact E2|].
      apply eqb_sym_imp; [exact W1|exact W|exact E1].
  Qed.

  Lemma fold_num_good f vs : (forall x, In x vs -> exists b, x = VNum b) -> okM (vgood TNum) (fold_num ops f vs).
  Proof.
    intros H. unfold fold_num. destruct vs as [|v0 r]; [apply okM_ret; apply vgood_num|].
    destruct (H v0 (or_introl Logic.eq_refl)) as [b0 ->]. simpl as_num.
    eapply okM_bind; [apply okM_ret; exact I|]. intros x0 _.
    eapply okM_bind with (Q := fun _ => True); [|intros; apply okM_ret; apply vgood_num].
    assert (forall x, In x r -> exists b, x = VNum b) as Hr by (intros z Hz; apply H; right; exact Hz).
    clear H. revert x0. induction r as [|v r IH]; intros acc; [apply okM_ret; exact I|].
    destruct (Hr v (or_introl Logic.eq_refl)) as [bv ->]. simpl as_num.
    eapply okM_bind; [apply okM_ret; exact I|]. intros z _. apply IH. intros w Hw. apply Hr. right; exact Hw.
  Qed.

  Lemma numlist_elems v : has_vtype v (TList TNum) = true ->
    exists t vs, v = VList t vs /\ forall x, In x vs -> exists b, x = VNum b.
  Proof.
    intros H. destruct (vt_list _ _ H) as [e1 [vs1 [-> [E1 [W1 [S1 O1]]]]]]. exists (TList e1), vs1. split; [reflexivity|].
    intros x Hx. destruct (O1 x Hx) as [P1 P2]. apply vt_num. unfold has_vtype. rewrite P1. simpl.
    eapply eqb_trans; eauto.
  Qed.

  Ltac setop_tac SX :=
    match goal with H1 : vgood _ ?a, H2 : vgood _ ?b |- okM _ (bsem _ _ _ [?a; ?b]) =>
      let e1 := fresh "e1" in let e2 := fresh "e2" in let vs1 := fresh "vs1" in let vs2 := fresh "vs2" in
      let Ea := fresh "Ea" in let Eb := fresh "Eb" in
      destruct (vt_list _ _ (proj1 H1)) as [e1 [vs1 [Ea _]]]; destruct (vt_list _ _ (proj1 H2)) as [e2 [vs2 [Eb _]]];
      assert (as_list a = ret vs1) as Ea' by (rewrite Ea; reflexivity);
      assert (as_list b = ret vs2) as Eb' by (rewrite Eb; reflexivity);
      unfold bsem; rewrite Ea', Eb'; unfold okM; simpl;
      eapply (setop_good SX a b _ vs1 vs2); try eassumption
    end.

  Lemma bsem_good b x y s vs :
    is_lazy_builtin b = false ->
    Forall2 (fun v p => vgood (subst_ty s p) v) vs (fst (tmpl b x y)) ->
    Forall (fun p => wf_ty (subst_ty s p) = true) (fst (tmpl b x y)) ->
    okM (vgood (subst_ty s (snd (tmpl b x y)))) (bsem ops orc b vs).
  Proof.
    intros Hl HF HW.
    destruct b; try discriminate Hl; simpl in HF, HW; inv_F2; simpl subst_ty in *;
      try set (SX := match assoc x s with Some u => u | None => TVar x end) in *;
      try set (SY := match assoc y s with Some u => u | None => TVar y end) in *; prim_vals;
      try (unfold okM; simpl; auto using vgood_num, vgood_bool, vgood_str, vgood_time; fail).
    - (* diff *)
      setop_tac SX.
      intros v Hv. left. eapply set_diff_In; eauto.
    - (* get list *)
      match goal with H1 : vgood (TList _) ?a |- _ =>
        destruct (vt_list _ _ (proj1 H1)) as [e1 [vs1 [-> [E1 [W1 [S1 O1]]]]]]; destruct H1 as [_ F1]; simpl in F1 end.
      unfold okM; simpl.
      destruct (Z.ltb (to_i64 ops b) 0 || Z.leb (Z.of_nat (len vs1)) (to_i64 ops b)); simpl; [assumption|].
      destruct (nth_error vs1 (Z.to_nat (to_i64 ops b))) as [v|] eqn:En; simpl; [|assumption].
      eapply list_elem_good; eauto. eapply nth_error_In; eauto.
    - (* get map *)
      match goal with H1 : vgood (TMap _ _) ?a, H2 : vgood SX ?k |- _ =>
        destruct (vt_map _ _ _ (proj1 H1)) as [k1 [e1 [kvs [-> [K1 [E1 [W1 [S1 [N1 O1]]]]]]]]]; destruct H1 as [_ F1];
        simpl in F1; destruct (map_key_ok k1 e1 SX k W1 S1 K1 (proj1 H2)) as [kk Ek] end.
      unfold okM; simpl. rewrite Ek. simpl.
      destruct (kget kk kvs) as [v|] eqn:Eg; simpl; [|assumption]. eapply map_elem_good; eauto.
    - (* get maybe *)
      match goal with H1 : vgood (TMaybe _) ?a |- _ =>
        destruct (vt_maybe _ _ (proj1 H1)) as [e1 [o [-> [E1 O1]]]]; destruct H1 as [_ F1]; simpl in F1 end.
      unfold okM; simpl. destruct o as [v|]; simpl; [|assumption]. destruct O1 as [P1 P2]. split; [|exact F1].
      unfold has_vtype. rewrite P1. simpl. eapply eqb_trans; eauto.
    - (* intersect *)
      setop_tac SX.
      intros v Hv. right. eapply set_intersect_In; eauto.
    - (* isset *)
      match goal with H1 : vgood (TMap _ _) ?a, H2 : vgood SX ?k |- _ =>
        destruct (vt_map _ _ _ (proj1 H1)) as [k1 [e1 [kvs [-> [K1 [E1 [W1 [S1 [N1 O1]]]]]]]]]; destruct H1 as [_ F1];
        simpl in F1; destruct (map_key_ok k1 e1 SX k W1 S1 K1 (proj1 H2)) as [kk Ek] end.
      unfold okM; simpl. rewrite Ek. simpl. apply vgood_bool.
    - (* len list *)
      match goal with H1 : vgood (TList _) ?a |- _ =>
        destruct (vt_list _ _ (proj1 H1)) as [e1 [vs1 [-> _]]] end. unfold okM; simpl. apply vgood_num.
    - (* len map *)
      match goal with H1 : vgood (TMap _ _) ?a |- _ =>
        destruct (vt_map _ _ _ (proj1 H1)) as [k1 [e1 [kvs [-> _]]]] end. unfold okM; simpl. apply vgood_num.
    - (* match *)
      unfold okM; simpl. destruct (o_regex orc b0 b); simpl; [apply vgood_bool|exact I].
    - (* max *)
      match goal with H1 : vgood (TList TNum) ?a |- _ => destruct (numlist_elems _ (proj1 H1)) as [t [vs1 [-> Hn]]] end.
      unfold bsem, as_list. eapply okM_bind with (Q := fun l => l = vs1); [apply okM_ret; reflexivity|].
      intros ? ->. apply fold_num_good. exact Hn.
    - (* min *)
      match goal with H1 : vgood (TList TNum) ?a |- _ => destruct (numlist_elems _ (proj1 H1)) as [t [vs1 [-> Hn]]] end.
      unfold bsem, as_list. eapply okM_bind with (Q := fun l => l = vs1); [apply okM_ret; reflexivity|].
      intros ? ->. apply fold_num_good. exact Hn.
    - (* mod *)
      unfold okM; simpl. destruct (Z.eqb (to_i64 ops b) 0); simpl; [exact I|apply vgood_num].
    - (* union *)
      setop_tac SX.
      intros v Hv. eapply set_union_In; eauto.
  Qed.
End BsemGood.

(* 4d: object fields *)
Lemma index_of_nth {X} n : forall (l : list (string * X)) i, index_of n l = Some i ->
  exists x, nth_error l i = Some (n, x) /\ assoc n l = Some x.
Proof.
  induction l as [|[m x] r IH]; simpl; intros i H; [discriminate H|].
  destruct (String.eqb_spec n m) as [E|E].
  - inversion H; subst. exists x. auto.
  - destruct (index_of n r) as [j|]; [|discriminate H]. simpl in H. inversion H; subst.
    destruct (IH j Logic.eq_refl) as [y [H1 H2]]. exists y. auto.
Qed.

Lemma nth_index_of {X} n : forall (l : list (string * X)) i x, NoDup (map fst l) -> nth_error l i = Some (n, x) ->
  index_of n l = Some i.
Proof.
  induction l as [|[m y] r IH]; intros i x Hnd H; [destruct i; discriminate H|].
  simpl in Hnd. inversion Hnd as [|? ? Hnotin Hnd']; subst. destruct i as [|i]; simpl in H |- *.
  - inversion H; subst. rewrite String.eqb_refl. reflexivity.
  - destruct (String.eqb_spec n m) as [E|E].
    + subst m. exfalso. apply Hnotin. apply nth_error_In in H. apply (in_map fst) in H. exact H.
    + rewrite (IH i x Hnd' H). reflexivity.
Qed.

Lemma obj_load_get fs vs idx name : NoDup (map fst fs) ->
  obj_load (TObj fs) vs idx name = obj_get (TObj fs) vs name.
Proof.
  intros Hnd. unfold obj_load. destruct (nth_error fs idx) as [[n t]|] eqn:E; [|reflexivity].
  destruct (String.eqb_spec n name) as [En|En]; [|reflexivity]. subst n.
  unfold obj_get. rewrite (nth_index_of name fs idx t Hnd E). reflexivity.
Qed.

Lemma obj_field_good fs' vs fs name ft :
  has_vtype (VObj (TObj fs') vs) (TObj fs) = true -> fun_free (VObj (TObj fs') vs) = true ->
  wf_ty (TObj fs) = true -> assoc name fs = Some ft ->
  exists x, obj_get (TObj fs') vs name = Some x /\ vgood ft x.
Proof.
  intros H Hf Wf Ha. destruct (vt_obj _ _ H) as [fs2 [vs2 [E [Eq [W [S [L F]]]]]]]. inversion E; subst fs2 vs2. clear E.
  apply ty_eqb_obj_spec in Eq. destruct Eq as [Hlen Hrel].
  apply wf_obj in W. destruct W as [Nd' _]. apply wf_obj in Wf. destruct Wf as [Nd _].
  pose proof (fields_rel_flip _ _ _ Nd' Nd Hlen Hrel) as Hflip.
  destruct (Hflip name ft (assoc_In _ _ _ Ha)) as [t' [Ha' Et]].
  destruct (assoc_index_of _ _ _ Ha') as [i Hi]. destruct (index_of_nth _ _ _ Hi) as [t2 [Hn Ha2]].
  rewrite Ha' in Ha2. inversion Ha2; subst t2.
  assert (i < len vs) as Hlt by (rewrite <- L; apply nth_error_Some; rewrite Hn; discriminate).
  destruct (nth_error vs i) as [x|] eqn:Ex; [|apply nth_error_None in Ex; unfold len in Hlt; lia].
  exists x. split; [unfold obj_get; rewrite Hi; exact Ex|].
  destruct (fields_ok_nth _ _ _ _ _ F Hn x Ex) as [P1 P2]. split.
  - unfold has_vtype. rewrite P1. simpl. eapply eqb_trans; eauto.
  - simpl in Hf. eapply fun_free_In; eauto. eapply nth_error_In; eauto.
Qed.

(* 4e: every library function against its signature *)
Section SigSpec.
  Variable ops : numops.
  Variable orc : oracles.

  Definition thunk_ok (T : ty) (th : unit -> M val) : Prop := okM (vgood T) (th tt).

  Definition strict_spec (sg : fsig) : Prop :=
    forall s vs, Forall2 (fun v p => vgood (subst_ty s p) v) vs (s_params sg) ->
      Forall (fun p => wf_ty (subst_ty s p) = true) (s_params sg) ->
      okM (vgood (subst_ty s (s_ret sg))) (apply_strict ops orc sg vs).

  Definition lazy_call (sg : fsig) (ths : list (unit -> M val)) : M val :=
    (if sig_is_builtin sg then apply_lazy sg else host_lazy (s_name sg)) ths.

  Definition lazy_spec (sg : fsig) : Prop :=
    forall s ths, Forall2 (fun th p => thunk_ok (subst_ty s p) th) ths (s_params sg) ->
      okM (vgood (subst_ty s (s_ret sg))) (lazy_call sg ths).

  Definition sig_spec (sg : fsig) : Prop := if s_lazy sg then lazy_spec sg else strict_spec sg.

  Lemma okM_as_bool (P : bool -> Prop) v : vgood TBool v -> (forall b, v = VBool b -> P b) -> okM P (as_bool v).
  Proof. intros H HP. destruct (vt_bool _ (proj1 H)) as [b ->]. apply okM_ret. auto. Qed.

  Lemma builtin_row_spec sg : row_ok sg = true -> sig_spec sg.
  Proof.
    unfold row_ok. intros H. apply andb_true_iff in H. destruct H as [Hb H].
    destruct (classify (s_name sg) (s_params sg)) as [b|] eqn:Ec; [|discriminate H].
    apply andb_true_iff in H. destruct H as [Hs Hl]. apply Bool.eqb_prop in Hl.
    destruct (shape_ok_tmpl _ _ _ Hs) as [x [y Et]].
    unfold sig_spec. destruct (s_lazy sg) eqn:El.
    - intros s ths HF. unfold lazy_call, apply_lazy. rewrite Hb, Ec.
      destruct sg as [nm ps r lz]. simpl in *. symmetry in Hl.
      destruct b; try discriminate Hl; simpl in Et; inversion Et; subst ps r; clear Et; inv_F2; simpl subst_ty in *;
        unfold thunk_ok in *.
      + (* if *)
        eapply okM_bind; [eassumption|]. intros cv Hcv.
        eapply okM_bind; [apply (okM_as_bool (fun _ => True)); [exact Hcv|auto]|]. intros [|] _; assumption.
      + (* and *)
        eapply okM_bind; [eassumption|]. intros cv Hcv.
        eapply okM_bind; [apply (okM_as_bool (fun _ => True)); [exact Hcv|auto]|]. intros [|] _.
        * eapply okM_bind; [eassumption|]. intros bv Hbv.
          eapply okM_bind; [apply (okM_as_bool (fun _ => True)); [exact Hbv|auto]|]. intros ? _.
          apply okM_ret. apply vgood_bool.
        * apply okM_ret. apply vgood_bool.
      + (* or *)
        eapply okM_bind; [eassumption|]. intros cv Hcv.
        eapply okM_bind; [apply (okM_as_bool (fun _ => True)); [exact Hcv|auto]|]. intros [|] _.
        * apply okM_ret. apply vgood_bool.
        * eapply okM_bind; [eassumption|]. intros bv Hbv.
          eapply okM_bind; [apply (okM_as_bool (fun _ => True)); [exact Hbv|auto]|]. intros ? _.
          apply okM_ret. apply vgood_bool.
    - intros s vs HF HW. unfold apply_strict. rewrite Hb, Ec.
      destruct sg as [nm ps r lz]. simpl in *.
      replace ps with (fst (tmpl b x y)) in * by (rewrite <- Et; reflexivity).
      replace r with (snd (tmpl b x y)) by (rewrite <- Et; reflexivity).
      apply bsem_good; auto.
  Qed.
End SigSpec.

Section UserSpec.
  Variable ops : numops.
  Variable orc : oracles.

  Lemma user_sig_spec sg : In sg user_sigs -> sig_spec ops orc sg.
  Proof.
    intros Hin.
    assert (sig_is_builtin sg = false) as Hnb.
    { pose proof user_rows_not_builtin as H. rewrite forallb_forall in H. apply negb_true_iff. apply H. exact Hin. }
    unfold user_sigs in Hin. simpl in Hin.
    repeat (destruct Hin as [E|Hin]; [subst sg|]); try contradiction;
      unfold sig_spec; simpl s_lazy; cbv iota;
      try (intros s vs HF HW; unfold apply_strict; rewrite Hnb; clear Hnb; simpl in HF, HW; inv_F2;
           simpl subst_ty in *; prim_vals);
      try (intros s ths HF; unfold lazy_call; rewrite Hnb; clear Hnb; simpl in HF; inv_F2; simpl subst_ty in *;
           unfold thunk_ok in * );
      try (unfold okM; simpl; auto using vgood_num, vgood_bool, vgood_str; fail).
    - (* area *)
      match goal with H : vgood (TObj _) ?v |- _ =>
        destruct (vt_obj _ _ (proj1 H)) as [fs' [vs' [-> _]]];
        destruct (obj_field_good fs' vs' _ "w" TNum (proj1 H) (proj2 H) Logic.eq_refl Logic.eq_refl) as [w [Ew Gw]];
        destruct (obj_field_good fs' vs' _ "h" TNum (proj1 H) (proj2 H) Logic.eq_refl Logic.eq_refl) as [h [Eh Gh]]
      end.
      prim_vals. unfold host_strict. simpl s_name. simpl (String.eqb _ _). cbv iota.
      apply okM_emit. rewrite Ew, Eh. unfold okM; simpl. apply vgood_num.
    - (* lazyif *)
      unfold host_lazy. simpl s_name. simpl (String.eqb _ _). cbv iota. apply okM_emit.
      eapply okM_bind; [eassumption|]. intros cv Hcv.
      eapply okM_bind; [apply (okM_as_bool (fun _ => True)); [exact Hcv|auto]|]. intros [|] _; assumption.
    - (* both *)
      unfold host_lazy. simpl s_name. simpl (String.eqb _ _). cbv iota. apply okM_emit.
      eapply okM_bind; [eassumption|]. intros cv Hcv.
      eapply okM_bind; [apply (okM_as_bool (fun _ => True)); [exact Hcv|auto]|]. intros [|] _.
      + eapply okM_bind; [eassumption|]. intros bv Hbv.
        eapply okM_bind; [apply (okM_as_bool (fun _ => True)); [exact Hbv|auto]|]. intros ? _.
        apply okM_ret. apply vgood_bool.
      + apply okM_ret. apply vgood_bool.
  Qed.
End UserSpec.

Lemma lib_sig_spec ops orc sg : In sg lib_sigs -> sig_spec ops orc sg.
Proof.
  unfold lib_sigs. intros H. apply in_app_or in H. destruct H as [H|H].
  - apply user_sig_spec. exact H.
  - apply builtin_row_spec. pose proof builtin_rows_ok as R. rewrite forallb_forall in R. apply R. exact H.
Qed.

(* ------------------------------------------------------------------------------------------------ *)
(* Part 5: what the checker records in a call node                                                   *)
(* ------------------------------------------------------------------------------------------------ *)

Lemma mono_key_nonempty name args : String.eqb (mono_key name args) "" = false.
Proof. reflexivity. Qed.
Lemma poly_key_nonempty name n : String.eqb (poly_key name n) "" = false.
Proof. reflexivity. Qed.

Lemma resolve_go_idx fuel fresh pk args : forall sigs i key idx ps rt,
  (forall sg, In sg sigs -> psig_ok fresh sg) -> forallb ty_ok args = true ->
  resolve_go fuel fresh pk args sigs i = COk (key, idx, ps, rt) ->
  key = pk /\ (i <= idx)%Z /\
  exists sg s, nth_error sigs (Z.to_nat (idx - i)) = Some sg /\ instantiates s (s_params sg) (s_ret sg) args rt.
Proof.
  induction sigs as [|sg r IH]; intros i key idx ps rt Hs Ha H; simpl in H; [discriminate H|].
  destruct (try_infer fuel fresh sg args) as [o| |] eqn:ET; simpl in H; try discriminate H.
  pose proof (Hs sg (or_introl Logic.eq_refl)) as Hsg.
  apply (try_infer_ok fuel fresh sg args o Hsg Ha) in ET. subst o.
  assert (forall key idx ps rt, resolve_go fuel fresh pk args r (i + 1)%Z = COk (key, idx, ps, rt) ->
            key = pk /\ (i <= idx)%Z /\
            exists sg' s, nth_error (sg :: r) (Z.to_nat (idx - i)) = Some sg' /\
                          instantiates s (s_params sg') (s_ret sg') args rt) as Hlater.
  { intros key' idx' ps' rt' H'.
    destruct (IH (i + 1)%Z key' idx' ps' rt' (fun sg' Hin => Hs sg' (or_intror Hin)) Ha H') as [K [L [sg' [s [N I]]]]].
    split; [exact K|]. split; [lia|]. exists sg', s. split; [|exact I].
    replace (Z.to_nat (idx' - i)) with (S (Z.to_nat (idx' - (i + 1)))) by lia. exact N. }
  destruct (spec_opt fresh sg args) as [[ps' rt']|] eqn:ES; [|apply (Hlater _ _ _ _ H)].
  destruct (params_match ps' args) eqn:EM; [|apply (Hlater _ _ _ _ H)].
  inversion H; subst. destruct (spec_opt_sound fresh sg args ps rt Hsg Ha ES EM) as [[s HI] _].
  split; [reflexivity|]. split; [lia|]. exists sg, s. rewrite Z.sub_diag. split; [reflexivity|exact HI].
Qed.

Lemma resolve_info fe fuel fresh name args key idx ps rt :
  fenv_ok fe = true -> fresh_ok fe fresh -> forallb ty_ok args = true ->
  resolve fe fuel fresh name args = COk (key, idx, ps, rt) -> params_match ps args = true ->
  String.eqb key "" = false /\
  exists sg s, lookup_fn fe key idx = Some sg /\ args_inst s (s_params sg) args /\ rt = subst_ty s (s_ret sg).
Proof.
  intros Hfe Hfr Ha ER EM. rewrite resolve_unfold in ER.
  destruct (assoc (mono_key name args) (f_mono fe)) as [sg|] eqn:Emono.
  - inversion ER; subst. split; [apply mono_key_nonempty|]. exists sg, []. split; [exact Emono|].
    destruct (fenv_mono fe _ sg Hfe Emono) as [Hs Hsf]. destruct (sig_ok_parts _ Hs) as [Hp _].
    rewrite <- (subst_nil (s_ret sg)) at 1.
    apply instantiates_args with (rt := subst_ty [] (s_ret sg)); [exact Hp|exact Ha|].
    simpl in Hsf. apply andb_true_iff in Hsf. destruct Hsf as [_ Hsf].
    repeat split; try reflexivity.
    + intros n [].
    + rewrite tys_eqb_eq. rewrite <- params_match_eq.
      replace (map (subst_ty []) (s_params sg)) with (s_params sg); [exact EM|].
      symmetry. rewrite <- (map_id (s_params sg)) at 2. apply map_ext. apply subst_nil.
    + rewrite subst_nil. exact Hsf.
  - destruct (assoc (poly_key name (List.length args)) (f_poly fe)) as [sigs|] eqn:Epoly; [|discriminate ER].
    assert (forall sg, In sg sigs -> psig_ok fresh sg) as HS by (intros sg Hin; eapply psig_ok_intro; eauto).
    destruct (resolve_go_idx _ _ _ _ _ _ _ _ _ _ HS Ha ER) as [K [L [sg [s [N I]]]]]. subst key.
    split; [apply poly_key_nonempty|]. exists sg, s. rewrite Z.sub_0_r in N. split.
    + unfold lookup_fn. destruct (Z.ltb_spec idx 0) as [Hlt|_]; [lia|]. rewrite Epoly. exact N.
    + apply nth_error_In in N. destruct (sig_ok_parts _ (proj1 (HS sg N))) as [Hp _].
      eapply instantiates_args; eauto.
Qed.

(* ------------------------------------------------------------------------------------------------ *)
(* Part 6: the main induction                                                                        *)
(* ------------------------------------------------------------------------------------------------ *)

Lemma okM_mmapM2 {X Y Z} (R : Z -> Y -> Prop) (g : X -> M Y) : forall xs zs,
  Forall2 (fun x z => okM (R z) (g x)) xs zs -> okM (fun ys => Forall2 (fun y z => R z y) ys zs) (mmapM g xs).
Proof.
  induction 1 as [|x z xs zs Hx Hr IH]; simpl.
  - apply okM_ret. constructor.
  - eapply okM_bind; [exact Hx|]. intros y Hy.
    eapply okM_bind; [exact IH|]. intros ys Hys. apply okM_ret. constructor; assumption.
Qed.

Lemma okM_mmapM_all {X Y} (P : Y -> Prop) (g : X -> M Y) : forall xs,
  Forall (fun x => okM P (g x)) xs -> okM (Forall P) (mmapM g xs).
Proof.
  induction 1 as [|x xs Hx Hr IH]; simpl.
  - apply okM_ret. constructor.
  - eapply okM_bind; [exact Hx|]. intros y Hy.
    eapply okM_bind; [exact IH|]. intros ys Hys. apply okM_ret. constructor; assumption.
Qed.

Lemma mmapM_map {X Y Z} (g : Y -> M Z) (h : X -> Y) : forall l, mmapM g (map h l) = mmapM (fun x => g (h x)) l.
Proof. induction l as [|x r IH]; simpl; [reflexivity|]. rewrite IH. reflexivity. Qed.

Lemma list_eqb_eq : forall a b, list_eqb a b = true -> a = b.
Proof.
  induction a as [|x r IH]; intros [|y s] H; simpl in H; try discriminate H; [reflexivity|].
  apply andb_true_iff in H. destruct H as [H1 H2]. apply N.eqb_eq in H1. f_equal; auto.
Qed.

Lemma kput_In {X} k (x : X) : forall l kv, In kv (kput k x l) -> kv = (k, x) \/ In kv l.
Proof.
  induction l as [|[k' x'] r IH]; simpl; intros kv H.
  - destruct H as [E|[]]; auto.
  - destruct (list_eqb k k').
    + destruct H as [E|H]; auto.
    + destruct H as [E|H]; [auto|]. destruct (IH _ H); auto.
Qed.

Lemma existsb_keys_kput {X} k0 k (x : X) l :
  existsb (list_eqb k0) (map fst (kput k x l)) = true ->
  list_eqb k0 k = true \/ existsb (list_eqb k0) (map fst l) = true.
Proof.
  intros H. apply existsb_exists in H. destruct H as [k1 [Hin E]].
  apply in_map_iff in Hin. destruct Hin as [kv [E1 Hin]]. subst k1.
  apply kput_In in Hin. destruct Hin as [->|Hin]; [left; exact E|].
  right. apply existsb_exists. exists (fst kv). split; [apply in_map; exact Hin|exact E].
Qed.

Lemma kput_nodup {X} k (x : X) : forall l, nodup_keys (map fst l) = true -> nodup_keys (map fst (kput k x l)) = true.
Proof.
  induction l as [|[k' x'] r IH]; simpl; intros H; [reflexivity|].
  apply andb_true_iff in H. destruct H as [H1 H2]. destruct (list_eqb k k') eqn:E.
  - apply list_eqb_eq in E. subst k'. simpl. rewrite H1, H2. reflexivity.
  - simpl. rewrite (IH H2), andb_true_r. apply negb_true_iff. apply negb_true_iff in H1.
    destruct (existsb (list_eqb k') (map fst (kput k x r))) eqn:Ex; [|reflexivity].
    apply existsb_keys_kput in Ex. destruct Ex as [Ex|Ex]; [|congruence].
    apply list_eqb_eq in Ex. subst k'. 
    assert (list_eqb k k = true) as R by (clear; induction k as [|a k IH]; simpl; [reflexivity|]; rewrite N.eqb_refl, IH; reflexivity).
    congruence.
Qed.

Section EvalEq.
  Variables (ops : numops) (orc : oracles) (fe : fenv) (rho : venv).
  Notation ev := (eval ops orc fe rho).

  Definition map_go (g : aexpr -> M val) :=
    fix go (kvs : list (aexpr * aexpr)) (acc : list (list N * val)) : M (list (list N * val)) :=
      match kvs with
      | [] => ret acc
      | (k, v) :: r =>
          let^ kv := g k in let^ kk := key_of ops kv in
          let^ vv := g v in go r (kput kk vv acc)
      end.

  Definition do_call (f : nat) (sg : fsig) (args : list aexpr) : M val :=
    if s_lazy sg then lazy_call sg (map (fun x (_ : unit) => ev f x) args)
    else let^ vs := mmapM (ev f) args in apply_strict ops orc sg vs.

  Lemma eval_list f t es : ev (S f) (AList t es) =
    match es with [] => ret (VList (TList TBot) []) | _ => let^ vs := mmapM (ev f) es in ret (VList t vs) end.
  Proof. reflexivity. Qed.
  Lemma eval_map f t kvs : ev (S f) (AMap t kvs) =
    match kvs with [] => ret (VMap (TMap TBot TBot) [])
              | _ => let^ entries := map_go (ev f) kvs [] in ret (VMap t entries) end.
  Proof. reflexivity. Qed.
  Lemma eval_obj f t fs : ev (S f) (AObj t fs) =
    match fs with [] => ret (VObj (TObj []) [])
             | _ => let^ vs := mmapM (fun nf => ev f (snd nf)) fs in ret (VObj t vs) end.
  Proof. reflexivity. Qed.
  Lemma eval_ident f c name : ev (S f) (AIdent c name) =
    match assoc name rho with Some v => ret v | None => fault XOther end.
  Proof. reflexivity. Qed.
  Lemma eval_call f c key idx ft callee args : ev (S f) (ACall c key idx ft callee args) =
    if String.eqb key "" then
      let^ fv := ev f callee in
      match fv with
      | VFun (TFun n ps r) name lz => do_call f (mkSig name ps r lz) args
      | _ => fault XTypeConf
      end
    else match lookup_fn fe key idx with Some sg => do_call f sg args | None => fault XOther end.
  Proof. reflexivity. Qed.
  Lemma eval_sub f c vt v i : ev (S f) (ASub c vt v i) =
    let^ x := ev f v in
    match x with
    | VList _ vs =>
        let^ iv := ev f i in let^ n := as_num iv in
        let idx := to_i64 ops n in
        if Z.ltb idx 0 || Z.leb (Z.of_nat (len vs)) idx then fail FIndex
        else match nth_error vs (Z.to_nat idx) with Some e => ret e | None => fail FIndex end
    | VMap _ kvs =>
        let^ kv := ev f i in let^ kk := key_of ops kv in
        match kget kk kvs with Some e => ret e | None => fail FKey end
    | _ => fault XUnreachable
    end.
  Proof. reflexivity. Qed.
  Lemma eval_member f c ot idx o name : ev (S f) (AMember c ot idx o name) =
    let^ ov := ev f o in
    match ov with
    | VObj t vs => match obj_load t vs idx name with Some e => ret e | None => fault XNil end
    | _ => fault XTypeConf
    end.
  Proof. reflexivity. Qed.
End EvalEq.

Lemma Forall2_Forall_r {X Y} (R : X -> Y -> Prop) (P : Y -> Prop) xs ys :
  Forall2 R xs ys -> (forall x y, In x xs -> R x y -> P y) -> Forall P ys.
Proof.
  induction 1 as [|x y xs ys Hxy Hr IH]; intros H; constructor.
  - apply (H x y); [left; reflexivity|exact Hxy].
  - apply IH. intros x' y' Hin. apply H. right; exact Hin.
Qed.

Lemma Forall2_map_left {X X' Y} (h : X -> X') (R : X' -> Y -> Prop) xs ys :
  Forall2 (fun x y => R (h x) y) xs ys -> Forall2 R (map h xs) ys.
Proof. induction 1; simpl; constructor; assumption. Qed.

Lemma Forall2_weaken {X Y} (R R' : X -> Y -> Prop) xs ys :
  (forall x y, R x y -> R' x y) -> Forall2 R xs ys -> Forall2 R' xs ys.
Proof. intros H. induction 1; constructor; auto. Qed.

Section Main.
  Variables (ops : numops) (orc : oracles) (fe : fenv) (G : tenv) (rho : venv) (fuel : nat) (fresh : N).
  Hypothesis Hfe : fenv_ok fe = true.
  Hypothesis Hlib : forall sg, sig_in fe sg -> In sg lib_sigs.
  Hypothesis HG : tenv_ok G = true.
  Hypothesis Hrho : env_ok G rho.
  Hypothesis Hfr : fresh_ok fe fresh.
  Notation ev := (eval ops orc fe rho).
  Notation chk := (check fe G fuel fresh).

  Definition ev_ok (T : ty) (a : aexpr) : Prop := forall f, okM (vgood T) (ev f a).
  Definition stmt (e : expr) : Prop := forall a T, chk e = COk (a, T) -> ev_ok T a.

  Lemma chk_ok e a T : chk e = COk (a, T) -> ty_ok T = true.
  Proof. intros H. exact (proj2 (check_inv fe G fuel fresh Hfe HG Hfr e a T H)). Qed.

  Lemma ev_ok_eqb T T' a : ty_eqb T T' = true -> ev_ok T a -> ev_ok T' a.
  Proof. intros E H f. eapply okM_weaken; [apply H|]. intros v. apply vgood_eqb. exact E. Qed.

  Lemma ev_zero T a : okM (vgood T) (ev 0 a).
  Proof. exact Logic.eq_refl. Qed.

  (* ---- list ---- *)
  Lemma case_list p es : Forall stmt es -> stmt (EList p es).
  Proof.
    intros IH a T HC. destruct es as [|e0 rest].
    { simpl in HC. inversion HC; subst. intros [|f]; [apply ev_zero|]. rewrite eval_list. apply okM_ret.
      split; reflexivity. }
    inversion IH as [|? ? He0 Hrest]; subst. clear IH. simpl in HC.
    destruct (chk e0) as [[a0 t0]| |] eqn:E0; simpl in HC; try discriminate HC.
    match type of HC with cbind ?c _ = _ => destruct c as [ars| |] eqn:E1 end; simpl in HC; try discriminate HC.
    inversion HC; subst. clear HC.
    pose proof (chk_ok _ _ _ E0) as K0. destruct (ty_ok_parts _ K0) as [S0 [W0 _]].
    assert (Forall (ev_ok t0) ars) as Hars.
    { apply cmapM_Forall2 in E1. eapply Forall2_Forall_r; [exact E1|]. intros x y Hin Hx. simpl in Hx.
      rewrite Forall_forall in Hrest. specialize (Hrest x Hin).
      destruct (chk x) as [[ax tx]| |] eqn:Ex; simpl in Hx; try discriminate Hx.
      unfold type_assert in Hx. destruct (ty_eqb t0 tx) eqn:Et; simpl in Hx; try discriminate Hx.
      inversion Hx; subst y.
      apply (ev_ok_eqb tx t0); [|apply Hrest; exact Ex]. apply ok_sym; [exact K0|eapply chk_ok; eauto|exact Et]. }
    intros [|f]; [apply ev_zero|]. rewrite eval_list.
    eapply okM_bind.
    - apply okM_mmapM_all with (P := vgood t0). constructor; [apply (He0 _ _ E0)|].
      eapply Forall_impl; [|exact Hars]. intros x Hx. apply Hx.
    - intros vs Hvs. apply okM_ret. rewrite Forall_forall in Hvs. apply mk_list_good; try assumption.
      + apply eq_refl; exact W0.
      + intros x Hx. destruct (Hvs x Hx) as [H1 H2]. unfold has_vtype in H1. apply andb_true_iff in H1. tauto.
  Qed.

  (* ---- map ---- *)
  Definition acc_ok (vt : ty) (acc : list (list N * val)) : Prop :=
    nodup_keys (map fst acc) = true /\ forall kv, In kv acc -> vgood vt (snd kv).

  Lemma map_go_ok kt vt g : is_primitive kt = true -> forall kvs,
    Forall (fun kv => okM (vgood kt) (g (fst kv)) /\ okM (vgood vt) (g (snd kv))) kvs ->
    forall acc, acc_ok vt acc -> okM (acc_ok vt) (map_go ops g kvs acc).
  Proof.
    intros Hp. induction 1 as [|[k v] r [Hk Hv] Hr IH]; intros acc Hacc; simpl.
    - apply okM_ret. exact Hacc.
    - simpl in Hk, Hv. eapply okM_bind; [exact Hk|]. intros kv Hkv.
      destruct (vt_prim_key ops kv kt Hp (proj1 Hkv)) as [kk Ek]. rewrite Ek.
      eapply okM_bind with (Q := fun _ => True); [apply okM_ret; exact I|]. intros kk' _.
      eapply okM_bind; [exact Hv|]. intros vv Hvv. apply IH. destruct Hacc as [N1 N2].
      split; [apply kput_nodup; exact N1|].
      intros e He. apply kput_In in He. destruct He as [->|He]; [exact Hvv|auto].
  Qed.

  Lemma mk_map_good kt vt entries : ty_ok (TMap kt vt) = true -> acc_ok vt entries ->
    vgood (TMap kt vt) (VMap (TMap kt vt) entries).
  Proof.
    intros K [N1 N2]. destruct (ty_ok_parts _ K) as [S [W _]]. split.
    - unfold has_vtype. simpl val_type. rewrite (eq_refl _ W), andb_true_r.
      simpl val_ok. simpl in W, S. rewrite W, S, N1. simpl.
      apply forallb_forall. intros kv Hin. destruct (N2 kv Hin) as [H1 _]. exact H1.
    - simpl. apply forallb_forall. intros kv Hin. apply (N2 kv Hin).
  Qed.

  Lemma case_map p kvs : Forall (fun kv => stmt (fst kv) /\ stmt (snd kv)) kvs -> stmt (EMap p kvs).
  Proof.
    intros IH a T HC. destruct kvs as [|[k0 v0] rest].
    { simpl in HC. inversion HC; subst. intros [|f]; [apply ev_zero|]. rewrite eval_map. apply okM_ret.
      split; reflexivity. }
    inversion IH as [|? ? [Hk0 Hv0] Hrest]; subst. clear IH. simpl in Hk0, Hv0. simpl in HC.
    destruct (chk k0) as [[ak0 kt]| |] eqn:Ek; simpl in HC; try discriminate HC.
    destruct (is_primitive kt) eqn:Ep; simpl in HC; [|discriminate HC].
    destruct (chk v0) as [[av0 vt]| |] eqn:Ev; simpl in HC; try discriminate HC.
    match type of HC with cbind ?c _ = _ => destruct c as [ars| |] eqn:E1 end; simpl in HC; try discriminate HC.
    inversion HC; subst. clear HC.
    pose proof (chk_ok _ _ _ Ek) as Kk. pose proof (chk_ok _ _ _ Ev) as Kv.
    assert (Forall (fun kv => ev_ok kt (fst kv) /\ ev_ok vt (snd kv)) ars) as Hars.
    { apply cmapM_Forall2 in E1. eapply Forall2_Forall_r; [exact E1|]. intros x y Hin Hx. simpl in Hx.
      rewrite Forall_forall in Hrest. destruct (Hrest x Hin) as [Hx1 Hx2].
      destruct (chk (fst x)) as [[a1 t1]| |] eqn:Ex1; simpl in Hx; try discriminate Hx.
      unfold type_assert in Hx. destruct (ty_eqb kt t1) eqn:Et1; simpl in Hx; try discriminate Hx.
      destruct (chk (snd x)) as [[a2 t2]| |] eqn:Ex2; simpl in Hx; try discriminate Hx.
      destruct (ty_eqb vt t2) eqn:Et2; simpl in Hx; try discriminate Hx. inversion Hx; subst y. simpl. split.
      - apply (ev_ok_eqb t1 kt); [|apply Hx1; exact Ex1]. apply ok_sym; [exact Kk|eapply chk_ok; eauto|exact Et1].
      - apply (ev_ok_eqb t2 vt); [|apply Hx2; exact Ex2]. apply ok_sym; [exact Kv|eapply chk_ok; eauto|exact Et2]. }
    intros [|f]; [apply ev_zero|]. rewrite eval_map.
    eapply okM_bind.
    - apply (map_go_ok kt vt (ev f) Ep ((ak0, av0) :: ars)).
      + constructor; [split; [apply (Hk0 _ _ Ek)|apply (Hv0 _ _ Ev)]|].
        eapply Forall_impl; [|exact Hars]. intros x [Hx1 Hx2]. split; [apply Hx1|apply Hx2].
      + split; [reflexivity|intros kv []].
    - intros entries He. apply okM_ret. apply mk_map_good; [|exact He]. apply ty_ok_map; assumption.
  Qed.

  (* ---- object ---- *)
  Lemma fields_ok_intro : forall (afs : list (string * aexpr * ty)) vs,
    Forall2 (fun v z => vgood (snd z) v) vs afs ->
    fields_ok (map (fun x => (fst (fst x), snd x)) afs) vs = true /\ len afs = len vs /\ forallb fun_free vs = true.
  Proof.
    intros afs vs H. induction H as [|v z vs afs [H1 H2] Hr [I1 [I2 I3]]]; simpl; [auto|].
    unfold has_vtype in H1. apply andb_true_iff in H1. destruct H1 as [V1 V2].
    rewrite V1, V2, I1, H2, I3. unfold len in *. simpl. auto.
  Qed.

  Lemma case_obj p fs : Forall (fun f => stmt (snd f)) fs -> stmt (EObj p fs).
  Proof.
    intros IH a T HC. simpl in HC.
    match type of HC with cbind ?c _ = _ => destruct c as [afs| |] eqn:E1 end; simpl in HC; try discriminate HC.
    destruct (nodupb (map (fun x => fst (fst x)) afs)) eqn:End; simpl in HC; [|discriminate HC].
    pose proof (chk_ok (EObj p fs) a T) as KT. simpl in KT. rewrite E1 in KT. simpl in KT. rewrite End in KT. simpl in KT.
    specialize (KT HC). inversion HC; subst. clear HC.
    apply cmapM_Forall2 in E1.
    assert (Forall (fun z => ev_ok (snd z) (snd (fst z))) afs) as Hafs.
    { eapply Forall2_Forall_r; [exact E1|]. intros x y Hin Hx. simpl in Hx.
      rewrite Forall_forall in IH. specialize (IH x Hin).
      destruct (chk (snd x)) as [[ax tx]| |] eqn:Ex; simpl in Hx; try discriminate Hx.
      inversion Hx; subst y. simpl. apply IH. exact Ex. }
    intros [|f]; [apply ev_zero|]. rewrite eval_obj.
    destruct afs as [|z0 afs'].
    { apply okM_ret. split; reflexivity. }
    remember (z0 :: afs') as afs eqn:Eafs.
    assert (match map (fun x : string * aexpr * ty => (fst (fst x), snd (fst x))) afs with
            | [] => False | _ => True end) as Hne by (subst afs; exact I).
    destruct (map (fun x : string * aexpr * ty => (fst (fst x), snd (fst x))) afs) as [|q qs] eqn:Em; [destruct Hne|].
    rewrite <- Em. clear Hne Em q qs.
    rewrite mmapM_map. simpl snd.
    eapply okM_bind.
    - apply okM_mmapM2 with (R := fun z v => vgood (snd z) v) (zs := afs).
      clear -Hafs. induction Hafs as [|z r Hz Hr IHr]; constructor; [apply Hz|exact IHr].
    - intros vs Hvs. apply okM_ret. destruct (fields_ok_intro afs vs Hvs) as [F1 [F2 F3]].
      destruct (ty_ok_parts _ KT) as [S [W _]]. split; [|exact F3].
      unfold has_vtype. simpl val_type. rewrite (eq_refl _ W), andb_true_r. rewrite val_ok_obj.
      rewrite W, S, F1. simpl. rewrite andb_true_r. apply Nat.eqb_eq. unfold len in *. rewrite map_length. exact F2.
  Qed.

  (* ---- identifier ---- *)
  Lemma case_ident p n : stmt (EIdent p n).
  Proof.
    intros a T HC. simpl in HC. destruct (reserved (rstr n)); [discriminate HC|].
    destruct (assoc (rstr n) G) as [t|] eqn:Ea; inversion HC; subst. clear HC.
    destruct (Hrho _ _ Ea) as [v [Hv [H1 H2]]].
    intros [|f]; [apply ev_zero|]. rewrite eval_ident, Hv. apply okM_ret. split; assumption.
  Qed.

  (* ---- call ---- *)
  Lemma cmapM_args args aargs : cmapM chk args = COk aargs ->
    forallb ty_ok (map snd aargs) = true /\ (Forall stmt args -> Forall (fun at_ => ev_ok (snd at_) (fst at_)) aargs).
  Proof.
    intros H. apply cmapM_Forall2 in H. split.
    - apply forallb_forall. intros t Ht. apply in_map_iff in Ht. destruct Ht as [[a t'] [E Hin]]. simpl in E. subst t'.
      assert (Forall (fun y => ty_ok (snd y) = true) aargs) as HF.
      { eapply Forall2_Forall_r; [exact H|]. intros x [ay ty_] _ Hx. simpl. eapply chk_ok; eauto. }
      rewrite Forall_forall in HF. apply (HF _ Hin).
    - intros IH. eapply Forall2_Forall_r; [exact H|]. intros x [ay ty_] Hin Hx. simpl.
      rewrite Forall_forall in IH. apply (IH x Hin). exact Hx.
  Qed.

  Lemma args_ok_inst s : forall aargs params,
    Forall (fun at_ : aexpr * ty => ev_ok (snd at_) (fst at_)) aargs -> args_inst s params (map snd aargs) ->
    Forall2 (fun ax p => ev_ok (subst_ty s p) ax) (map fst aargs) params /\ Forall (fun p => wf_ty (subst_ty s p) = true) params.
  Proof.
    unfold args_inst. induction aargs as [|[ax A] r IH]; intros params HF HI; simpl in HI; inversion HI; subst.
    - split; constructor.
    - inversion HF as [|? ? Hx Hr]; subst. simpl in Hx.
      match goal with H : _ /\ _ |- _ => destruct H as [E W] end.
      match goal with H : Forall2 _ (map snd r) _ |- _ => destruct (IH _ Hr H) as [I1 I2] end.
      split; constructor; try assumption. simpl. eapply ev_ok_eqb; eauto.
  Qed.

  Lemma case_call p col callee args : Forall stmt args -> stmt (ECall p col callee args).
  Proof.
    intros IHa a T HC. destruct (is_ident callee) eqn:Eid.
    - destruct callee; try discriminate Eid. rewrite check_call_ident in HC.
      destruct (cmapM chk args) as [aargs| |] eqn:E1; simpl in HC; try discriminate HC.
      destruct (cmapM_args _ _ E1) as [Hok Hev]. specialize (Hev IHa).
      destruct (resolve fe fuel fresh (rstr name) (map snd aargs)) as [[[[key idx] ps] rt]| |] eqn:ER;
        simpl in HC; try discriminate HC.
      destruct (params_match ps (map snd aargs)) eqn:EM; [|discriminate HC]. inversion HC; subst. clear HC.
      destruct (resolve_info _ _ _ _ _ _ _ _ _ Hfe Hfr Hok ER EM) as [Hk [sg [s [Hl [Hi ->]]]]].
      intros [|f]; [apply ev_zero|]. rewrite eval_call, Hk, Hl.
      pose proof (lib_sig_spec ops orc sg (Hlib _ (lookup_in _ _ _ _ Hl))) as Hspec.
      destruct (args_ok_inst s aargs (s_params sg) Hev Hi) as [HA HW].
      unfold do_call. unfold sig_spec in Hspec. destruct (s_lazy sg).
      + apply Hspec. apply Forall2_map_left. eapply Forall2_weaken; [|exact HA]. intros ax q Hq. apply Hq.
      + eapply okM_bind.
        * apply okM_mmapM2 with (R := fun q v => vgood (subst_ty s q) v) (zs := s_params sg).
          eapply Forall2_weaken; [|exact HA]. intros ax q Hq. apply Hq.
        * intros vs Hvs. apply Hspec; assumption.
    - rewrite check_call_other in HC by assumption.
      destruct (cmapM chk args) as [aargs| |] eqn:E1; simpl in HC; try discriminate HC.
      destruct (chk callee) as [[ac ft]| |] eqn:E2; simpl in HC; try discriminate HC.
      pose proof (chk_ok _ _ _ E2) as K. destruct (ty_ok_parts _ K) as [_ [_ C]].
      destruct ft; try discriminate HC. discriminate C.
  Qed.

  (* ---- subscript ---- *)
  Lemma case_sub p col v i : stmt v -> stmt i -> stmt (ESub p col v i).
  Proof.
    intros IHv IHi a T HC. simpl in HC.
    destruct (chk v) as [[av vt]| |] eqn:E1; simpl in HC; try discriminate HC.
    pose proof (chk_ok _ _ _ E1) as Kv. specialize (IHv _ _ E1).
    destruct vt; try discriminate HC.
    - destruct (chk i) as [[ai it]| |] eqn:E2; simpl in HC; try discriminate HC.
      unfold type_assert in HC. destruct (ty_eqb it TNum) eqn:Et; simpl in HC; try discriminate HC.
      inversion HC; subst. clear HC. specialize (IHi _ _ E2).
      intros [|f]; [apply ev_zero|]. rewrite eval_sub.
      eapply okM_bind; [apply IHv|]. intros x [Hx Fx].
      destruct (vt_list _ _ Hx) as [e1 [vs1 [-> [Ee [W1 [S1 O1]]]]]]. simpl in Fx.
      eapply okM_bind; [apply (ev_ok_eqb _ _ _ Et IHi)|]. intros iv Hiv.
      destruct (vt_num _ (proj1 Hiv)) as [n ->]. simpl as_num.
      eapply okM_bind with (Q := fun m => m = n); [apply okM_ret; reflexivity|]. intros ? ->. cbv zeta.
      destruct (Z.ltb (to_i64 ops n) 0 || Z.leb (Z.of_nat (len vs1)) (to_i64 ops n)); [apply okM_fail|].
      destruct (nth_error vs1 (Z.to_nat (to_i64 ops n))) as [e|] eqn:En; [|apply okM_fail].
      apply okM_ret. eapply list_elem_good; eauto. eapply nth_error_In; eauto.
    - destruct (chk i) as [[ai it]| |] eqn:E2; simpl in HC; try discriminate HC.
      unfold type_assert in HC. destruct (ty_eqb it vt1) eqn:Et; simpl in HC; try discriminate HC.
      inversion HC; subst. clear HC. specialize (IHi _ _ E2).
      intros [|f]; [apply ev_zero|]. rewrite eval_sub.
      eapply okM_bind; [apply IHv|]. intros x [Hx Fx].
      destruct (vt_map _ _ _ Hx) as [k1 [e1 [kvs [-> [K1 [Ee [W1 [S1 [N1 O1]]]]]]]]]. simpl in Fx.
      eapply okM_bind; [apply (ev_ok_eqb _ _ _ Et IHi)|]. intros kv Hkv.
      destruct (map_key_ok ops k1 e1 vt1 kv W1 S1 K1 (proj1 Hkv)) as [kk Ek]. rewrite Ek.
      eapply okM_bind with (Q := fun m => m = kk); [apply okM_ret; reflexivity|]. intros ? ->.
      destruct (kget kk kvs) as [e|] eqn:Eg; [|apply okM_fail].
      apply okM_ret. eapply map_elem_good; eauto.
  Qed.

  (* ---- member ---- *)
  Lemma case_member p col o fname fpos : stmt o -> stmt (EMember p col o fname fpos).
  Proof.
    intros IHo a T HC. simpl in HC.
    destruct (chk o) as [[ao ot]| |] eqn:E1; simpl in HC; try discriminate HC.
    pose proof (chk_ok _ _ _ E1) as Ko. specialize (IHo _ _ E1).
    destruct ot; try discriminate HC.
    destruct (assoc (rstr fname) fs) as [ft|] eqn:Ea; [|discriminate HC].
    destruct (index_of (rstr fname) fs) as [idx|]; inversion HC; subst. clear HC.
    rename T into ft.
    intros [|f]; [apply ev_zero|]. rewrite eval_member.
    eapply okM_bind; [apply IHo|]. intros x [Hx Fx].
    destruct (vt_obj _ _ Hx) as [fs' [vs [-> [_ [W' _]]]]].
    destruct (ty_ok_parts _ Ko) as [_ [W _]].
    destruct (obj_field_good fs' vs fs (rstr fname) ft Hx Fx W Ea) as [e [Eg Ge]].
    rewrite obj_load_get by (apply wf_obj in W'; tauto). rewrite Eg. apply okM_ret. exact Ge.
  Qed.

  Lemma eval_ok : forall e, stmt e.
  Proof.
    induction e using expr_ind'.
    - intros a T HC. simpl in HC. destruct (str_value t); inversion HC; subst.
      intros [|f]; [apply ev_zero|]. apply okM_ret. apply vgood_str.
    - intros a T HC. simpl in HC. destruct (num_parse t); inversion HC; subst.
      intros [|f]; [apply ev_zero|]. apply okM_ret. apply vgood_num.
    - intros a T HC. simpl in HC. inversion HC; subst.
      intros [|f]; [apply ev_zero|]. apply okM_ret. apply vgood_time.
    - intros a T HC. simpl in HC. inversion HC; subst.
      intros [|f]; [apply ev_zero|]. apply okM_ret. apply vgood_bool.
    - apply case_list; assumption.
    - apply case_map; assumption.
    - apply case_obj; assumption.
    - apply case_ident.
    - apply case_call; assumption.
    - apply case_sub; assumption.
    - apply case_member; assumption.
    - intros a T HC; discriminate HC.
    - intros a T HC; discriminate HC.
    - intros a T HC; discriminate HC.
    - intros a T HC; discriminate HC.
  Qed.
End Main.

(* the invariant behind C01 and C02: an accepted expression evaluated in a conforming environment yields a value of
   the inferred (deep) type, a documented failure, or the fuel fault *)
Theorem eval_invariant ops orc : forall fe G rho fuel fresh e a T f,
  (fe = builtin_fenv \/ fe = fenv_std) ->
  tenv_ok G = true -> env_ok G rho -> fresh_ok fe fresh ->
  check fe G fuel fresh e = COk (a, T) ->
  okM (vgood T) (eval ops orc fe rho f a).
Proof.
  intros fe G rho fuel fresh e a T f Hfe HG Hrho Hfr HC.
  assert (fenv_ok fe = true) as Hok by (destruct Hfe; subst fe; apply tables_ok).
  exact (eval_ok ops orc fe G rho fuel fresh Hok (fun sg => table_sigs fe sg Hfe) HG Hrho Hfr e a T HC f).
Qed.

Lemma preservation ops orc : forall fe G rho fuel fresh e a T f t v,
  (fe = builtin_fenv \/ fe = fenv_std) ->
  tenv_ok G = true -> env_ok G rho -> fresh_ok fe fresh ->
  check fe G fuel fresh e = COk (a, T) ->
  eval ops orc fe rho f a = (t, OVal v) ->
  has_vtype v T = true /\ fun_free v = true.
Proof.
  intros fe G rho fuel fresh e a T f t v Hfe HG Hrho Hfr HC HE.
  pose proof (eval_invariant ops orc fe G rho fuel fresh e a T f Hfe HG Hrho Hfr HC) as H.
  unfold okM in H. rewrite HE in H. exact H.
Qed.

Lemma progress_inv ops orc : forall fe G rho fuel fresh e a T f t k,
  (fe = builtin_fenv \/ fe = fenv_std) ->
  tenv_ok G = true -> env_ok G rho -> fresh_ok fe fresh ->
  check fe G fuel fresh e = COk (a, T) ->
  eval ops orc fe rho f a = (t, OFault k) -> k = XFuel.
Proof.
  intros fe G rho fuel fresh e a T f t k Hfe HG Hrho Hfr HC HE.
  pose proof (eval_invariant ops orc fe G rho fuel fresh e a T f Hfe HG Hrho Hfr HC) as H.
  unfold okM in H. rewrite HE in H. exact H.
Qed.

Print Assumptions preservation.
Print Assumptions progress_inv.
Print Assumptions tables_ok.
